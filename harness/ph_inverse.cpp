// C18 harness: runs an input with INVERSE_MODELING on the real engine and observes, without source hooks,
//   * right after setup_inverse (first selected-output heading of the inverse block = punch_model_heading):
//       the parsed problem (class inverse after tidy_inverse, solution totals, phase / redox reactions resolved to
//       element rows), the dense matrix my_array with row / column names, delta (sign constraints), all dimensions;
//       optionally the feasibility oracle: solve_with_mask() for every mask (final solution always in);
//   * at every reported model (first fpunchf of punch_model): inv_delta1, min_delta, max_delta, delta_save, error,
//       scaled_error, max_pct, count_good/bad/minimal/calls and good[count_good-1];
//   * after the run: every selected-output table, final counters, error / warning text.
// Protocol (stdin): lines `db <hexpath>`, `oracle <maxbits>`, `output <0|1>`, `input <hex>`, `run`, repeated.
#ifndef CPPUNIT
#define CPPUNIT 1
#endif
#include "IPhreeqc.hpp"
#include "Phreeqc.h"
#include "Solution.h"
#include "hx.hpp"
#include <cmath>
#include <map>

class InvIPhreeqc;
class TestIPhreeqc {
public:
  static Phreeqc* engine(IPhreeqc* p) { return p->PhreeqcPtr; }
  static void setup_dump(InvIPhreeqc* ip);
  static void model_dump(InvIPhreeqc* ip);
  static void final_dump(InvIPhreeqc* ip);
  static bool in_inverse(IPhreeqc* p) { return p->PhreeqcPtr->state == INVERSE && p->PhreeqcPtr->my_array.size() > 0; }
};

class InvIPhreeqc : public IPhreeqc {
public:
  int oracle_maxbits = 0;
  int nproblem = 0;
  bool busy = false;
  std::vector<std::string> punched;   // values punched for the current model row
  virtual void punch_msg(const char* s) {
    if (!busy && TestIPhreeqc::in_inverse(this)) {
      std::string t(s);
      size_t a = t.find_first_not_of(" \t");
      if (a != std::string::npos && t.compare(a, 9, "Sum_resid") == 0 && t.find("Sum_resid\t") != std::string::npos) {
        busy = true; TestIPhreeqc::setup_dump(this); busy = false;
      }
    }
    IPhreeqc::punch_msg(s);
  }
  virtual void fpunchf(const char* name, const char* fmt, double d) {
    if (!busy && TestIPhreeqc::in_inverse(this)) {
      if (std::string(name) == "Sum_resid") { busy = true; TestIPhreeqc::model_dump(this); busy = false; }
      char b[64]; snprintf(b, sizeof b, fmt, d);
      std::cout << "PUNCH " << hx::hex(name) << " " << hx::hexd(d) << " " << hx::hex(b) << "\n";
    }
    IPhreeqc::fpunchf(name, fmt, d);
  }
};

static void vec(const char* tag, const double* v, size_t n) {
  std::cout << tag << " " << n;
  for (size_t i = 0; i < n; i++) std::cout << " " << hx::hexd(v[i]);
  std::cout << "\n";
}

void TestIPhreeqc::setup_dump(InvIPhreeqc* ip) {
  Phreeqc* e = ip->PhreeqcPtr;
  class inverse* inv = e->use.Get_inverse_ptr();
  if (!inv) return;
  ip->nproblem++;
  size_t ns = inv->count_solns, ne = inv->elts.size(), np = inv->phases.size();
  size_t mc = e->max_column_count;
  std::cout << "SETUP " << ip->nproblem << " n_user " << inv->n_user << "\n";
  std::cout << "DIMS max_col " << e->max_column_count << " max_row " << e->max_row_count << " count_rows " << e->count_rows
            << " count_unknowns " << e->count_unknowns << " count_optimize " << e->count_optimize
            << " row_mb " << e->row_mb << " row_fract " << e->row_fract << " row_charge " << e->row_charge
            << " row_carbon " << e->row_carbon << " row_isotopes " << e->row_isotopes << " row_epsilon " << e->row_epsilon
            << " row_water " << e->row_water
            << " col_phases " << e->col_phases << " col_redox " << e->col_redox << " col_epsilon " << e->col_epsilon
            << " col_ph " << e->col_ph << " col_water " << e->col_water << " col_isotopes " << e->col_isotopes
            << " col_phase_isotopes " << e->col_phase_isotopes << "\n";
  std::cout << "OPTS nsol " << ns << " nelt " << ne << " nphase " << np << " nredox " << inv->count_redox_rxns
            << " minimal " << inv->minimal << " range " << inv->range << " mp " << inv->mp << " carbon " << inv->carbon
            << " mineral_water " << inv->mineral_water << " nisotopes " << inv->isotopes.size()
            << " niso_unknowns " << inv->isotope_unknowns.size()
            << " range_max " << hx::hexd(inv->range_max) << " tolerance " << hx::hexd(inv->tolerance)
            << " mp_tolerance " << hx::hexd(inv->mp_tolerance) << " toler " << hx::hexd(e->toler)
            << " water_unc " << hx::hexd(inv->water_uncertainty) << " gfw_water " << hx::hexd(e->gfw_water)
            << " pr_inverse " << e->pr.inverse << " pr_all " << e->pr.all
#ifdef INVERSE_CL1MP
            << " cl1mp 1"
#else
            << " cl1mp 0"
#endif
            << "\n";
  // solutions
  for (size_t i = 0; i < ns; i++) {
    cxxSolution* s = Utilities::Rxn_find(e->Rxn_solution_map, inv->solns[i]);
    std::cout << "SOLN " << i << " " << inv->solns[i] << " force " << (i < inv->force_solns.size() ? (int)inv->force_solns[i] : 0);
    if (!s) { std::cout << " missing\n"; continue; }
    std::cout << " mass_water " << hx::hexd(s->Get_mass_water()) << " alk " << hx::hexd(s->Get_total_alkalinity())
              << " ph " << hx::hexd(s->Get_ph()) << " ph_unc " << hx::hexd(inv->ph_uncertainties[i])
              << " dalk_dph " << hx::hexd(inv->dalk_dph[i]) << " dalk_dc " << hx::hexd(inv->dalk_dc[i]) << " totals";
    for (cxxNameDouble::iterator it = s->Get_totals().begin(); it != s->Get_totals().end(); ++it) {
      class master* m = e->master_bsearch(it->first.c_str());
      int row = -1;
      for (size_t j = 0; j < ne; j++) if (inv->elts[j].master == m) row = (int)j;
      std::cout << " " << hx::hex(it->first) << " " << row << " " << hx::hexd(it->second);
    }
    std::cout << "\n";
  }
  // elements
  for (size_t j = 0; j < ne; j++) {
    class master* m = inv->elts[j].master;
    bool isE = (m->s == e->s_eminus), isAlkM = (m == e->master_alk);
    bool alkName = (strstr(m->elt->name, "Alkalinity") == m->elt->name);
    const char* prim = (m->elt->primary && m->elt->primary->elt) ? m->elt->primary->elt->name : m->elt->name;
    std::cout << "ELT " << j << " " << hx::hex(m->elt->name) << " prim " << hx::hex(prim) << " isE " << isE << " isAlk " << isAlkM
              << " alkName " << alkName << " zalk " << hx::hexd(m->s->z + m->s->alk)
              << " isC4 " << (strcmp(m->elt->name, "C(4)") == 0) << " unc";
    for (size_t i = 0; i < ns; i++) std::cout << " " << hx::hexd(inv->elts[j].uncertainties[i]);
    std::cout << "\n";
  }
  // phases: reaction tokens resolved to (row | -1 = H2O | -2 = H+ | -3 = not a row), token coef, master coef
  for (size_t i = 0; i < np; i++) {
    class phase* ph = inv->phases[i].phase;
    CReaction* rx = &ph->rxn_s;
    std::cout << "PHASE " << i << " " << hx::hex(ph->name) << " constraint " << inv->phases[i].constraint << " force " << inv->phases[i].force
              << " alk " << hx::hexd(e->calc_alk(*rx)) << " formula " << hx::hex(ph->formula ? ph->formula : "") << " tokens";
    for (int j = 1; rx->token[j].s != NULL; j++) {
      class species* sp = rx->token[j].s;
      std::cout << " " << hx::hex(sp->secondary ? sp->secondary->elt->name : "") << " " << hx::hex(sp->primary ? sp->primary->elt->name : "")
                << " " << hx::hexd(rx->token[j].coef);
    }
    std::cout << " elts";
    for (const class elt_list* el = &ph->next_elt[0]; el->elt != NULL; el++)
      std::cout << " " << hx::hex(el->elt->name) << " " << hx::hexd(el->coef);
    std::cout << "\n";
  }
  // redox reactions
  {
    int k = 0;
    for (size_t i = 0; i < ne; i++) {
      class master* me = inv->elts[i].master;
      if (me->s->primary != NULL) continue;
      CReaction* rx = &me->rxn_primary;
      std::cout << "REDOX " << k << " " << hx::hex(me->elt->name) << " elt " << i << " coef " << hx::hexd(me->coef)
                << " alk " << hx::hexd(e->calc_alk(*rx)) << " salk " << hx::hexd(me->s->alk) << " tokens";
      for (int j = 0; rx->token[j].s != NULL; j++) {
        class species* sp = rx->token[j].s;
        std::cout << " " << hx::hex(sp->secondary ? sp->secondary->elt->name : "") << " " << hx::hex(sp->primary ? sp->primary->elt->name : "")
                  << " " << hx::hexd(rx->token[j].coef);
      }
      std::cout << "\n";
      k++;
    }
  }
  // isotopes: requested isotopes, isotope unknowns, data of solutions (after check_isotopes) and phases
  for (size_t n = 0; n < inv->isotopes.size(); n++) {
    class master* pm = e->master_bsearch_primary(inv->isotopes[n].elt_name);
    bool isHO = pm && (pm == e->s_hplus->primary || pm == e->s_h2o->primary);
    std::cout << "ISOELT " << n << " " << hx::hex(inv->isotopes[n].elt_name) << " " << hx::hex(pm ? pm->elt->name : "")
              << " " << hx::hexd(inv->isotopes[n].isotope_number) << " " << isHO << "\n";
  }
  for (size_t k = 0; k < inv->isotope_unknowns.size(); k++)
    std::cout << "ISOUNK " << k << " " << hx::hex(inv->isotope_unknowns[k].master ? inv->isotope_unknowns[k].master->elt->name : "")
              << " " << hx::hexd(inv->isotope_unknowns[k].isotope_number) << "\n";
  if (inv->isotopes.size() > 0) {
    for (size_t i = 0; i < ns; i++) {
      cxxSolution* s = Utilities::Rxn_find(e->Rxn_solution_map, inv->solns[i]);
      if (!s) continue;
      for (std::map<std::string, cxxSolutionIsotope>::iterator it = s->Get_isotopes().begin(); it != s->Get_isotopes().end(); ++it) {
        class master* m = e->master_bsearch(it->second.Get_elt_name().c_str());
        class master* pm = e->master_bsearch_primary(it->second.Get_elt_name().c_str());
        std::cout << "SOLISO " << i << " " << hx::hex(m ? m->elt->name : "") << " " << hx::hex(pm ? pm->elt->name : "")
                  << " " << hx::hexd(it->second.Get_isotope_number()) << " " << hx::hexd(it->second.Get_total())
                  << " " << hx::hexd(it->second.Get_ratio()) << " " << hx::hexd(it->second.Get_x_ratio_uncertainty())
                  << " " << hx::hex(it->second.Get_elt_name()) << " " << hx::hexd(it->second.Get_ratio_uncertainty()) << "\n";
      }
    }
    for (size_t i = 0; i < np; i++)
      for (size_t j = 0; j < inv->phases[i].isotopes.size(); j++) {
        class isotope& is = inv->phases[i].isotopes[j];
        std::cout << "PHISO " << i << " " << hx::hex(is.elt_name ? is.elt_name : "") << " " << hx::hex(is.primary ? is.primary->elt->name : "")
                  << " " << hx::hexd(is.isotope_number) << " " << hx::hexd(is.ratio) << " " << hx::hexd(is.coef)
                  << " " << hx::hexd(is.ratio_uncertainty) << "\n";
      }
  }
  for (size_t j = 0; j < e->master.size(); j++)
    std::cout << "MASTER " << hx::hex(e->master[j]->elt->name) << " " << hx::hexd(e->master[j]->coef) << " "
              << (e->master[j]->s == e->s_hplus) << " " << (e->master[j]->s == e->s_h2o) << "\n";
  for (size_t c = 0; c < e->count_unknowns; c++) std::cout << "COLNAME " << c << " " << hx::hex(e->col_name[c] ? e->col_name[c] : "") << "\n";
  for (size_t r = 0; r < e->count_rows; r++) {
    std::cout << "ROW " << r << " " << hx::hex(e->row_name[r] ? e->row_name[r] : "");
    // sparse: col:value, last column (count_unknowns) is the right-hand side
    for (size_t c = 0; c <= e->count_unknowns; c++) {
      double v = e->my_array[r * mc + c];
      if (v != 0.0) std::cout << " " << c << ":" << hx::hexd(v);
    }
    std::cout << "\n";
  }
  vec("DELTA", &e->delta[0], e->count_unknowns);
  // feasibility oracle for every mask (final solution always in)
  size_t nbits = np + ns;
  if (ip->oracle_maxbits > 0 && (int)nbits - 1 <= ip->oracle_maxbits && nbits <= 30 && ns >= 1) {
    int save_calls = e->count_calls;
    int n = (int)e->count_unknowns;
    e->klmd = (e->max_row_count - 2);
    e->nklmd = (n + e->klmd);
    e->n2d = (size_t)n + 2;
    e->col_back.resize(e->max_column_count);
    e->row_back.resize(e->max_row_count);
    e->inv_cu.resize(2 * (size_t)e->nklmd);
    memset(&e->inv_cu[0], 0, ((2 * e->nklmd * sizeof(LDBLE))));
    e->inv_iu.resize(2 * e->nklmd);
    e->inv_is.resize(e->klmd);
    unsigned long fin = 1ul << (nbits - 1);
    std::cout << "ORACLE " << nbits;
    bool ok = true;
    for (unsigned long m = 0; m < fin && ok; m++) {
      unsigned long cur = m | fin;
      int rc;
      try { rc = e->solve_with_mask(inv, cur); } catch (...) { ok = false; break; }
      unsigned long nz = 0;
      for (size_t i = 0; i < ns; i++) if (e->equal(e->inv_delta1[i], 0.0, TOL) == FALSE) nz |= 1ul << (i + np);
      for (size_t i = 0; i < np; i++) if (e->equal(e->inv_delta1[i + ns], 0.0, TOL) == FALSE) nz |= 1ul << i;
      std::cout << " " << (rc == OK ? 1 : 0) << ":" << nz;
    }
    std::cout << (ok ? "" : " ABORTED") << "\n";
    e->count_calls = save_calls;
  }
  std::cout << "ENDSETUP\n";
}

void TestIPhreeqc::model_dump(InvIPhreeqc* ip) {
  Phreeqc* e = ip->PhreeqcPtr;
  size_t n = e->count_unknowns;
  std::cout << "MODEL count_good " << e->count_good << " count_bad " << e->count_bad << " count_minimal " << e->count_minimal
            << " count_calls " << e->count_calls << " bits " << (e->count_good > 0 ? e->good[e->count_good - 1] : 0ul)
            << " selfcheck " << (e->test_cl1_solution() ? 1 : 0) << " kode " << e->kode
            << " error " << hx::hexd(e->error) << " scaled_error " << hx::hexd(e->scaled_error) << " max_pct " << hx::hexd(e->max_pct) << "\n";
  vec("X", &e->inv_delta1[0], n);
  vec("MIN", &e->min_delta[0], n);
  vec("MAX", &e->max_delta[0], n);
  vec("DSAVE", &e->delta_save[0], n);
  std::cout << "MINIMAL";
  for (int i = 0; i < e->count_minimal; i++) std::cout << " " << e->minimal[i];
  std::cout << "\nGOOD";
  for (int i = 0; i < e->count_good; i++) std::cout << " " << e->good[i];
  std::cout << "\n";
}

void TestIPhreeqc::final_dump(InvIPhreeqc* ip) {
  Phreeqc* e = ip->PhreeqcPtr;
  std::cout << "FINAL count_good " << e->count_good << " count_bad " << e->count_bad << " count_minimal " << e->count_minimal
            << " count_calls " << e->count_calls << "\n";
}

static std::string showVar(const VAR& v) {
  switch (v.type) {
    case TT_EMPTY: return "E";
    case TT_ERROR: return "X" + std::to_string((int)v.vresult);
    case TT_LONG: return "L" + std::to_string(v.lVal);
    case TT_DOUBLE: return "D" + hx::hexd(v.dVal);
    case TT_STRING: return "S" + hx::hex(v.sVal ? v.sVal : "");
  }
  return "?";
}

int main() {
  std::string line, db, input;
  int maxbits = 0, output = 0;
  std::ios::sync_with_stdio(false);
  while (std::getline(std::cin, line)) {
    std::vector<std::string> w = hx::words(line);
    if (w.empty()) continue;
    if (w[0] == "db") db = hx::unhex(w[1]);
    else if (w[0] == "oracle") maxbits = atoi(w[1].c_str());
    else if (w[0] == "output") output = atoi(w[1].c_str());
    else if (w[0] == "input") input = hx::unhex(w[1]);
    else if (w[0] == "run") {
      InvIPhreeqc* p = new InvIPhreeqc();
      p->oracle_maxbits = maxbits;
      std::cout << "BEGIN " << (w.size() > 1 ? w[1] : "-") << "\n";
      int lr = p->LoadDatabase(db.c_str());
      std::cout << "LOAD " << lr << "\n";
      p->SetOutputStringOn(output != 0);
      p->SetOutputFileOn(false); p->SetErrorFileOn(false); p->SetLogFileOn(false);
      p->SetSelectedOutputFileOn(false); p->SetDumpFileOn(false);
      p->SetErrorStringOn(true);
      p->SetCurrentSelectedOutputUserNumber(1);
      p->SetSelectedOutputStringOn(true);
      int rr = -999;
      try { rr = p->RunString(input.c_str()); } catch (...) { std::cout << "EXCEPTION\n"; }
      std::cout << "RUN " << rr << "\n";
      TestIPhreeqc::final_dump(p);
      std::cout << "ERRSTR " << hx::hex(p->GetErrorString()) << "\n";
      std::cout << "WARNSTR " << hx::hex(p->GetWarningString()) << "\n";
      if (output) std::cout << "OUTSTR " << hx::hex(p->GetOutputString()) << "\n";
      int cnt = p->GetSelectedOutputCount();
      for (int i = 0; i < cnt; i++) {
        int nu = p->GetNthSelectedOutputUserNumber(i);
        p->SetCurrentSelectedOutputUserNumber(nu);
        int nr = p->GetSelectedOutputRowCount(), nc = p->GetSelectedOutputColumnCount();
        std::cout << "SELTAB " << nu << " " << nr << " " << nc << "\n";
        std::cout << "SELSTR " << nu << " " << hx::hex(p->GetSelectedOutputString()) << "\n";
        for (int r = 0; r < nr; r++) {
          std::cout << "SELROW " << nu << " " << r;
          for (int c = 0; c < nc; c++) { VAR v; VarInit(&v); p->GetSelectedOutputValue(r, c, &v); std::cout << " " << showVar(v); VarClear(&v); }
          std::cout << "\n";
        }
      }
      std::cout << "END\n";
      std::cout.flush();
      delete p;
    }
  }
  return 0;
}
