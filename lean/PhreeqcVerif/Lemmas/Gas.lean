import Mathlib.Tactic.Ring
import Mathlib.Tactic.Linarith
import Mathlib.Tactic.FieldSimp
import Mathlib.Algebra.Order.Field.Rat
import Mathlib.Analysis.SpecialFunctions.Trigonometric.Inverse
import Mathlib.Analysis.SpecialFunctions.Pow.Real
import PhreeqcVerif.Model.PengRobinson
/-! Algebra behind `Properties/C19.lean`: Cardano's formulas over an ordered field (here `Rat`; only ordered-field
facts are used), and sums of lists as the C++ loops accumulate them. -/
set_option linter.style.haveILetI false
set_option warn.classDefReducibility false
namespace PhreeqcVerif.GasLemmas

section ordered_field
variable {K : Type} [Field K] [LinearOrder K] [IsStrictOrderedRing K]

/-- cubing is injective in an ordered field -/
theorem cube_inj (x y : K) (h : x * x * x = y * y * y) : x = y := by
  have h1 : (x - y) * (x * x + x * y + y * y) = 0 := by ring_nf; ring_nf at h; linarith
  rcases mul_eq_zero.mp h1 with h2 | h2
  · linarith
  · have hy : y = 0 := by nlinarith [sq_nonneg (2 * x + y), sq_nonneg y]
    have hx : x = 0 := by subst hy; nlinarith [sq_nonneg x]
    rw [hx, hy]

/-- substitution `V = t − r1/3` turns the cubic into the depressed cubic `t³ + rp t + rq` -/
theorem depress (r1 r2 r3 t : K) :
    let v := t - r1 / 3
    v * v * v + r1 * (v * v) + r2 * v + r3
      = t * t * t + (r2 - r1 * r1 / 3) * t + ((2 * (r1 * r1) * r1 - 9 * r1 * r2) / 27 + r3) := by
  intro v; simp only [v]; ring

/-- Cardano, sum of two cube roots: `u³ = A`, `v³ = B`, `A + B = −rq`, `A·B = −rp³/27` -/
theorem cardano_sum (rp rq A B u v : K) (hu : u * u * u = A) (hv : v * v * v = B)
    (hs : A + B = -rq) (hp : A * B = -(rp * rp * rp) / 27) :
    (u + v) * (u + v) * (u + v) + rp * (u + v) + rq = 0 := by
  have huv : u * v = -rp / 3 := by
    apply cube_inj
    have : u * v * (u * v) * (u * v) = (u * u * u) * (v * v * v) := by ring
    rw [this, hu, hv, hp]; ring
  have e : (u + v) * (u + v) * (u + v) + rp * (u + v) + rq
      = u * u * u + v * v * v + (3 * (u * v) + rp) * (u + v) + rq := by ring
  rw [e, hu, hv, huv]
  have : 3 * (-rp / 3) + rp = 0 := by ring
  rw [this]; linarith

/-- Cardano, second form: `w³ = B ≠ 0`, `t = w − rp/(3w)` -/
theorem cardano_quot (rp rq A B w : K) (hw : w * w * w = B) (hB : B ≠ 0)
    (hs : A + B = -rq) (hp : A * B = -(rp * rp * rp) / 27) :
    let t := w - rp / (3 * w)
    t * t * t + rp * t + rq = 0 := by
  intro t
  have hw0 : w ≠ 0 := by
    intro h0; apply hB; rw [← hw, h0]; ring
  have hv : (-rp / (3 * w)) * (-rp / (3 * w)) * (-rp / (3 * w)) = A := by
    have hA : A = -(rp * rp * rp) / 27 / B := by
      field_simp; linarith
    rw [hA, ← hw]; field_simp; ring
  have ht : t = w + (-rp / (3 * w)) := by simp only [t]; ring
  rw [ht]
  exact cardano_sum rp rq B A w (-rp / (3 * w)) hw hv (by linarith) (by rw [mul_comm]; exact hp)

/-- trigonometric form: `ri² = −rp³/27`, `ri ≠ 0`, `m³ = ri`, `cos θ = −rq/2/ri = 4c³ − 3c` -/
theorem cardano_trig (rp rq ri m c ct : K) (hri : ri * ri = -(rp * rp * rp) / 27) (h0 : ri ≠ 0)
    (hm : m * m * m = ri) (hct : ct = -rq / 2 / ri) (h3 : ct = 4 * (c * c * c) - 3 * c) :
    let t := 2 * m * c
    t * t * t + rp * t + rq = 0 := by
  intro t
  have hm2 : m * m = -rp / 3 := by
    apply cube_inj
    have : m * m * (m * m) * (m * m) = (m * m * m) * (m * m * m) := by ring
    rw [this, hm, hri]; ring
  have hrp : rp = -3 * (m * m) := by linarith
  have e : t * t * t + rp * t + rq = 2 * (m * m * m) * (4 * (c * c * c) - 3 * c) + rq := by
    simp only [t]; rw [hrp]; ring
  rw [e, hm, ← h3, hct]; field_simp; ring

/-- `rz < 0` forces `ri ≠ 0` when `ri² = −rp³/27` -/
theorem ri_ne_zero (rp rq ri : K) (hrz : rq * rq / 4 + rp * rp * rp / 27 < 0)
    (hri : ri * ri = -(rp * rp * rp) / 27) : ri ≠ 0 := by
  intro h0
  rw [h0] at hri
  have : 0 ≤ rq * rq / 4 := by nlinarith [mul_self_nonneg rq]
  linarith

end ordered_field

/-! ### running sums -/

theorem foldl_add (g : β → Rat) (l : List β) (init : Rat) :
    l.foldl (fun acc x => acc + g x) init = init + (l.map g).sum := by
  induction l generalizing init with
  | nil => simp
  | cons x xs ih => simp only [List.foldl_cons, List.map_cons, List.sum_cons]; rw [ih]; ring

theorem foldl_sum (l : List Rat) (init : Rat) :
    l.foldl (fun acc x => acc + x) init = init + l.sum := by
  induction l generalizing init with
  | nil => simp
  | cons x xs ih => simp only [List.foldl_cons, List.sum_cons]; rw [ih]; ring

theorem sum_map_mul_right (g : β → Rat) (l : List β) (c : Rat) :
    (l.map fun x => g x * c).sum = (l.map g).sum * c := by
  induction l with
  | nil => simp
  | cons x xs ih => simp only [List.map_cons, List.sum_cons]; rw [ih]; ring

theorem sum_map_div (l : List Rat) (c : Rat) :
    (l.map fun x => x / c).sum = l.sum / c := by
  induction l with
  | nil => simp
  | cons x xs ih => simp only [List.map_cons, List.sum_cons]; rw [ih]; ring

/-! ### facts about the model used by `Properties/C19.lean` -/
open PhreeqcVerif NumOps PR

theorem lnPhi_bounds (f : TransFns Rat) (rt b a p v bi aa2i : Rat) :
    letI := ratOps f
    (-46 / 10 : Rat) ≤ lnPhi rt b a p v bi aa2i ∧ lnPhi rt b a p v bi aa2i ≤ 444 / 100 := by
  simp only [lnPhi, clampPhi, lnPhiLo, lnPhiHi, NumOps.lit, NumOps.ofRat, id]
  grind

theorem isZero_iff (f : TransFns Rat) (x : Rat) : letI := ratOps f; isZero x = true ↔ x = 0 := by
  simp only [isZero, NumOps.lit, NumOps.ofRat, id]
  grind

theorem foldl_skip_zero (f : TransFns Rat) (l : List Rat) (init : Rat) :
    letI := ratOps f
    l.foldl (fun acc m => if isZero m then acc else acc + m) init = init + l.sum := by
  letI := ratOps f
  induction l generalizing init with
  | nil => simp
  | cons x xs ih =>
    simp only [List.foldl_cons, List.sum_cons]
    by_cases hz : isZero x = true
    · rw [if_pos hz, ih, (isZero_iff f x).mp hz]; ring
    · rw [if_neg hz, ih]; ring

theorem fractions_sum (f : TransFns Rat) (ms xs : List Rat) :
    letI := ratOps f
    fractions ms = some xs → xs.sum = 1 ∧ xs.length = ms.length := by
  letI := ratOps f
  intro h
  match ms, h with
  | [m], h =>
    simp only [fractions, Option.some.injEq] at h
    subst h
    exact ⟨by show (1 : Rat) + 0 = 1; decide +kernel, rfl⟩
  | [], h =>
    simp only [fractions, List.foldl_nil] at h
    have : isZero (lit 0 : Rat) = true := (isZero_iff f _).mpr rfl
    simp [this] at h
  | a :: b :: rest, h =>
    simp only [fractions] at h
    rw [foldl_skip_zero f] at h
    split at h
    · simp at h
    · rename_i hz
      simp only [Option.some.injEq] at h
      subst h
      have hne : (lit 0 : Rat) + (a :: b :: rest).sum ≠ 0 := by
        intro h0; exact hz ((isZero_iff f _).mpr h0)
      refine ⟨?_, by simp⟩
      rw [sum_map_div]
      have : (lit 0 : Rat) + (a :: b :: rest).sum = (a :: b :: rest).sum := by
        show (0 : Rat) + _ = _; ring
      rw [this] at hne ⊢
      exact div_self hne

theorem compOut_spec (f : TransFns Rat) (rt b a p vm : Rat) (c : Comp Rat) (aa2 : Rat) :
    letI := ratOps f
    (compOut rt b a p vm c aa2).x = c.x ∧ (compOut rt b a p vm c aa2).p = c.x * p ∧
    (-46 / 10 : Rat) ≤ (compOut rt b a p vm c aa2).lnphi ∧ (compOut rt b a p vm c aa2).lnphi ≤ 444 / 100 := by
  letI := ratOps f
  unfold compOut
  by_cases hz : isZero c.x = true
  · rw [if_pos hz]
    have hx : c.x = 0 := (isZero_iff f c.x).mp hz
    refine ⟨rfl, ?_, by show (-46/10 : Rat) ≤ 0; decide +kernel, by show (0 : Rat) ≤ 444/100; decide +kernel⟩
    show (0 : Rat) = c.x * p
    rw [hx]; simp
  · rw [if_neg hz]
    exact ⟨rfl, rfl, (lnPhi_bounds f _ _ _ _ _ _ _).1, (lnPhi_bounds f _ _ _ _ _ _ _).2⟩

theorem mix_fold_length (f : TransFns Rat) (kf : String → String → Rat) (all l : List (Comp Rat)) (m0 : Mix Rat) :
    letI := ratOps f
    (l.foldl (fun (m : Mix Rat) ci =>
      let r := mixInner kf ci all (m.asum, lit 0)
      ({ bsum := m.bsum + ci.x * ci.b, asum := r.1, aa2 := m.aa2 ++ [r.2] } : Mix Rat)) m0).aa2.length
      = m0.aa2.length + l.length := by
  letI := ratOps f
  induction l generalizing m0 with
  | nil => simp
  | cons c cs ih => simp only [List.foldl_cons]; rw [ih]; simp; omega

theorem mix_aa2_length (f : TransFns Rat) (kf : String → String → Rat) (cs : List (Comp Rat)) :
    letI := ratOps f
    (mix kf cs).aa2.length = cs.length := by
  letI := ratOps f
  unfold mix
  rw [mix_fold_length f kf cs cs]; simp

theorem comps_x (f : TransFns Rat) (tk : Rat) (gs : List (Gas Rat)) (xs : List Rat) (h : xs.length ≤ gs.length) :
    letI := ratOps f
    (comps tk gs xs).map (·.x) = xs := by
  letI := ratOps f
  unfold comps
  rw [List.map_map]
  have : ((fun c : Comp Rat => c.x) ∘ fun (x : Gas Rat × Rat) =>
      ({ name := x.1.name, a := prA gasR x.1.tc x.1.pc, b := prB gasR x.1.tc x.1.pc,
         alpha := alphaT tk x.1.tc x.1.omega, x := x.2 } : Comp Rat)) = Prod.snd := by
    funext x; rfl
  rw [this]
  exact List.map_snd_zip h


/-! ### the real-number instance: `sqrt`, `x^(1/3)`, `cos`, `arccos` of Mathlib -/

noncomputable def realFns : TransFns ℝ where
  log10 := fun x => Real.log x / Real.log 10
  exp10 := fun x => (10 : ℝ) ^ x
  ln := Real.log
  exp := Real.exp
  sqrt := Real.sqrt
  sinh := Real.sinh
  cos := Real.cos
  acos := Real.arccos
  cbrt := fun x => x ^ ((3 : ℝ)⁻¹)
  floor := fun x => (⌊x⌋ : ℝ)

@[reducible] noncomputable def realOps : NumOps ℝ where
  ofRat := fun q => (q : ℝ)
  fns := realFns

theorem cbrt_cube (x : ℝ) (h : 0 ≤ x) : x ^ ((3 : ℝ)⁻¹) * x ^ ((3 : ℝ)⁻¹) * x ^ ((3 : ℝ)⁻¹) = x := by
  have := Real.rpow_inv_natCast_pow h (n := 3) (by norm_num)
  have e : (x ^ ((3 : ℝ)⁻¹)) ^ 3 = x := by simpa using this
  calc x ^ ((3 : ℝ)⁻¹) * x ^ ((3 : ℝ)⁻¹) * x ^ ((3 : ℝ)⁻¹) = (x ^ ((3 : ℝ)⁻¹)) ^ 3 := by ring
    _ = x := e

attribute [local instance] realOps

theorem real_sqrt (x : ℝ) : (NumOps.sqrt x : ℝ) = Real.sqrt x := rfl
theorem real_cbrt (x : ℝ) : (NumOps.cbrt x : ℝ) = x ^ ((3 : ℝ)⁻¹) := rfl
theorem real_cos (x : ℝ) : (NumOps.cos x : ℝ) = Real.cos x := rfl
theorem real_acos (x : ℝ) : (NumOps.acos x : ℝ) = Real.arccos x := rfl
theorem real_lit (q : ℚ) : (NumOps.lit q : ℝ) = (q : ℝ) := rfl

/-- with the real `sqrt`, `x^(1/3)`, `cos`, `arccos`, the volume the solver returns is a root of the cubic: all real
coefficients, every branch, no hypothesis left -/
theorem cubic_root_real (c : Cubic ℝ) :
    c.eval (match c.branch with | 0 => rootA c | 1 => rootB c | _ => rootC c) = 0 := by
  have l2 : (lit 2 : ℝ) = 2 := by rw [real_lit]; norm_num
  have l3 : (lit 3 : ℝ) = 3 := by rw [real_lit]; norm_num
  have l4 : (lit 4 : ℝ) = 4 := by rw [real_lit]; norm_num
  have l9 : (lit 9 : ℝ) = 9 := by rw [real_lit]; norm_num
  have l27 : (lit 27 : ℝ) = 27 := by rw [real_lit]; norm_num
  have l0 : (lit 0 : ℝ) = 0 := by rw [real_lit]; norm_num
  have hrp : c.rp = c.r2 - c.r1 * c.r1 / 3 := by simp only [Cubic.rp, l3]
  have hrq : c.rq = (2 * (c.r1 * c.r1) * c.r1 - 9 * c.r1 * c.r2) / 27 + c.r3 := by simp only [Cubic.rq, l2, l9, l27]
  have hrz : c.rz = c.rq * c.rq / 4 + c.rp * c.rp * c.rp / 27 := by simp only [Cubic.rz, l4, l27]
  have hev : ∀ t : ℝ, c.eval (t - c.r1 / 3) = t * t * t + c.rp * t + c.rq := by
    intro t; rw [hrp, hrq]; simp only [Cubic.eval]; ring
  by_cases hz : (0 : ℝ) ≤ c.rz
  · have hs : Real.sqrt c.rz * Real.sqrt c.rz = c.rz := Real.mul_self_sqrt hz
    have hs' : Real.sqrt c.rz * Real.sqrt c.rz = c.rq * c.rq / 4 + c.rp * c.rp * c.rp / 27 := hs.trans hrz
    have hsn : 0 ≤ Real.sqrt c.rz := Real.sqrt_nonneg _
    by_cases hb : Real.sqrt c.rz + c.rq / 2 ≤ 0
    · have hbr : c.branch = 0 := by
        simp only [Cubic.branch, l0, l2, real_sqrt]
        rw [if_pos hz, if_pos hb]
      rw [hbr]
      show c.eval (rootA c) = 0
      have hA := cbrt_cube (Real.sqrt c.rz - c.rq / 2) (by linarith)
      have hB := cbrt_cube (-Real.sqrt c.rz - c.rq / 2) (by linarith)
      have key := cardano_sum c.rp c.rq _ _ _ _ hA hB (by ring) (by linear_combination (-1) * hs')
      have : rootA c = ((Real.sqrt c.rz - c.rq / 2) ^ ((3 : ℝ)⁻¹) + (-Real.sqrt c.rz - c.rq / 2) ^ ((3 : ℝ)⁻¹)) - c.r1 / 3 := by
        simp only [rootA, l2, l3, real_sqrt, real_cbrt]
      rw [this, hev]; exact key
    · have hbr : c.branch = 1 := by
        simp only [Cubic.branch, l0, l2, real_sqrt]
        rw [if_pos hz, if_neg hb]
      rw [hbr]
      show c.eval (rootB c) = 0
      have hpos := not_le.mp hb
      have hB := cbrt_cube (Real.sqrt c.rz + c.rq / 2) (by linarith)
      have hw : (-((Real.sqrt c.rz + c.rq / 2) ^ ((3 : ℝ)⁻¹))) * (-((Real.sqrt c.rz + c.rq / 2) ^ ((3 : ℝ)⁻¹)))
          * (-((Real.sqrt c.rz + c.rq / 2) ^ ((3 : ℝ)⁻¹))) = -(Real.sqrt c.rz + c.rq / 2) := by
        have : ∀ y : ℝ, (-y) * (-y) * (-y) = -(y * y * y) := by intro y; ring
        rw [this, hB]
      have key := cardano_quot c.rp c.rq (Real.sqrt c.rz - c.rq / 2) (-(Real.sqrt c.rz + c.rq / 2)) _ hw
        (by linarith) (by ring) (by linear_combination (-1) * hs')
      have : rootB c = (-((Real.sqrt c.rz + c.rq / 2) ^ ((3 : ℝ)⁻¹))
          - c.rp / (3 * -((Real.sqrt c.rz + c.rq / 2) ^ ((3 : ℝ)⁻¹)))) - c.r1 / 3 := by
        simp only [rootB, l2, l3, real_sqrt, real_cbrt]
      rw [this, hev]; exact key
  · have hbr : c.branch = 2 := by
      simp only [Cubic.branch, l0]
      rw [if_neg hz]
    rw [hbr]
    show c.eval (rootC c) = 0
    have hneg := not_le.mp hz
    have hs0 : 0 < -(c.rp * c.rp * c.rp) / 27 := by
      rw [hrz] at hneg; nlinarith [mul_self_nonneg c.rq]
    have hs : Real.sqrt (-(c.rp * c.rp * c.rp) / 27) * Real.sqrt (-(c.rp * c.rp * c.rp) / 27) = -(c.rp * c.rp * c.rp) / 27 :=
      Real.mul_self_sqrt hs0.le
    have hri : 0 < Real.sqrt (-(c.rp * c.rp * c.rp) / 27) := Real.sqrt_pos.mpr hs0
    have hm := cbrt_cube _ hri.le
    -- |rq/2| < ri
    have hlt : (c.rq / 2) * (c.rq / 2) < Real.sqrt (-(c.rp * c.rp * c.rp) / 27) * Real.sqrt (-(c.rp * c.rp * c.rp) / 27) := by
      rw [hs]; rw [hrz] at hneg; nlinarith
    have habs : |c.rq / 2| < Real.sqrt (-(c.rp * c.rp * c.rp) / 27) := by
      apply abs_lt_of_sq_lt_sq _ hri.le
      rw [sq, sq]; exact hlt
    have hy1 : -1 ≤ -c.rq / 2 / Real.sqrt (-(c.rp * c.rp * c.rp) / 27) := by
      rw [le_div_iff₀ hri]; have := (abs_lt.mp habs).2; linarith
    have hy2 : -c.rq / 2 / Real.sqrt (-(c.rp * c.rp * c.rp) / 27) ≤ 1 := by
      rw [div_le_iff₀ hri]; have := (abs_lt.mp habs).1; linarith
    have hacos := Real.cos_arccos hy1 hy2
    have h3 : Real.cos (Real.arccos (-c.rq / 2 / Real.sqrt (-(c.rp * c.rp * c.rp) / 27)))
        = 4 * (Real.cos (Real.arccos (-c.rq / 2 / Real.sqrt (-(c.rp * c.rp * c.rp) / 27)) / 3)
              * Real.cos (Real.arccos (-c.rq / 2 / Real.sqrt (-(c.rp * c.rp * c.rp) / 27)) / 3)
              * Real.cos (Real.arccos (-c.rq / 2 / Real.sqrt (-(c.rp * c.rp * c.rp) / 27)) / 3))
          - 3 * Real.cos (Real.arccos (-c.rq / 2 / Real.sqrt (-(c.rp * c.rp * c.rp) / 27)) / 3) := by
      have := Real.cos_three_mul (Real.arccos (-c.rq / 2 / Real.sqrt (-(c.rp * c.rp * c.rp) / 27)) / 3)
      rw [show 3 * (Real.arccos (-c.rq / 2 / Real.sqrt (-(c.rp * c.rp * c.rp) / 27)) / 3)
            = Real.arccos (-c.rq / 2 / Real.sqrt (-(c.rp * c.rp * c.rp) / 27)) by ring] at this
      rw [this]; ring
    have key := cardano_trig c.rp c.rq _ _ _ _ hs hri.ne' hm hacos h3
    have : rootC c = 2 * (Real.sqrt (-(c.rp * c.rp * c.rp) / 27)) ^ ((3 : ℝ)⁻¹)
          * Real.cos (Real.arccos (-c.rq / 2 / Real.sqrt (-(c.rp * c.rp * c.rp) / 27)) / 3) - c.r1 / 3 := by
      simp only [rootC, l2, l3, l27, real_sqrt, real_cbrt, real_cos, real_acos]
    rw [this, hev]; exact key

end PhreeqcVerif.GasLemmas
