"""C03 — reactant assemblages end in a valid heterogeneous equilibrium state.

(1) proof obligations: Properties/C03.lean (model_ok_rows, model_ok_pp_admissible*, model_ok_phases_valid(_all),
    restrictions_respected, precipitate_only_respected, remove_unstable_exact, ssIdeal_simplex, ss_ideal_activity,
    ssBinary_*, guggenheim_*, guggParams_forms, exchange_capacity, surface_sites, runModel_invariant) about Model/Assemblage.lean;
(2) tie A: real PHREEQC runs with EQUILIBRIUM_PHASES / SOLID_SOLUTIONS / EXCHANGE / SURFACE (harness/ph_assemblage.cpp dumps
    the engine's heterogeneous unknowns in-process at every USER_PUNCH evaluation plus the public read-outs of the same row);
    `pmodel assemblage` executes Model/Assemblage.lean on that dump: V = relation of the property, T = number held by the
    code equals the model's recomputation, the gate model accepts what the code accepted;
    tie B ("probes"): the REAL residuals() / check_residuals() / ineq() special case / reset() are called in-process on
    crafted (f, moles, delta) values around every threshold and their answers are compared with the model's;
(3) direct oracle (plain Python on the public read-outs SELECTED_OUTPUT -equilibrium_phases -saturation_indices
    -solid_solutions, USER_PUNCH EQUI SI S_S SYS("X"), DUMP): present ⇒ SI = target (1e-6), absent ⇒ exactly 0 mol and
    SI ≤ target (+1e-6), dissolve_only / precipitate_only against the amount at the start of the calculation, capacity of
    exchangers and site totals kept (1e-8), ideal solid-solution components at SI = log10(mole fraction).
Runs that end with an ERROR (or do not converge) are counted, not judged.
"""
import concurrent.futures
import json
import math
import struct

import rawparse
import vlib
from gens import assemblage as gen

NAME = "PhreeqcVerif.Properties.C03"
EPS_SI = 1e-6
EPS_CAP = 1e-8
LN10 = math.log(10.0)
KEY_ALT = "add-formula-present-undersaturated"
KEY_REL = "related-exchanger-ignores-predissolved-amount"
KEY_TWOSS = "phase-in-two-solid-solutions"
R_KJ = 0.00831470
KEY_RETRY = "related-exchanger-capacity-after-failed-attempt"
KEY_NEG = "negative-residual-moles-after-complete-dissolution"
KEY_PREC = "related-exchanger-of-precipitate-only-phase-reset"


def hexs(s):
    return s.encode().hex() if s else "-"


def unhex(h):
    return "" if h == "-" else bytes.fromhex(h).decode(errors="replace")


def unhexd(h):
    return struct.unpack(">d", bytes.fromhex(h))[0]


def hexd(x):
    return struct.pack(">d", float(x)).hex()


def dbpath(db):
    return str(vlib.REPO / "database" / db)


# ------------------------------------------------------------------------------------------------ running cases
def db_info(ctx, exe, db):
    r = ctx.run_harness(exe, f"list {dbpath(db)}\n", timeout=120)
    phases, masters = {}, {}
    for ln in r.stdout.splitlines():
        w = ln.split()
        if not w:
            continue
        if w[0] == "L":
            name = unhex(w[1])
            ne = int(w[6])
            elts = {unhex(w[7 + 2 * k]): unhexd(w[8 + 2 * k]) for k in range(ne)}
            nt = int(w[7 + 2 * ne])
            sp = [unhex(x) for x in w[8 + 2 * ne: 8 + 2 * ne + nt]]
            gas = name.endswith("(g)") or unhexd(w[4]) > 0
            phases[name] = {"elts": elts, "gas": gas, "redox": any(s in ("e-", "O2") for s in sp)}
        elif w[0] == "M":
            masters[unhex(w[1])] = int(w[3])
    return {"phases": phases, "ex": "X" in masters, "hfo": "Hfo_w" in masters and "Hfo_s" in masters, "elements": set(masters)}


def run_batch(ctx, exe, batch, probes=None):
    """batch: list of (id, db, text).  Returns {id: dict(errors, lines, err, dump, warn, done)}"""
    if probes is None:
        text = "".join(f"case {i} {dbpath(db)} {hexs(t)}\n" for i, db, t in batch)
    else:
        text = "".join(f"probe {i} {dbpath(db)} {hexs(t)} {hexs(probes[i])}\n" for i, db, t in batch)
    try:
        r = ctx.run_harness(exe, text, timeout=900)
        out, rc = r.stdout, r.returncode
    except Exception:   # timeout
        out, rc = "", -9
    res, cur = {}, None
    for ln in out.splitlines():
        if ln.startswith("CASE ") or ln.startswith("PROBE "):
            w = ln.split()
            cur = {"errors": int(w[2].split("=")[1]) if ln.startswith("CASE") else 0, "lines": [ln] if ln.startswith("PROBE") else [],
                   "err": "", "done": False, "dump": "", "warn": "", "probed": ln.startswith("PROBE") and w[2] == "probed=1"}
            res[int(w[1])] = cur
        elif cur is not None:
            if ln.startswith("END "):
                cur["lines"].append(ln) if cur["lines"] and cur["lines"][0].startswith("PROBE") else None
                cur["done"] = True
                cur = None
            elif ln.startswith("ERR "):
                cur["err"] = unhex(ln.split()[1])[:800]
            elif ln.startswith("DUMP "):
                cur["dump"] = unhex(ln.split()[1])
            elif ln.startswith("WARN "):
                cur["warn"] = unhex(ln.split()[1])
            else:
                cur["lines"].append(ln)
    if rc != 0 or len([1 for c in res.values() if c["done"]]) != len(batch):
        if len(batch) == 1:
            res[batch[0][0]] = {"errors": -1, "lines": [], "err": f"harness exit {rc}", "done": False, "crashed": True, "dump": "",
                                "warn": "", "probed": False}
        else:   # isolate the case that killed the process
            res = {}
            for b in batch:
                res.update(run_batch(ctx, exe, [b], probes))
    return res


def evaluate(ctx, results):
    """feed the dumps of completed cases to the Lean model; returns {id: [parsed V/T/N lines]}"""
    text = []
    for i, c in results.items():
        if c["errors"] == 0 and c["done"]:
            text += c["lines"]
    if not text:
        return {}
    out = ctx.pmodel("assemblage", "\n".join(text) + "\n", timeout=1800)
    per = {}
    for ln in out:
        w = ln.split()
        if w[0] in "VT":
            nm = unhex(w[4]) if not w[4].isdigit() else w[4]
            per.setdefault(int(w[1]), []).append((w[0], w[2], w[3], nm, w[5] == "ok", unhexd(w[6]), unhexd(w[7])))
        elif w[0] == "N":
            per.setdefault(int(w[1]), []).append(("N", w[2]) + tuple(int(x) for x in w[3:]))
    return per


# ------------------------------------------------------------------------------------------------ direct oracle (Python)
def parse_blocks(lines):
    """→ list of dict(state, R={heading: value}, P={name: {...}}, raw=[...])"""
    blocks, cur = [], None
    for ln in lines:
        w = ln.split()
        if not w:
            continue
        if w[0] == "B":
            cur = {"R": {}, "state": 0, "P": {}, "k": int(w[2]), "norow": False}
            blocks.append(cur)
        elif cur is not None:
            if w[0] == "G":
                cur["state"] = int(w[1])
                cur["step"] = int(w[21]) if len(w) > 21 else 0
                cur["sim"] = (int(w[22]) if len(w) > 22 else 0) + 100000 * (int(w[23]) if len(w) > 23 else 0)
                cur["tol"] = unhexd(w[8])
            elif w[0] == "R" and w[2].startswith("D"):
                cur["R"][unhex(w[1])] = unhexd(w[2][1:])
            elif w[0] == "NOROW":
                cur["norow"] = True
            elif w[0] == "S":
                cur.setdefault("S", {})[unhex(w[1])] = {"a0": unhexd(w[3]), "a1": unhexd(w[4]), "tk": unhexd(w[10]), "icase": int(w[11]),
                                                        "ag0": unhexd(w[12]), "ag1": unhexd(w[13])}
            elif w[0] == "P":
                cur["P"][unhex(w[2])] = {"moles": unhexd(w[3]), "f": unhexd(w[4]), "si_t": unhexd(w[6]), "initial": unhexd(w[14]),
                                         "lk": unhexd(w[8]), "iap": unhexd(w[9]), "in": w[16] == "1"}
    return blocks


def valid_phase(moles, d, initial, opt):
    """the property's predicate on public numbers; returns None or a text"""
    if opt == "dissolve_only":
        if moles > initial * (1 + 1e-14) + 1e-15:
            return f"dissolve_only phase grew: {moles!r} mol > {initial!r} mol at the start of the calculation"
        if moles > 0 and d < -EPS_SI:
            return f"dissolve_only phase present ({moles!r} mol) but undersaturated: SI - target = {d!r}"
        if moles < initial * (1 - 1e-14) - 1e-15 and d > EPS_SI:
            return f"dissolve_only phase below its initial amount ({moles!r} < {initial!r}) but supersaturated: SI - target = {d!r}"
        return None
    if opt == "precipitate_only":
        if moles < initial * (1 - 1e-14) - 1e-15:
            return f"precipitate_only phase dissolved: {moles!r} mol < {initial!r} mol at the start of the calculation"
        if moles > initial * (1 + 1e-14) + 1e-15 and abs(d) > EPS_SI:
            return f"precipitate_only phase grew ({initial!r} -> {moles!r} mol) but SI - target = {d!r}"
        if d > EPS_SI:
            return f"precipitate_only phase supersaturated: SI - target = {d!r}"
        return None
    if moles < 0:
        return f"negative amount {moles!r}"
    if moles > 0 and abs(d) > EPS_SI:
        return f"present ({moles!r} mol) but SI - target = {d!r}"
    if moles == 0 and d > EPS_SI:
        return f"absent (0 mol) but supersaturated: SI - target = {d!r}"
    return None


def ss_expected(ss):
    """(tk, ag0, ag1) derived from the INPUT TEXT by the rules of the reader as coded (read.cpp: -tempk x -> x, -tempc / -temp
    x -> x + 298.15 [sic]; tidy.cpp ss_calc_a0_a1), or None for forms not modelled"""
    if ss["ideal"]:
        return None
    tk = ss["tempk"] if "tempk" in ss else (ss["tempc"] + 298.15 if "tempc" in ss else (ss["temp"] + 298.15 if "temp" in ss else 298.15))
    rt = R_KJ * tk
    p = ss["p"]
    if ss["parm"] == "Gugg_nondim":
        return tk, p[0] * rt, p[1] * rt
    if ss["parm"] == "Gugg_kJ":
        return tk, p[0], p[1]
    if ss["parm"] == "Thompson":
        return tk, (p[0] + p[1]) / 2, (p[0] - p[1]) / 2
    if ss["parm"] == "Margules":
        return tk, (p[0] + 3 * p[1] / 4) * rt, (p[1] / 4) * rt
    return None


def direct_oracle(spec, c):
    """evaluate the property statement on the implementation's own public output.  Returns (problems, stats, alt_problems)"""
    blocks = parse_blocks(c["lines"])
    problems, alt, rel, prec, neg, retry = [], [], [], [], [], []
    bigcap = 0.0
    if "exchange" in spec and "phase" in spec["exchange"]["comps"][0]:
        x0 = spec["exchange"]["comps"][0]
        bigcap = x0["prop"] * next((q["moles"] for q in spec["phases"] if q["name"] == x0["phase"]), 0.0)
    st = {"phase_states": {}, "calcs": 0, "ex": 0, "su": 0, "ss_ideal": 0, "ss_binary": 0, "dump_checked": 0}
    prev = {}          # amounts saved at the end of the previous simulation
    cur_sim, last_in_sim, last_step = None, {}, {}
    capX = None
    if "exchange" in spec and all("phase" not in x for x in spec["exchange"]["comps"]):
        capX = sum(x["moles"] * x["x"] for x in spec["exchange"]["comps"])
    capS = {}
    if "surface" in spec:
        capS["Hfo_w"] = spec["surface"]["w"]
        if "s" in spec["surface"]:
            capS["Hfo_s"] = spec["surface"]["s"]
    startX, startS = capX, dict(capS)
    for p in spec["phases"]:
        prev[p["name"]] = p["moles"]
    stage_of_sim = {}
    last_R = None
    cur_phases = spec["phases"]
    cur_ss = spec.get("ss")
    ss_by_modify = False
    ss_seen = set()
    twoss, sstie = [], []
    redefined = set()
    for b in blocks:
        if b["state"] in (2, 3) and not b["norow"]:
            # initial exchange / surface calculation: its result is what the reaction calculation starts from
            if "totx:X" in b["R"] and capX is not None and b["state"] == 2:
                if abs(b["R"]["totx:X"] - capX) > EPS_CAP * capX:
                    problems.append(f"block {b['k']}: initial exchange calculation holds {b['R']['totx:X']!r} eq of X but {capX!r} were defined")
                startX = b["R"]["totx:X"]
            for k in capS:
                if "sys:" + k in b["R"] and b["state"] == 3:
                    if abs(b["R"]["sys:" + k] - capS[k]) > EPS_CAP * capS[k]:
                        problems.append(f"block {b['k']}: initial surface calculation holds {b['R']['sys:' + k]!r} mol of {k} but {capS[k]!r} were defined")
                    startS[k] = b["R"]["sys:" + k]
            continue
        if b["state"] != 5 or b["norow"]:
            continue
        R = b["R"]
        sim = b["sim"]
        if sim != cur_sim:
            if cur_sim is not None:
                prev.update(last_in_sim)
                if "sys:X" in last_step:
                    startX = last_step["sys:X"]
                for k in capS:
                    if "sys:" + k in last_step:
                        startS[k] = last_step["sys:" + k]
            cur_sim, last_in_sim, last_step = sim, {}, {}
            stage_of_sim[sim] = len(stage_of_sim)
        stg = stage_of_sim[sim]
        if stg >= 1 and stg - 1 < len(spec["stages"]) and "redef" in spec["stages"][stg - 1] and stg not in redefined:
            # the assemblage was redefined for this calculation: its phases, targets, restrictions and amounts apply from here on
            redefined.add(stg)
            cur_phases = spec["stages"][stg - 1]["redef"]
            for p in cur_phases:
                prev[p["name"]] = p["moles"]
        if stg >= 1 and stg - 1 < len(spec["stages"]) and stg not in ss_seen and cur_ss is not None:
            ss_seen.add(stg)
            sg = spec["stages"][stg - 1]
            if "ss_redef" in sg:
                cur_ss, ss_by_modify = sg["ss_redef"], False
                st["ss_redefinitions"] = st.get("ss_redefinitions", 0) + 1
            elif sg.get("ss_modify_ideal"):
                cur_ss, ss_by_modify = dict(cur_ss, ideal=True), True
                st["ss_made_ideal_by_modify"] = st.get("ss_made_ideal_by_modify", 0) + 1
        incr = stg >= 1 and stg - 1 < len(spec["stages"]) and spec["stages"][stg - 1].get("incremental") and b["step"] > 1
        st["calcs"] += 1
        last_R = R
        if stg in redefined:
            st["calcs_after_redefinition"] = st.get("calcs_after_redefinition", 0) + 1
        if b["sim"] >= 100000:
            st["calcs_in_later_run"] = st.get("calcs_in_later_run", 0) + 1
        if stg >= 1 and stg - 1 < len(spec["stages"]):
            sg_ = spec["stages"][stg - 1]
            if sg_.get("run_cells"):
                st["calcs_by_run_cells"] = st.get("calcs_by_run_cells", 0) + 1
                if sg_.get("incremental") and b["step"] > 1:
                    st["calcs_by_run_cells_incremental_later_step"] = st.get("calcs_by_run_cells_incremental_later_step", 0) + 1
            if "temps" in sg_:
                st["calcs_in_temperature_step_lists"] = st.get("calcs_in_temperature_step_lists", 0) + 1
        for p in cur_phases:
            nm = p["name"]
            if f"equi:{nm}" not in R:
                continue
            moles, si = R[f"equi:{nm}"], R[f"si:{nm}"]
            if nm in R and R[nm] < 0 and moles == 0:
                moles = R[nm]      # EQUI() clamps a negative x->moles to 0 (and overwrites it); the column was punched before
            initial = last_in_sim[nm] if (incr and nm in last_in_sim) else prev[nm]
            eng = b["P"].get(nm)
            # observations of the same number agree (SELECTED_OUTPUT column = BASIC function)
            if nm in R and R[nm] != moles:
                problems.append(f"block {b['k']}: -equilibrium_phases column of {nm} = {R[nm]!r} but EQUI = {moles!r}")
            notin = si == -99.99 or R.get(f"si_{nm}") == -999.999
            if f"si_{nm}" in R and abs(R[f"si_{nm}"] - si) > 1e-12 and not notin:
                problems.append(f"block {b['k']}: -saturation_indices column of {nm} = {R['si_' + nm]!r} but SI() = {si!r}")
            if eng is not None and abs(eng["initial"] - initial) > 1e-12 * max(abs(initial), 1e-3) and "alt" not in p:
                # the engine's start-of-step amount differs from this oracle's own bookkeeping (amount after the previous step /
                # the definition): the phase is judged with the ORACLE's number; the disagreement itself is a tie failure
                st["initial_mismatch"] = st.get("initial_mismatch", 0) + 1
                sstie.append(f"block {b['k']} (sim {sim % 100000} step {b['step']}): {nm}: engine's initial_moles {eng['initial']!r} but the amount at the "
                             f"start of this step was {initial!r}")
            target = p["si"]
            if p.get("gas") and eng is not None:
                target = eng["si_t"]      # the engine adds log10(fugacity coefficient) to the requested log10(pressure)
                st["gas_phase_entries"] = st.get("gas_phase_entries", 0) + 1
            d = si - target if not notin else -999.0
            key = ("alt:" if "alt" in p else "") + p.get("opt", "plain") + (":force" if p.get("force_equality") else "")
            key += ":" + ("notin" if notin else "present" if moles > 0 else "absent")
            st["phase_states"][key] = st["phase_states"].get(key, 0) + 1
            msg = None if notin else valid_phase(moles, d, initial, p.get("opt"))
            if moles < 0 and moles >= -64 * math.ulp(max(initial, prev.get(nm, 0.0), 1e-300)) and "alt" not in p:
                # reset(): moles - delta/factor leaves a residue of a few ulp of the amount that was dissolved completely;
                # equal(moles, delta, ineq_tol = 1e-15) is an absolute test and does not snap it to 0 for amounts >= ~5 mol
                neg.append(f"block {b['k']} (sim {sim} step {b['step']}): {nm} ends with {moles!r} mol (negative residue of the "
                           f"complete dissolution of {initial!r} mol; -equilibrium_phases column), SI - target = {d!r}")
                msg = valid_phase(0.0, d, initial, p.get("opt")) if not notin else None
            if msg:
                (alt if "alt" in p else problems).append(f"block {b['k']} (sim {sim} step {b['step']}): {nm} target SI {p['si']}: {msg}")
            last_in_sim[nm] = moles
        if "exchange" in spec and "totx:X" in R:
            st["ex"] += 1
            # SYS("X") adds and subtracts the dummy amount of the exchange master species (cancellation ~1e-10 relative):
            # it is only a loose cross-check; the sum over the exchange species is TOT("X")*TOT("water")
            sx = R["totx:X"]
            if "sys:X" in R and sx > 1e-9:
                st["sys_vs_tot_max_rel"] = max(st.get("sys_vs_tot_max_rel", 0.0), abs(R["sys:X"] - sx) / sx)
            if capX is not None:
                ref = last_step.get("sys:X", startX) if incr else startX
                if abs(sx - ref) > EPS_CAP * ref:
                    problems.append(f"block {b['k']}: exchanger holds {sx!r} eq of X but its capacity at the start of the calculation was {ref!r}")
                if abs(sx - capX) > EPS_CAP * capX * (st["calcs"] + 2):
                    problems.append(f"block {b['k']}: exchanger holds {sx!r} eq of X but {capX!r} were defined")
            else:
                x = spec["exchange"]["comps"][0]
                ref = x["prop"] * R.get(f"equi:{x['phase']}", 0.0)
                diff = sx - ref
                if abs(diff) > EPS_CAP * max(ref, sx) and ref > 1e-20:
                    # add_pp_assemblage dissolves up to 1e-10 mol of a phase into the solution before model() without
                    # touching the exchanger that is related to it: the capacity stays prop*1e-10 eq too high per calculation
                    known = x["prop"] * 1e-10 * st["calcs"] * 1.01 + EPS_CAP * max(ref, sx)
                    msg = (f"block {b['k']}: exchanger related to {x['phase']} holds {sx!r} eq but proportion x moles = {ref!r} "
                           f"(difference {diff!r} eq, proportion*1e-10 = {x['prop'] * 1e-10!r})")
                    pp = next((q for q in spec["phases"] if q["name"] == x["phase"]), {})
                    bigcap = max(bigcap, ref, sx)
                    accumulated = EPS_CAP * (st["calcs"] + 2) * bigcap      # one 1e-8 drift per calculation so far
                    if abs(diff) <= accumulated:
                        st["related_accumulated"] = st.get("related_accumulated", 0) + 1
                    elif pp.get("opt") == "precipitate_only":
                        # set_inert_moles hides the initial amount from the solver: the exchanger is "reset" to the active part
                        ini = (last_in_sim.get(x["phase"], prev[x["phase"]]) if incr else prev[x["phase"]])
                        act = x["prop"] * max(R.get(f"equi:{x['phase']}", 0.0) - ini, 0.0)
                        if abs(sx - act) <= EPS_CAP * max(act, sx) + x["prop"] * 1e-10 * st["calcs"] * 1.01 + 1e-25:
                            prec.append(msg + " [phase is precipitate_only: sites follow moles - initial]")
                        else:
                            problems.append(msg)
                    elif 0 <= diff <= known + accumulated:
                        rel.append(msg)
                    elif diff > 0 and prev.get(x["phase"], 0.0) == 0.0:
                        # the related phase was absent (0 sites) when this simulation started: the sites the exchanger gains while
                        # the phase precipitates are carried over into the next reaction step (INCREMENTAL_REACTIONS false) or
                        # into the next convergence attempt (set_and_run_wrapper restores only pure phases, solid solutions, kinetics)
                        retry.append(msg + " [related phase had 0 mol at the start of the simulation; surplus carried over from an "
                                           "earlier step / failed attempt]")
                    else:
                        problems.append(msg)
                else:
                    bigcap = max(bigcap, ref, sx)
            last_step["sys:X"] = sx
        for k in capS:
            if "sys:" + k in R:
                st["su"] += 1
                sx = R["sys:" + k]
                ref = last_step.get("sys:" + k, startS[k]) if incr else startS[k]
                if abs(sx - ref) > EPS_CAP * ref and abs(sx - ref) > 1e-15:
                    problems.append(f"block {b['k']}: surface holds {sx!r} mol of {k} sites but {ref!r} at the start of the calculation")
                last_step["sys:" + k] = sx
        if cur_ss is not None:
            ss = cur_ss
            # parameters as the input text defines them against what the engine holds (ag0/ag1 are set once, at the definition)
            exp_, eng_ = ss_expected(ss), b.get("S", {}).get(ss["name"])
            if exp_ and eng_:
                st["ss_param_checks"] = st.get("ss_param_checks", 0) + 1
                for nm_, ev, gv in (("ag0", exp_[1], eng_["ag0"]), ("ag1", exp_[2], eng_["ag1"])):
                    if abs(ev - gv) > 1e-9 * max(abs(ev), abs(gv)) + 1e-300:
                        sstie.append(f"block {b['k']}: solid solution {ss['name']} -{ss['parm']} {ss['p']}: engine holds {nm_} = {gv!r} kJ/mol, "
                                     f"the reader's rules applied to the input text give {ev!r} (tk {exp_[0]})")
            ns = [R.get(f"ss:{x['name']}") for x in ss["comps"]]
            if all(n is not None for n in ns):
                tot = sum(ns)
                if any(n < 0 for n in ns):
                    problems.append(f"block {b['k']}: negative solid-solution component amount {ns!r}")
                if tot > 0:
                    st["ss_ideal" if ss["ideal"] else "ss_binary"] += 1
                    if ss["ideal"]:
                        for x, n in zip(ss["comps"], ns):
                            si = R.get(f"si:{x['name']}")
                            if si is None or si == -99.99 or n <= 0:
                                continue
                            if abs(si - math.log10(n / tot)) > EPS_SI:
                                (twoss if "ss2" in spec else problems).append(f"block {b['k']}: ideal solid-solution component {x['name']}: log activity (SI) {si!r} but "
                                                f"log10(mole fraction) = {math.log10(n / tot)!r}")
    # a phase that is a component of two solid solutions: S_S() only shows the first one; the second one's composition is in DUMP
    if "ss2" in spec and c.get("dump") and last_R:
        try:
            for e in rawparse.parse(c["dump"]):
                if e["keyword"] == "SOLID_SOLUTIONS_RAW" and e["number"] == 1:
                    fl = rawparse.flat(e)
                    for ssd in (spec["ss"], spec["ss2"]):
                        if not ssd["ideal"]:
                            continue
                        ns = [float(fl.get(f"solid_solution[{ssd['name']}]/component[{x['name']}]/moles", "nan")) for x in ssd["comps"]]
                        if any(n != n for n in ns) or sum(ns) <= 1e-15:
                            continue
                        for x, n in zip(ssd["comps"], ns):
                            si = last_R.get(f"si:{x['name']}")
                            if si is not None and si != -99.99 and n > 1e-15 and abs(si - math.log10(n / sum(ns))) > EPS_SI:
                                twoss.append(f"DUMP + SI: ideal solid solution {ssd['name']} holds {x['name']} at mole fraction {n / sum(ns)!r} "
                                             f"(log10 {math.log10(n / sum(ns))!r}) but its log activity SI = {si!r}")
        except Exception as ex:
            st["dump_parse_error"] = str(ex)[:100]
    # DUMP: the saved assemblage holds the amounts of the last calculation
    if c.get("dump") and spec["phases"] and last_in_sim:
        try:
            ents = rawparse.parse(c["dump"])
            for e in ents:
                if e["keyword"] == "EQUILIBRIUM_PHASES_RAW" and e["number"] == 1:
                    fl = rawparse.flat(e)
                    for p in cur_phases:
                        key = f"component[{p['name']}]/moles"
                        if key in fl and p["name"] in last_in_sim:
                            st["dump_checked"] += 1
                            dm, em = float(fl[key]), last_in_sim[p["name"]]
                            if abs(dm - em) > 1e-12 * max(abs(em), 1e-30) and not (em == 0 and dm == 0) and not (neg and em < 0 and dm == 0):
                                problems.append(f"DUMP: EQUILIBRIUM_PHASES_RAW 1 holds {dm!r} mol of {p['name']} but the last calculation ended with {em!r}")
                            ks = f"component[{p['name']}]/si"
                            if ks in fl and abs(float(fl[ks]) - p["si"]) > 1e-12 and not p.get("gas"):
                                problems.append(f"DUMP: target SI of {p['name']} is {fl[ks]} but {p['si']} was requested")
        except Exception as ex:   # the dump parser is not what is judged here
            st["dump_parse_error"] = str(ex)[:100]
    st["rel"] = rel
    st["prec"] = prec
    st["neg"] = neg
    st["twoss"] = twoss
    st["sstie"] = sstie
    st["retry"] = retry
    return problems, st, alt


# ------------------------------------------------------------------------------------------------ probes
def make_probes(rng, n=240):
    tol = 1e-8
    fvals = [0.0, tol / LN10 * 0.99, -tol / LN10 * 0.99, tol / LN10 * 1.01, -tol / LN10 * 1.01, 100 * tol / LN10 * 0.99,
             100 * tol / LN10 * 1.01, -100 * tol / LN10 * 1.01, 1e-3, -1e-3, 3.0, -3.0, 1e-12, -1e-12, 1e-10 / LN10 * 1.01, -1e-10 / LN10 * 1.01]
    out = []
    for _ in range(n):
        f = rng.choice(fvals) if rng.random() < 0.8 else rng.uniform(-1e-6, 1e-6)
        ms = float(rng.randint(0, 5)) if rng.random() < 0.85 else 6.0 + 10 ** rng.uniform(-20, 0)
        ds = float(rng.randint(0, 9)) if rng.random() < 0.8 else 10.0 + rng.choice([-1, 1]) * 10 ** rng.uniform(-18, 1)
        out += [hexd(f), hexd(ms), hexd(ds)]
    return " ".join(out)


# ------------------------------------------------------------------------------------------------ judging
def run_one(ctx, exe, spec):
    text = gen.render(spec)
    res = run_batch(ctx, exe, [(0, spec["db"], text)])
    c = res[0]
    if c["errors"] != 0 or not c["done"]:
        return text, c, [], [], []
    rels = evaluate(ctx, res).get(0, [])
    problems, _, alt = direct_oracle(spec, c)
    vf = [r for r in rels if r[0] == "V" and not r[4]]
    return text, c, vf, problems, alt


def shrink(ctx, exe, spec, pred):
    cur = spec
    for _ in range(14):
        for cand in gen.shrink_candidates(cur):
            try:
                text, c, vf, problems, alt = run_one(ctx, exe, cand)
            except Exception:
                continue
            if pred(c, vf, problems, alt):
                cur = cand
                break
        else:
            break
    return cur


def report_failure(ctx, exe, spec, c, vf, problems, alt, only_alt=False):
    if only_alt:
        def still(c2, vf2, p2, a2):
            return c2["errors"] == 0 and bool(a2)
    else:
        def still(c2, vf2, p2, a2):
            return c2["errors"] == 0 and (bool(p2) or any(f[2] != "valid-alt" for f in vf2))
    small = shrink(ctx, exe, spec, still)
    text, c2, vf2, p2, a2 = run_one(ctx, exe, small)
    if not still(c2, vf2, p2, a2):
        small, text, c2, vf2, p2, a2 = spec, gen.render(spec), c, vf, problems, alt
    replay = {"spec": small, "db": small["db"], "input": text,
              "failed_relations": [dict(kind=f[2], name=f[3], block=f[1], lhs=f[5], rhs=f[6]) for f in vf2[:10]],
              "oracle": (a2 if only_alt else p2)[:10], "warnings": c2.get("warn", "")[:600]}
    if only_alt:
        ctx.finding(KEY_ALT, "EQUILIBRIUM_PHASES with an alternative formula: reactant left but SI below the target "
                             "(only a WARNING 'SI may be a local minimum'): " + a2[0], replay)
    elif p2:
        ctx.violation("reaction calculation completed without error but violates the property: " + p2[0], replay)
    else:
        ctx.violation("model relation failed but the direct oracle holds on the public outputs (model stale?)", replay,
                      found_input=False)


def run_corpus(ctx, exe):
    """deterministic corpus (corpus/C03/*.json: minimal replays of the recorded findings), run first in both tiers and judged
    with the same attribution rules as generated cases; an entry that no longer reproduces simply prints nothing"""
    cdir = vlib.ROOT / "corpus" / "C03"
    n = 0
    for f in sorted(cdir.glob("*.json")) if cdir.exists() else []:
        data = json.loads(f.read_text())
        spec, text = data["spec"], data["input"]
        res = run_batch(ctx, exe, [(0, data["db"], text)])
        c = res[0]
        n += 1
        if c["errors"] != 0 or not c.get("done"):
            continue
        rl = evaluate(ctx, res).get(0, [])
        problems, st, alt = direct_oracle(spec, c)
        vf = [r for r in rl if r[0] == "V" and not r[4] and r[2] != "valid-alt"]
        if st["neg"]:
            vf = [r for r in vf if not (r[2].startswith("valid") and -1e-12 < r[5] < 0)]
        tf = [r for r in rl if r[0] == "T" and not r[4]]
        two = []
        if "ss2" in spec:
            shared = [r for r in vf if r[2] in ("ss-ideal-activity", "ss-binary-activity")]
            vf = [r for r in vf if r not in shared]
            tf = [r for r in tf if r[2] != "ss-phase-copy"]
            two = st["twoss"] or [f"{r[2]} {r[3]}: SI = {r[5]!r} but log10(lambda*x) = {r[6]!r}" for r in shared]
        if st["sstie"]:
            tf = tf + [("T", "-", "engine-value-vs-input-derived", m[:160], False, 0.0, 0.0) for m in st["sstie"][:3]]
        replay = {"spec": spec, "db": data["db"], "input": text, "corpus": f.name}
        if problems or vf:
            ctx.violation("corpus case violates the property beyond its recorded finding: " +
                          (problems[0] if problems else f"{vf[0][2]} {vf[0][3]}"), dict(replay, oracle=problems[:5]))
            continue
        if tf:
            ctx.violation("corpus case: model/code correspondence broken", dict(replay, correspondence=[t[:4] for t in tf[:5]]),
                          found_input=False)
            continue
        for key, msgs in ((KEY_ALT, alt), (KEY_REL, st["rel"]), (KEY_PREC, st["prec"]), (KEY_NEG, st["neg"]), (KEY_RETRY, st["retry"]),
                          (KEY_TWOSS, two)):
            if msgs:
                ctx.finding(key, msgs[0], dict(replay, oracle=msgs[:5]))
    ctx.cov["corpus_cases"] = n


def run(ctx):
    ok = ctx.prove([NAME])
    ctx.build_lib()
    exe = ctx.build_harness("ph_assemblage")
    n = ctx.n(400, 12000)
    if not ok:
        n = max(n, 6000)
    run_corpus(ctx, exe)
    dbi = {db: db_info(ctx, exe, db) for db in gen.DBS}
    ctx.cov["db_phases"] = {db: len([1 for p in v["phases"].values() if not p["gas"]]) for db, v in dbi.items()}
    specs = [gen.gen_case(ctx.rng, i, dbi) for i in range(n)]
    texts = {s["id"]: gen.render(s) for s in specs}
    byid = {s["id"]: s for s in specs}
    CH = 8
    batches = [[(s["id"], s["db"], texts[s["id"]]) for s in specs[i:i + CH]] for i in range(0, n, CH)]
    results = {}
    with concurrent.futures.ThreadPoolExecutor(max_workers=max(2, vlib.NCPU - 2)) as ex:
        for res in ex.map(lambda b: run_batch(ctx, exe, b), batches):
            results.update(res)
    ctx.log(f"{n} cases run; evaluating the model")
    ids = sorted(results)
    rels = {}
    chunks = [ids[i:i + 100] for i in range(0, len(ids), 100)]
    with concurrent.futures.ThreadPoolExecutor(max_workers=8) as ex:
        for per in ex.map(lambda ch: evaluate(ctx, {i: results[i] for i in ch}), chunks):
            rels.update(per)
    # probes on a subset of the completed cases with pure phases
    done_pp = [i for i in ids if results[i]["errors"] == 0 and results[i].get("done") and byid[i]["phases"]]
    npb = min(len(done_pp), ctx.n(60, 1200))
    pids = ctx.rng.sample(done_pp, npb) if npb else []
    probes = {i: make_probes(ctx.rng) for i in pids}
    pres = {}
    pb = [[(i, byid[i]["db"], texts[i]) for i in pids[k:k + 4]] for k in range(0, len(pids), 4)]
    with concurrent.futures.ThreadPoolExecutor(max_workers=max(2, vlib.NCPU - 2)) as ex:
        for res in ex.map(lambda b: run_batch(ctx, exe, b, probes), pb):
            pres.update(res)
    prels = evaluate(ctx, {i: dict(c, errors=0) for i, c in pres.items() if c.get("probed")}) if pres else {}
    nprobe = sum(len(v) for v in prels.values())
    probe_fail = [(i, r) for i, v in prels.items() for r in v if r[0] == "T" and not r[4]]
    # optimisation rows of ineq(): cl1's own rounding on the crafted (ill-conditioned) states allows a few loose rows;
    # per probe case at least 80 % of them must reproduce tightly (a changed row rule moves all of them)
    nrows = {"ineq_calls": 0}
    for i, v in prels.items():
        for r in v:
            if r[2].startswith("ineq-class-"):
                c = r[2][11:]
                nrows[c] = nrows.get(c, 0) + int(r[6])
                nrows[c + "_tight"] = nrows.get(c + "_tight", 0) + int(r[5])
        nrows["ineq_calls"] += sum(1 for r in v if r[2] == "ineq-backeq")
        nrows["sign_restricted"] = nrows.get("sign_restricted", 0) + int(sum(r[6] for r in v if r[2] == "ineq-sign-use"))
        nrows["sign_restricted_moved"] = nrows.get("sign_restricted_moved", 0) + int(sum(r[5] for r in v if r[2] == "ineq-sign-use"))
        nrows["cl1_kode0_infeasible_answers"] = nrows.get("cl1_kode0_infeasible_answers", 0) + sum(1 for r in v if r[2] == "ineq-cl1-feasible" and r[5] == 0.0)
        nrows["cl1_kode0_sign_violations"] = nrows.get("cl1_kode0_sign_violations", 0) + sum(1 for r in v if r[2] == "ineq-cl1-signs" and r[5] == 0.0)
    # rows of ineq(): per class (optimisation, equality, "do not remove more than present", "dissolve_only", solid solution) at
    # least 90 % of the rows over the run must reproduce cl1's residual tightly (a changed row rule moves the whole class;
    # cl1's own rounding moves ~1 row in 10^4)
    for c in ("opt", "eq", "remove", "dissolve", "ss"):
        if nrows.get(c, 0) >= 30 and nrows[c + "_tight"] < 0.9 * nrows[c] and pids:
            probe_fail.append((pids[0], ("T", "-", "ineq-class-" + c, "0", False, float(nrows[c + "_tight"]), float(nrows[c]))))
    ctx.cov["ineq_rows_checked"] = nrows
    # absent supersaturated phases carry the sign restriction "may only precipitate": in 55–75 % of the crafted states cl1
    # makes them precipitate (x < 0); a restriction with the wrong sign would leave all of them at 0
    if nrows.get("sign_restricted", 0) >= 40 and nrows["sign_restricted_moved"] < 0.25 * nrows["sign_restricted"] and pids:
        probe_fail.append((pids[0], ("T", "-", "ineq-sign-use", "0", False, float(nrows["sign_restricted_moved"]), float(nrows["sign_restricted"]))))
    hist = {"db": {}, "n_phases": {}, "phase_opts": {}, "temp": {"0-15": 0, "15-35": 0, "35-70": 0, "70-100": 0}, "with_exchange": {},
            "with_surface": 0, "with_ss": {}, "stages": {}, "not_completed": 0, "crashed": 0, "errors": {}, "phase_states": {},
            "relations": {}, "calcs": 0, "warn_local_minimum": 0, "target_si": {"0": 0, "neg": 0, "pos": 0},
            "initial_amount": {"0": 0, "10": 0, "other": 0}, "knobs": 0}
    nV = nT = 0
    distinct = 0
    tie_broken = []
    alt_cases = []
    rel_cases = []
    prec_cases = []
    neg_cases = []
    retry_cases = []
    extra_cases = {}
    for i in ids:
        s, c = byid[i], results[i]
        hist["db"][s["db"]] = hist["db"].get(s["db"], 0) + 1
        hist["n_phases"][str(len(s["phases"]))] = hist["n_phases"].get(str(len(s["phases"])), 0) + 1
        t = s["temp"]
        hist["temp"]["0-15" if t < 15 else "15-35" if t < 35 else "35-70" if t < 70 else "70-100"] += 1
        for p in s["phases"]:
            k = ("alt:" if "alt" in p else "") + p.get("opt", "plain") + (":force" if p.get("force_equality") else "")
            hist["phase_opts"][k] = hist["phase_opts"].get(k, 0) + 1
            hist["target_si"]["0" if p["si"] == 0 else "neg" if p["si"] < 0 else "pos"] += 1
            hist["initial_amount"]["0" if p["moles"] == 0 else "10" if p["moles"] == 10 else "other"] += 1
        if "exchange" in s:
            hist["with_exchange"][s["exchange"]["kind"]] = hist["with_exchange"].get(s["exchange"]["kind"], 0) + 1
        hist["with_surface"] += "surface" in s
        if "ss" in s:
            k = "ideal" if s["ss"]["ideal"] else s["ss"]["parm"]
            hist["with_ss"][k] = hist["with_ss"].get(k, 0) + 1
        hist["stages"][str(len(s["stages"]))] = hist["stages"].get(str(len(s["stages"])), 0) + 1
        hist["knobs"] += "knobs" in s
        if c.get("crashed"):
            hist["crashed"] += 1
            continue
        if c["errors"] != 0 or not c["done"]:
            hist["not_completed"] += 1
            key = (c["err"].strip().splitlines() or ["?"])[0][:70]
            hist["errors"][key] = hist["errors"].get(key, 0) + 1
            continue
        rl = rels.get(i, [])
        for r in rl:
            if r[0] == "N":
                if r[6] == 5 and (r[2] or r[3] or r[4] or r[5]):
                    distinct += 1
            else:
                hist["relations"][r[0] + ":" + r[2]] = hist["relations"].get(r[0] + ":" + r[2], 0) + 1
                nV += r[0] == "V"
                nT += r[0] == "T"
        problems, st, alt = direct_oracle(s, c)
        hist["calcs"] += st["calcs"]
        for k, v in st["phase_states"].items():
            hist["phase_states"][k] = hist["phase_states"].get(k, 0) + v
        for k in ("ex", "su", "ss_ideal", "ss_binary", "dump_checked", "initial_mismatch", "calcs_after_redefinition", "calcs_in_later_run", "gas_phase_entries",
                  "calcs_by_run_cells", "calcs_by_run_cells_incremental_later_step", "calcs_in_temperature_step_lists"):
            hist[k] = hist.get(k, 0) + st.get(k, 0)
        hist["sys_vs_tot_max_rel"] = max(hist.get("sys_vs_tot_max_rel", 0.0), st.get("sys_vs_tot_max_rel", 0.0))
        if "local minimum" in c.get("warn", ""):
            hist["warn_local_minimum"] += 1
        vf = [r for r in rl if r[0] == "V" and not r[4]]
        tf = [r for r in rl if r[0] == "T" and not r[4]]
        vf_main = [r for r in vf if r[2] != "valid-alt"]
        if st["neg"]:
            # the model's V relation sees the same negative residue: attributed to the finding, not judged twice
            vf_main = [r for r in vf_main if not (r[2].startswith("valid") and -1e-12 < r[5] < 0)]
            if not problems and not vf_main:
                neg_cases.append((i, st["neg"]))
        if "ss2" in s:
            # one phase in two solid solutions of the assemblage: fraction and lambda are stored on the shared phase, so at most
            # one of the two mass-action rows is right; the model sees the same (V ss-*-activity, T ss-phase-copy)
            shared = [r for r in vf_main if r[2] in ("ss-ideal-activity", "ss-binary-activity")]
            vf_main = [r for r in vf_main if r not in shared]
            tf = [r for r in tf if r[2] != "ss-phase-copy"]
            if (shared or st["twoss"]) and not problems and not vf_main:
                extra_cases.setdefault(KEY_TWOSS, []).append((i, st["twoss"] or [f"{r[2]} {r[3]}: SI = {r[5]!r} but log10(lambda*x) = {r[6]!r}" for r in shared]))
        if st["sstie"]:
            tf = tf + [("T", "-", "engine-value-vs-input-derived", m[:160], False, 0.0, 0.0) for m in st["sstie"][:3]]
        for k in ("ss_redefinitions", "ss_made_ideal_by_modify", "ss_param_checks"):
            hist[k] = hist.get(k, 0) + st.get(k, 0)
        if len(ctx.cov["samples"]) < 3 and st["calcs"] and any(r[0] == "V" and r[2].startswith("valid") for r in rl):
            ex_ = next(r for r in rl if r[0] == "V" and r[2].startswith("valid"))
            ctx.sample({"case": i, "db": s["db"], "temp": s["temp"], "phases": s["phases"], "relation": ex_[2], "phase": ex_[3],
                        "moles": ex_[5], "SI_minus_target": ex_[6], "input_head": texts[i][:500]})
        if vf_main or problems:
            report_failure(ctx, exe, s, c, vf, problems, alt)
            if len(ctx.violations) >= 3:
                break
        elif alt or [r for r in vf if r[2] == "valid-alt"]:
            alt_cases.append(i)
        if st["rel"] and not problems:
            rel_cases.append((i, st["rel"]))
        if st["prec"] and not problems:
            prec_cases.append((i, st["prec"]))
        if st["retry"] and not problems:
            retry_cases.append((i, st["retry"]))
        hist["related_accumulated"] = hist.get("related_accumulated", 0) + st.get("related_accumulated", 0)
        if tf:
            tie_broken.append((i, tf[:5]))
    deferred = []
    if alt_cases:
        hist["alt_formula_present_undersaturated_cases"] = len(alt_cases)
        deferred.append(("alt", alt_cases[0]))
    if rel_cases:
        hist["related_exchanger_offset_cases"] = len(rel_cases)
        deferred.append(("rel", rel_cases[0]))
    if retry_cases:
        hist["related_exchanger_after_failed_attempt_cases"] = len(retry_cases)
        deferred.append(("retry", retry_cases[0]))
    if neg_cases:
        hist["negative_residue_cases"] = len(neg_cases)
        deferred.append(("neg", neg_cases[0]))
    for key, lst in extra_cases.items():
        hist["cases:" + key] = len(lst)
        deferred.append(("extra", (key, lst[0])))
    if prec_cases:
        hist["related_exchanger_precipitate_only_cases"] = len(prec_cases)
        deferred.append(("prec", prec_cases[0]))
    ctx.cov["input_distribution"] = hist
    ctx.cov["evaluations"] = nV + nT + nprobe
    ctx.cov["property_relations_evaluated"] = nV
    ctx.cov["tie_relations_evaluated"] = nT
    ctx.cov["probe_relations_evaluated"] = nprobe
    ctx.cov["probe_cases"] = len([1 for c in pres.values() if c.get("probed")])
    ctx.cov["distinct_nontrivial"] = distinct
    ctx.cov["traces_validated_against_impl"] = distinct
    ctx.cov["rule"] = ("seeded specs (database × solution of 2–7 components, pH 3.5–10.5, 0–100 C × 1–6 minerals with target SI, initial "
                       "amount, dissolve_only / precipitate_only / force_equality / alternative formula × optional exchanger, surface, "
                       "solid solution × 0–2 later stages with REACTION / temperature change) rendered to PHREEQC input and run on the real "
                       "library; every USER_PUNCH row of a reaction calculation of a run that ends without ERROR is one block: the in-process "
                       "dump is re-evaluated by pmodel assemblage (V = relation of the property, T = code number = model number), the public "
                       "read-outs by the Python direct oracle; probes = crafted calls of the real residuals/check_residuals/ineq/reset. "
                       "distinct_nontrivial = reaction-calculation blocks with at least one heterogeneous unknown.")
    if probe_fail and not ctx.violations:
        i, r = probe_fail[0]
        ctx.violation("model/code correspondence broken: the real residuals()/check_residuals()/ineq()/reset() decide differently from the "
                      "model on crafted input (" + r[2] + ") while no failing input of the property was found",
                      {"correspondence": [dict(kind=q[2], round=q[1], unknown=q[3], code=q[5], model=q[6]) for j, q in probe_fail[:8] if j == i],
                       "spec": byid[i], "db": byid[i]["db"], "input": texts[i], "probes": probes[i],
                       "cases_with_probe_failures": len({j for j, _ in probe_fail})}, found_input=False)
    if tie_broken and not ctx.violations:
        i, tf = tie_broken[0]
        ctx.violation("model/code correspondence broken (a number the engine holds differs from the model's recomputation) "
                      "while every relation of the property still holds on the outputs",
                      {"correspondence": [dict(kind=t[2], name=t[3], code=t[5], model=t[6], block=t[1]) for t in tf],
                       "spec": byid[i], "db": byid[i]["db"], "input": texts[i], "cases_with_tie_failures": len(tie_broken)},
                      found_input=False)
    if not ok and not ctx.violations:
        ctx.violation("proof obligation of C03 no longer checks and no failing input was found",
                      {"broken": ctx.proof_broken}, found_input=False)
    # findings last: an unlisted finding must not hide a broken correspondence
    for kind, what in deferred:
        if kind == "alt":
            i = what
            problems, st, alt = direct_oracle(byid[i], results[i])
            vf = [r for r in rels.get(i, []) if r[0] == "V" and not r[4]]
            if alt:
                report_failure(ctx, exe, byid[i], results[i], vf, problems, alt, only_alt=True)
        elif kind == "neg":
            i, msgs = what

            def still(c2, vf2, p2, a2, i=i):
                return c2["errors"] == 0 and not p2 and bool(direct_oracle(still.spec, c2)[1]["neg"])
            small = byid[i]
            for _ in range(14):
                for cand in gen.shrink_candidates(small):
                    still.spec = cand
                    try:
                        t2, c2, vf2, p2, a2 = run_one(ctx, exe, cand)
                    except Exception:
                        continue
                    if still(c2, vf2, p2, a2):
                        small = cand
                        break
                else:
                    break
            t2, c2, vf2, p2, a2 = run_one(ctx, exe, small)
            m2 = direct_oracle(small, c2)[1]["neg"] if c2["errors"] == 0 else []
            if not m2:
                small, t2, m2 = byid[i], texts[i], msgs
            ctx.finding(KEY_NEG, "a phase that dissolves completely ends with a negative amount: " + m2[0],
                        {"spec": small, "db": small["db"], "input": t2, "oracle": m2[:5]})
        elif kind == "extra":
            key, (i, msgs) = what
            ctx.finding(key, msgs[0], {"spec": byid[i], "db": byid[i]["db"], "input": texts[i], "oracle": msgs[:5]})
        elif kind == "retry":
            i, msgs = what
            ctx.finding(KEY_RETRY, "EXCHANGE related to an equilibrium phase has a wrong number of sites after failed attempts: " + msgs[0],
                        {"spec": byid[i], "db": byid[i]["db"], "input": texts[i], "oracle": msgs[:5], "warnings": results[i].get("warn", "")[:600]})
        elif kind == "prec":
            i, msgs = what
            ctx.finding(KEY_PREC, "EXCHANGE related to a precipitate_only phase loses its sites: " + msgs[0],
                        {"spec": byid[i], "db": byid[i]["db"], "input": texts[i], "oracle": msgs[:5]})
        else:
            i, msgs = what
            ctx.finding(KEY_REL, "EXCHANGE related to an equilibrium phase: " + msgs[0],
                        {"spec": byid[i], "db": byid[i]["db"], "input": texts[i], "oracle": msgs[:5]})


def replay(ctx, data):
    ctx.prove([NAME])
    ctx.build_lib()
    exe = ctx.build_harness("ph_assemblage")
    text = data["input"]
    res = run_batch(ctx, exe, [(0, data["db"], text)])
    c = res[0]
    print("errors:", c["errors"], c["err"][:300])
    if c["errors"] != 0:
        print("run does not complete: outside the property")
        return
    rels = evaluate(ctx, res).get(0, [])
    vf = [r for r in rels if r[0] == "V" and not r[4]]
    tf = [r for r in rels if r[0] == "T" and not r[4]]
    print(f"{len(rels)} relations, {len(vf)} property relations failed, {len(tf)} tie relations failed")
    for f in (vf + tf)[:20]:
        print("  ", f[0], "block", f[1], f[2], f[3], repr(f[5]), repr(f[6]))
    problems, alt = [], []
    if "spec" in data:
        problems, st, alt = direct_oracle(data["spec"], c)
        for m in problems + alt:
            print("oracle:", m)
    pf = []
    if "probes" in data:
        pres = run_batch(ctx, exe, [(0, data["db"], text)], {0: data["probes"]})
        prels = evaluate(ctx, {0: dict(pres[0], errors=0)}).get(0, []) if pres[0].get("probed") else []
        pf = [r for r in prels if r[0] == "T" and not r[4]]
        print(f"{len(prels)} probe relations, {len(pf)} failed")
        for f in pf[:20]:
            print("  ", "round", f[1], f[2], "unknown", f[3], repr(f[5]), repr(f[6]))
    vf_main = [r for r in vf if r[2] != "valid-alt"]
    if "spec" in data and st.get("neg"):
        vf_main = [r for r in vf_main if not (r[2].startswith("valid") and -1e-12 < r[5] < 0)]
    two = []
    if "spec" in data and "ss2" in data["spec"]:
        shared = [r for r in vf_main if r[2] in ("ss-ideal-activity", "ss-binary-activity")]
        vf_main = [r for r in vf_main if r not in shared]
        tf = [r for r in tf if r[2] != "ss-phase-copy"]
        two = st["twoss"] or [f"{r[2]} {r[3]}" for r in shared]
    if vf_main or problems:
        ctx.violation("replayed input still violates the property: " + (problems[0] if problems else vf_main[0][2]), data)
    elif alt:
        ctx.finding(KEY_ALT, "replayed input: " + alt[0], data)
    elif "spec" in data and st.get("neg") and not [r for r in vf_main if not (-1e-12 < r[5] < 0)]:
        ctx.finding(KEY_NEG, "replayed input: " + st["neg"][0], data)
    elif two:
        ctx.finding(KEY_TWOSS, "replayed input: " + two[0], data)
    elif "spec" in data and st.get("retry"):
        ctx.finding(KEY_RETRY, "replayed input: " + st["retry"][0], data)
    elif "spec" in data and st.get("prec"):
        ctx.finding(KEY_PREC, "replayed input: " + st["prec"][0], data)
    elif "spec" in data and st.get("rel"):
        ctx.finding(KEY_REL, "replayed input: " + st["rel"][0], data)
    elif tf or pf:
        ctx.violation("replayed input: model/code correspondence still broken", data, found_input=False)


MANIFEST = dict(
    technique="Lean 4 theorems on an executable model of model()'s remove_unstable_phases loop, the PP / SS_MOLES / EXCH / SURFACE "
              "rows of residuals and check_residuals, ineq's phase-removal case, the pure-phase part of reset, ss_ideal / ss_binary / "
              "ss_calc_a0_a1, and the rows ineq() hands to cl1 (optimisation / equality / inequality rows, sign restrictions, zeroed columns); "
              "correspondence: the model re-evaluates in-process dumps of real runs and crafted calls of the real functions",
    text="Theorems (Properties/C03.lean, for all inputs/histories, over Rat with uninterpreted ln): model_ok_rows / "
         "model_ok_pp_admissible(_dissolve) (ANY loop body, any iteration count: model() completes without error ⇒ every pure phase lies in "
         "the admissible region of its residual branch), model_ok_phases_valid(_all) (⇒ ValidPhase at 1e-6 when 100·tol ≤ 1e-6·ln10), "
         "restrictions_respected (reset() keeps 0 ≤ moles and dissolve_only ⇒ moles ≤ initial for ANY cl1 answer), precipitate_only_respected, "
         "remove_unstable_exact, ssIdeal_simplex (fractions > 0, sum = 1), ss_ideal_activity (gate ⇒ SI = log10 x), ssBinary_fractions, "
         "guggenheim_excess / guggenheim_gibbs_duhem / guggParams_forms, exchange_capacity, surface_sites, runModel_invariant, "
         "ineq_rows_keep_restrictions (ANY vector satisfying the pure-phase inequality rows and sign restrictions that ineq() writes keeps "
         "0 ≤ moles and dissolve_only ⇒ moles ≤ initial), ppIneqRows_mem, feasible_no_scaling; non-vacuity "
         "examples. Obligation over generated data: pmodel assemblage (same definitions on Float) on each completed reaction calculation of "
         "seeded runs: ValidPhase(1e-6) from the engine's la/lk/moles, Σ exchange species = capacity and Σ surface species = sites (1e-8), "
         "fractions ≥ 0 summing to 1, ideal component SI = log10 x; Python direct oracle of the same statements on SELECTED_OUTPUT / USER_PUNCH "
         "EQUI SI S_S SYS / DUMP. Correspondence: f, IAP, residual of every PP/SS/EXCH/SURFACE row, fractions, log10 lambda, a0/a1; the gate "
         "model accepts every state the code accepted; probes: the real residuals / check_residuals / ineq / reset answer as the model does "
         "on crafted (f, moles, delta) around every threshold; ineq(1) is called on the crafted states and cl1's answer ties the row model: "
         "back_eq = the model's row sources in order (exact); per row class (optimise, equality, remove, dissolve_only, solid solution) ≥ 90 % of the "
         "rows over the run reproduce cl1's residual rhs − row·x to 1e-6 relative; restricted variables take the allowed sign.",
    note="Trusted: Lean kernel; harness/ph_assemblage.cpp (friend access, BASIC CALLBACK at punch time, crafted calls with state restored); "
         "tools/props/c03.py; libm. Partial: the inequality solver (ineq's matrix set-up, cl1) is an oracle of the model — its answers are "
         "constrained only through reset() and the gate; gases in EQUILIBRIUM_PHASES are not generated (the property speaks of minerals); "
         "phases with an alternative formula are only guaranteed not supersaturated by the code (present & undersaturated is a WARNING) and "
         "are routed to a finding; ss_calc_a0_a1 is modelled for -Gugg_nondim, -Gugg_kJ, -Thompson, -Margules only. Runs that end with "
         "ERROR are counted, not judged.",
)
