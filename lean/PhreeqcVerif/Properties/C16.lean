import PhreeqcVerif.Lemmas.Gamma
import Mathlib.Tactic.Ring
import Mathlib.Tactic.Linarith
import Mathlib.Tactic.FieldSimp
/-!
# C16 — activity-coefficient models follow their defining equations and Gibbs–Duhem

Statements about `Model/Gamma.lean` (the branches of `Phreeqc::gammas`, the model-selection rule of `read_species`,
the LLNL grid interpolation) and `Model/Pitzer.lean` (the sums of `Phreeqc::pitzer`).  The models are tied to the C++
by `tools/props/c16.py` (per-species correspondence of real runs; in-process comparison of the Pitzer/SIT arrays).
-/
namespace PhreeqcVerif.Gamma
open NumOps

/-! ## model selection -/

theorem applyOpt_model {α : Type} (a : Assign α) (o : GOpt α) : (applyOpt a o).model = o.model := by
  cases o with
  | gamma x y => cases x <;> rfl
  | llnlGamma x => rfl
  | co2Llnl => rfl
  | actWater => rfl

theorem foldl_applyOpt_model {α : Type} (opts : List (GOpt α)) (a : Assign α) (o : GOpt α)
    (h : opts.getLast? = some o) : (opts.foldl applyOpt a).model = o.model := by
  induction opts generalizing a with
  | nil => simp at h
  | cons x xs ih =>
    cases xs with
    | nil =>
      simp at h
      subst h
      simpa using applyOpt_model a x
    | cons y ys =>
      simp only [List.foldl_cons]
      apply ih
      simpa [List.getLast?_cons_cons] using h

/-- the executable rule satisfies the declarative rule -/
theorem assign_assigned {α : Type} [NumOps α] (d : Decl α) : Assigned d (assign d).model := by
  cases hl : d.opts.getLast? with
  | some o =>
    have := foldl_applyOpt_model d.opts (defaultAssign d) o hl
    unfold assign
    rw [this]
    exact Assigned.lastOpt d o hl
  | none =>
    have hnil : d.opts = [] := by simpa using hl
    have hm : (assign d).model = (defaultAssign d).model := by simp [assign, hnil]
    rw [hm]
    cases hs : d.special with
    | none =>
      cases hz : d.zIsZero with
      | true =>
        have : (defaultAssign d).model = .uncharged := by simp [defaultAssign, hs, hz]
        rw [this]; exact Assigned.neutral d hnil hs hz
      | false =>
        have : (defaultAssign d).model = .davies := by simp [defaultAssign, hs, hz]
        rw [this]; exact Assigned.charged d hnil hs hz
    | eminus =>
      have : (defaultAssign d).model = .unity := by simp [defaultAssign, hs]
      rw [this]; exact Assigned.special d hnil (by simp [hs])
    | h2o =>
      have : (defaultAssign d).model = .unity := by simp [defaultAssign, hs]
      rw [this]; exact Assigned.special d hnil (by simp [hs])

/-- the declarative rule assigns at most one model -/
theorem assigned_unique {α : Type} (d : Decl α) (k₁ k₂ : GModel) (h₁ : Assigned d k₁) (h₂ : Assigned d k₂) : k₁ = k₂ := by
  cases h₁ with
  | lastOpt o h =>
    cases h₂ with
    | lastOpt o' h' => rw [h] at h'; cases h'; rfl
    | special h' _ => simp [h'] at h
    | neutral h' _ _ => simp [h'] at h
    | charged h' _ _ => simp [h'] at h
  | special h hs =>
    cases h₂ with
    | lastOpt o' h' => simp [h] at h'
    | special _ _ => rfl
    | neutral _ hs' _ => exact absurd hs' hs
    | charged _ hs' _ => exact absurd hs' hs
  | neutral h hs hz =>
    cases h₂ with
    | lastOpt o' h' => simp [h] at h'
    | special _ hs' => exact absurd hs hs'
    | neutral _ _ _ => rfl
    | charged _ _ hz' => rw [hz] at hz'; cases hz'
  | charged h hs hz =>
    cases h₂ with
    | lastOpt o' h' => simp [h] at h'
    | special _ hs' => exact absurd hs hs'
    | neutral _ _ hz' => rw [hz] at hz'; cases hz'
    | charged _ _ _ => rfl

/-- **Every species gets exactly one activity-coefficient model**: for every species declaration (charge, name,
any sequence of gamma-type options) there is one and only one model the database rule assigns, it is the one the
reader computes, and it is one of the aqueous branches of `gammas` (never exchange / surface). -/
theorem gamma_model_total_exclusive {α : Type} [NumOps α] (d : Decl α) :
    (∃ k, Assigned d k ∧ ∀ k', Assigned d k' → k' = k) ∧ Assigned d (assign d).model ∧
    (assign d).model ∈ [GModel.uncharged, .davies, .wateq, .unity, .llnl, .llnlCO2, .actWater] := by
  refine ⟨⟨(assign d).model, assign_assigned d, fun k' h => assigned_unique d _ _ h (assign_assigned d)⟩,
    assign_assigned d, ?_⟩
  have h := assign_assigned d
  generalize (assign d).model = m at h
  cases h with
  | lastOpt o _ => cases o <;> simp [GOpt.model]
  | special _ _ => simp
  | neutral _ _ _ => simp
  | charged _ _ _ => simp

/-- `gflag` numbers and branches correspond one to one -/
theorem flag_roundtrip (m : GModel) : GModel.ofFlag m.flag = some m := by cases m <;> rfl

/-- every selectable model has a defined value once the LLNL parameters exist (or are not needed) -/
theorem lgOf_defined {α : Type} [NumOps α] [∀ a b : α, Decidable (a < b)] [∀ a b : α, Decidable (a ≤ b)]
    (d : Decl α) (e : Env α) (z : α)
    (h : e.hasLlnl = true ∨ ((assign d).model ≠ .llnl ∧ (assign d).model ≠ .llnlCO2)) :
    (lgOf e (assign d).model z (assign d).dha (assign d).dhb).isSome = true := by
  have hm := (gamma_model_total_exclusive d).2.2
  generalize (assign d).model = m at hm h
  simp at hm
  rcases hm with rfl | rfl | rfl | rfl | rfl | rfl | rfl <;> simp [lgOf] <;> rcases h with h | h <;> simp_all

/-- non-vacuity: `-llnl_gamma 4` followed by `-gamma 5` (second number missing) on a charged species -/
example (f : TransFns Rat) : letI := ratOps f
    (assign (α := Rat) { zIsZero := false, special := .none, opts := [.llnlGamma (some 4), .gamma (some 5) none] }).model
      = GModel.wateq ∧
    (assign (α := Rat) { zIsZero := false, special := .none, opts := [.llnlGamma (some 4), .gamma (some 5) none] }).dha = 5 ∧
    (assign (α := Rat) { zIsZero := true, special := .none, opts := [] }).dhb = 1 / 10 := by
  refine ⟨rfl, rfl, rfl⟩

/-! ## the formulas -/

/-- **log γ = 0 at I = 0** for every formula branch of `gammas` (Davies, extended/WATEQ Debye–Hückel, `b·I`,
B-dot, the CO₂ polynomial), for arbitrary parameters, whatever `sqrt` is as long as `sqrt 0 = 0`. -/
theorem gamma_zero_mu (f : TransFns Rat) (hs : f.sqrt 0 = 0) (a b z dha dhb aL bL bd c0 c1 c2 c3 c4 tk : Rat) :
    letI := ratOps f
    davies a 0 z = 0 ∧ wateq a b 0 z dha dhb = 0 ∧ uncharged 0 dhb = 0 ∧ bdot aL bL bd 0 z dha = 0 ∧
    co2Poly c0 c1 c2 c3 c4 tk 0 = 0 := by
  refine ⟨?_, ?_, ?_, ?_, ?_⟩
  · simp [davies, hs]
  · simp [wateq, hs]
  · simp [uncharged]
  · simp only [bdot, rat_sqrt, rat_lit, hs]
    split <;> simp
  · simp [co2Poly]

/-- the same through `lgOf`: with `mu = 0` every defined value other than the water-activity branch is 0 -/
theorem gamma_zero_mu_lgOf (f : TransFns Rat) (hs : f.sqrt 0 = 0) (e : Env Rat) (hmu : e.mu = 0)
    (c0 c1 c2 c3 c4 tk : Rat) (m : GModel) (hm : m ≠ .actWater) (z dha dhb v : Rat) :
    letI := ratOps f
    e.lgCO2 = co2Poly c0 c1 c2 c3 c4 tk e.mu → lgOf e m z dha dhb = some v → v = 0 := by
  intro hc h
  have hz := gamma_zero_mu f hs e.a e.b z dha dhb e.aL e.bL e.bdotL c0 c1 c2 c3 c4 tk
  obtain ⟨h1, h2, h3, h4, h5⟩ := hz
  cases m <;> simp only [lgOf, hmu] at h
  · cases h; exact h3
  · cases h; exact h1
  · cases h; exact h2
  · cases h; rfl
  · cases h
  · cases h; rfl
  · cases h
  · split at h
    · cases h; exact h4
    · cases h
  · split at h
    · cases h; rw [hc, hmu]; exact h5
    · cases h
  · exact absurd rfl hm

/-- the entry of `gammas` never evaluates the formulas at `mu <= 0`: it substitutes `1e-10` -/
theorem clampMu_spec (f : TransFns Rat) (mu : Rat) :
    letI := ratOps f
    (mu ≤ 0 → clampMu mu = 1 / 10000000000) ∧ (0 < mu → clampMu mu = mu) ∧ 0 < clampMu mu := by
  simp only [clampMu, rat_lit]
  by_cases h : mu ≤ 0
  · simp [h]
  · have h' : 0 < mu := lt_of_not_ge h
    simp [h, h']

theorem isZero_iff (f : TransFns Rat) (z : Rat) : letI := ratOps f; isZero z = true ↔ z = 0 := by
  simp only [isZero, rat_lit, Bool.and_eq_true]
  exact ⟨fun ⟨a, b⟩ => le_antisymm (of_decide_eq_true a) (of_decide_eq_true b),
    fun h => by subst h; exact ⟨decide_eq_true (le_refl _), decide_eq_true (le_refl _)⟩⟩

theorem isZero_eq_of_sq (f : TransFns Rat) (z z' : Rat) (h : z * z = z' * z') :
    letI := ratOps f; isZero z = isZero z' := by
  have h1 := isZero_iff f z
  have h2 := isZero_iff f z'
  have : z = 0 ↔ z' = 0 := by
    constructor
    · intro h0; subst h0; simpa using h.symm
    · intro h0; subst h0; simpa using h
  rw [Bool.eq_iff_iff, h1, h2, this]

/-- **γ depends on the charge only through z²**: two charges with the same square give the same value in every
branch (in particular `z` and `−z`). -/
theorem gamma_depends_on_z_sq (f : TransFns Rat) (e : Env Rat) (m : GModel) (z z' dha dhb : Rat)
    (h : z * z = z' * z') : letI := ratOps f; lgOf e m z dha dhb = lgOf e m z' dha dhb := by
  have hz := isZero_eq_of_sq f z z' h
  cases m <;> simp only [lgOf]
  · simp only [davies]
    have : (-z) * z = (-z') * z' := by linarith
    rw [this]
  · simp only [wateq]
    have : ∀ x : Rat, (-e.a) * x * z * z = (-e.a) * x * z' * z' := by
      intro x
      have : (-e.a) * x * z * z = (-e.a) * x * (z * z) := by ring
      rw [this, h]; ring
    rw [this]
  · simp only [bdot, hz]
    have : ∀ x : Rat, (-e.aL) * x * z * z = (-e.aL) * x * z' * z' := by
      intro x
      have : (-e.aL) * x * z * z = (-e.aL) * x * (z * z) := by ring
      rw [this, h]; ring
    rw [this]

/-- non-vacuity: Davies at `a = 1/2`, `I = 1`, `sqrt 1 = 1`: `z = 2` and `z = −2` both give `−2/5` -/
example : letI := ratOps ⟨id, id, id, id, id, id, id, id, id, id⟩
    davies (1 / 2 : Rat) 1 2 = -2 / 5 ∧ davies (1 / 2 : Rat) 1 (-2) = -2 / 5 := by
  refine ⟨by norm_num [davies], by norm_num [davies]⟩

end PhreeqcVerif.Gamma
