import PhreeqcVerif.Lemmas.Thermo
import PhreeqcVerif.Gen.SpeciationSrc
/-!
# C01 — speciation: property theorems

Everything is over `Rat` with `ratOps f` for an ARBITRARY `f : TransFns Rat` (`log10`, `ln`, `sqrt`, `exp10` uninterpreted),
for all inputs, token lists of any length, any fuel.

1–2. `kCalc` (model of `k_calc`) is linear in the log K vector, reduces to the 1 atm expression at `P ≤ pRef`, to `log_k`
     at 25 °C, to van 't Hoff without analytic terms; `delta_h` unit conversion.
3–5. `rewriteToMasters` (substitution of non-master species, `trxn_add` + `trxn_combine`) preserves the residual of the
     mass-action equation for every linear log K functional, and element/charge balance.
6.   `speciateLm` (the assignment in `molalities()`) satisfies mass action.
7.   the gate: `runModel` returns `ok` only in states where `residuals()` reports CONVERGED and `check_residuals()` is silent,
     whatever the Newton step / "try again" decisions are; what the tests mean per unknown type.
8.   read-outs, sums.   9. concrete instances.
10.  the constants of the C++ source (`Gen/SpeciationSrc.lean`, regenerated on every run) are the model's; named
     expressions (`select_log_k_expression`, `add_other_logk`, `add_logks`); `calc_alk` lookup order; `under()`; valence totals.
-/
namespace PhreeqcVerif.C01
open PhreeqcVerif PhreeqcVerif.Thermo PhreeqcVerif.Speciation

/-! ### 1–2. log K(T, P) -/

/-- `trxn_add` on the log K vector is `k_calc`-linear (both branches of the pressure test) -/
theorem kCalc_addScaled (f : TransFns Rat) (p q : LogK Rat) (c T P : Rat) :
    letI := ratOps f
    kCalc (p.addScaled c q) T P = kCalc p T P + c * kCalc q T P := by
  simp only [kCalc, LogK.addScaled, NumOps.lit, NumOps.ofRat, NumOps.log10, NumOps.ln, id]
  grind

theorem kCalc_linear (f : TransFns Rat) (p q : LogK Rat) (a b T P : Rat) :
    letI := ratOps f
    kCalc ((LogK.smul a p).add (LogK.smul b q)) T P = a * kCalc p T P + b * kCalc q T P := by
  simp only [kCalc, LogK.add, LogK.smul, NumOps.lit, NumOps.ofRat, NumOps.log10, NumOps.ln, id]
  grind

theorem kCalc_pressure_off (f : TransFns Rat) (p : LogK Rat) (T P : Rat) (hP : P ≤ pRef) :
    letI := ratOps f
    kCalc p T P = kCalc1atm p T := by
  simp only [kCalc, kCalc1atm, NumOps.lit, NumOps.ofRat, NumOps.log10, NumOps.ln, id]
  grind

theorem kCalc_reference (f : TransFns Rat) (k0 dh dv P : Rat) (hP : P ≤ pRef) :
    letI := ratOps f
    kCalc ⟨k0, dh, 0, 0, 0, 0, 0, 0, dv⟩ tRef P = k0 := by
  simp only [kCalc, NumOps.lit, NumOps.ofRat, NumOps.log10, NumOps.ln, id]
  grind

theorem vant_hoff (f : TransFns Rat) (k0 dh dv T : Rat) :
    letI := ratOps f
    kCalc1atm ⟨k0, dh, 0, 0, 0, 0, 0, 0, dv⟩ T = k0 - dh * (tRef - T) / (f.ln 10 * (T * rKJ) * tRef) := by
  simp only [kCalc1atm, NumOps.lit, NumOps.ofRat, NumOps.log10, NumOps.ln, id]
  grind

theorem dhToKJ_linear (f : TransFns Rat) (u : DHUnit) (a x : Rat) :
    letI := ratOps f
    dhToKJ u (a * x) = a * dhToKJ u x := by
  cases u <;> simp only [dhToKJ, NumOps.lit, NumOps.ofRat, id] <;> grind

theorem dhToKJ_kcal (f : TransFns Rat) (x : Rat) :
    letI := ratOps f
    dhToKJ .kcal x = x * (4184 / 1000) := by
  simp only [dhToKJ, NumOps.lit, NumOps.ofRat, id]

theorem dhToKJ_cal (f : TransFns Rat) (x : Rat) :
    letI := ratOps f
    dhToKJ .cal x = x * (4184 / 1000000) := by
  simp only [dhToKJ, NumOps.lit, NumOps.ofRat, id]; grind

theorem dhToKJ_J (f : TransFns Rat) (x : Rat) :
    letI := ratOps f
    dhToKJ .J x = x / 1000 := by
  simp only [dhToKJ, NumOps.lit, NumOps.ofRat, id]

/-- non-vacuity: above the reference pressure the volume term is present (so `P ≤ pRef` in `kCalc_pressure_off` matters),
at it the 1 atm value is returned, and linearity on concrete vectors (with `ln := id`, i.e. `ln 10 = 10`) -/
example : letI := ratOps (⟨id, id, id, id, id, id, id, id, id, id⟩ : TransFns Rat)
    let p : LogK Rat := ⟨10329 / 1000, -3561 / 1000, 1078871 / 10000, 3252849 / 100000000, -515179 / 100, -3892561 / 100000, 56371390 / 100, 0, -278 / 10⟩
    let q : LogK Rat := ⟨6352 / 1000, -2177 / 1000, 0, 0, 0, 0, 0, 0, 2627 / 100⟩
    kCalc p 300 (2 * pRef) ≠ kCalc1atm p 300 ∧ kCalc p 300 pRef = kCalc1atm p 300 ∧
    kCalc (p.addScaled 2 q) 300 (2 * pRef) = kCalc p 300 (2 * pRef) + 2 * kCalc q 300 (2 * pRef) ∧
    kCalc q tRef pRef = 6352 / 1000 ∧ kCalc q 300 pRef ≠ 6352 / 1000 := by
  decide +kernel

/-! ### 6. `molalities()` -/

theorem speciate_mass_action (f : TransFns Rat) (lk lg : Rat) (la : String → Rat) (body : List (String × Rat)) :
    letI := ratOps f
    speciateLm lk lg la body + lg = lk + evalBody la body := by
  simp only [speciateLm]; grind

theorem speciate_residual (f : TransFns Rat) (K : LogK Rat → Rat) (lg : Rat) (la : String → Rat) (e : Eqn Rat) :
    letI := ratOps f
    la e.head = speciateLm (K e.k) lg la e.body + lg → residual la K e = 0 := by
  simp only [speciateLm, residual]; grind

/-! ### 7. the convergence gate -/

theorem iterate_sound (f : TransFns Rat) {σ : Type} (view : σ → GateCtx Rat × List (Unknown Rat)) (step : σ → σ)
    (fuel : Nat) (s s' : σ) :
    letI := ratOps f
    iterate view step fuel s = some s' → converged (view s').1 (view s').2 = true := by
  intro h
  induction fuel generalizing s with
  | zero =>
    simp only [iterate] at h
    split at h
    · cases h; assumption
    · cases h
  | succ n ih =>
    simp only [iterate] at h
    split at h
    · cases h; assumption
    · exact ih _ h

theorem gate_sound (f : TransFns Rat) {σ : Type} (view : σ → GateCtx Rat × List (Unknown Rat)) (step : σ → σ)
    (again : σ → Option σ) (itmax passes : Nat) (s s' : σ) :
    letI := ratOps f
    runModel view step again itmax passes s = .ok s' →
      converged (view s').1 (view s').2 = true ∧ checkResiduals (view s').1 (view s').2 = true := by
  intro h
  induction passes generalizing s with
  | zero => simp only [runModel] at h; cases h
  | succ n ih =>
    simp only [runModel] at h
    split at h
    · cases h
    · rename_i s1 hit
      split at h
      · rename_i hc
        split at h
        · cases h
          exact ⟨iterate_sound f view step itmax s _ hit, hc⟩
        · exact ih _ h
      · cases h

/-! ### 3. linear algebra of token lists -/

theorem evalBody_append (f : TransFns Rat) (v : String → Rat) (a b : List (String × Rat)) :
    letI := ratOps f; evalBody v (a ++ b) = evalBody v a + evalBody v b :=
  Speciation.evalBody_append f v a b

theorem evalBody_scaleBody (f : TransFns Rat) (v : String → Rat) (c : Rat) (b : List (String × Rat)) :
    letI := ratOps f; evalBody v (scaleBody c b) = c * evalBody v b :=
  Speciation.evalBody_scaleBody f v c b

theorem evalBody_removeName (f : TransFns Rat) (v : String → Rat) (n : String) (b : List (String × Rat)) :
    letI := ratOps f; evalBody v (removeName n b) + coefOf n b * v n = evalBody v b :=
  Speciation.evalBody_removeName f v n b

theorem evalBody_addTerm (f : TransFns Rat) (v : String → Rat) (n : String) (c : Rat) (b : List (String × Rat)) :
    letI := ratOps f; evalBody v (addTerm n c b) = evalBody v b + c * v n :=
  Speciation.evalBody_addTerm f v n c b

theorem evalBody_mergeInto (f : TransFns Rat) (v : String → Rat) (acc b : List (String × Rat)) :
    letI := ratOps f; evalBody v (mergeInto acc b) = evalBody v acc + evalBody v b :=
  Speciation.evalBody_mergeInto f v acc b

/-- `trxn_combine` does not change the value of the linear form, provided `drop` only removes exact zeros -/
theorem evalBody_normalise (f : TransFns Rat) (v : String → Rat) (drop : Rat → Bool)
    (hdrop : ∀ c, drop c = true → c = 0) (b : List (String × Rat)) :
    letI := ratOps f; evalBody v (normalise drop b) = evalBody v b :=
  Speciation.evalBody_normalise f v drop hdrop b

/-- eliminating species `n` through its defining equation `d` adds `coef(n)` times the residual of `d` -/
theorem residual_substOne (f : TransFns Rat) (la : String → Rat) (K : LogK Rat → Rat)
    (hK : letI := ratOps f; ∀ (p q : LogK Rat) (c : Rat), K (p.addScaled c q) = K p + c * K q)
    (n : String) (d e : Eqn Rat) (hd : d.head = n) :
    letI := ratOps f
    residual la K (substOne n d e) = residual la K e + coefOf n e.body * residual la K d :=
  Speciation.residual_substOne f la K hK n d e hd

/-- `rewrite_master_to_secondary`: the pivoted equation is `pm − (c1/c2)·pm0` -/
theorem residual_pivot (f : TransFns Rat) (la : String → Rat) (K : LogK Rat → Rat)
    (hK : letI := ratOps f; ∀ (p q : LogK Rat) (c : Rat), K (p.addScaled c q) = K p + c * K q)
    (p : String) (pm pm0 : Eqn Rat) :
    letI := ratOps f
    (pivot p pm pm0).head = pm.head ∧
    residual la K (pivot p pm pm0)
      = residual la K pm - (coefOf p pm.body / coefOf p pm0.body) * residual la K pm0 :=
  Speciation.residual_pivot f la K hK p pm pm0

/-! ### 4. rewriting to the masters in use preserves mass action -/

/-- main statement: for every fuel, every list, every `K` that is linear for `addScaled` (e.g. `kCalc · T P`,
`kCalc_addScaled`): the rewritten equation has the same head and the same residual -/
theorem rewrite_residual_eq (f : TransFns Rat) (drop : Rat → Bool) (inUse : String → Bool)
    (defs : String → Option (Eqn Rat)) (la : String → Rat) (K : LogK Rat → Rat)
    (hK : letI := ratOps f; ∀ (p q : LogK Rat) (c : Rat), K (p.addScaled c q) = K p + c * K q)
    (hdrop : ∀ c, drop c = true → c = 0)
    (hdefs : letI := ratOps f; ∀ n d, defs n = some d → d.head = n ∧ residual la K d = 0)
    (fuel : Nat) (e e' : Eqn Rat) :
    letI := ratOps f
    rewriteToMasters drop inUse defs fuel e = some e' →
      e'.head = e.head ∧ residual la K e' = residual la K e :=
  Speciation.rewrite_residual f drop inUse defs la K hK hdrop hdefs fuel e e'

theorem rewrite_mass_action_iff (f : TransFns Rat) (drop : Rat → Bool) (inUse : String → Bool)
    (defs : String → Option (Eqn Rat)) (la : String → Rat) (K : LogK Rat → Rat)
    (hK : letI := ratOps f; ∀ (p q : LogK Rat) (c : Rat), K (p.addScaled c q) = K p + c * K q)
    (hdrop : ∀ c, drop c = true → c = 0)
    (hdefs : letI := ratOps f; ∀ n d, defs n = some d → d.head = n ∧ residual la K d = 0)
    (fuel : Nat) (e e' : Eqn Rat) :
    letI := ratOps f
    rewriteToMasters drop inUse defs fuel e = some e' →
      (residual la K e' = 0 ↔ residual la K e = 0) := by
  intro h
  rw [(rewrite_residual_eq f drop inUse defs la K hK hdrop hdefs fuel e e' h).2]

/-- the special case `K := kCalc · T P` (any temperature, any pressure): the linearity hypothesis is `kCalc_addScaled` -/
theorem rewrite_mass_action_kCalc (f : TransFns Rat) (drop : Rat → Bool) (inUse : String → Bool)
    (defs : String → Option (Eqn Rat)) (la : String → Rat) (T P : Rat)
    (hdrop : ∀ c, drop c = true → c = 0)
    (hdefs : letI := ratOps f; ∀ n d, defs n = some d → d.head = n ∧ residual la (fun k => kCalc k T P) d = 0)
    (fuel : Nat) (e e' : Eqn Rat) :
    letI := ratOps f
    rewriteToMasters drop inUse defs fuel e = some e' →
      e'.head = e.head ∧ residual la (fun k => kCalc k T P) e' = residual la (fun k => kCalc k T P) e :=
  rewrite_residual_eq f drop inUse defs la _ (fun p q c => kCalc_addScaled f p q c T P) hdrop hdefs fuel e e'

theorem firstOut_none (inUse : String → Bool) (b : List (String × Rat)) :
    firstOut inUse b = none → ∀ p ∈ b, inUse p.1 = true :=
  Speciation.firstOut_none inUse b

/-- a successful rewrite mentions only masters in use -/
theorem rewrite_only_masters (f : TransFns Rat) (drop : Rat → Bool) (inUse : String → Bool)
    (defs : String → Option (Eqn Rat)) (fuel : Nat) (e e' : Eqn Rat) :
    letI := ratOps f
    rewriteToMasters drop inUse defs fuel e = some e' → ∀ p ∈ e'.body, inUse p.1 = true :=
  fun h => Speciation.firstOut_none inUse _ (Speciation.rewrite_firstOut f drop inUse defs fuel e e' h)

/-! ### 5. element and charge balance -/

/-- `w` = number of atoms of one element in (or charge of) each species. If every defining equation is balanced, the
rewritten right-hand side carries the same amount as the original one; hence balanced iff balanced. -/
theorem rewrite_preserves_balance (f : TransFns Rat) (drop : Rat → Bool) (inUse : String → Bool)
    (defs : String → Option (Eqn Rat)) (w : String → Rat)
    (hdrop : ∀ c, drop c = true → c = 0)
    (hdefs : letI := ratOps f; ∀ n d, defs n = some d → d.head = n ∧ evalBody w d.body = w d.head)
    (fuel : Nat) (e e' : Eqn Rat) :
    letI := ratOps f
    rewriteToMasters drop inUse defs fuel e = some e' →
      evalBody w e'.body = evalBody w e.body ∧ (evalBody w e'.body = w e'.head ↔ evalBody w e.body = w e.head) := by
  intro h
  have hh := rewrite_residual_eq f drop inUse defs w (fun _ => 0) (fun _ _ _ => by grind) hdrop
    (fun n d hd => by
      obtain ⟨h1, h2⟩ := hdefs n d hd
      refine ⟨h1, ?_⟩
      simp only [residual]; grind) fuel e e' h
  obtain ⟨h1, h2⟩ := hh
  simp only [residual] at h2
  rw [h1] at h2 ⊢
  constructor <;> grind

/-! ### 7b–8. the convergence tests, sums, read-outs -/

theorem absv_eq_abs (f : TransFns Rat) (x : Rat) : letI := ratOps f; absv x = |x| := by
  simp only [absv, NumOps.lit, NumOps.ofRat, id]
  by_cases h : x < 0
  · rw [abs_of_neg h]; grind
  · rw [abs_of_nonneg (not_lt.mp h)]; grind

theorem converged_mb (f : TransFns Rat) (c : GateCtx Rat) (us : List (Unknown Rat)) (u : Unknown Rat) :
    letI := ratOps f
    converged c us = true → u ∈ us → u.type = .mb →
      0 ≤ u.moles ∧ (absv (u.moles - u.f) ≤ c.tol * u.moles ∨
        absv (u.moles - u.f) ≤ f.sqrt (absv u.moles * c.minTotal) ∨ u.moles ≤ c.minTotal) := by
  intro h hu ht
  have h1 := (List.all_eq_true.mp h) u hu
  simp only [fails, residualOf, ht, NumOps.lit, NumOps.ofRat, NumOps.sqrt, id] at h1
  grind

theorem converged_alk (f : TransFns Rat) (c : GateCtx Rat) (us : List (Unknown Rat)) (u : Unknown Rat) :
    letI := ratOps f
    converged c us = true → u ∈ us → u.type = .alk → absv (u.moles - u.f) ≤ c.tol * u.moles := by
  intro h hu ht
  have h1 := (List.all_eq_true.mp h) u hu
  simp only [fails, residualOf, ht] at h1
  grind

theorem converged_cb (f : TransFns Rat) (c : GateCtx Rat) (us : List (Unknown Rat)) (u : Unknown Rat) :
    letI := ratOps f
    converged c us = true → u ∈ us → u.type = .cb →
      absv (if c.phIsCb then 0 - u.f + u.moles else 0 - u.f) < c.tol * c.mu * c.massWater := by
  intro h hu ht
  have h1 := (List.all_eq_true.mp h) u hu
  simp only [fails, residualOf, ht, NumOps.lit, NumOps.ofRat, id] at h1
  grind

theorem converged_mu (f : TransFns Rat) (c : GateCtx Rat) (us : List (Unknown Rat)) (u : Unknown Rat) :
    letI := ratOps f
    converged c us = true → u ∈ us → u.type = .mu →
      absv (c.massWater * c.mu - 1 / 2 * u.f) ≤ c.tol * c.mu * c.massWater := by
  intro h hu ht
  have h1 := (List.all_eq_true.mp h) u hu
  simp only [fails, residualOf, ht, NumOps.lit, NumOps.ofRat, id] at h1
  grind

theorem checkResiduals_mb (f : TransFns Rat) (c : GateCtx Rat) (us : List (Unknown Rat)) (u : Unknown Rat) :
    letI := ratOps f
    checkResiduals c us = true → u ∈ us → (u.type = .mb ∨ u.type = .alk) →
      (absv (u.moles - u.f) < c.tol * u.moles ∨
        absv (u.moles - u.f) ≤ f.sqrt (absv u.moles * c.minTotal) ∨ u.moles ≤ c.minTotal) := by
  intro h hu ht
  have h1 := (List.all_eq_true.mp h) u hu
  rcases ht with ht | ht <;>
  · simp only [checkFails, residualOf, ht, NumOps.sqrt] at h1
    grind

theorem checkResiduals_cb (f : TransFns Rat) (c : GateCtx Rat) (us : List (Unknown Rat)) (u : Unknown Rat) :
    letI := ratOps f
    checkResiduals c us = true → u ∈ us → u.type = .cb →
      absv (if c.phIsCb then 0 - u.f + u.moles else 0 - u.f) < c.tol * c.mu * c.massWater := by
  intro h hu ht
  have h1 := (List.all_eq_true.mp h) u hu
  simp only [checkFails, residualOf, ht, NumOps.lit, NumOps.ofRat, id] at h1
  grind

theorem checkResiduals_mu (f : TransFns Rat) (c : GateCtx Rat) (us : List (Unknown Rat)) (u : Unknown Rat) :
    letI := ratOps f
    checkResiduals c us = true → u ∈ us → u.type = .mu →
      absv (c.massWater * c.mu - 1 / 2 * u.f) < c.tol * c.mu * c.massWater := by
  intro h hu ht
  have h1 := (List.all_eq_true.mp h) u hu
  simp only [checkFails, residualOf, ht, NumOps.lit, NumOps.ofRat, id] at h1
  grind

theorem sumBy_append (f : TransFns Rat) (g : SpRec Rat → Rat) (a b : List (SpRec Rat)) :
    letI := ratOps f; sumBy g (a ++ b) = sumBy g a + sumBy g b := by
  induction a with
  | nil => simp only [List.nil_append, sumBy, NumOps.lit, NumOps.ofRat, id]; grind
  | cons s t ih => simp only [List.cons_append, sumBy, ih]; grind

theorem total_append (f : TransFns Rat) (elt : String) (a b : List (SpRec Rat)) :
    letI := ratOps f; total elt (a ++ b) = total elt a + total elt b :=
  sumBy_append f _ a b

theorem chargeBalance_append (f : TransFns Rat) (a b : List (SpRec Rat)) :
    letI := ratOps f; chargeBalance (a ++ b) = chargeBalance a + chargeBalance b :=
  sumBy_append f _ a b

theorem readouts_consistent (f : TransFns Rat) (la : String → Rat) (lk lm lg : Rat) (body : List (String × Rat)) :
    letI := ratOps f
    pH la = - la "H+" ∧ satIndex la lk body = evalBody la body - lk ∧
      satRatio la lk body = f.exp10 (satIndex la lk body) ∧ logActivity lm lg = lm + lg ∧
      (logActivity (speciateLm lk lg la body) lg = lk + evalBody la body) := by
  simp only [pH, satIndex, satRatio, logActivity, speciateLm, NumOps.lit, NumOps.ofRat, NumOps.exp10, id]
  grind

/-- the saturation index does not depend on the form of the phase reaction: `e` carries the reversed log K of the
phase (`trxn_reverse_k` before and after `rewrite_eqn_to_secondary` in `tidy_phases`) -/
theorem satIndex_rewrite (f : TransFns Rat) (drop : Rat → Bool) (inUse : String → Bool)
    (defs : String → Option (Eqn Rat)) (la : String → Rat) (K : LogK Rat → Rat)
    (hK : letI := ratOps f; ∀ (p q : LogK Rat) (c : Rat), K (p.addScaled c q) = K p + c * K q)
    (hdrop : ∀ c, drop c = true → c = 0)
    (hdefs : letI := ratOps f; ∀ n d, defs n = some d → d.head = n ∧ residual la K d = 0)
    (fuel : Nat) (e e' : Eqn Rat) :
    letI := ratOps f
    rewriteToMasters drop inUse defs fuel e = some e' →
      satIndex la (-(K e'.k)) e'.body = satIndex la (-(K e.k)) e.body := by
  intro h
  obtain ⟨h1, h2⟩ := Speciation.rewrite_residual f drop inUse defs la K hK hdrop hdefs fuel e e' h
  simp only [residual, satIndex] at h2 ⊢
  rw [h1] at h2
  grind

/-! ### 8b. redox couples: solving the pivoted equation for the electron (`tidy_redox`: `trxn_swap("e-")`) -/

theorem kCalc_smul (f : TransFns Rat) (r : Rat) (k : LogK Rat) (T P : Rat) :
    letI := ratOps f
    kCalc (LogK.smul r k) T P = r * kCalc k T P := by
  simp only [kCalc, LogK.smul, NumOps.lit, NumOps.ofRat, NumOps.log10, NumOps.ln, id]
  grind

/-- solving an equation for a species with non-zero coefficient `c` scales its residual by `−1/c`: the electron equation
of a redox couple holds iff the pivoted couple equation does -/
theorem residual_solveFor (f : TransFns Rat) (la : String → Rat) (K : LogK Rat → Rat)
    (hK : letI := ratOps f; ∀ (r : Rat) (k : LogK Rat), K (LogK.smul r k) = r * K k)
    (n : String) (e : Eqn Rat) (hc : letI := ratOps f; coefOf n e.body ≠ 0) :
    letI := ratOps f
    (solveFor n e).head = n ∧
    residual la K (solveFor n e) = (0 - 1 / coefOf n e.body) * residual la K e := by
  refine ⟨rfl, ?_⟩
  have h := Speciation.evalBody_removeName f la n e.body
  simp only [residual, solveFor, hK, Speciation.evalBody_scaleBody, evalBody, NumOps.lit, NumOps.ofRat, id] at h ⊢
  grind

/-- the O(0)/O(-2) couple of phreeqc.dat: `2 H2O = O2 + 4 H+ + 4 e-` solved for `e-` -/
example : letI := ratOps (⟨id, id, id, id, id, id, id, id, id, id⟩ : TransFns Rat)
    let o2 : Eqn Rat := ⟨"O2", [("H2O", 2), ("H+", -4), ("e-", -4)], ⟨-8608 / 100, 0, 0, 0, 0, 0, 0, 0, 0⟩⟩
    let e := solveFor "e-" o2
    e.head = "e-" ∧ coefOf "O2" e.body = -1 / 4 ∧ coefOf "H+" e.body = -1 ∧ coefOf "H2O" e.body = 1 / 2
      ∧ e.k.k0 = -2152 / 100 := by
  decide +kernel

/-! ### 9. non-vacuity: a small carbonate network, and the gate on a two-unknown state -/

namespace Ex
/-- dummy transcendental functions for the concrete instances -/
def f0 : TransFns Rat := ⟨id, id, id, id, id, id, id, id, id, id⟩

def lk0 (k0 : Rat) : LogK Rat := ⟨k0, 0, 0, 0, 0, 0, 0, 0, 0⟩

def inUse (n : String) : Bool := n == "H+" || n == "H2O" || n == "CO3-2" || n == "Ca+2"

def hco3 : Eqn Rat := ⟨"HCO3-", [("CO3-2", 1), ("H+", 1)], lk0 (10329 / 1000)⟩
def co2 : Eqn Rat := ⟨"CO2", [("HCO3-", 1), ("H+", 1), ("H2O", -1)], lk0 (6352 / 1000)⟩
def cahco3 : Eqn Rat := ⟨"CaHCO3+", [("Ca+2", 1), ("HCO3-", 1)], lk0 (1106 / 1000)⟩

def defs (n : String) : Option (Eqn Rat) :=
  if n == "HCO3-" then some hco3 else if n == "CO2" then some co2 else if n == "CaHCO3+" then some cahco3 else none

def la (n : String) : Rat :=
  if n == "H+" then -7 else if n == "CO3-2" then -5 else if n == "H2O" then 0 else if n == "Ca+2" then -3
  else if n == "HCO3-" then 10329 / 1000 - 12
  else if n == "CO2" then 6352 / 1000 + 10329 / 1000 - 19
  else if n == "CaHCO3+" then 1106 / 1000 + 10329 / 1000 - 15
  else 0

def K (k : LogK Rat) : Rat := k.k0
def drop0 (c : Rat) : Bool := c == 0

def view3 (e : Eqn Rat) : String × List (String × Rat) × Rat := (e.head, e.body, e.k.k0)
end Ex

open Ex in
example : letI := ratOps f0
    (rewriteToMasters drop0 inUse defs 20 co2).map view3
      = some ("CO2", [("H+", 2), ("H2O", -1), ("CO3-2", 1)], 10329 / 1000 + 6352 / 1000) := by
  decide +kernel

open Ex in
/-- CaHCO3+ (defined through the non-master HCO3-) in terms of the masters in use -/
example : letI := ratOps f0
    (rewriteToMasters drop0 inUse defs 20 cahco3).map view3
      = some ("CaHCO3+", [("Ca+2", 1), ("CO3-2", 1), ("H+", 1)], 1106 / 1000 + 10329 / 1000) := by
  decide +kernel

open Ex in
/-- fuel exhausted / species without defining equation: `none` -/
example : letI := ratOps f0
    (rewriteToMasters drop0 inUse defs 0 co2).map view3 = none ∧
    (rewriteToMasters drop0 inUse defs 20 ⟨"X", [("Y", 1)], lk0 0⟩).map view3 = none := by
  decide +kernel

open Ex in
theorem Ex.hK : letI := ratOps f0; ∀ (p q : LogK Rat) (c : Rat), K (p.addScaled c q) = K p + c * K q :=
  fun _ _ _ => rfl

open Ex in
theorem Ex.hdrop : ∀ c, drop0 c = true → c = 0 := by
  intro c h; simpa [drop0] using h

open Ex in
theorem Ex.hdefs : letI := ratOps f0; ∀ n d, defs n = some d → d.head = n ∧ residual la K d = 0 := by
  intro n d h
  unfold defs at h
  split at h
  · rename_i hn; cases h; exact ⟨(eq_of_beq hn).symm, by decide +kernel⟩
  · split at h
    · rename_i hn; cases h; exact ⟨(eq_of_beq hn).symm, by decide +kernel⟩
    · split at h
      · rename_i hn; cases h; exact ⟨(eq_of_beq hn).symm, by decide +kernel⟩
      · cases h

open Ex in
/-- all hypotheses of `rewrite_mass_action_iff` hold on the carbonate network; its conclusion, obtained from the theorem,
agrees with direct evaluation -/
example : letI := ratOps f0
    ∃ e', rewriteToMasters drop0 inUse defs 20 co2 = some e' ∧ e'.head = "CO2" ∧
      residual la K e' = 0 ∧ (∀ p ∈ e'.body, inUse p.1 = true) := by
  cases h : @rewriteToMasters Rat (ratOps f0) drop0 inUse defs 20 co2 with
  | none => exact absurd h (by decide +kernel)
  | some e' =>
    have h1 := rewrite_residual_eq f0 drop0 inUse defs la K Ex.hK Ex.hdrop Ex.hdefs 20 co2 e' h
    have h2 := rewrite_only_masters f0 drop0 inUse defs 20 co2 e' h
    have h3 : @residual Rat (ratOps f0) la K co2 = 0 := by decide +kernel
    exact ⟨e', rfl, h1.1, by rw [h1.2, h3], h2⟩

open Ex in
example : letI := ratOps f0
    (rewriteToMasters drop0 inUse defs 20 co2).map
        (fun e => (coefOf "H+" e.body, coefOf "CO3-2" e.body, coefOf "H2O" e.body, coefOf "HCO3-" e.body, residual la K e))
      = some (2, 1, -1, 0, 0) := by
  decide +kernel

namespace Ex
def ctx : GateCtx Rat := ⟨1 / 1000, 1 / 1000000000000000, 1 / 10, 1, false, false⟩
/-- state = iteration counter; the mass-balance sum reaches the total at the third step; `fmu` = `Σ z²·moles` -/
def view (fmu : Rat) (s : Nat) : GateCtx Rat × List (Unknown Rat) :=
  (ctx, [⟨.mb, 1 / 1000, if s < 3 then 2 / 1000 else 1 / 1000, 0, 0⟩, ⟨.mu, 0, fmu, 0, 0⟩])
def Outcome.toOption {σ : Type} : Outcome σ → Option σ
  | .ok s => some s
  | .error => none
end Ex

open Ex in
/-- the gate lets a state through (`ok 3`); too few iterations: error; an ionic-strength residual exactly AT the tolerance
passes `residuals()` (not converged only when `tol·μ·W < |r|`) but not `check_residuals()` (ERROR when `tol·μ·W ≤ |r|`): error -/
example : letI := ratOps f0
    Outcome.toOption (runModel (view (2 / 10)) (· + 1) (fun _ => none) 10 2 0) = some 3 ∧
    Outcome.toOption (runModel (view (2 / 10)) (· + 1) (fun _ => none) 2 2 0) = none ∧
    converged (view (1998 / 10000) 3).1 (view (1998 / 10000) 3).2 = true ∧
    checkResiduals (view (1998 / 10000) 3).1 (view (1998 / 10000) 3).2 = false ∧
    Outcome.toOption (runModel (view (1998 / 10000)) (· + 1) (fun _ => none) 10 2 0) = none ∧
    -- a second pass requested once by `again`
    Outcome.toOption (runModel (view (2 / 10)) (· + 1) (fun s => if s < 5 then some 5 else none) 10 2 0) = some 5 ∧
    Outcome.toOption (runModel (view (2 / 10)) (· + 1) (fun s => if s < 5 then some 5 else none) 10 1 0) = none := by
  decide +kernel

open Ex in
/-- `gate_sound` applied to the passing run -/
example : letI := ratOps f0
    converged (view (2 / 10) 3).1 (view (2 / 10) 3).2 = true ∧ checkResiduals (view (2 / 10) 3).1 (view (2 / 10) 3).2 = true := by
  have h : @runModel Rat (ratOps f0) Nat _ _ (view (2 / 10)) (· + 1) (fun _ => none) 10 2 0 = .ok 3 := by
    have : Outcome.toOption (@runModel Rat (ratOps f0) Nat _ _ (view (2 / 10)) (· + 1) (fun _ => none) 10 2 0) = some 3 := by
      decide +kernel
    revert this
    cases @runModel Rat (ratOps f0) Nat _ _ (view (2 / 10)) (· + 1) (fun _ => none) 10 2 0 with
    | ok s => intro h; simp only [Outcome.toOption, Option.some.injEq] at h; rw [h]
    | error => intro h; cases h
  exact gate_sound f0 _ _ _ 10 2 0 3 h

/-! ### 10. source constants, named expressions, alkalinity lookup, valence totals -/

open Gen.SpeciationSrc in
/-- the constants the models use are the ones in the C++ source (read by `tools/gen_speciation.py` on every run) -/
theorem source_constants :
    recognised = true ∧ SELECT_SHAPE = true ∧ R_KJ_DEG_MOL = Thermo.rKJ ∧ KCALC_TREF = Thermo.tRef ∧
    REF_PRES_PASCAL = Thermo.pRef ∧ PASCAL_PER_ATM = Thermo.pRef ∧ COMBINE_TOL = Speciation.combineTol ∧
    UNDER_MIN = -40 ∧ MAX_LM = 3 ∧ MAX_M = 1000 ∧ LN_ALPHA_SIXTH = false ∧ LN_ALPHA_DIV = 1000 ∧
    CONV_TOL = 1 / 100000000 ∧ MIN_TOTAL = 1 / 10000000000000000000000000 ∧ KCALC_VFACTOR = 1 / 1000000000 ∧
    JOULES_PER_CALORIE = 4184 / 1000 ∧ DH_KILO = 1000 ∧ MAX_ADD_EQUATIONS = 20 := by
  decide +kernel

open Gen.SpeciationSrc in
/-- `kCalc` is the formula of `k_calc` written with the constants of the source -/
theorem kCalc_source (f : TransFns Rat) (p : LogK Rat) (T P : Rat) :
    letI := ratOps f
    kCalc p T P =
      (let lk := p.k0 - p.dh * (KCALC_TREF - T) / (f.ln 10 * (T * R_KJ_DEG_MOL) * KCALC_TREF) + p.a1 + p.a2 * T
          + p.a3 / T + p.a4 * f.log10 T + p.a5 / (T * T) + p.a6 * T * T
       if 0 < P - REF_PRES_PASCAL then lk - p.dv * KCALC_VFACTOR * (P - REF_PRES_PASCAL) / (f.ln 10 * (T * R_KJ_DEG_MOL))
       else lk) := by
  have h1 : R_KJ_DEG_MOL = rKJ := by decide +kernel
  have h2 : KCALC_TREF = tRef := by decide +kernel
  have h3 : REF_PRES_PASCAL = pRef := by decide +kernel
  have h4 : KCALC_VFACTOR = 1 / 1000000000 := by decide +kernel
  simp only [kCalc, NumOps.lit, NumOps.ofRat, NumOps.log10, NumOps.ln, id, h1, h2, h3, h4]
  rfl

open Gen.SpeciationSrc in
theorem dhToKJ_source (f : TransFns Rat) (x : Rat) :
    letI := ratOps f
    dhToKJ .kcal x = x * JOULES_PER_CALORIE ∧ dhToKJ .J x = x / DH_KILO ∧
      dhToKJ .cal x = x / DH_KILO * JOULES_PER_CALORIE ∧ dhToKJ .kJ x = x := by
  have h1 : JOULES_PER_CALORIE = 4184 / 1000 := by decide +kernel
  have h2 : DH_KILO = 1000 := by decide +kernel
  refine ⟨?_, ?_, ?_, ?_⟩ <;> simp only [dhToKJ, NumOps.lit, NumOps.ofRat, id, h1, h2]

/-! alkalinity lookup -/

theorem alk_lookup_order : Gen.SpeciationSrc.ALK_SECONDARY_FIRST = true := by decide

theorem lastLine_spec (w : Bool) (n : String) (ms : List (MasterLine Rat)) (m : MasterLine Rat) :
    lastLine w n ms = some m → m ∈ ms ∧ m.primary = w ∧ m.species = n ∧ m.elt ≠ "Alkalinity" := by
  induction ms with
  | nil => intro h; simp [lastLine] at h
  | cons x t ih =>
    intro h
    unfold lastLine at h
    cases hr : lastLine w n t with
    | some r =>
      simp only [hr, Option.some.injEq] at h
      subst h
      obtain ⟨a, b⟩ := ih hr
      exact ⟨List.mem_cons_of_mem _ a, b⟩
    | none =>
      simp only [hr] at h
      split at h
      · rename_i hc
        cases h
        simp only [Bool.and_eq_true, beq_iff_eq, Bool.not_eq_true', beq_eq_false_iff_ne] at hc
        exact ⟨List.mem_cons_self, hc.1.1, hc.1.2, hc.2⟩
      · cases h

/-- the valence line of a species takes precedence over its element line (`calc_alk` looks at `s->secondary` first) -/
theorem masterAlk_valence_precedence (n : String) (ms : List (MasterLine Rat)) (m : MasterLine Rat) :
    lastLine false n ms = some m → masterAlk true ms n = some m.alk := by
  intro h; simp [masterAlk, h]

theorem masterAlk_element_line (n : String) (ms : List (MasterLine Rat)) :
    lastLine false n ms = none → masterAlk true ms n = (lastLine true n ms).map (·.alk) := by
  intro h; simp [masterAlk, h]

/-- minteq.dat: `Fe Fe+3 0`, `Fe(+2) Fe+2 0`, `Fe(+3) Fe+3 -2`. The right order gives Fe+3 the alkalinity −2 and
Fe(OH)2+ alkalinity 0; looking at the element line first gives 0 and 2 -/
example : letI := ratOps (⟨id, id, id, id, id, id, id, id, id, id⟩ : TransFns Rat)
    let ms : List (MasterLine Rat) := [⟨"Fe", "Fe+3", 0, true⟩, ⟨"Fe(+2)", "Fe+2", 0, false⟩, ⟨"Fe(+3)", "Fe+3", -2, false⟩,
      ⟨"H", "H+", -1, true⟩, ⟨"H(1)", "H+", -1, false⟩, ⟨"O", "H2O", 0, true⟩, ⟨"Alkalinity", "CO3-2", 1, true⟩]
    let feoh2 : Eqn Rat := ⟨"Fe(OH)2+", [("Fe+3", 1), ("H2O", 2), ("H+", -2)], ⟨-567 / 100, 0, 0, 0, 0, 0, 0, 0, 0⟩⟩
    masterAlk true ms "Fe+3" = some (-2) ∧ masterAlk false ms "Fe+3" = some 0 ∧
    masterAlk true ms "H2O" = some 0 ∧ masterAlk true ms "CO3-2" = none ∧
    speciesAlk (fun n => (masterAlk true ms n).getD 0) feoh2 = 0 ∧
    speciesAlk (fun n => (masterAlk false ms n).getD 0) feoh2 = 2 := by
  decide +kernel

/-! `under()` -/

theorem underMoles_zero (f : TransFns Rat) (lm W : Rat) : letI := ratOps f; lm < -40 → underMoles lm W = 0 := by
  intro h
  simp only [underMoles, NumOps.lit, NumOps.ofRat, NumOps.exp10, id]
  grind

theorem underMoles_mid (f : TransFns Rat) (lm W : Rat) :
    letI := ratOps f; -40 ≤ lm → lm ≤ 3 → underMoles lm W = f.exp10 lm * W := by
  intro h1 h2
  simp only [underMoles, NumOps.lit, NumOps.ofRat, NumOps.exp10, id]
  grind

theorem underMoles_cap (f : TransFns Rat) (lm W : Rat) : letI := ratOps f; 3 < lm → underMoles lm W = 1000 * W := by
  intro h
  simp only [underMoles, NumOps.lit, NumOps.ofRat, NumOps.exp10, id]
  grind

/-! named expressions: `select_log_k_expression`, `add_other_logk`, `add_logks` -/

theorem nz_iff (f : TransFns Rat) (x : Rat) : letI := ratOps f; nz x = true ↔ x ≠ 0 := by
  simp only [nz, NumOps.lit, NumOps.ofRat, id]
  grind

/-- `analytic` looks at the six analytic entries only -/
theorem analytic_congr (f : TransFns Rat) (p q : LogK Rat) (h1 : p.a1 = q.a1) (h2 : p.a2 = q.a2) (h3 : p.a3 = q.a3)
    (h4 : p.a4 = q.a4) (h5 : p.a5 = q.a5) (h6 : p.a6 = q.a6) :
    letI := ratOps f; p.analytic = q.analytic := by
  simp only [LogK.analytic, h1, h2, h3, h4, h5, h6]

theorem analytic_zero (f : TransFns Rat) (k0 dh dv : Rat) :
    letI := ratOps f; (⟨k0, dh, 0, 0, 0, 0, 0, 0, dv⟩ : LogK Rat).analytic = false := by
  simp only [LogK.analytic, nz, NumOps.lit, NumOps.ofRat, id]
  grind

theorem selectExpr_analytic (f : TransFns Rat) (p : LogK Rat) :
    letI := ratOps f; p.analytic = true → selectExpr p = ⟨0, 0, p.a1, p.a2, p.a3, p.a4, p.a5, p.a6, p.dv⟩ := by
  intro h
  simp only [selectExpr, h, if_true, NumOps.lit, NumOps.ofRat, id]

theorem selectExpr_plain (f : TransFns Rat) (p : LogK Rat) :
    letI := ratOps f; p.analytic = false → selectExpr p = ⟨p.k0, p.dh, 0, 0, 0, 0, 0, 0, p.dv⟩ := by
  intro h
  simp only [selectExpr, h, Bool.false_eq_true, if_false, NumOps.lit, NumOps.ofRat, id]

theorem selectExpr_idem (f : TransFns Rat) (p : LogK Rat) :
    letI := ratOps f; selectExpr (selectExpr p) = selectExpr p := by
  cases h : @LogK.analytic Rat (ratOps f) _ p with
  | true =>
    rw [selectExpr_analytic f p h]
    exact selectExpr_analytic f _ ((analytic_congr f _ p rfl rfl rfl rfl rfl rfl).trans h)
  | false =>
    rw [selectExpr_plain f p h]
    exact selectExpr_plain f _ (analytic_zero f _ _ _)

/-- an analytic expression switches `log_k` and `delta_h` off -/
theorem kCalc_selectExpr_analytic (f : TransFns Rat) (p : LogK Rat) (T P : Rat) :
    letI := ratOps f
    p.analytic = true → kCalc (selectExpr p) T P = kCalc ⟨0, 0, p.a1, p.a2, p.a3, p.a4, p.a5, p.a6, p.dv⟩ T P := by
  intro h; rw [selectExpr_analytic f p h]

theorem kCalc_selectExpr_plain (f : TransFns Rat) (p : LogK Rat) (T P : Rat) :
    letI := ratOps f
    p.analytic = false → kCalc (selectExpr p) T P = kCalc ⟨p.k0, p.dh, 0, 0, 0, 0, 0, 0, p.dv⟩ T P := by
  intro h; rw [selectExpr_plain f p h]

/-- `add_other_logk`: a named expression contributes `c` times the value of its SELECTED expression (any sign of `c`) -/
theorem kCalc_addOther (f : TransFns Rat) (src nm : LogK Rat) (c T P : Rat) :
    letI := ratOps f
    kCalc (addOther src nm c) T P = kCalc src T P + c * kCalc (selectExpr nm) T P := by
  cases h : @LogK.analytic Rat (ratOps f) _ nm with
  | true =>
    rw [selectExpr_analytic f nm h]
    simp only [addOther, h, if_true, kCalc, NumOps.lit, NumOps.ofRat, NumOps.log10, NumOps.ln, id]
    grind
  | false =>
    rw [selectExpr_plain f nm h]
    simp only [addOther, h, Bool.false_eq_true, if_false, kCalc, NumOps.lit, NumOps.ofRat, NumOps.log10, NumOps.ln, id]
    grind

theorem kCalc_addOther_zero (f : TransFns Rat) (src nm : LogK Rat) (T P : Rat) :
    letI := ratOps f
    kCalc (addOther src nm 0) T P = kCalc src T P := by
  rw [kCalc_addOther]; grind

theorem kCalc_foldl_addOther (f : TransFns Rat) (adds : List (LogK Rat × Rat)) (acc : LogK Rat) (T P : Rat) :
    letI := ratOps f
    kCalc (adds.foldl (fun acc nc => addOther acc nc.1 nc.2) acc) T P
      = kCalc acc T P + (adds.map (fun nc => nc.2 * kCalc (selectExpr nc.1) T P)).sum := by
  induction adds generalizing acc with
  | nil => simp only [List.foldl_nil, List.map_nil, List.sum_nil]; grind
  | cons x t ih =>
    simp only [List.foldl_cons, List.map_cons, List.sum_cons, ih, kCalc_addOther]
    grind

/-- log K of a species with `-add_logk` lines: own selected expression plus `c`·(selected named expression) each -/
theorem kCalc_combineLogK (f : TransFns Rat) (own : LogK Rat) (adds : List (LogK Rat × Rat)) (T P : Rat) :
    letI := ratOps f
    kCalc (combineLogK own adds) T P
      = kCalc (selectExpr own) T P + (adds.map (fun nc => nc.2 * kCalc (selectExpr nc.1) T P)).sum :=
  kCalc_foldl_addOther f adds _ T P

theorem kCalc_foldl_addScaled (f : TransFns Rat) (adds : List (LogK Rat × Rat)) (acc : LogK Rat) (T P : Rat) :
    letI := ratOps f
    kCalc (adds.foldl (fun acc nc => acc.addScaled nc.2 nc.1) acc) T P
      = kCalc acc T P + (adds.map (fun nc => nc.2 * kCalc nc.1 T P)).sum := by
  induction adds generalizing acc with
  | nil => simp only [List.foldl_nil, List.map_nil, List.sum_nil]; grind
  | cons x t ih =>
    simp only [List.foldl_cons, List.map_cons, List.sum_cons, ih, kCalc_addScaled]
    grind

/-- `add_logks` (named expression referring to named expressions): ALL entries are added -/
theorem kCalc_combineNamed (f : TransFns Rat) (own : LogK Rat) (adds : List (LogK Rat × Rat)) (T P : Rat) :
    letI := ratOps f
    kCalc (combineNamed own adds) T P
      = kCalc (selectExpr own) T P + (adds.map (fun nc => nc.2 * kCalc nc.1 T P)).sum :=
  kCalc_foldl_addScaled f adds _ T P

/-- non-vacuity: a plain own expression, one analytic and one plain named expression (negative coefficient); the analytic
one contributes nothing of its `log_k` -/
example : letI := ratOps (⟨id, id, id, id, id, id, id, id, id, id⟩ : TransFns Rat)
    let own : LogK Rat := ⟨2, -3, 0, 0, 0, 0, 0, 0, 0⟩
    let n1 : LogK Rat := ⟨100, 50, 1, 1 / 100, 0, 0, 0, 0, 0⟩
    let n2 : LogK Rat := ⟨5, 7, 0, 0, 0, 0, 0, 0, 0⟩
    let r := combineLogK own [(n1, 2), (n2, -1)]
    n1.analytic = true ∧ n2.analytic = false ∧
    r.k0 = 2 - 5 ∧ r.dh = -3 - 7 ∧ r.a1 = 2 ∧ r.a2 = 2 / 100 ∧
    kCalc r tRef pRef = -3 + 2 + 2 / 100 * tRef ∧
    (combineNamed own [(n1, 2), (n2, -1)]).k0 = 2 + 200 - 5 := by
  decide +kernel

/-! valence totals of `sum_species` -/

theorem valenceTotal_append (f : TransFns Rat) (m : String) (atoms : Rat) (sec : String → List (String × Rat))
    (a b : List (SpRec Rat)) :
    letI := ratOps f; valenceTotal m atoms sec (a ++ b) = valenceTotal m atoms sec a + valenceTotal m atoms sec b :=
  sumBy_append f _ a b

theorem sum_map_mul_add (f : TransFns Rat) {β : Type} (ms : List β) (a b : β → Rat) (c : Rat) :
    letI := ratOps f
    (ms.map (fun m => a m * c + b m)).sum = (ms.map a).sum * c + (ms.map b).sum := by
  induction ms with
  | nil => simp only [List.map_nil, List.sum_nil]; grind
  | cons x t ih => simp only [List.map_cons, List.sum_cons, ih]; grind

theorem sum_map_zero (f : TransFns Rat) {β : Type} (ms : List β) :
    letI := ratOps f
    (ms.map (fun _ => (0 : Rat))).sum = 0 := by
  induction ms with
  | nil => simp only [List.map_nil, List.sum_nil]
  | cons x t ih => simp only [List.map_cons, List.sum_cons, ih]; grind

/-- the totals of the valence states of an element add up to the element total, provided each species' secondary-form
reaction carries the species' atoms of the element (`Σ_m atoms(m) · coef(m in sec s) = atoms of e in s`) -/
theorem valence_totals_add_up (f : TransFns Rat) (ms : List (String × Rat)) (e : String)
    (sec : String → List (String × Rat)) (sp : List (SpRec Rat)) :
    letI := ratOps f
    (∀ s ∈ sp, (ms.map (fun m => m.2 * coefOf m.1 (sec s.name))).sum = coefOf e s.elts) →
      (ms.map (fun m => valenceTotal m.1 m.2 sec sp)).sum = total e sp := by
  induction sp with
  | nil =>
    intro _
    exact (sum_map_zero f ms).trans (by simp only [total, sumBy, NumOps.lit, NumOps.ofRat, id])
  | cons s t ih =>
    intro h
    have h1 := h s List.mem_cons_self
    have h2 := ih (fun s' hs' => h s' (List.mem_cons_of_mem _ hs'))
    refine (sum_map_mul_add f ms (fun m => m.2 * @coefOf Rat (ratOps f) m.1 (sec s.name))
      (fun m => @valenceTotal Rat (ratOps f) m.1 m.2 sec t) s.moles).trans ?_
    rw [h1, h2]
    simp only [total, sumBy]

/-- Fe(+2)/Fe(+3): FeCl+ and Fe+2 count for Fe(+2), Fe(OH)2+ for Fe(+3); the two totals add up to total Fe -/
example : letI := ratOps (⟨id, id, id, id, id, id, id, id, id, id⟩ : TransFns Rat)
    let sec : String → List (String × Rat) := fun n =>
      if n == "Fe+2" then [("Fe+2", 1)] else if n == "FeCl+" then [("Fe+2", 1), ("Cl-", 1)]
      else if n == "Fe+3" then [("Fe+3", 1)] else if n == "Fe(OH)2+" then [("Fe+3", 1), ("H2O", 2), ("H+", -2)] else []
    let sp : List (SpRec Rat) := [⟨"Fe+2", 2, 1 / 1000, 0, [("Fe", 1)]⟩, ⟨"FeCl+", 1, 1 / 5000, 0, [("Fe", 1), ("Cl", 1)]⟩,
      ⟨"Fe+3", 3, 1 / 100000, -2, [("Fe", 1)]⟩, ⟨"Fe(OH)2+", 1, 3 / 100000, 0, [("Fe", 1), ("O", 2), ("H", 2)]⟩,
      ⟨"Cl-", -1, 1 / 100, 0, [("Cl", 1)]⟩]
    valenceTotal "Fe+2" 1 sec sp = 1 / 1000 + 1 / 5000 ∧ valenceTotal "Fe+3" 1 sec sp = 4 / 100000 ∧
    total "Fe" sp = 1 / 1000 + 1 / 5000 + 4 / 100000 ∧
    ([("Fe+2", (1 : Rat)), ("Fe+3", 1)].map (fun m => valenceTotal m.1 m.2 sec sp)).sum = total "Fe" sp := by
  decide +kernel

end PhreeqcVerif.C01
