import PhreeqcVerif.Model.BasicNum
import PhreeqcVerif.Gen.BasicTokens
/-! Tokens and tokenizer of the BASIC interpreter (`PBasic::parse`, `PBasic::parseinput`), C17.

The keyword table is the *generated* one (`Gen/BasicTokens.lean`, extracted from `PBasic.cpp` on every run):
an identifier is looked up there and the enumerator name is mapped to the token kinds the model knows; every
other enumerator (chemistry functions, PEEK/POKE, editor commands) stays `K.other name`. -/
namespace PhreeqcVerif.Basic

/-- token kinds the model interprets; `other` carries the enumerator name of everything else -/
inductive K where
  | plus | minus | times | div | up | lp | rp | comma | semi | colon | eq | lt | gt | le | ge | ne
  | and_ | or_ | xor_ | mod_ | not_
  | sqr | sqrt | sin | cos | tan | arctan | log | log10 | exp | abs | sgn | ceil | floor
  | str_ | str_f_ | str_e_ | val | chr_ | asc | len | mid_ | instr | ltrim | rtrim | trim | pad | eol_ | eol_notab_ | no_newline_
  | get | get_ | put | put_
  | let_ | goto | if_ | end_ | stop | for_ | next | while_ | wend | gosub | return_ | read | data | restore
  | on | dim | erase | then_ | else_ | to | step | print | punch | save | bye
  | other (name : String)
deriving DecidableEq, Repr, Inhabited

def kOfName : String → K
  | "tokplus" => .plus | "tokminus" => .minus | "toktimes" => .times | "tokdiv" => .div | "tokup" => .up
  | "toklp" => .lp | "tokrp" => .rp | "tokcomma" => .comma | "toksemi" => .semi | "tokcolon" => .colon
  | "tokeq" => .eq | "toklt" => .lt | "tokgt" => .gt | "tokle" => .le | "tokge" => .ge | "tokne" => .ne
  | "tokand" => .and_ | "tokor" => .or_ | "tokxor" => .xor_ | "tokmod" => .mod_ | "toknot" => .not_
  | "toksqr" => .sqr | "toksqrt" => .sqrt | "toksin" => .sin | "tokcos" => .cos | "toktan" => .tan
  | "tokarctan" => .arctan | "toklog" => .log | "toklog10" => .log10 | "tokexp" => .exp | "tokabs" => .abs
  | "toksgn" => .sgn | "tokceil" => .ceil | "tokfloor" => .floor
  | "tokstr_f_" => .str_f_ | "tokstr_e_" => .str_e_
  | "tokstr_" => .str_ | "tokval" => .val | "tokchr_" => .chr_ | "tokasc" => .asc | "toklen" => .len
  | "tokmid_" => .mid_ | "tokinstr" => .instr | "tokltrim" => .ltrim | "tokrtrim" => .rtrim | "toktrim" => .trim
  | "tokpad" => .pad | "tokpad_" => .pad | "tokeol_" => .eol_ | "tokeol_notab_" => .eol_notab_
  | "tokno_newline_" => .no_newline_
  | "tokget" => .get | "tokget_" => .get_ | "tokput" => .put | "tokput_" => .put_
  | "toklet" => .let_ | "tokgoto" => .goto | "tokif" => .if_ | "tokend" => .end_ | "tokstop" => .stop
  | "tokfor" => .for_ | "toknext" => .next | "tokwhile" => .while_ | "tokwend" => .wend | "tokgosub" => .gosub
  | "tokreturn" => .return_ | "tokread" => .read | "tokdata" => .data | "tokrestore" => .restore
  | "tokon" => .on | "tokdim" => .dim | "tokerase" => .erase | "tokthen" => .then_ | "tokelse" => .else_
  | "tokto" => .to | "tokstep" => .step | "tokprint" => .print | "tokpunch" => .punch | "toksave" => .save
  | "tokbye" => .bye
  | n => .other n

/-- a token (`tokenrec`); strings are byte strings carried as `Char`s 1..255 -/
inductive Tok (α : Type) where
  | var (name : String)
  | num (x : α)
  | str (s : String)
  | snerr (c : Char)
  | rem (s : String)
  | k (k : K)
deriving Repr, Inhabited

namespace Tok
variable {α : Type}
def isK (t : Tok α) (k : K) : Bool := match t with
  | .k k' => k' == k
  | _ => false
end Tok

/-- `head is kind k` -/
def headIs {α : Type} (ts : List (Tok α)) (k : K) : Bool := match ts with
  | t :: _ => t.isK k
  | [] => false

inductive LexErr where
  | missingQuote | missingRp | missingLp | hexNumber
deriving DecidableEq, Repr

def isAlphaC (c : Char) : Bool := ('a' ≤ c && c ≤ 'z') || ('A' ≤ c && c ≤ 'Z')
def isDigitC (c : Char) : Bool := '0' ≤ c && c ≤ '9'
def isIdentC (c : Char) : Bool := isAlphaC c || isDigitC c || c == '$' || c == '_'
def lowerC (c : Char) : Char := if 'A' ≤ c && c ≤ 'Z' then Char.ofNat (c.toNat + 32) else c
/-- C `isspace` in the "C" locale -/
def isSpaceC (c : Char) : Bool := c == ' ' || (9 ≤ c.toNat && c.toNat ≤ 13)

def lookupKw (name : String) : Option String :=
  (Gen.BasicTokens.keywords.find? (fun p => p.1 == name)).map (·.2)

def digitsVal (ds : List Char) : Nat := ds.foldl (fun a c => a * 10 + (c.toNat - 48)) 0

def isHexC (c : Char) : Bool := isDigitC c || ('a' ≤ c && c ≤ 'f') || ('A' ≤ c && c ≤ 'F')
def hexDigitVal (c : Char) : Nat :=
  if isDigitC c then c.toNat - 48 else if 'a' ≤ c && c ≤ 'f' then c.toNat - 87 else c.toNat - 55
def hexVal (ds : List Char) : Nat := ds.foldl (fun a c => a * 16 + hexDigitVal c) 0

/-- what `strtod` recognised: `m·10^e` or (hexadecimal form) `m·2^e` -/
inductive NumLit where
  | dec (m : Nat) (e : Int)
  | bin (m : Nat) (e : Int)

/-- optional exponent part `[eE|pP][+-]digits`, taken only when at least one digit follows -/
def expPart (mark : Char → Bool) (r2 : List Char) : Int × List Char := match r2 with
  | c :: r =>
    if mark c then
      let (sg, r') : Bool × List Char := match r with
        | '+' :: t => (false, t)
        | '-' :: t => (true, t)
        | _ => (false, r)
      let ed := r'.takeWhile isDigitC
      if ed.isEmpty then (0, r2) else
        let v : Int := Int.ofNat (digitsVal ed)
        ((if sg then -v else v), r'.dropWhile isDigitC)
    else (0, r2)
  | [] => (0, r2)

/-- glibc `strtod` on a text that starts with a digit or '.': the literal and the rest, or `none` when no
conversion is possible (a lone '.'). `0x…` with at least one hexadecimal digit is a hexadecimal floating literal
(`0x1A`, `0x.8`, `0x1.8p3`); without one only the `0` is taken. -/
def strtodC (cs : List Char) : Option (NumLit × List Char) :=
  let hexForm : Option (NumLit × List Char) := match cs with
    | '0' :: x :: r =>
      if x == 'x' || x == 'X' then
        let ip := r.takeWhile isHexC
        let r1 := r.dropWhile isHexC
        let (fp, r2) := match r1 with
          | '.' :: t => (t.takeWhile isHexC, t.dropWhile isHexC)
          | _ => ([], r1)
        if ip.isEmpty && fp.isEmpty then none else
          let (ex, r3) := expPart (fun c => c == 'p' || c == 'P') r2
          some (.bin (hexVal (ip ++ fp)) (ex - 4 * Int.ofNat fp.length), r3)
      else none
    | _ => none
  match hexForm with
  | some h => some h
  | none =>
    let ip := cs.takeWhile isDigitC
    let r1 := cs.dropWhile isDigitC
    let (fp, r2) := match r1 with
      | '.' :: r => (r.takeWhile isDigitC, r.dropWhile isDigitC)
      | _ => ([], r1)
    if ip.isEmpty && fp.isEmpty then none else
    let (ex, r3) := expPart (fun c => c == 'e' || c == 'E') r2
    some (.dec (digitsVal (ip ++ fp)) (ex - Int.ofNat fp.length), r3)

/-- state of the scanner loop: accumulated tokens, quote balance, parenthesis balance -/
structure LexSt (α : Type) where
  toks : Array (Tok α) := #[]
  q : Int := 0
  lp : Int := 0
  hex : Bool := false

/-- one round of the `do … while (i <= strlen)` loop of `PBasic::parse`; fuel = remaining characters + 1 -/
def lexLoop {α : Type} [BNum α] : Nat → List Char → LexSt α → LexSt α
  | 0, _, st => st
  | fuel + 1, cs, st =>
    -- skip blanks: the last consumed character is `ch`
    let rest := cs.dropWhile (fun c => c == ' ' || c == '\t')
    match rest with
    | [] =>
      -- only blanks were left: `ch` is the last blank; a trailing tab is a syntax-error token
      (match cs.getLast? with
       | some '\t' => { st with toks := st.toks.push (.snerr '\t') }
       | _ => st)
    | ch :: r =>
      let push (t : Tok α) (r' : List Char) (st' : LexSt α := st) : LexSt α :=
        let st'' := { st' with toks := st'.toks.push t }
        if r'.isEmpty then st'' else lexLoop fuel r' st''
      if ch == '"' || ch == '\'' then
        let body := r.takeWhile (· != ch)
        let after := r.dropWhile (· != ch)
        match after with
        | _ :: r' => push (.str (String.ofList body)) r'
        | [] => push (.str (String.ofList body)) [] { st with q := st.q + 1 }
      else if ch == '+' then push (.k .plus) r
      else if ch == '-' then push (.k .minus) r
      else if ch == '*' then push (.k .times) r
      else if ch == '/' then push (.k .div) r
      else if ch == '^' then push (.k .up) r
      else if ch == '(' || ch == '[' then push (.k .lp) r { st with lp := st.lp + 1 }
      else if ch == ')' || ch == ']' then push (.k .rp) r { st with lp := st.lp - 1 }
      else if ch == ',' then push (.k .comma) r
      else if ch == ';' then push (.k .semi) r
      else if ch == ':' then push (.k .colon) r
      else if ch == '?' then push (.k .print) r
      else if ch == '=' then push (.k .eq) r
      else if ch == '<' then
        (match r with
         | '=' :: r' => push (.k .le) r'
         | '>' :: r' => push (.k .ne) r'
         | _ => push (.k .lt) r)
      else if ch == '>' then
        (match r with
         | '=' :: r' => push (.k .ge) r'
         | _ => push (.k .gt) r)
      else if isAlphaC ch then
        let word := rest.takeWhile isIdentC
        let after := rest.dropWhile isIdentC
        let name := String.ofList ((word.take 20).map lowerC)
        match lookupKw name with
        | some "tokrem" => { st with toks := st.toks.push (.rem (String.ofList after)) }
        | some tn => push (.k (kOfName tn)) after
        | none => push (.var name) after
      else if isDigitC ch || ch == '.' then
        (match strtodC rest with
         | some (.dec m e, r') => push (.num (BNum.ofDec m e)) r'
         | some (.bin m e, r') => push (.num (BNum.ofBin m e)) r'
         | none => push (.snerr ch) r)
      else push (.snerr ch) r

/-- `PBasic::parse`: tokens of one line, or the `error_msg(…, STOP)` of the final balance checks -/
def lexLine {α : Type} [BNum α] (s : List Char) : Except LexErr (List (Tok α)) :=
  let st : LexSt α := lexLoop (s.length + 1) s {}
  if st.hex then .error .hexNumber
  else if st.q != 0 then .error .missingQuote
  else if st.lp > 0 then .error .missingRp
  else if st.lp < 0 then .error .missingLp
  else .ok st.toks.toList

/-- `string_trim`: blanks (C `isspace`) removed at both ends -/
def trimC (cs : List Char) : List Char :=
  ((cs.dropWhile isSpaceC).reverse.dropWhile isSpaceC).reverse

/-- `PBasic::parseinput` up to the call of `parse`: tabs/CR → blanks, trim, leading digits = line number -/
def splitLineNumber (raw : List Char) : Nat × List Char :=
  let cs := trimC (raw.map fun c => if c == '\t' || c == '\r' then ' ' else c)
  (digitsVal (cs.takeWhile isDigitC), cs.dropWhile isDigitC)

/-- `(LONG_MAX - 9) / 10`: a line number whose accumulation passes this is "Line number is too large" (f29ef764) -/
def lineNumberLimit : Nat := 922337203685477579

/-- does the digit-by-digit accumulation of `parseinput` hit the limit test? -/
def lineNumberTooLarge (raw : List Char) : Bool :=
  let cs := trimC (raw.map fun c => if c == '\t' || c == '\r' then ' ' else c)
  let ds := cs.takeWhile isDigitC
  (ds.foldl (fun (acc : Nat × Bool) c => (acc.1 * 10 + (c.toNat - 48), acc.2 || acc.1 > lineNumberLimit)) (0, false)).2

/-- `sget_logical_line`: split the command text at ';' and '\n' -/
def logicalLines (cs : List Char) : List (List Char) :=
  let rec go (cs : List Char) (cur : List Char) (acc : List (List Char)) : List (List Char) :=
    match cs with
    | [] => (if cur.isEmpty then acc else cur.reverse :: acc).reverse
    | c :: r => if c == ';' || c == '\n' then go r [] (cur.reverse :: acc) else go r (c :: cur) acc
  go cs [] []

end PhreeqcVerif.Basic
