// Script-driven API harness: executes API calls on TraceIPhreeqc instances, prints the recorded PHRQ_io event
// stream of every call and, on request, every externally visible view (strings, line accessors, files, tables).
// Protocol: one op per line, strings as hex ("-" = empty). See tools/tracelib.py.
#include "trace.hpp"
#include "IPhreeqc.h"
#include "IPhreeqc_interface_F.h"
#include <fstream>
#include <memory>
#include <unistd.h>

static std::string slurp(const std::string& name, bool& ok) {
  std::ifstream f(name.c_str(), std::ios::binary);
  ok = f.is_open();
  if (!ok) return "";
  std::ostringstream ss; ss << f.rdbuf(); return ss.str();
}
static std::string showVar(const VAR& v){
  switch(v.type){
    case TT_EMPTY: return "E";
    case TT_ERROR: return "X"+std::to_string((int)v.vresult);
    case TT_LONG: return "L"+std::to_string(v.lVal);
    case TT_DOUBLE: return "D"+hx::hexd(v.dVal);
    case TT_STRING: return "S"+hx::hex(v.sVal?v.sVal:"");
  }
  return "?";
}
static std::string dumpTable(const CSelectedOutput* t){
  std::ostringstream o; size_t nr=t->GetRowCount(), nc=t->GetColCount();
  o<<"rows="<<nr<<" cols="<<nc<<" | ";
  for(size_t r=0;r<nr;r++){ if(r) o<<" | "; for(size_t c=0;c<nc;c++){ if(c) o<<";"; CVar v; t->Get((int)r,(int)c,&v); o<<showVar(v);} }
  return o.str();
}
static void fileView(const char* tag, bool on, const char* name){
  bool ok; std::string c = slurp(name, ok);
  std::cout<<"V "<<tag<<" "<<(on?1:0)<<" "<<hx::hex(name)<<" "<<(ok?hx::hex(c):std::string("!"))<<"\n";
}
template<class F> static void lineView(const char* tag, int count, F get){
  std::cout<<"V "<<tag<<" "<<count;
  for(int i=0;i<count;i++) std::cout<<" "<<hx::hex(get(i));
  // edges: accessor outside 0..count-1 must give ""
  std::cout<<" | "<<hx::hex(get(-1))<<" "<<hx::hex(get(count))<<" "<<hx::hex(get(count+7))<<"\n";
}
static void views(TraceIPhreeqc* p){
  std::cout<<"V outstr "<<p->GetOutputStringOn()<<" "<<hx::hex(p->GetOutputString())<<"\n";
  lineView("outlines", p->GetOutputStringLineCount(), [&](int i){return std::string(p->GetOutputStringLine(i));});
  fileView("outfile", p->GetOutputFileOn(), p->GetOutputFileName());
  std::cout<<"V logstr "<<p->GetLogStringOn()<<" "<<hx::hex(p->GetLogString())<<"\n";
  lineView("loglines", p->GetLogStringLineCount(), [&](int i){return std::string(p->GetLogStringLine(i));});
  fileView("logfile", p->GetLogFileOn(), p->GetLogFileName());
  std::cout<<"V errstr "<<p->GetErrorStringOn()<<" "<<hx::hex(p->GetErrorString())<<"\n";
  lineView("errlines", p->GetErrorStringLineCount(), [&](int i){return std::string(p->GetErrorStringLine(i));});
  fileView("errfile", p->GetErrorFileOn(), p->GetErrorFileName());
  std::cout<<"V warnstr 1 "<<hx::hex(p->GetWarningString())<<"\n";
  lineView("warnlines", p->GetWarningStringLineCount(), [&](int i){return std::string(p->GetWarningStringLine(i));});
  std::cout<<"V dumpstr "<<p->GetDumpStringOn()<<" "<<hx::hex(p->GetDumpString())<<"\n";
  lineView("dumplines", p->GetDumpStringLineCount(), [&](int i){return std::string(p->GetDumpStringLine(i));});
  fileView("dumpfile", p->GetDumpFileOn(), p->GetDumpFileName());
  // selected output, per user number known to the object
  int save = p->GetCurrentSelectedOutputUserNumber();
  int cnt = p->GetSelectedOutputCount();
  std::cout<<"V selcount "<<cnt<<" cur "<<save<<"\n";
  for(int i=0;i<cnt;i++){
    int n = p->GetNthSelectedOutputUserNumber(i);
    p->SetCurrentSelectedOutputUserNumber(n);
    std::cout<<"V sel "<<n<<" stron="<<p->GetSelectedOutputStringOn()<<" fileon="<<p->GetSelectedOutputFileOn()
             <<" rows="<<p->GetSelectedOutputRowCount()<<" cols="<<p->GetSelectedOutputColumnCount()
             <<" hp="<<(TestSelectedOutput::high_precision(p,n)?1:0)<<"\n";
    std::cout<<"V selstr "<<n<<" "<<hx::hex(p->GetSelectedOutputString())<<"\n";
    std::string tag = "sellines "+std::to_string(n);
    lineView(tag.c_str(), p->GetSelectedOutputStringLineCount(), [&](int k){return std::string(p->GetSelectedOutputStringLine(k));});
    tag = "selfile "+std::to_string(n);
    fileView(tag.c_str(), p->GetSelectedOutputFileOn(), p->GetSelectedOutputFileName());
    auto& tabs = TestIPhreeqc::tables(p);
    auto it = tabs.find(n);
    std::cout<<"V tab "<<n<<" "<<(it==tabs.end()?std::string("none"):dumpTable(it->second))<<"\n";
  }
  p->SetCurrentSelectedOutputUserNumber(save);
  // raw switch maps
  std::cout<<"V selstrmap";
  for(auto& kv: TestIPhreeqc::selstron(p)) std::cout<<" "<<kv.first<<"="<<kv.second;
  std::cout<<"\nV selfilemap";
  for(auto& kv: TestIPhreeqc::selfileon(p)) std::cout<<" "<<kv.first<<"="<<kv.second;
  std::cout<<"\n";
  std::cout<<"V dumpstate "<<TestSelectedOutput::dump_state(p)<<" prdump="<<TestSelectedOutput::pr_dump(p)<<" prpunch="<<TestSelectedOutput::pr_punch(p)<<"\n";
  size_t nc = p->GetComponentCount();
  std::cout<<"V comp "<<nc;
  for(size_t i=0;i<nc;i++) std::cout<<" "<<hx::hex(p->GetComponent((int)i));
  std::cout<<"\n";
}

int main(int argc, char** argv){
  std::vector<TraceIPhreeqc*> inst;
  TraceIPhreeqc* p = 0;
  bool show_events = true;
  std::string line;
  while(std::getline(std::cin,line)){
    auto w = hx::words(line);
    if(w.empty()) continue;
    const std::string& op = w[0];
    auto flush_events = [&](){
      if(!p) return;
      if(show_events) for(auto& e: p->ev) std::cout<<e<<"\n";
      else std::cout<<"EVN "<<p->ev.size()<<"\n";
      p->ev.clear();
    };
    try {
    if(op=="new"){ p = new TraceIPhreeqc(); inst.push_back(p); std::cout<<"R new "<<inst.size()-1<<" id "<<p->GetId()<<"\n"; }
    else if(op=="use"){ p = inst.at(std::stoi(w[1])); }
    else if(op=="events"){ show_events = (w[1]=="1"); }
    else if(op=="opt"){ // opt endrow_user_punch 0|1 : source shape of IPhreeqc::EndRow (see trace.hpp)
      if(w.size()==3 && w[1]=="endrow_user_punch"){ TestSelectedOutput::endrow_checks_user_punch() = (w[2]=="1"); std::cout<<"R opt "<<w[1]<<" "<<w[2]<<"\n"; }
      else std::cout<<"bad-op opt\n";
    }
    else if(op=="destroy"){ int i=std::stoi(w[1]); delete inst.at(i); if(p==inst[i]) p=0; inst[i]=0; std::cout<<"R destroy\n"; }
    else if(!p){ std::cout<<"R noinst\n"; }
    else if(op=="load"){ p->ev.clear(); int r=p->LoadDatabase(hx::unhex(w[1]).c_str()); flush_events(); std::cout<<"R load "<<r<<"\n"; }
    else if(op=="loadstr"){ p->ev.clear(); int r=p->LoadDatabaseString(hx::unhex(w[1]).c_str()); flush_events(); std::cout<<"R load "<<r<<"\n"; }
    else if(op=="run"){ p->ev.clear(); int r=p->RunString(hx::unhex(w[1]).c_str()); flush_events(); std::cout<<"R run "<<r<<" ierr "<<TestIPhreeqc::get_input_errors(p)<<"\n"; }
    else if(op=="runfile"){ p->ev.clear(); int r=p->RunFile(hx::unhex(w[1]).c_str()); flush_events(); std::cout<<"R run "<<r<<" ierr "<<TestIPhreeqc::get_input_errors(p)<<"\n"; }
    else if(op=="acc"){ int r=p->AccumulateLine(hx::unhex(w[1]).c_str()); std::cout<<"R acc "<<r<<"\n"; }
    else if(op=="runacc"){ p->ev.clear(); int r=p->RunAccumulated(); flush_events(); std::cout<<"R run "<<r<<" ierr "<<TestIPhreeqc::get_input_errors(p)<<"\n"; }
    else if(op=="clearacc"){ p->ClearAccumulatedLines(); std::cout<<"R clearacc\n"; }
    else if(op=="getacc"){ std::cout<<"R getacc "<<hx::hex(p->GetAccumulatedLines())<<"\n"; }
    else if(op=="set"){
      bool v = (w[2]=="1");
      if(w[1]=="outfile") p->SetOutputFileOn(v); else if(w[1]=="outstr") p->SetOutputStringOn(v);
      else if(w[1]=="errfile") p->SetErrorFileOn(v); else if(w[1]=="errstr") p->SetErrorStringOn(v);
      else if(w[1]=="erron") p->SetErrorOn(v);
      else if(w[1]=="logfile") p->SetLogFileOn(v); else if(w[1]=="logstr") p->SetLogStringOn(v);
      else if(w[1]=="dumpfile") p->SetDumpFileOn(v); else if(w[1]=="dumpstr") p->SetDumpStringOn(v);
      else if(w[1]=="selfile") p->SetSelectedOutputFileOn(v); else if(w[1]=="selstr") p->SetSelectedOutputStringOn(v);
      else std::cout<<"bad-op\n";
    }
    else if(op=="cur"){ int r=p->SetCurrentSelectedOutputUserNumber(std::stoi(w[1])); std::cout<<"R cur "<<r<<"\n"; }
    else if(op=="fname"){
      std::string n = hx::unhex(w[2]);
      if(w[1]=="out") p->SetOutputFileName(n.c_str()); else if(w[1]=="err") p->SetErrorFileName(n.c_str());
      else if(w[1]=="log") p->SetLogFileName(n.c_str()); else if(w[1]=="dump") p->SetDumpFileName(n.c_str());
      else if(w[1]=="sel") p->SetSelectedOutputFileName(n.c_str()); else std::cout<<"bad-op\n";
    }
    else if(op=="write"){ std::ofstream f(hx::unhex(w[1]).c_str(), std::ios::binary); f<<hx::unhex(w[2]); std::cout<<"R write\n"; }
    else if(op=="views"){ views(p); std::cout<<"R views\n"; }
    else if(op=="get"){ // get n row col  : C++ accessor on user number n
      int save=p->GetCurrentSelectedOutputUserNumber(); p->SetCurrentSelectedOutputUserNumber(std::stoi(w[1]));
      CVar v; VRESULT r=p->GetSelectedOutputValue(std::stoi(w[2]),std::stoi(w[3]),&v);
      std::cout<<"R get "<<(int)r<<" "<<showVar(v)<<"\n"; p->SetCurrentSelectedOutputUserNumber(save);
    }
    else if(op=="cells"){ // cells n r0 r1 c0 c1 cap : every (row, col) of user number n through C, C++, Value2 and the Fortran glue
      int n=std::stoi(w[1]), r0=std::stoi(w[2]), r1=std::stoi(w[3]), c0=std::stoi(w[4]), c1=std::stoi(w[5]), cap=std::stoi(w[6]);
      int save=p->GetCurrentSelectedOutputUserNumber(); p->SetCurrentSelectedOutputUserNumber(n);
      int id=p->GetId();
      auto& tabs = TestIPhreeqc::tables(p);
      auto it0 = tabs.find(n);
      std::string before = it0==tabs.end()?std::string("none"):dumpTable(it0->second);
      std::cout<<"K "<<n<<" rows "<<GetSelectedOutputRowCount(id)<<" "<<p->GetSelectedOutputRowCount()<<" "<<GetSelectedOutputRowCountF(&id)
               <<" cols "<<GetSelectedOutputColumnCount(id)<<" "<<p->GetSelectedOutputColumnCount()<<" "<<GetSelectedOutputColumnCountF(&id)<<"\n";
      std::vector<char> sv(cap+8), svf(cap+8);
      for(int r=r0;r<=r1;r++) for(int c=c0;c<=c1;c++){
        VAR v1; VarInit(&v1); int rc=GetSelectedOutputValue(id,r,c,&v1); std::string s1=showVar(v1); VarClear(&v1);
        CVar v2; int rcpp=(int)p->GetSelectedOutputValue(r,c,&v2); std::string s2=showVar(v2);
        int vt=-1; double d=0; memset(sv.data(),'#',cap+8); int r2=GetSelectedOutputValue2(id,r,c,&vt,&d,sv.data(),(unsigned)cap);
        int vtf=-1; double df=0; memset(svf.data(),'#',cap+8); int lenf=cap; int cf=c+1; int rr=r; int rf=GetSelectedOutputValueF(&id,&rr,&cf,&vtf,&df,svf.data(),&lenf);
        // bytes behind the buffer must stay untouched ('#')
        bool over2=false, overf=false; for(int k=cap;k<cap+8;k++){ if(sv[k]!='#') over2=true; if(svf[k]!='#') overf=true; }
        std::cout<<"C "<<r<<" "<<c<<" "<<rc<<" "<<s1<<" | cpp "<<rcpp<<" "<<s2<<" | v2 "<<r2<<" "<<vt<<" "<<hx::hexd(d)<<" "<<hx::hex(std::string(sv.data(),strnlen(sv.data(),cap)))<<" "<<(over2?1:0)
                 <<" | f "<<rf<<" "<<vtf<<" "<<hx::hexd(df)<<" "<<hx::hex(std::string(svf.data(),cap))<<":"<<lenf<<" "<<(overf?1:0)<<"\n";
      }
      auto it1 = tabs.find(n);
      std::string after = it1==tabs.end()?std::string("none"):dumpTable(it1->second);
      std::cout<<"R cells "<<(before==after?"unchanged":"CHANGED")<<"\n";
      p->SetCurrentSelectedOutputUserNumber(save);
    }
    else std::cout<<"bad-op "<<op<<"\n";
    } catch (const std::exception& e) {
      flush_events();
      std::cout<<"R exception "<<hx::hex(e.what())<<"\n";
    } catch (...) {
      flush_events();
      std::cout<<"R exception -\n";
    }
    std::cout.flush();
  }
  for(auto q: inst) delete q;
  return 0;
}
