// C06 harness: run a list of jobs (database, input text) through the C API on fresh instances, sequentially or from
// N threads, and print one canonical result line per job. No randomness here: the job list and the assignment of jobs to
// threads come from the caller.
//   ph_threads <nthreads> <coexist> <churn>      stdin: lines "J <db-path-hex> <input-hex>"
//   nthreads = 1: sequential reference; coexist = number of idle instances created first (shifts the ids);
//   churn = number of extra create/destroy pairs each thread performs between its jobs.
// Output: "R <job> <id> <rc> <h-output> <h-selected> <h-error> <h-warning> <h-dump> <h-components> <nrows>" per job,
//         "IDS <all ids handed out, in per-thread order>", optional "T <job> <channel> <hex text>" when PH_TEXT=1.
#include "hx.hpp"
#include "IPhreeqc.h"
#include <thread>
#include <mutex>
#include <atomic>

struct Job { std::string db, input; };
struct Res { int id=-1, rc=-1, rows=0; std::string out, sel, err, warn, dump, comp; };

static uint64_t fnv(const std::string& s){ uint64_t h=1469598103934665603ULL; for(unsigned char c: s){ h^=c; h*=1099511628211ULL; } return h; }
static std::string h16(uint64_t u){ char b[17]; snprintf(b,17,"%016llx",(unsigned long long)u); return b; }

// the only run-dependent text the property exempts: the elapsed-time banner
static std::string mask(const char* t){
  std::string s = t ? t : ""; std::string o; std::istringstream is(s); std::string line;
  while(std::getline(is,line)){ if(line.find("Seconds")!=std::string::npos || line.find("seconds")!=std::string::npos) line="<time>";
    if(line.size()>=10 && line.find_first_not_of('-')==std::string::npos) line="<rule>";   // the banner's rule is as long as the time text
    o+=line; o+="\n"; }
  return o;
}

static Res run_job(const Job& j){
  Res r; int id = CreateIPhreeqc(); r.id = id;
  if(id < 0) return r;
  // user-set names so that no id-derived default file name can appear in any text
  SetOutputFileName(id,"o.out"); SetErrorFileName(id,"e.out"); SetLogFileName(id,"l.out"); SetDumpFileName(id,"d.out");
  SetOutputFileOn(id,0); SetErrorFileOn(id,0); SetLogFileOn(id,0); SetDumpFileOn(id,0); SetSelectedOutputFileOn(id,0);
  SetOutputStringOn(id,1); SetErrorStringOn(id,1); SetDumpStringOn(id,1);
  int rc = LoadDatabase(id, j.db.c_str());
  if(rc==0){
    SetSelectedOutputStringOn(id,1);
    rc = RunString(id, j.input.c_str());
  } else rc += 1000;
  r.rc = rc;
  r.out = mask(GetOutputString(id)); r.err = mask(GetErrorString(id)); r.warn = mask(GetWarningString(id));
  r.dump = mask(GetDumpString(id));
  int n = GetSelectedOutputCount(id);
  for(int k=0;k<n;k++){
    int u = GetNthSelectedOutputUserNumber(id,k); SetCurrentSelectedOutputUserNumber(id,u);
    r.sel += "#"+std::to_string(u)+"\n";
    int rows=GetSelectedOutputRowCount(id), cols=GetSelectedOutputColumnCount(id); r.rows += rows;
    for(int a=0;a<rows;a++){ for(int b=0;b<cols;b++){ VAR v; VarInit(&v); GetSelectedOutputValue(id,a,b,&v);
        if(v.type==TT_DOUBLE) r.sel += "D"+hx::hexd(v.dVal); else if(v.type==TT_LONG) r.sel += "L"+std::to_string(v.lVal);
        else if(v.type==TT_STRING) r.sel += "S"+std::string(v.sVal); else if(v.type==TT_EMPTY) r.sel += "E"; else r.sel += "X";
        r.sel += ";"; VarClear(&v); } r.sel += "\n"; }
    r.sel += mask(GetSelectedOutputString(id));
  }
  int nc = GetComponentCount(id); for(int k=0;k<nc;k++){ r.comp += GetComponent(id,k); r.comp += ","; }
  DestroyIPhreeqc(id);
  return r;
}

int main(int argc, char** argv){
  int nthreads = argc>1 ? atoi(argv[1]) : 1, coexist = argc>2 ? atoi(argv[2]) : 0, churn = argc>3 ? atoi(argv[3]) : 0;
  bool text = getenv("PH_TEXT") != 0;
  std::vector<Job> jobs; std::string line;
  while(std::getline(std::cin,line)){ auto w=hx::words(line); if(w.size()==3 && w[0]=="J") jobs.push_back({hx::unhex(w[1]),hx::unhex(w[2])}); }
  std::vector<int> idle; for(int i=0;i<coexist;i++) idle.push_back(CreateIPhreeqc());
  std::vector<Res> res(jobs.size());
  std::vector<std::vector<int> > ids(nthreads);
  auto worker = [&](int t){
    for(size_t k=t;k<jobs.size();k+=nthreads){
      for(int c=0;c<churn;c++){ int a=CreateIPhreeqc(); ids[t].push_back(a); GetOutputFileOn(a); int b=CreateIPhreeqc(); ids[t].push_back(b);
        DestroyIPhreeqc(a); GetErrorOn(b); DestroyIPhreeqc(b); DestroyIPhreeqc(a); }
      res[k] = run_job(jobs[k]); ids[t].push_back(res[k].id);
    }
  };
  if(nthreads<=1) worker(0);
  else { std::vector<std::thread> th; for(int t=0;t<nthreads;t++) th.emplace_back(worker,t); for(auto& x: th) x.join(); }
  for(size_t k=0;k<jobs.size();k++){ const Res& r=res[k];
    std::cout<<"R "<<k<<" "<<r.id<<" "<<r.rc<<" "<<h16(fnv(r.out))<<" "<<h16(fnv(r.sel))<<" "<<h16(fnv(r.err))<<" "<<h16(fnv(r.warn))<<" "
             <<h16(fnv(r.dump))<<" "<<h16(fnv(r.comp))<<" "<<r.rows<<"\n";
    if(text){ std::cout<<"T "<<k<<" out "<<hx::hex(r.out)<<"\nT "<<k<<" sel "<<hx::hex(r.sel)<<"\nT "<<k<<" err "<<hx::hex(r.err)<<"\nT "<<k<<" warn "<<hx::hex(r.warn)
             <<"\nT "<<k<<" dump "<<hx::hex(r.dump)<<"\nT "<<k<<" comp "<<hx::hex(r.comp)<<"\n"; }
  }
  std::cout<<"IDS"; for(int x: idle) std::cout<<" "<<x; for(auto& v: ids) for(int x: v) std::cout<<" "<<x; std::cout<<"\n";
  for(int x: idle) DestroyIPhreeqc(x);
  return 0;
}
