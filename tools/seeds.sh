#!/bin/sh
# usage: tools/seeds.sh C12 [seeds...]  — run the quick check at several seeds, print the last status line of each
p=$1; shift
[ $# -eq 0 ] && set -- 1 2 3 4 5
for s in "$@"; do
  /usr/bin/time -f "%es" env VERIF_SEED=$s python3 "$(dirname "$0")/vcheck.py" --prop "$p" 2>&1 | grep -v "^KNOWN-FINDING" | grep -E "VIOLATION|OK:|Traceback|Error|^[0-9.]+s$" | cut -c1-220 | tr '\n' ' '; echo
done
