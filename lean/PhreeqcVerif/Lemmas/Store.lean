import PhreeqcVerif.Model.Store
/-! Helper lemmas for C14: the association-list model of `std::map<int, T>` is a lawful finite map. -/
namespace PhreeqcVerif.Store
open AMap

theorem find_ins (m : AMap) (n : Int) (e : Entry) (x : Int) :
    find (ins n e m) x = if n = x then some e else find m x := by
  induction m with
  | nil => simp [ins, find]
  | cons p t ih =>
    obtain ⟨k, v⟩ := p
    simp only [ins]
    split
    · simp only [find]
    · split
      · rename_i h1 h2; subst h2; simp only [find]; split <;> simp_all
      · rename_i h1 h2
        simp only [find, ih]
        by_cases hk : k = x
        · subst hk; simp [h2]
        · simp [hk]

theorem find_put (m : AMap) (n : Int) (e : Entry) (x : Int) :
    find (m.put n e) x = if n = x then some { e with nUser := n } else find m x := by
  simp [put, find_ins]

theorem find_erase (m : AMap) (n x : Int) :
    find (m.erase n) x = if n = x then none else find m x := by
  induction m with
  | nil => simp [erase, find]
  | cons p t ih =>
    obtain ⟨k, v⟩ := p
    simp only [erase, List.filter] at *
    by_cases hk : k = n
    · subst hk; simp [find]; split <;> simp_all
    · have : (k != n) = true := by simp [hk]
      simp only [this, find, ih]
      by_cases hx : k = x
      · subst hx; simp [Ne.symm hk]
      · simp [hx]
end PhreeqcVerif.Store
