import PhreeqcVerif.Model.Util
import PhreeqcVerif.Model.Surface
/-! `pmodel surface`: reads the in-process dump written by `harness/ph_surface.cpp` (one block per completed
calculation) and recomputes every relation of property C20 with the definitions of `Model/Surface.lean` on `Float`.

Output lines:
* `N case blk have state stype dltype nSites nCharges nSpecies` — what the block contained
* `V case blk kind name ok|FAIL lhs rhs` — a relation of the PROPERTY (site balance, mass action incl. electrostatic
  term, charge–potential law, diffuse-layer neutrality, the same on the public read-outs); doubles as 16 hex digits
* `T case blk kind name ok|FAIL a b` — a TIE relation: a number the code holds equals the model's recomputation
  (psi-token coefficients, lm from rxn_x, f of a row, residual of a row, read-out = internal value).  A tie on a SUM
  (f of a charge row, sigma, plane charges, residuals) is judged with tolerance rel·Σ|terms| + floor: the net charge may be
  a near-complete cancellation, whose last digits depend on the order of summation -/
namespace Driver.Surface
open PhreeqcVerif PhreeqcVerif.Util PhreeqcVerif.Surface

structure TokD where
  name : String
  coef : Float
  la : Float
  type : Int
  z : Float

structure Sp where
  name : String
  z : Float
  lm : Float
  la : Float
  lk : Float
  lg : Float
  moles : Float
  lkdb : Float
  dz : Float × Float × Float
  primary : Bool
  rxnx : List TokD
  rxn : List TokD
  elts : List (String × Float × Int)
  equiv : Float
  cd : List Float

structure Aq where
  name : String
  z : Float
  lm : Float
  moles : Float
  erm : Float
  la : Float
  lg : Float
  g : List (String × Float)

structure Unk where
  idx : Nat
  type : Nat
  desc : String
  moles : Float
  f : Float
  resid : Float
  masterName : String
  masterLa : Float
  charge : String
  comp : String
  hasPhase : Bool
  phaseMoles : Float
  zMaster : Float
  potIdx : Int
  elt : String
  masterCoef : Float

structure Charge where
  name : String
  area : Float
  grams : Float
  water : Float
  cap0 : Float
  cap1 : Float
  s0 : Float
  s1 : Float
  s2 : Float
  sddl : Float

structure Comp where
  formula : String
  charge : String
  phase : String
  rate : String
  prop : Float
  moles : Float
  elt : String

/-- a surface species as READ FROM THE DATABASE / INPUT TEXT by tools/dbparse.py (nothing of the engine) -/
structure DbSp where
  name : String
  z : Float
  toks : List (String × Float × Float × Int)   -- name, coefficient, charge, kind (0 aq, 1 H+, 2 H2O, 3 e-, 6 surface)
  vec : List Float                              -- [logK_T0, ΔH kJ, A1..A6]
  hasCd : Bool
  cd : List Float
  elts : List (String × Float)

structure Block where
  case : String := ""
  blk : String := ""
  present : Bool := false
  state : Nat := 0
  stype : Nat := 0
  dltype : Nat := 0
  onlyCounter : Bool := false
  tk : Float := 0
  mu : Float := 0
  epsr : Float := 0
  mwAq : Float := 0
  tol : Float := 0
  ineqTol : Float := 0
  minRel : Float := 0
  comps : Array Comp := #[]
  charges : Array Charge := #[]
  unks : Array Unk := #[]
  sps : Array Sp := #[]
  aqs : Array Aq := #[]
  outs : Array (String × Float) := #[]
  laH2O : Float := 0
  laE : Float := 0
  gtol : Float := 1e-9
  db : Array DbSp := #[]
  gmaps : Array (String × Float × Float) := #[]
  aqz : Array (String × Float) := #[]                       -- charge of aqueous species from the database TEXT
  inC : Array (String × Float × Float × Float × Float) := #[]  -- first SURFACE block of the input: charge, area, grams, cap0, cap1
  inS : Array (String × Float) := #[]                       -- … site element, sites
  inM0 : Float := 0.0                                       -- largest -m0 of a KINETICS reactant in the input text

def fh (s : String) : Float := (floatOfHex s).getD (0.0 / 0.0)
def sh (s : String) : String := (unhexStr s).getD "?"

/-- parse `n` tokens of 5 words each; returns tokens and the rest -/
def takeToks : Nat → List String → List TokD → List TokD × List String
  | 0, ws, acc => (acc.reverse, ws)
  | n + 1, a :: b :: c :: d :: e :: rest, acc =>
      takeToks n rest ({ name := sh a, coef := fh b, la := fh c, type := d.toInt?.getD (-1), z := fh e } :: acc)
  | _, ws, acc => (acc.reverse, ws)

def takeElts : Nat → List String → List (String × Float × Int) → List (String × Float × Int) × List String
  | 0, ws, acc => (acc.reverse, ws)
  | n + 1, a :: b :: c :: rest, acc => takeElts n rest ((sh a, fh b, c.toInt?.getD (-1)) :: acc)
  | _, ws, acc => (acc.reverse, ws)

def takePairs : Nat → List String → List (String × Float) → List (String × Float)
  | 0, _, acc => acc.reverse
  | n + 1, a :: b :: rest, acc => takePairs n rest ((sh a, fh b) :: acc)
  | _, _, acc => acc.reverse

def parseP (ws : List String) : Option Sp :=
  match ws with
  | name :: z :: lm :: la :: lk :: lg :: moles :: lkdb :: d0 :: d1 :: d2 :: prim :: nx :: rest =>
    let (rxnx, rest) := takeToks (nx.toNat?.getD 0) rest []
    match rest with
    | ndb :: rest =>
      let (rxn, rest) := takeToks (ndb.toNat?.getD 0) rest []
      match rest with
      | ne :: rest =>
        let (elts, rest) := takeElts (ne.toNat?.getD 0) rest []
        match rest with
        | _c0 :: _c0x :: equiv :: _alk :: cds =>
          some { name := sh name, z := fh z, lm := fh lm, la := fh la, lk := fh lk, lg := fh lg, moles := fh moles,
                 lkdb := fh lkdb, dz := (fh d0, fh d1, fh d2), primary := prim == "1", rxnx := rxnx, rxn := rxn,
                 elts := elts, equiv := fh equiv, cd := cds.map fh }
        | _ => none
      | _ => none
    | _ => none
  | _ => none

def takeDbToks : Nat → List String → List (String × Float × Float × Int) → List (String × Float × Float × Int) × List String
  | 0, ws, acc => (acc.reverse, ws)
  | n + 1, a :: b :: c :: d :: rest, acc => takeDbToks n rest ((sh a, fh b, fh c, d.toInt?.getD 0) :: acc)
  | _, ws, acc => (acc.reverse, ws)

def takeEltPairs : Nat → List String → List (String × Float) → List (String × Float)
  | 0, _, acc => acc.reverse
  | n + 1, a :: b :: rest, acc => takeEltPairs n rest ((sh a, fh b) :: acc)
  | _, _, acc => acc.reverse

/-- `D case name z nt [name coef z kind]* v0..v7 hascd c0..c4 ne [elt coef]*` -/
def parseD (ws : List String) : Option DbSp :=
  match ws with
  | name :: z :: nt :: rest =>
    let (toks, rest) := takeDbToks (nt.toNat?.getD 0) rest []
    match rest with
    | v0 :: v1 :: v2 :: v3 :: v4 :: v5 :: v6 :: v7 :: hc :: c0 :: c1 :: c2 :: c3 :: c4 :: ne :: rest =>
      some { name := sh name, z := fh z, toks := toks, vec := [v0, v1, v2, v3, v4, v5, v6, v7].map fh, hasCd := hc == "1",
             cd := [c0, c1, c2, c3, c4].map fh, elts := takeEltPairs (ne.toNat?.getD 0) rest [] }
    | _ => none
  | _ => none

def addLine (b : Block) (ws : List String) : Block :=
  match ws with
  | "G" :: hv :: st :: rest =>
    let b := { b with present := hv == "1", state := st.toNat?.getD 0 }
    match rest with
    | ty :: dl :: oc :: _ => { b with stype := ty.toNat?.getD 0, dltype := dl.toNat?.getD 0, onlyCounter := oc == "1" }
    | _ => b
  | "S" :: tk :: mu :: er :: mw :: _mwb :: _mws :: tol :: it :: mr :: _ =>
    { b with tk := fh tk, mu := fh mu, epsr := fh er, mwAq := fh mw, tol := fh tol, ineqTol := fh it, minRel := fh mr }
  | ["K", fo, c, ph, rt, pr, mo, el] =>
    let c' : Comp :=
      { formula := sh fo, charge := sh c, phase := sh ph, rate := sh rt, prop := fh pr, moles := fh mo, elt := sh el }
    { b with comps := b.comps.push c' }
  | ["C", n, a, g, w, c0, c1, s0, s1, s2, sd] =>
    let c' : Charge :=
      { name := sh n, area := fh a, grams := fh g, water := fh w, cap0 := fh c0,
        cap1 := fh c1, s0 := fh s0, s1 := fh s1, s2 := fh s2, sddl := fh sd }
    { b with charges := b.charges.push c' }
  | ["U", i, ty, d, mo, fv, r, mn, mla, ch, co, hp, pm, zm, pidx, el, mc] =>
    let u : Unk :=
      { idx := i.toNat?.getD 0, type := ty.toNat?.getD 0, desc := sh d, moles := fh mo, f := fh fv,
        resid := fh r, masterName := sh mn, masterLa := fh mla, charge := sh ch, comp := sh co, hasPhase := hp == "1",
        phaseMoles := fh pm, zMaster := fh zm, potIdx := pidx.toInt?.getD (-1), elt := sh el, masterCoef := fh mc }
    { b with unks := b.unks.push u }
  | "P" :: rest =>
    match parseP rest with
    | some sp => { b with sps := b.sps.push sp }
    | none => b
  | ["Gm", n, z, g] => { b with gmaps := b.gmaps.push (sh n, fh z, fh g) }
  | ["W", a, e, _h, gt] => { b with laH2O := fh a, laE := fh e, gtol := fh gt }
  | "A" :: n :: z :: lm :: mo :: erm :: la :: lg :: ng :: rest =>
    let a : Aq :=
      { name := sh n, z := fh z, lm := fh lm, moles := fh mo, erm := fh erm, la := fh la, lg := fh lg,
        g := takePairs (ng.toNat?.getD 0) rest [] }
    { b with aqs := b.aqs.push a }
  | ["R", h, v] =>
    if v.startsWith "D" then { b with outs := b.outs.push (sh h, fh (v.drop 1).toString) } else b
  | _ => b

/-! ### evaluation -/

def okS (b : Bool) : String := if b then "ok" else "FAIL"

def vline (b : Block) (tag kind name : String) (ok : Bool) (l r : Float) : String :=
  s!"{tag} {b.case} {b.blk} {kind} {hexStr name} {okS ok} {hexOfFloat l} {hexOfFloat r}"

def isAqTok (t : TokD) : Bool := t.type == 0 || t.type == 1 || t.type == 3

def under (x : Float) : Float := if x < -40.0 then 0.0 else if x > 3.0 then 1000.0 else NumOps.exp10 x

def findOut (b : Block) (k : String) : Option Float := (b.outs.find? (·.1 == k)).map (·.2)

/-- property tolerance: 1e-8 relative (with a hair of slack for the different summation order) -/
def relTol : Float := 1.00001e-8
/-- 1e-8 relative on an activity = this many log10 units -/
def logTol : Float := 4.3430e-9

/-- effective CD-MUSIC distribution of a species relative to the master, computed from the TEXT reading alone: own
`-cd_music` (through `cdDz`) and the rewriting rule of `trxn_add` for every non-master surface parent -/
def effDz (db : Array DbSp) : Nat → String → Float × Float × Float
  | 0, _ => (0.0, 0.0, 0.0)
  | fuel + 1, name =>
    match db.find? (·.name == name) with
    | none => (0.0, 0.0, 0.0)
    | some d =>
      let own : Float × Float × Float := match d.cd with
        | [a, b, c, e, f] => if d.hasCd then cdDz a b c e f else (0.0, 0.0, 0.0)
        | _ => (0.0, 0.0, 0.0)
      let isMaster (n : String) : Bool := match db.find? (·.name == n) with
        | some m => m.toks.length == 1 && m.toks.all (fun t => t.1 == n)
        | none => true
      let parents := d.toks.filter fun t => t.2.2.2 == 6 && t.1 != name && !isMaster t.1
      rewriteDz own (parents.map fun t => (t.2.1, effDz db fuel t.1))

def evalBlock (b : Block) (prev : Array (String × Float)) : Array String × Array (String × Float) := Id.run do
  let mut out : Array String := #[]
  let mut hist := prev
  let sites := b.unks.filter (·.type == 20)
  out := out.push s!"N {b.case} {b.blk} {if b.present then 1 else 0} {b.state} {b.stype} {b.dltype} {sites.size} {b.charges.size} {b.sps.size}"
  if !b.present then return (out, hist)
  -- 0. species data "as given": overlay the reading of the database / input TEXT (D lines) on the engine's dump; every
  --    engine value that is replaced is tied to the text reading by a T relation -----------------------------------------
  let siteNames := sites.map (·.elt)
  let laOf (nm : String) : Float :=
    if nm == "H2O" then b.laH2O else if nm == "e-" then b.laE else
    match b.sps.find? (·.name == nm) with
    | some sp => if sp.primary then sp.la else sp.lm + sp.lg
    | none => match b.aqs.find? (·.name == nm) with
      | some a => a.lm + a.lg
      | none => 0.0 / 0.0
  let mut sps2 : Array Sp := #[]
  for sp in b.sps do
    match b.db.find? (·.name == sp.name) with
    | none =>
      if b.db.size > 0 then out := out.push (vline b "T" "db-missing" sp.name false 0 1)
      sps2 := sps2.push sp
    | some d =>
      -- reaction: same tokens and coefficients
      let same := d.toks.length == sp.rxn.length && d.toks.all fun t =>
        sp.rxn.any fun e => e.name == t.1 && close 1e-12 1e-12 e.coef t.2.1
      out := out.push (vline b "T" "db-rxn" sp.name same d.toks.length.toFloat sp.rxn.length.toFloat)
      let lk := kCalc d.vec b.tk
      out := out.push (vline b "T" "db-lk" sp.name (close 1e-12 1e-12 sp.lkdb lk) sp.lkdb lk)
      out := out.push (vline b "T" "db-z" sp.name (close 1e-12 1e-12 sp.z d.z) sp.z d.z)
      let cdOk := match sp.cd with
        | [a0, a1, a2, a3, a4] => (d.cd.zip [a0, a1, a2, a3, a4]).all fun pr => close 1e-12 1e-12 pr.1 pr.2
        | _ => false
      if b.stype == 3 || d.hasCd then out := out.push (vline b "T" "db-cd" sp.name cdOk 0 0)
      let ez := effDz b.db 8 sp.name
      if b.stype == 3 then
        out := out.push (vline b "T" "db-dzeff0" sp.name (close 1e-12 1e-12 sp.dz.1 ez.1) sp.dz.1 ez.1)
        out := out.push (vline b "T" "db-dzeff1" sp.name (close 1e-12 1e-12 sp.dz.2.1 ez.2.1) sp.dz.2.1 ez.2.1)
        out := out.push (vline b "T" "db-dzeff2" sp.name (close 1e-12 1e-12 sp.dz.2.2 ez.2.2) sp.dz.2.2 ez.2.2)
      let siteCnt (l : List (String × Float)) := l.foldl (fun a e => if siteNames.contains e.1 then a + e.2 else a) 0.0
      let engCnt := sp.elts.foldl (fun a e => if e.2.2 == 6 then a + e.2.1 else a) 0.0
      out := out.push (vline b "T" "db-elt" sp.name (close 1e-12 1e-12 engCnt (siteCnt d.elts)) engCnt (siteCnt d.elts))
      let toks : List TokD := d.toks.map fun t => { name := t.1, coef := t.2.1, la := laOf t.1, type := t.2.2.2, z := t.2.2.1 }
      let elts := d.elts.map fun e => (e.1, e.2, (if siteNames.contains e.1 then (6 : Int) else 0))
      sps2 := sps2.push { sp with rxn := toks, lkdb := lk, z := d.z, cd := if d.hasCd || b.stype == 3 then d.cd else sp.cd, elts := elts,
                                  dz := if b.stype == 3 then ez else sp.dz }
  let b := { b with sps := sps2 }
  -- aqueous charges: engine = database text
  for a in b.aqs do
    match b.aqz.find? (·.1 == a.name) with
    | some z => out := out.push (vline b "T" "db-aq-z" a.name (close 1e-12 1e-12 a.z z.2) a.z z.2)
    | none => pure ()
  -- first SURFACE block of the input text: area, grams, capacitances, sites as the engine holds them
  for i in b.inC do
    match b.charges.find? (·.name == i.1) with
    | some c =>
      let (a, g, c0, c1) := i.2
      if !a.isNaN then out := out.push (vline b "T" "in-area" c.name (close 1e-12 0.0 c.area a) c.area a)
      if !g.isNaN then out := out.push (vline b "T" "in-grams" c.name (close 1e-12 0.0 c.grams g) c.grams g)
      if !c0.isNaN then out := out.push (vline b "T" "in-cap0" c.name (close 1e-12 0.0 c.cap0 c0) c.cap0 c0)
      if !c1.isNaN then out := out.push (vline b "T" "in-cap1" c.name (close 1e-12 0.0 c.cap1 c1) c.cap1 c1)
    | none => if b.stype != 1 then out := out.push (vline b "T" "in-charge" i.1 false 0 1)   -- (-no_edl keeps no charge structure)
  -- from here on the charge–potential relations use area, grams and capacitances AS THE INPUT TEXT GIVES THEM
  let b := { b with charges := b.charges.map fun c =>
    match b.inC.find? (·.1 == c.name) with
    | some i =>
      let (a, g, c0, c1) := i.2
      { c with area := if a.isNaN then c.area else a, grams := if g.isNaN then c.grams else g,
               cap0 := if c0.isNaN then c.cap0 else c0, cap1 := if c1.isNaN then c.cap1 else c1 }
    | none => c }
  for i in b.inS do
    match sites.find? (·.elt == i.1) with
    | some u => if b.state == 3 then out := out.push (vline b "T" "in-sites" u.elt (close 1e-12 0.0 u.moles i.2) u.moles i.2)
    | none => out := out.push (vline b "T" "in-site" i.1 false 0 1)
  let env : Env Float := { tol := relTol, ineqTol := b.ineqTol, minRel := b.minRel, epsr := b.epsr, tk := b.tk, mu := b.mu }
  let tk := b.tk
  -- which charge a site element belongs to
  let chargeOfElt (el : String) : String :=
    match sites.find? (·.elt == el) with
    | some u => match b.comps.find? (·.formula == u.comp) with
      | some c => c.charge
      | none => ""
    | none => ""
  let siteEltOf (sp : Sp) : Option String := (sp.elts.find? (fun e => e.2.2 == 6)).map (·.1)
  -- 1. site balance -------------------------------------------------------------------------------------
  for u in sites do
    let sum := b.sps.foldl (fun acc sp =>
      sp.elts.foldl (fun a e => if e.1 == u.elt then a + sp.moles * (e.2.1 * u.masterCoef) else a) acc) 0.0
    let row : Row Float := Row.site u.moles sum
    hist := hist.push (u.elt, Surface.maxv sum u.moles)
    out := out.push (vline b "V" "site" u.elt (!row.fails env) sum u.moles)
    out := out.push (vline b "T" "site-f" u.elt (close 1e-12 1e-30 u.f sum) u.f sum)
    out := out.push (vline b "T" "site-res" u.elt (close 1e-6 (1e-14 * u.moles.abs + 1e-300) u.resid (u.moles - u.f)) u.resid (u.moles - u.f))
    match findOut b s!"surf:{u.elt}" with
    | some v => out := out.push (vline b "T" "pub-surf" u.elt (close 1e-12 1e-30 v sum) v sum)
    | none => pure ()
    -- sites of a surface related to an EQUILIBRIUM_PHASES / KINETICS reactant: proportion × moles of the reactant.
    -- A kinetic reactant changes the sites by increments (-proportion·Δm is added to the reaction), so the 1e-8 relative
    -- that every calculation is allowed accumulates over the calculations of a run: absolute tolerance (k+2)·1e-8·(largest site total seen so far in the run) at block k.
    match b.comps.find? (·.formula == u.comp) with
    | some c =>
      let rel := if c.phase != "" then findOut b "equi" else if c.rate != "" then findOut b "kin" else none
      match rel with
      | some m =>
        -- reference scale: the largest site total of the run so far, incl. the initial one (proportion × -m0 of the input)
        let big := hist.foldl (fun a h => if h.1 == u.elt then Surface.maxv a h.2 else a)
          (Surface.maxv (Surface.maxv sum (c.prop * m)) (if c.rate != "" then c.prop * b.inM0 else 0.0))
        if b.state == 5 && m > b.minRel && u.moles > b.minRel then
          out := out.push (vline b "V" "site-related" u.elt (close 0.0 (((b.blk.toNat?.getD 0).toFloat + 2.0) * relTol * big) sum (c.prop * m)) sum (c.prop * m))
      | none => pure ()
    | none => pure ()
  -- potentials of a charge structure
  let cbOf (ch : String) (ty : Nat) : Option Unk := b.unks.find? (fun u => u.type == ty && u.charge == ch)
  -- 2. mass action ---------------------------------------------------------------------------------------
  for sp in b.sps do
    -- tie: lm as `molalities` computes it from rxn_x
    let lmX := lmOf sp.lk sp.lg (sp.rxnx.map fun t => { coef := t.coef, la := t.la })
    out := out.push (vline b "T" "lm-rxnx" sp.name (close 1e-13 1e-13 sp.lm lmX) sp.lm lmX)
    -- moles = 10^lm
    out := out.push (vline b "V" "moles" sp.name (close relTol 1e-300 sp.moles (pow10 sp.lm)) sp.moles (pow10 sp.lm))
    match sp.rxn.find? (·.type == 6) with
    | none => out := out.push (vline b "V" "ma" sp.name false 0 0)
    | some mtok =>
      let siteU := match sites.find? (·.masterName == mtok.name) with
        | some u => some u
        | none => match siteEltOf sp with
          | some el => sites.find? (·.elt == el)
          | none => none
      let nsites := match siteU with | some u => u.moles | none => 0.0
      let ch := match siteU with | some u => chargeOfElt u.elt | none => ""
      -- `equiv` = coefficient of the surface master in the reaction (rewritten to the master when the text uses another species)
      let mIsPrimary := match b.sps.find? (·.name == mtok.name) with | some m => m.primary | none => false
      let equivX := match sp.rxnx.find? (·.type == 6) with | some t => t.coef | none => mtok.coef
      let equiv : Float := if b.stype == 3 then 1.0 else if mIsPrimary then mtok.coef else equivX
      let lg := lgSurf equiv nsites
      out := out.push (vline b "T" "lg" sp.name (close 1e-13 1e-13 sp.lg lg) sp.lg lg)
      let dzAq := sp.rxn.foldl (fun acc t => if isAqTok t then acc + t.z * t.coef else acc) 0.0
      let toks : List (Tok Float) := sp.rxn.map fun t => { coef := t.coef, la := t.la }
      if b.stype == 2 || b.stype == 4 then
        match cbOf ch 21 with
        | some cb =>
          let psi := psiOfLa tk cb.masterLa
          let rhs := laLaw sp.lkdb (electroTerm tk dzAq psi) toks
          out := out.push (vline b "V" "ma" sp.name (close 0.0 logTol (sp.lm + lg) rhs) (sp.lm + lg) rhs)
          -- tie: psi token of the rewritten equation
          let aqx := sp.rxnx.filter isAqTok |>.map fun t => (t.coef, t.z)
          let pc := psiCoef aqx
          let got := (sp.rxnx.filter (·.type == 7)).foldl (fun a t => a + t.coef) 0.0
          out := out.push (vline b "T" "psi-coef" sp.name (close 1e-12 1e-12 got pc) got pc)
        | none => out := out.push (vline b "V" "ma" sp.name false 0 1)
      else if b.stype == 3 then
        match cbOf ch 21, cbOf ch 22, cbOf ch 23 with
        | some c0, some c1, some c2 =>
          let (d0, d1, d2) := match sp.cd with
            | [a, b', c, d, e] => cdDz a b' c d e
            | _ => sp.dz
          let rhs := laLaw sp.lkdb (electroTermCD tk d0 d1 d2 (psiOfLaCD tk c0.masterLa) (psiOfLaCD tk c1.masterLa)
            (psiOfLaCD tk c2.masterLa)) toks
          out := out.push (vline b "V" "ma" sp.name (close 0.0 logTol (sp.lm + lg) rhs) (sp.lm + lg) rhs)
          let g0 := (sp.rxnx.filter (·.type == 7)).foldl (fun a t => a + t.coef) 0.0
          let g1 := (sp.rxnx.filter (·.type == 8)).foldl (fun a t => a + t.coef) 0.0
          let g2 := (sp.rxnx.filter (·.type == 9)).foldl (fun a t => a + t.coef) 0.0
          -- the equation rewritten to the master carries the EFFECTIVE distribution (own + Σ coef·parent)
          out := out.push (vline b "T" "cd-coef0" sp.name (close 1e-12 1e-12 g0 sp.dz.1) g0 sp.dz.1)
          out := out.push (vline b "T" "cd-coef1" sp.name (close 1e-12 1e-12 g1 sp.dz.2.1) g1 sp.dz.2.1)
          out := out.push (vline b "T" "cd-coef2" sp.name (close 1e-12 1e-12 g2 sp.dz.2.2) g2 sp.dz.2.2)
        | _, _, _ => out := out.push (vline b "V" "ma" sp.name false 0 1)
      else
        -- no electrostatic term (-no_edl)
        let rhs := laLaw sp.lkdb 0.0 toks
        out := out.push (vline b "V" "ma" sp.name (close 0.0 logTol (sp.lm + lg) rhs) (sp.lm + lg) rhs)
    match findOut b s!"mol:{sp.name}" with
    | some v => out := out.push (vline b "T" "pub-mol" sp.name (close 1e-12 1e-300 (v * b.mwAq) sp.moles) (v * b.mwAq) sp.moles)
    | none => pure ()
    match findOut b s!"la:{sp.name}" with
    | some v => out := out.push (vline b "T" "pub-la" sp.name (close 1e-13 1e-13 v (sp.lm + sp.lg)) v (sp.lm + sp.lg))
    | none => pure ()
  -- 3. charge–potential law, 4. diffuse layer ---------------------------------------------------------------
  for c in b.charges do
    if c.grams > b.minRel && (b.stype == 2 || b.stype == 3 || b.stype == 4) then
      let mine := b.sps.filter fun sp => match siteEltOf sp with
        | some el => chargeOfElt el == c.name
        | none => false
      let q := mine.foldl (fun a sp => a + sp.z * sp.moles) 0.0
      let sigSp := sigmaOfCharge q c.area c.grams
      -- scale of what is summed: the net charge can be a near-complete cancellation of positive and negative sites, so every
      -- tie on a sum is judged with tolerance rel·Σ|terms| (summation-order roundoff), never relative to the net result
      let qAbs := mine.foldl (fun a sp => a + (sp.z * sp.moles).abs) 0.0
      let sigAbs := sigmaOfCharge qAbs c.area c.grams
      let qdl := b.aqs.foldl (fun a s => a + (s.g.foldl (fun a2 g => if g.1 == c.name then a2 + s.z * g.2 else a2) 0.0)) 0.0
      let qdlAbs := b.aqs.foldl (fun a s => a + (s.g.foldl (fun a2 g => if g.1 == c.name then a2 + (s.z * g.2).abs else a2) 0.0)) 0.0
      -- 4b. diffuse-layer COMPOSITION: the excess factor g(z) of every charge number and the moles of every species in
      --     the layer, recomputed by the model of calc_all_donnan / calc_psi_avg or of calc_all_g (Romberg integration)
      if b.dltype != 0 && c.water ≥ 0.0 then
        let ratio := c.water / b.mwAq
        let gs := b.gmaps.filter (·.1 == c.name)
        let zs := (b.aqs.foldl (fun (acc : Array Float) a => if acc.contains a.z then acc else acc.push a.z) #[]).qsort (· < ·)
        let groups : List (Float × Float) := zs.toList.map fun z =>
          (z, b.aqs.foldl (fun acc a => if a.z == z then acc + a.z * a.moles * a.erm else acc) 0.0)
        let aqm : List (Float × Float) := b.aqs.toList.map fun a => (a.moles, a.z)
        let laPsi : Float := match (if b.stype == 3 then cbOf c.name 23 else cbOf c.name 21) with
          | some u => u.masterLa
          | none => 0.0 / 0.0
        let gModel : Float → Option Float :=
          if b.dltype == 2 then
            let fpsi := if b.stype == 3 then laPsi * LOG_10 / 2.0 else laPsi * LOG_10
            let sq := surfChrgEq b.epsr tk b.mu (c.area * c.grams) fpsi
            let cdm : Float := if b.stype == 3 then 1.0 else -1.0
            match psiAvg sq ratio b.mu b.gtol b.onlyCounter groups with
            | some p => fun z => if ratio == 0.0 then some 0.0 else some (donnanG sq ratio b.gtol cdm b.onlyCounter z p)
            | none => fun _ => none
          else fun z => if z == 0.0 then some 0.0 else borkovecG b.epsr tk laPsi c.area c.grams b.gtol b.mwAq b.onlyCounter aqm z
        let kindG := if b.dltype == 2 then "donnan-g" else "borkovec-g"
        for g in gs do
          match gModel g.2.1 with
          | some gm => out := out.push (vline b "T" kindG s!"{c.name}:{g.2.1}" (close 1e-6 1e-9 g.2.2 gm) g.2.2 gm)
          | none => out := out.push (vline b "T" kindG s!"{c.name}:{g.2.1}" false g.2.2 0)
        -- every species: moles in the layer = moles·erm_ddl·(g(z) + water_DL/water_aq), g from the MODEL; the engine's
        -- g_moles were formed with the g of the previous pass, which the convergence test allows to differ by 1e-8
        for a in b.aqs do
          match a.g.find? (·.1 == c.name), gModel a.z with
          | some gmol, some gm =>
            let pred := gMoles a.moles a.erm gm ratio
            let slack := a.moles * a.erm * b.tol * 1.001 * Surface.maxv 1.0 gm.abs
            out := out.push (vline b "V" "dl-excess" s!"{c.name}:{a.name}" (close 1e-6 (slack + 1e-30) gmol.2 pred) gmol.2 pred)
          | _, _ => pure ()
        -- Donnan (DDL/CCM): the layer as a whole balances the Gouy–Chapman charge at the reported ψ:
        -- Σ_z eq_z·(g(z) + ratio) = −A·f_sinh·sinh(Fψ/2RT)/F
        if b.dltype == 2 && b.stype != 3 && ratio > 0.0 then
          let sq := surfChrgEq b.epsr tk b.mu (c.area * c.grams) (laPsi * LOG_10)
          let tot := groups.foldl (fun acc gz =>
            if b.onlyCounter && sq * gz.1 > 0.0 then acc else   -- co-ions are kept out of the layer (g = −ratio + G_TOL·1e-3)
            match gs.find? (fun g => g.2.1 == gz.1) with
            | some g => acc + gz.2 * (g.2.2 + ratio)
            | none => acc) 0.0
          let scale := groups.foldl (fun acc gz => acc + (gz.2 * ratio).abs) sq.abs
          -- a factor that would fall to −ratio is stored as −ratio + G_TOL·1e-3 (donnanG): each clipped group may add that much
          let clipFloor := groups.foldl (fun acc gz => acc + gz.2.abs * b.gtol * 1e-3) 0.0
          -- calc_psi_avg sets |p| < G_TOL to 0 and stops: near zero charge its equation is not solved (premise `fd = 0`
          -- of donnan_charge_neutral does not hold), so the relation is judged only when the model's root is non-zero
          let pNonZero := match psiAvg sq ratio b.mu b.gtol b.onlyCounter groups with
            | some p => p != 0.0
            | none => false
          if sq.abs < 5000.0 && pNonZero then
            out := out.push (vline b "V" "donnan-neutral" c.name (close 1e-7 (1e-9 * scale + clipFloor) tot (-sq)) tot (-sq))
      let pubPsi := findOut b s!"psi:{c.name}"
      let pubSig := findOut b s!"sigma:{c.name}"
      let pubMu := (findOut b "mu").getD b.mu
      let pubEps := (findOut b "epsr").getD b.epsr
      let pubTk := (findOut b "tk").getD b.tk
      if b.stype == 2 || b.stype == 4 then
        match cbOf c.name 21 with
        | none => out := out.push (vline b "V" "charge-row" c.name false 0 1)
        | some cb =>
          let psi := psiOfLa tk cb.masterLa
          match pubPsi with
          | some v => out := out.push (vline b "T" "pub-psi" c.name (close 1e-13 1e-18 v psi) v psi)
          | none => pure ()
          if b.dltype == 0 then
            out := out.push (vline b "T" "cb-f" c.name (close 1e-10 (1e-12 * qAbs + 1e-22) cb.f q) cb.f q)
            let law := if b.stype == 2 then gcSigma b.epsr tk b.mu psi else ccmSigma c.cap0 psi
            out := out.push (vline b "V" (if b.stype == 2 then "gc" else "ccm") c.name (close relTol b.tol sigSp law) sigSp law)
            let r := if b.stype == 2 then residDDL b.epsr tk b.mu cb.masterLa cb.f c.area c.grams
                     else residCCM c.cap0 tk cb.masterLa cb.f c.area c.grams
            out := out.push (vline b "T" "cb-res" c.name (close 1e-6 (1e-12 * (sigAbs + law.abs) + 1e-19) cb.resid r) cb.resid r)
            match pubPsi, pubSig with
            | some pp, some ps =>
              let plaw := if b.stype == 2 then gcSigma pubEps pubTk pubMu pp else ccmSigma c.cap0 pp
              out := out.push (vline b "V" (if b.stype == 2 then "pub-gc" else "pub-ccm") c.name (close relTol b.tol ps plaw) ps plaw)
              out := out.push (vline b "T" "pub-sigma" c.name (close 1e-10 (1e-12 * sigAbs + 1e-22) ps sigSp) ps sigSp)
            | _, _ => pure ()
          else
            -- explicit diffuse layer: ion excess balances the surface charge
            let tot := q + qdl
            let ok := !(Row.dl c.grams tot).fails { env with tol := Surface.maxv b.tol (relTol * q.abs) }
            out := out.push (vline b "V" "dl-neutral" c.name ok qdl (-q))
            out := out.push (vline b "T" "cb-f" c.name (close 1e-9 (1e-9 * (qAbs + qdlAbs) + 1e-22) cb.f tot) cb.f tot)
            match pubSig with
            | some ps => out := out.push (vline b "T" "pub-sigma" c.name (close 1e-10 (1e-12 * sigAbs + 1e-22) ps sigSp) ps sigSp)
            | none => pure ()
      else
        -- CD-MUSIC
        match cbOf c.name 21, cbOf c.name 22, cbOf c.name 23 with
        | some u0, some u1, some u2 =>
          -- charge a species puts into the planes relative to the master: the effective distribution (text reading)
          let dzOf (sp : Sp) : Float × Float × Float := sp.dz
          let f0 := mine.foldl (fun a sp => a + (dzOf sp).1 * sp.moles) 0.0
          let f1 := mine.foldl (fun a sp => a + (dzOf sp).2.1 * sp.moles) 0.0
          let f2 := mine.foldl (fun a sp => a + (dzOf sp).2.2 * sp.moles) 0.0
          let f0Abs := mine.foldl (fun a sp => a + ((dzOf sp).1 * sp.moles).abs) 0.0
          let f1Abs := mine.foldl (fun a sp => a + ((dzOf sp).2.1 * sp.moles).abs) 0.0
          let f2Abs := mine.foldl (fun a sp => a + ((dzOf sp).2.2 * sp.moles).abs) 0.0
          let scAbs := sites.foldl (fun a u => if chargeOfElt u.elt == c.name then a + (u.moles * u.zMaster).abs else a) 0.0
          let toSig (x : Float) : Float := sigmaOfCharge x c.area c.grams
          let sc := sites.foldl (fun a u => if chargeOfElt u.elt == c.name then a + u.moles * u.zMaster else a) 0.0
          let aq := b.aqs.toList.map fun s => (under s.lm, s.z)
          let st := cdResiduals b.epsr tk c.area c.grams c.cap0 c.cap1 u0.masterLa u1.masterLa u2.masterLa f0 f1 f2 sc aq
          let psi0 := psiOfLaCD tk u0.masterLa
          let psi1 := psiOfLaCD tk u1.masterLa
          let psi2 := psiOfLaCD tk u2.masterLa
          out := out.push (vline b "V" "cd-plane0" c.name (close relTol b.tol st.sigma0 (c.cap0 * (psi0 - psi1))) st.sigma0 (c.cap0 * (psi0 - psi1)))
          out := out.push (vline b "V" "cd-plane1" c.name (close relTol b.tol (st.sigma0 + st.sigma1) (c.cap1 * (psi1 - psi2))) (st.sigma0 + st.sigma1) (c.cap1 * (psi1 - psi2)))
          out := out.push (vline b "T" "cd-f0" c.name (close 1e-9 (1e-12 * f0Abs + 1e-22) u0.f f0) u0.f f0)
          out := out.push (vline b "T" "cd-f1" c.name (close 1e-9 (1e-12 * f1Abs + 1e-22) u1.f f1) u1.f f1)
          out := out.push (vline b "T" "cd-sigma0" c.name (close 1e-9 (1e-12 * toSig (f0Abs + scAbs) + 1e-22) c.s0 st.sigma0) c.s0 st.sigma0)
          out := out.push (vline b "T" "cd-sigma1" c.name (close 1e-9 (1e-12 * toSig f1Abs + 1e-22) c.s1 st.sigma1) c.s1 st.sigma1)
          if b.dltype == 0 then
            out := out.push (vline b "V" "cd-plane2" c.name (close relTol b.tol (st.sigma0 + st.sigma1 + st.sigma2) (-st.sigmaddl)) (st.sigma0 + st.sigma1 + st.sigma2) (-st.sigmaddl))
            out := out.push (vline b "T" "cd-f2" c.name (close 1e-9 (1e-12 * f2Abs + 1e-22) u2.f f2) u2.f f2)
            out := out.push (vline b "T" "cd-res2" c.name (close 1e-5 (1e-12 * (toSig (f0Abs + scAbs + f1Abs + f2Abs) + st.sigmaddl.abs) + 1e-19) u2.resid st.r2) u2.resid st.r2)
          else
            let r2 := residCD2DL (f2 + qdl) st.sigma0 st.sigma1 c.area c.grams
            let ok := !(Row.cb c.grams r2).fails { env with tol := Surface.maxv b.tol (relTol * (f2 + (st.sigma0 + st.sigma1) * (c.area * c.grams) / F_C_MOL).abs) }
            out := out.push (vline b "V" "dl-neutral" c.name ok qdl (-(f2 + (st.sigma0 + st.sigma1) * (c.area * c.grams) / F_C_MOL)))
            out := out.push (vline b "T" "cd-f2" c.name (close 1e-9 (1e-9 * (f2Abs + qdlAbs) + 1e-22) u2.f (f2 + qdl)) u2.f (f2 + qdl))
          match pubPsi with
          | some v => out := out.push (vline b "T" "pub-psi" c.name (close 1e-13 1e-18 v psi0) v psi0)
          | none => pure ()
          match findOut b s!"psi1:{c.name}", findOut b s!"psi2:{c.name}", findOut b s!"sigma:{c.name}", findOut b s!"sigma1:{c.name}" with
          | some p1, some p2, some s0, some s1 =>
            let p0 := pubPsi.getD psi0
            out := out.push (vline b "V" "pub-cd0" c.name (close relTol b.tol s0 (c.cap0 * (p0 - p1))) s0 (c.cap0 * (p0 - p1)))
            out := out.push (vline b "V" "pub-cd1" c.name (close relTol b.tol (s0 + s1) (c.cap1 * (p1 - p2))) (s0 + s1) (c.cap1 * (p1 - p2)))
          | _, _, _, _ => pure ()
        | _, _, _ => out := out.push (vline b "V" "charge-row" c.name false 0 1)
  return (out, hist)

def run : IO Unit := do
  let lines ← readLines (← IO.getStdin)
  let out ← IO.getStdout
  let mut cur : Option Block := none
  let mut hist : Array (String × Float) := #[]
  let mut lastCase := ""
  let mut dbs : Array DbSp := #[]
  let mut zs : Array (String × Float) := #[]
  let mut ins : Array (List String) := #[]
  let mut zCase := ""
  let mut dbCase := ""
  for l in lines do
    let ws := words l
    match ws with
    | "D" :: c :: rest =>
      if c != dbCase then
        dbs := #[]
        dbCase := c
      match parseD rest with
      | some d => dbs := dbs.push d
      | none => pure ()
    | ["Z", c, n, z] =>
      if c != zCase then
        zs := #[]
        ins := #[]
        zCase := c
      zs := zs.push (sh n, fh z)
    | "I" :: c :: rest =>
      if c != zCase then
        zs := #[]
        ins := #[]
        zCase := c
      ins := ins.push rest
    | ["B", c, k] =>
      if c != lastCase then
        hist := #[]
        lastCase := c
      let mine := if c == zCase then ins.filter (fun l => l.head? == some k) else #[]
      let allC := if c == zCase then ins else #[]
      let inC := allC.filterMap fun l => match l with
        | [_, "C", n, a, g, c0, c1] => some (sh n, fh a, fh g, fh c0, fh c1)
        | _ => none
      let inS := mine.filterMap fun l => match l with
        | [_, "S", n, v] => some (sh n, fh v)
        | _ => none
      let m0 := allC.foldl (fun a l => match l with
        | [_, "M", v] => Surface.maxv a (fh v)
        | _ => a) 0.0
      cur := some { case := c, blk := k, db := if c == dbCase then dbs else #[], aqz := if c == zCase then zs else #[],
                    inC := inC, inS := inS, inM0 := m0 }
    | ["E"] =>
      match cur with
      | some b =>
        let (ls, h) := evalBlock b hist
        hist := h
        for s in ls do out.putStrLn s
      | none => pure ()
      cur := none
    | _ =>
      match cur with
      | some b => cur := some (addLine b ws)
      | none => pure ()

end Driver.Surface
