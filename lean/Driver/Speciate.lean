/-! `pmodel speciate`: line-protocol driver (stub — replaced by the owner of this model). -/
namespace Driver.Speciate

def run : IO Unit := IO.eprintln "pmodel speciate: not implemented"

end Driver.Speciate
