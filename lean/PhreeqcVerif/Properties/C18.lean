import PhreeqcVerif.Model.Inverse
import PhreeqcVerif.Lemmas.Inverse
/-!
# C18 — every reported inverse model is a genuine, admissible mole-balance model

Theorems about `Model/Inverse.lean` (the model of `setup_inverse`, `solve_inverse`, `minimal_solve`, `range`):

* `checkModel_sound`            – the executable check used on every reported model of the real code implies the
                                  declarative `Admissible` (for every problem, model and tolerance);
* `matrix_encodes_admissible`   – any vector satisfying the equalities, inequalities and sign constraints that
                                  `setupMatrix`/`signOf` encode (what cl1 returns with kode = 0) decodes to a model with exact
                                  mole balance for every element row, adjustments within the bounds, non-negative mixing
                                  fractions, final fraction 1 and the dissolve / precipitate constraints;
* `adjustment_within_declared`  – the bounds of the matrix are the declared uncertainties (plus `toler` in the negative
                                  direction when the bound exceeds the concentration);
* `element_entry_reaches_all_rows` – tidy_inverse: a -balances entry naming a redox element reaches every valence-state
                                  row of that element; `unnamed_row_keeps_default`;
* `minimal_antichain(_fold)`    – under `-minimal`, for any enumeration order and any LP oracle that is exact
                                  (`OracleOK`), no reported model's set contains another one's;
* `checkIso_sound`, `satisfies_isoBalanced` – isotope balances (linearised as in isotope_balance_equation), solution and
                                  phase isotope-ratio adjustments within their uncertainties;
* `satB_sound`, `range_brackets_feasible_model`, `range_silent_criterion` – the executable feasibility test of a vector is
                                  sound; a feasible reported model with |value| ≤ range_max is bracketed by the TRUE optima of the range
                                  LPs, so a reported min above / max below it is provably not an optimum (finding range-silent);
* `range_contains_value`        – the optimum of the range LP (minimise |x_v ∓ range_max| over the feasible set of the model)
                                  brackets the reported value whenever |value| ≤ range_max.
-/
namespace PhreeqcVerif.Inverse
open Problem

/-! ## checkModel -/

theorem checkModel_sound (p : Problem) (t : Rat) (m : Model) (h : p.checkModel t m = true) : p.Admissible t m := by
  unfold Problem.checkModel at h
  rw [Bool.and_eq_true] at h
  refine ⟨checkBalanced_sound p t m h.1, fun hr => ?_⟩
  have h2 := h.2
  rw [hr] at h2
  exact checkRange_sound p t m (by simpa using h2)

/-- the check is also complete: it accepts every admissible model (so a rejection is a real counterexample) -/
theorem checkModel_complete (p : Problem) (t : Rat) (m : Model) (h : p.Admissible t m) : p.checkModel t m = true := by
  unfold Problem.checkModel
  rw [Bool.and_eq_true]
  refine ⟨checkBalanced_complete p t m h.1, ?_⟩
  cases hr : p.range
  · rfl
  · simpa using checkRange_complete p t m (h.2 hr)

/-! ## the matrix -/

theorem matrix_encodes_admissible (p : Problem) (x mn mx : Var → Rat) (h : p.Satisfies x) :
    p.Balanced 0 (decode x mn mx) :=
  satisfies_balanced p x mn mx h

/-- with the reported ranges bracketing the values the decoded model is admissible in the sense of the property -/
theorem matrix_encodes_admissible_range (p : Problem) (x mn mx : Var → Rat) (h : p.Satisfies x)
    (hr : p.range = true → p.InRange 0 (decode x mn mx)) : p.Admissible 0 (decode x mn mx) :=
  ⟨satisfies_balanced p x mn mx h, hr⟩

/-- the bound used for an active adjustment is the declared uncertainty: `u·|T|` for a relative, `-u` for an
    absolute uncertainty; the bound in the negative direction exceeds it by at most `toler` -/
theorem adjustment_within_declared (p : Problem) (q e : Nat) (htol : 0 ≤ p.tol) (ha : p.active q e = true) :
    p.bound q e = p.rawBound q e ∧
    p.rawBound q e = (if p.unc q e ≤ 0 then -(p.unc q e) else absR (p.T q e * p.unc q e)) ∧
    p.lowBound q e ≤ p.bound q e + p.tol :=
  ⟨bound_eq_raw p q e ha, rfl, lowBound_le p q e htol ha⟩

/-- mole balance in the textbook form: with adjustments `δ_qe = ε_qe / α_q` for the solutions that take part
    (α_q ≠ 0) the residual is `Σ_q ±α_q (T_qe + δ_qe) + Σ ν x + Σ ρ r` -/
theorem mbRes_delta_form (p : Problem) (m : Model) (e : Nat) (δ : Nat → Rat)
    (hδ : ∀ q, q < p.ns → p.epsCoef q e (p.sgn q) * m.eps e q = p.sgn q * (m.alpha q * δ q)) :
    p.mbRes m e =
      sumR ((rng p.ns).map fun q => p.sgn q * (m.alpha q * (p.T q e + δ q))) +
      sumR ((rng p.np).map fun i => p.nu i e * m.x i) + sumR ((rng p.nr).map fun k => p.rho k e * m.r k) :=
  mbRes_delta p m e δ hδ

/-! ## the search -/

theorem minimal_antichain_fold (o : Oracle) (c : SearchCfg) (h : OracleOK o c.nbits) (hmin : c.minimal = true)
    (hn : 0 < c.nbits) (masks : List Nat) (st0 : SState)
    (h0 : st0.good = [] ∧ st0.bad = [] ∧ st0.minimal = [] ∧ st0.reported = []) :
    Antichain (masks.foldl (step o c) st0).reported :=
  antichain_fold_lemma o c h hmin hn masks st0 h0

theorem minimal_antichain (o : Oracle) (c : SearchCfg) (h : OracleOK o c.nbits) (hmin : c.minimal = true)
    (hn : 0 < c.nbits) : Antichain (search o c).reported :=
  antichain_search_lemma o c h hmin hn

/-- an antichain in the sense of the property: no reported set strictly contains another one -/
theorem antichain_no_strict_superset (l : List Nat) (h : Antichain l) (i j : Nat) (hi : i < l.length) (hj : j < l.length)
    (hij : i ≠ j) : ¬ (subsetOf l[i] l[j] = true ∧ l[i] ≠ l[j]) :=
  antichain_get l h i j hi hj hij

/-! ## ranges -/

/-- `range()`: the minimum is the solution of "minimise |x_v + R|", the maximum of "minimise |x_v - R|" over a
    feasible set `F` that contains the reported model `x`; if |x_v| ≤ R the two optima bracket the reported value -/
theorem range_contains_value (F : (Var → Rat) → Prop) (x ymin ymax : Var → Rat) (v : Var) (R : Rat)
    (hx : F x) (hlo : -R ≤ x v) (hhi : x v ≤ R)
    (hmin : ∀ z, F z → absR (ymin v + R) ≤ absR (z v + R))
    (hmax : ∀ z, F z → absR (ymax v - R) ≤ absR (z v - R)) :
    ymin v ≤ x v ∧ x v ≤ ymax v :=
  range_bracket F x ymin ymax v R hx hlo hhi hmin hmax

/-- the objective row written by `range()` (coefficient 1 in column `v`, right-hand side ∓range_max) has the L1
    residual |x_v ∓ R| -/
theorem range_objective (x : Var → Rat) (v : Var) (R : Rat) :
    absR ((Row.eval x { kind := .opt, coeffs := [(v, 1)], rhs := R }) - R) = absR (x v - R) := by
  simp only [Row.eval, List.map_cons, List.map_nil, sumR]
  congr 1; grind

/-! ## isotopes -/

/-- the executable isotope check implies the declarative isotope clauses -/
theorem checkIso_sound (p : Problem) (t : Rat) (m : Model) (h : p.checkIso t m = true) : p.IsoBalanced t m := by
  simp only [Problem.checkIso, Bool.and_eq_true, all_rng_iff, decide_eq_true_eq] at h
  obtain ⟨⟨hmb, hsol⟩, hph⟩ := h
  refine ⟨hmb, ?_, ?_⟩
  · intro q k si hq hk hsi
    have := hsol q hq k hk
    rw [hsi] at this
    simpa [Bool.and_eq_true, decide_eq_true_eq] using this
  · intro i pi n hi hmem hne
    have h1 := hph i hi
    rw [List.all_eq_true] at h1
    have h2 := h1 (pi, n) hmem
    simp only [Bool.or_eq_true, beq_iff_eq, Bool.and_eq_true, Bool.not_eq_true', decide_eq_false_iff_not,
      decide_eq_true_eq] at h2
    rcases h2 with h0 | ⟨hneg, hpos⟩
    · exact absurd h0 hne
    · constructor
      · intro hc
        rcases hneg with h3 | h3
        · exact absurd hc h3
        · exact h3
      · intro hc
        rcases hpos with h3 | h3
        · exact absurd hc h3
        · exact h3

/-- any vector satisfying the rows of `setupMatrix` satisfies the isotope clauses exactly: isotope balances, solution
    isotope ratios adjusted within their uncertainty, phase isotope ratios within theirs -/
theorem satisfies_isoBalanced (p : Problem) (x mn mx : Var → Rat) (h : p.Satisfies x) : p.IsoBalanced 0 (decode x mn mx) := by
  obtain ⟨heq, hle, _⟩ := h
  have hassign : (decode x mn mx).assign = x := by
    funext v; cases v <;> rfl
  refine ⟨?_, ?_, ?_⟩
  · intro n hn
    rw [hassign, heq _ (isoRow_mem p n hn)]
    simp [Problem.isoRow, absR]
  · intro q k si hq hk hsi
    have h1 := hle { kind := .le, rhs := 0, coeffs := [(Var.iso q k, 1), (Var.soln q, -si.xunc)] }
      (isoIneq_mem p q k hq hk _ (by simp [Problem.isoIneqRows, hsi]))
    have h2 := hle { kind := .le, rhs := 0, coeffs := [(Var.iso q k, -1), (Var.soln q, -si.xunc)] }
      (isoIneq_mem p q k hq hk _ (by simp [Problem.isoIneqRows, hsi]))
    simp only [Row.eval, List.map_cons, List.map_nil, sumR] at h1 h2
    simp only [decode]
    constructor <;> grind
  · intro i pi n hi hmem hne
    constructor
    · intro hc
      have hr1 : ({ kind := .le, rhs := 0, coeffs := [(Var.phase i, pi.unc), (Var.phiso i n, 1)] } : Row) ∈ p.phisoIneqRows i := by
        simp only [Problem.phisoIneqRows, List.mem_flatMap]
        exact ⟨(pi, n), hmem, by dsimp only; rw [if_neg hne, if_pos hc]; simp⟩
      have hr2 : ({ kind := .le, rhs := 0, coeffs := [(Var.phase i, pi.unc), (Var.phiso i n, -1)] } : Row) ∈ p.phisoIneqRows i := by
        simp only [Problem.phisoIneqRows, List.mem_flatMap]
        exact ⟨(pi, n), hmem, by dsimp only; rw [if_neg hne, if_pos hc]; simp⟩
      have h1 := hle _ (phisoIneq_mem p i hi _ hr1)
      have h2 := hle _ (phisoIneq_mem p i hi _ hr2)
      simp only [Row.eval, List.map_cons, List.map_nil, sumR] at h1 h2
      simp only [decode]
      constructor <;> grind
    · intro hc
      have hnc : ¬ (p.phases.getD i default).constr < 0 := by omega
      have hr1 : ({ kind := .le, rhs := 0, coeffs := [(Var.phase i, -pi.unc), (Var.phiso i n, -1)] } : Row) ∈ p.phisoIneqRows i := by
        simp only [Problem.phisoIneqRows, List.mem_flatMap]
        exact ⟨(pi, n), hmem, by dsimp only; rw [if_neg hne, if_neg hnc, if_pos hc]; simp⟩
      have hr2 : ({ kind := .le, rhs := 0, coeffs := [(Var.phase i, -pi.unc), (Var.phiso i n, 1)] } : Row) ∈ p.phisoIneqRows i := by
        simp only [Problem.phisoIneqRows, List.mem_flatMap]
        exact ⟨(pi, n), hmem, by dsimp only; rw [if_neg hne, if_neg hnc, if_pos hc]; simp⟩
      have h1 := hle _ (phisoIneq_mem p i hi _ hr1)
      have h2 := hle _ (phisoIneq_mem p i hi _ hr2)
      simp only [Row.eval, List.map_cons, List.map_nil, sumR] at h1 h2
      simp only [decode]
      constructor <;> grind

/-! ## feasibility of the reported vector, range LPs -/

/-- the executable feasibility test is sound (tolerance 0 = exact) -/
theorem satB_sound (p : Problem) (x : Var → Rat) (h : p.satB 0 x = true) : p.Satisfies x := by
  simp only [Problem.satB, Bool.and_eq_true, List.all_eq_true, decide_eq_true_eq, Bool.or_eq_true, Bool.not_eq_true',
    decide_eq_false_iff_not] at h
  obtain ⟨⟨heq, hle⟩, hsg⟩ := h
  refine ⟨fun r hr => ?_, fun r hr => ?_, fun v hv => ⟨fun hs => ?_, fun hs => ?_⟩⟩
  · have := absR_le_zero (heq r hr); grind
  · have := hle r hr; grind
  · rcases (hsg v hv).1 with h1 | h1
    · exact absurd hs h1
    · grind
  · rcases (hsg v hv).2 with h1 | h1
    · exact absurd hs h1
    · grind

theorem zeroOutsideB_sound (p : Problem) (mask : Nat) (x : Var → Rat) (h : p.zeroOutsideB 0 mask x = true) :
    p.ZeroOutside mask x := by
  simp only [Problem.zeroOutsideB, List.all_eq_true, Bool.or_eq_true, decide_eq_true_eq] at h
  intro v hv hm
  rcases h v hv with h1 | h1
  · rw [hm] at h1; cases h1
  · exact absR_le_zero h1

/-- `range()`: whenever the reported vector is feasible for the LP of its (mask ∪ forced) and |value| ≤ range_max, the true
    optima of the two range LPs bracket the reported value -/
theorem range_brackets_feasible_model (p : Problem) (mask : Nat) (x ymin ymax : Var → Rat) (v : Var) (R : Rat)
    (hx : p.Feasible mask x) (hlo : -R ≤ x v) (hhi : x v ≤ R)
    (hmin : ∀ z, p.Feasible mask z → absR (ymin v + R) ≤ absR (z v + R))
    (hmax : ∀ z, p.Feasible mask z → absR (ymax v - R) ≤ absR (z v - R)) :
    ymin v ≤ x v ∧ x v ≤ ymax v :=
  range_bracket (p.Feasible mask) x ymin ymax v R hx hlo hhi hmin hmax

/-- the proved criterion behind the finding `range-silent`: a reported minimum above (maximum below) the value of a
    feasible reported model is NOT an optimum of the range LP -/
theorem range_silent_criterion (p : Problem) (mask : Nat) (x y : Var → Rat) (v : Var) (R : Rat)
    (hx : p.Feasible mask x) (hlo : -R ≤ x v) (hhi : x v ≤ R) :
    (x v < y v → ¬ ∀ z, p.Feasible mask z → absR (y v + R) ≤ absR (z v + R)) ∧
    (y v < x v → ¬ ∀ z, p.Feasible mask z → absR (y v - R) ≤ absR (z v - R)) := by
  constructor
  · intro hlt hopt
    have h := hopt x hx
    unfold absR at h; split at h <;> split at h <;> grind
  · intro hlt hopt
    have h := hopt x hx
    unfold absR at h; split at h <;> split at h <;> grind

/-- a vector satisfies `rangeLP` (all rows but the objective) exactly when it satisfies the problem rows -/
theorem rangeLP_rows (p : Problem) (v : Var) (t : Rat) (r : Row) :
    r ∈ p.rangeLP v t ↔ r = { kind := .opt, coeffs := [(v, 1)], rhs := t } ∨ r ∈ p.eqRows ∨ r ∈ p.leRows := by
  simp [Problem.rangeLP]

/-! ## declared uncertainties (tidy_inverse) -/

/-- tidy_inverse: a `-balances` entry that names a redox ELEMENT reaches EVERY valence-state row of that element
    (unless a later element-wide entry for the same element or an entry for that very row replaces it) -/
theorem element_entry_reaches_all_rows (rows : List RowId) (dflt : List Rat) (pre post : List BalEntry) (p : Nat)
    (unc : List Rat) (i : Nat) (hi : i < rows.length) (hp : (rows.getD i default).primary = p)
    (hpost : ∀ en ∈ post, en.target ≠ .element p)
    (hrow : ∀ en ∈ pre ++ ⟨.element p, unc⟩ :: post, ∀ m, en.target = .row m → i ≠ rows.findIdx (fun r => r.master = m)) :
    propagateUnc rows dflt (pre ++ ⟨.element p, unc⟩ :: post) i = unc := by
  unfold propagateUnc
  rw [foldl_stepRow_other rows _ _ i hrow]
  rw [List.foldl_append, List.foldl_cons, foldl_stepElem_other rows post _ i p hp hpost]
  simp only [stepElem]
  rw [if_pos ⟨hp, hi⟩]

/-- rows that no entry names keep the global -uncertainty list -/
theorem unnamed_row_keeps_default (rows : List RowId) (dflt : List Rat) (es : List BalEntry) (i : Nat)
    (hel : ∀ en ∈ es, en.target ≠ .element (rows.getD i default).primary)
    (hrow : ∀ en ∈ es, ∀ m, en.target = .row m → i ≠ rows.findIdx (fun r => r.master = m)) :
    propagateUnc rows dflt es i = dflt := by
  unfold propagateUnc
  rw [foldl_stepRow_other rows _ _ i hrow, foldl_stepElem_other rows es _ i _ rfl hel]

/-- non-vacuity: Fe(2), Fe(3) (rows 0, 1 of element 7) and Ca (row 2); "Fe 0.02" reaches both valence states -/
example : (List.range 3).map (propagateUnc [⟨10, 7⟩, ⟨11, 7⟩, ⟨12, 12⟩] [1/20, 1/20] [⟨.element 7, [1/50, 1/50]⟩, ⟨.row 11, [1/10, 1/10]⟩]) =
    [[1/50, 1/50], [1/10, 1/10], [1/20, 1/20]] := by decide +kernel
example : padUnc 3 [1/20, 1/100] [1/2, 1/2, 1/2] = [1/20, 1/100, 1/100] ∧ padUnc 3 [] [1/2, 1/2, 1/2] = [1/2, 1/2, 1/2] := by
  decide +kernel
/-! ## non-vacuity -/

/-- one element (Ca, 5 % uncertainty), two solutions (1 mmol → 3 mmol), one dissolve-only phase with one Ca -/
def exProblem : Problem :=
  { solns := [{ totals := [1/1000], water := 55, phUnc := 1/20, dalkDph := 0, dalkDc := 0 },
              { totals := [3/1000], water := 55, phUnc := 1/20, dalkDph := 0, dalkDc := 0 }],
    elts := [{ isE := false, isAlkM := false, alkName := false, zalk := 2, unc := [1/20, 1/20] }],
    phases := [{ stoich := [1], water := 0, constr := 1, force := false }],
    redox := [], tol := 1/10000000000, mineralWater := true, waterUnc := 0, carbon := false, iAlk := 0, iCarb := none,
    range := true }

def exModel : Model :=
  { alpha := fun _ => 1, x := fun _ => 2/1000, r := fun _ => 0, eps := fun _ _ => 0, ph := fun _ => 0, water := 0,
    minA := fun _ => 1, maxA := fun _ => 1, minX := fun _ => 18/10000, maxX := fun _ => 22/10000 }

/-- the exact model (2 mmol dissolve) is accepted, hence admissible; a model with the wrong sign or a wrong
    amount is rejected -/
example : exProblem.checkModel 0 exModel = true := by decide +kernel
example : exProblem.Admissible 0 exModel := checkModel_sound _ _ _ (by decide +kernel)
example : exProblem.checkModel 0 { exModel with x := fun _ => -2/1000 } = false := by decide +kernel
example : exProblem.checkModel 0 { exModel with x := fun _ => 25/10000 } = false := by decide +kernel
/-- 2.1 mmol is admissible only with an adjustment of the final solution inside its 5 % -/
example : exProblem.checkModel 0 { exModel with x := fun _ => 21/10000, eps := fun _ q => if q = 1 then 1/10000 else 0 } = true := by
  decide +kernel
/-- the matrix of the example has the rows of setup_inverse: 5 optimisation, 1 mole balance, water, final fraction,
    2 charge, 2 dAlk, 4 epsilon inequalities -/
example : exProblem.setupMatrix.length = 16 := by decide +kernel
example : (exProblem.mbRow 0).coeffs =
    [(Var.soln 0, 1/1000), (Var.soln 1, -3/1000), (Var.phase 0, 1), (Var.eps 0 0, 1), (Var.eps 0 1, -1)] := by decide +kernel

/-- search: a concrete exact oracle (2 phases, 2 solutions) for which the hypotheses hold and two incomparable
    minimal models are reported -/
example : Antichain (search exOracle exCfg).reported := minimal_antichain _ _ exOracle_ok rfl (by decide)
example : (search exOracle exCfg).reported = [9, 10] := by decide

/-- non-vacuity: one requested isotope (13C of element C, row 0 = C(4)), one solution datum and one dissolving phase;
    the isotope row has the terms of isotope_balance_equation -/
def exIso : Problem :=
  { exProblem with
    rowNames := ["C(4)"], isos := [{ name := "C", prim := "C", number := 13, isHO := false }],
    isoUnk := [{ master := "C(4)", number := 13 }],
    solIso := [[{ master := "C(4)", prim := "C", number := 13, total := 1/1000, ratio := -7, xunc := 1 }],
               [{ master := "C(4)", prim := "C", number := 13, total := 3/1000, ratio := -2, xunc := 1/2 }]],
    phIso := [[{ name := "C", prim := "C", number := 13, ratio := 1, coef := 1, unc := 2 }]] }
example : (exIso.isoRow 0).coeffs =
    [(Var.soln 0, -7/1000), (Var.eps 0 0, -7), (Var.iso 0 0, 1/1000),
     (Var.soln 1, 6/1000), (Var.eps 0 1, 2), (Var.iso 1 0, -3/1000),
     (Var.phase 0, 1), (Var.phiso 0 0, 1)] := by decide +kernel
example : exIso.setupMatrix.length = 16 + 3 + 1 + 4 + 2 := by decide +kernel


end PhreeqcVerif.Inverse
