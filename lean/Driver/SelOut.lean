import PhreeqcVerif.Model.Util
import PhreeqcVerif.Model.SelOut
/-! `pmodel selout`: op list on stdin, one canonical line per observing op on stdout. -/
namespace Driver.SelOut
open PhreeqcVerif PhreeqcVerif.SelOut PhreeqcVerif.Util

def showVar : Var → String
  | .empty => "E"
  | .error c => s!"X{c}"
  | .long v => s!"L{v}"
  | .double b => s!"D{hex64 b}"
  | .str s => s!"S{hexStr s}"

def parseVar : List String → Option Var
  | ["E"] => some .empty
  | ["X", c] => c.toInt?.map .error
  | ["L", v] => v.toInt?.map .long
  | ["D", h] => (unhex64 h).map .double
  | ["S", h] => (unhexStr h).map .str
  | _ => none

def dump (t : Table) : String :=
  let nr := t.rowCountAPI
  let nc := t.colCount
  let rows := (List.range nr).map fun r =>
    String.intercalate ";" ((List.range nc).map fun c => showVar (t.get (Int.ofNat r) (Int.ofNat c)).2)
  s!"T rows={nr} cols={nc} | " ++ String.intercalate " | " rows

def step (t : Table) (line : String) : Table × Option String :=
  match words line with
  | "push" :: k :: rest =>
    match unhexStr k, parseVar rest with
    | some key, some v => (t.pushBack key v, none)
    | _, _ => (t, some "bad-op")
  | ["endrow"] => (t.endRow, none)
  | ["clear"] => (t.clear, none)
  | ["get", r, c] =>
    match r.toInt?, c.toInt? with
    | some r, some c => let (vr, v) := t.get r c; (t, some s!"G {vr} {showVar v}")
    | _, _ => (t, some "bad-op")
  | ["dump"] => (t, some (dump t))
  | ["reset"] => (Table.init, none)
  | ["mark", i] => (t, some s!"M {i}")
  | [] => (t, none)
  | _ => (t, some "bad-op")

def run : IO Unit := do
  let lines ← readLines (← IO.getStdin)
  let out ← IO.getStdout
  let mut t := Table.init
  for l in lines do
    let (t', o) := step t l
    t := t'
    match o with
    | some s => out.putStrLn s
    | none => pure ()

end Driver.SelOut
