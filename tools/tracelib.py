"""Trace correspondence shared by C05 / C09 / C08 / C04: run real API call scripts through harness/ph_trace
(TraceIPhreeqc records the PHRQ_io event stream), replay the events through the Lean routing model
(`pmodel route`) and compare every externally visible view; evaluate the direct oracles of the properties
on the implementation's own views."""
import os
import shutil
import tempfile

import vlib
from gens import inputs as gi

DB = str(vlib.REPO / "database" / "phreeqc.dat")


def hx(s):
    if isinstance(s, str):
        s = s.encode()
    return s.hex() if s else "-"


def unhx(h):
    return b"" if h == "-" else bytes.fromhex(h)


class Call:
    """one run call: events + result"""
    def __init__(self):
        self.events = []
        self.ret = None
        self.ierr = None
        self.exception = None


def parse_output(lines):
    """split harness output into per-op records"""
    recs = []
    cur_ev = []
    views = {}
    for ln in lines:
        if ln.startswith("EV "):
            cur_ev.append(ln)
        elif ln.startswith("V "):
            parts = ln.split(" ")
            tag = parts[1]
            if tag in ("sel", "selstr", "sellines", "selfile", "tab"):
                views.setdefault(tag, {})[int(parts[2])] = parts[3:]
            else:
                views[tag] = parts[2:]
        elif ln.startswith("R "):
            parts = ln.split(" ")
            recs.append({"op": parts[1], "args": parts[2:], "events": cur_ev, "views": views})
            cur_ev = []
            views = {}
        elif ln.startswith("EVN"):
            pass
    return recs


def run_script(ctx, exe, script_lines, workdir=None, timeout=300, env=None):
    own = workdir is None
    wd = workdir or tempfile.mkdtemp(prefix="vtrace_", dir=str(vlib.BUILD))
    try:
        r = vlib.sh([str(exe)], input="\n".join(script_lines) + "\n", cwd=wd, timeout=timeout, env=env)
        return r.returncode, r.stdout.splitlines(), r.stderr
    finally:
        if own:
            shutil.rmtree(wd, ignore_errors=True)


def model_views(ctx, cfg, events, per_user=False):
    """cfg: dict out=(str,file) log=(str,file) err=(str,file) strsw={n:b} filesw={n:b} cur=n"""
    lines = [f"cfg out {int(cfg['out'][0])} {int(cfg['out'][1])}",
             f"cfg log {int(cfg['log'][0])} {int(cfg['log'][1])}",
             f"cfg err {int(cfg['err'][0])} {int(cfg['err'][1])}",
             "cfg strsw " + " ".join(f"{k}={int(v)}" for k, v in cfg["strsw"].items()),
             "cfg filesw " + " ".join(f"{k}={int(v)}" for k, v in cfg["filesw"].items()),
             f"cfg cur {cfg['cur']}", f"cfg peruser {int(per_user)}"] + events + ["end"]
    out = ctx.pmodel("route", "\n".join(lines) + "\n")
    pv = {}
    for ln in out:
        parts = ln.split(" ")
        tag = parts[1]
        if tag in ("selstr", "sellines", "selfile", "tab"):
            pv.setdefault(tag, {})[int(parts[2])] = parts[3:]
        else:
            pv[tag] = parts[2:]
    return pv


NOTSET = {"outstr": b"GetOutputString: OutputStringOn not set.\n", "logstr": b"GetLogString: LogStringOn not set.\n",
          "dumpstr": b"GetDumpString: DumpStringOn not set.\n", "errstr": b"GetErrorString: ErrorStringOn not set.\n",
          "selstr": b"GetSelectedOutputString: SelectedOutputStringOn not set.\n"}


def compare_call(cfg, views, pv, check_sel=True):
    """model-vs-implementation differences for one call. Returns list of (what, impl, model)."""
    d = []

    def cmp_stream(name, on_str, on_file):
        istr = views[name + "str"]
        if on_str:
            if istr[1] != pv[name + "str"][0]:
                d.append((name + "str", istr[1][:200], pv[name + "str"][0][:200]))
        else:
            if unhx(istr[1]) != NOTSET[name + "str"]:
                d.append((name + "str-disabled", istr[1][:200], "not-set message"))
        il = views[name + "lines"]
        if il != pv[name + "lines"]:
            d.append((name + "lines", " ".join(il)[:200], " ".join(pv[name + "lines"])[:200]))
        f = views[name + "file"]
        if on_file:
            if f[2] != pv[name + "file"][0]:
                d.append((name + "file", f[2][:200], pv[name + "file"][0][:200]))

    cmp_stream("out", cfg["out"][0], cfg["out"][1])
    cmp_stream("log", cfg["log"][0], cfg["log"][1])
    # error stream
    if cfg["err"][0]:
        if views["errstr"][1] != pv["errstr"][0]:
            d.append(("errstr", views["errstr"][1][:200], pv["errstr"][0][:200]))
        if views["errlines"] != pv["errlines"]:
            d.append(("errlines", " ".join(views["errlines"])[:200], " ".join(pv["errlines"])[:200]))
    if cfg["err"][1] and views["errfile"][2] != pv["errfile"][0]:
        d.append(("errfile", views["errfile"][2][:200], pv["errfile"][0][:200]))
    if views["warnstr"][1] != pv["warnstr"][0]:
        d.append(("warnstr", views["warnstr"][1][:200], pv["warnstr"][0][:200]))
    if views["warnlines"] != pv["warnlines"]:
        d.append(("warnlines", " ".join(views["warnlines"])[:200], " ".join(pv["warnlines"])[:200]))
    if check_sel:
        for n, tab in views.get("tab", {}).items():
            mt = pv.get("tab", {}).get(n)
            if mt is None:
                # no punch event for this user number: empty table expected
                if tab[0] not in ("none",) and not tab[0].startswith("rows=0"):
                    d.append((f"tab {n}", " ".join(tab)[:200], "no events"))
                continue
            if tab != mt:
                d.append((f"tab {n}", " ".join(tab)[:300], " ".join(mt)[:300]))
            sl = views["sellines"][n]
            if sl != pv["sellines"][n]:
                d.append((f"sellines {n}", " ".join(sl)[:200], " ".join(pv["sellines"][n])[:200]))
            fv = views["selfile"][n]
            if cfg["filesw"].get(n, False) and fv[2] != "!" and fv[2] != pv["selfile"][n][0]:
                d.append((f"selfile {n}", fv[2][:200], pv["selfile"][n][0][:200]))
            # string as seen through the API with current = n (the accessor's own gate is the raw map entry)
            if n in cfg["strsw"]:
                if views["selstr"][n][0] != pv["selstr"][n][0]:
                    d.append((f"selstr {n}", views["selstr"][n][0][:200], pv["selstr"][n][0][:200]))
    return d


def lines_of(b):
    """std::getline semantics"""
    if not b:
        return []
    parts = b.split(b"\n")
    if parts[-1] == b"":
        parts.pop()
    return parts


def direct_oracle(cfg, views):
    """C05/C09 property statement evaluated on the implementation's own views (per-user-number semantics).
    Returns list of (key, text): key identifies the call site / rule for the known-findings file."""
    bad = []

    def stream(name, on_str, on_file, fkey):
        s = unhx(views[name + "str"][1]) if on_str else None
        lines = [unhx(x) for x in views[name + "lines"][1:1 + int(views[name + "lines"][0])]]
        edges = views[name + "lines"][-3:]
        if any(e != "-" for e in edges):
            bad.append((name + "-line-accessor-edge", f"{name}: line accessor outside 0..count-1 returned non-empty"))
        f = views[name + "file"]
        if on_str and lines != lines_of(s):
            bad.append((name + "-lines", f"{name}: line accessors differ from the lines of the string"))
        if not on_str and lines:
            bad.append((name + "-disabled-lines", f"{name}: disabled string sink has {len(lines)} lines"))
        if on_str and on_file and f[2] != "!" and unhx(f[2]) != s:
            bad.append((name + "-file-ne-string", f"{name}: file and string differ"))

    stream("out", cfg["out"][0], cfg["out"][1], "out")
    stream("log", cfg["log"][0], cfg["log"][1], "log")
    # error: every line of the error string appears in the error file, in order
    if cfg["err"][0] and cfg["err"][1] and views["errfile"][2] != "!":
        es = lines_of(unhx(views["errstr"][1]))
        ef = lines_of(unhx(views["errfile"][2]))
        i = 0
        for ln in ef:
            if i < len(es) and ln == es[i]:
                i += 1
        if i < len(es):
            bad.append(("err-file-missing-line", "error string line not in error file: %r" % es[i][:80]))
    el = [unhx(x) for x in views["errlines"][1:1 + int(views["errlines"][0])]]
    if cfg["err"][0] and el != lines_of(unhx(views["errstr"][1])):
        bad.append(("err-lines", "error line accessors differ from the error string"))
    # selected output per user number
    for n, tab in views.get("tab", {}).items():
        sw = cfg["strsw"].get(n, False)
        fo = cfg["filesw"].get(n, False)
        meta = dict(x.split("=") for x in views["sel"][n])
        nlines = int(views["sellines"][n][0])
        lines = [unhx(x) for x in views["sellines"][n][1:1 + nlines]]
        if any(e != "-" for e in views["sellines"][n][-3:]):
            bad.append(("sel-line-accessor-edge", f"sel {n}: accessor outside range returned non-empty"))
        sraw = unhx(views["selstr"][n][0])
        rows = int(meta["rows"])
        if n in cfg["strsw"]:
            s = sraw
            if sw:
                if lines != lines_of(s):
                    bad.append(("sel-lines-ne-string", f"sel {n}: line accessors differ from the string"))
                if rows and len(lines_of(s)) != rows:
                    bad.append(("sel-string-rows", f"sel {n}: string has {len(lines_of(s))} lines, table {rows} rows"))
            else:
                if s or lines:
                    bad.append(("sel-disabled-string-received", f"sel {n}: disabled string sink received content"))
        else:
            if lines:
                bad.append(("sel-disabled-string-received", f"sel {n}: string switch never set, yet {len(lines)} lines"))
        f = views["selfile"][n]
        if fo and f[2] != "!":
            fl = lines_of(unhx(f[2]))
            if rows and len(fl) != rows:
                bad.append(("sel-file-rows", f"sel {n}: file has {len(fl)} lines, table {rows} rows"))
            if sw and n in cfg["strsw"] and unhx(f[2]) != sraw:
                bad.append(("sel-file-ne-string", f"sel {n}: file and string differ"))
        # table shape
        if tab[0] != "none":
            txt = " ".join(tab)
            head, *rws = txt.split(" | ")
            nc = int(head.split()[1].split("=")[1])
            for r in rws:
                if r and len(r.split(";")) != nc:
                    bad.append(("sel-table-shape", f"sel {n}: row with wrong cell count"))
    return bad


def explained_by_switch_rule(cfg):
    """True when the code's rule (all numbers follow the current number's switch) and the per-number rule differ
    for some defined user number — the precondition of known finding `get_sel_out_string_on-ignores-n`"""
    cur_sw = cfg["strsw"].get(cfg["cur"], False)
    return any(cfg["strsw"].get(n, False) != cur_sw for n in cfg["users"])


def make_cfg(rng, users, allow_mixed=True):
    cfg = {"out": (rng.random() < 0.5, rng.random() < 0.5), "log": (rng.random() < 0.5, rng.random() < 0.5),
           "err": (rng.random() < 0.85, rng.random() < 0.5), "dump": (rng.random() < 0.5, rng.random() < 0.5),
           "strsw": {}, "filesw": {}, "cur": 1, "users": list(users)}
    nums = list(users) + [rng.choice([1, 7, 99])]
    for n in nums:
        if rng.random() < 0.75:
            cfg["strsw"][n] = rng.random() < 0.7
        if rng.random() < 0.6:
            cfg["filesw"][n] = rng.random() < 0.6
    if not allow_mixed and cfg["strsw"]:
        v = rng.random() < 0.7
        for n in nums:
            cfg["strsw"][n] = v
    cfg["strsw"].setdefault(1, False)
    cfg["filesw"].setdefault(1, False)
    cfg["cur"] = rng.choice(nums)
    return cfg


def cfg_script(cfg):
    s = [f"set outstr {int(cfg['out'][0])}", f"set outfile {int(cfg['out'][1])}",
         f"set logstr {int(cfg['log'][0])}", f"set logfile {int(cfg['log'][1])}",
         f"set errstr {int(cfg['err'][0])}", f"set errfile {int(cfg['err'][1])}",
         f"set dumpstr {int(cfg['dump'][0])}", f"set dumpfile {int(cfg['dump'][1])}"]
    for n, v in cfg["strsw"].items():
        s += [f"cur {n}", f"set selstr {int(v)}"]
    for n, v in cfg["filesw"].items():
        s += [f"cur {n}", f"set selfile {int(v)}"]
    s.append(f"cur {cfg['cur']}")
    return s


def analyse_call(ctx, cfg, events, views, ret):
    pv = model_views(ctx, cfg, events)
    if pv.get("bad", ["0"])[0] != "0":
        raise RuntimeError("pmodel route could not parse %s event lines" % pv["bad"][0])
    diffs = compare_call(cfg, views, pv)
    bad = direct_oracle(cfg, views)
    # user numbers whose SELECTED_OUTPUT was (re)opened after text had been punched for them in this call
    seen_text, redefined = set(), set()
    for e in events:
        p = e.split(" ")
        if p[1] in ("pmsg", "pd", "ps", "pi"):
            seen_text.add(int(p[3]))
        elif p[1] == "popen" and int(p[3]) in seen_text:
            redefined.add(int(p[3]))
    nrows = sum(int(dict(x.split("=") for x in v)["rows"]) for v in views.get("sel", {}).values())
    nerr_events = sum(1 for e in events if e.startswith("EV err "))
    # C08 relation: return value non-zero iff an ERROR event was recorded in this call
    if (ret != 0) != (nerr_events > 0):
        bad.append(("retval-vs-errors", f"return value {ret} with {nerr_events} ERROR events"))
    return {"diffs": diffs, "oracle": bad, "ret": ret, "events": len(events), "rows": nrows,
            "errcount": int(pv["errcount"][0]), "redefined": sorted(redefined), "views": views}


def run_calls(ctx, exe, calls, db=DB, prelude=()):
    """calls: list of (cfg, input_text). One instance, one database load, then for each call: switches, run, views.
    Returns list of per-call analysis dicts (or a single {"crash":...})."""
    script = ["new", f"load {hx(db)}"] + list(prelude)
    for cfg, inp in calls:
        script += cfg_script(cfg) + [f"run {hx(inp)}", "views"]
    rc, out, err = run_script(ctx, exe, script)
    if rc != 0:
        return [{"crash": rc, "stderr": err[-800:], "script": script}]
    recs = parse_output(out)
    runrec = [r for r in recs if r["op"] == "run"]
    vrec = [r for r in recs if r["op"] == "views"]
    if len(runrec) != len(calls) or len(vrec) != len(calls):
        return [{"crash": "no-result", "stdout": out[-5:], "script": script}]
    res = []
    for (cfg, inp), rr, vr in zip(calls, runrec, vrec):
        r = analyse_call(ctx, cfg, rr["events"], vr["views"], int(rr["args"][0]))
        r["script"] = script
        res.append(r)
    return res


def one_case(ctx, exe, inp, users, cfg, db=DB):
    return run_calls(ctx, exe, [(cfg, inp)], db=db)[0]


def run_selout_traces(ctx, per_property="C05"):
    exe = ctx.build_harness("ph_trace")
    n = ctx.n(40, 1000)
    evals = 0
    distinct = set()
    hist = {"inputs_with_rows": 0, "errors": 0, "mixed_switch_cases": 0, "blocks": {}}
    ninv = ctx.n(2, 30)
    hist["inverse_inputs"] = ninv
    for i in range(n + ninv):
        if i < ninv:
            # INVERSE_MODELING punches through its own routine (punch_model)
            from gens import threads as gth
            inp, users = gth.inverse(ctx.rng)[1], [1]
            cfg = make_cfg(ctx.rng, users, allow_mixed=False)
            cfg["strsw"][1] = True
            cfg["filesw"][1] = True
        else:
            inp, users = gi.selout_input(ctx.rng)
            cfg = make_cfg(ctx.rng, users)
        if i >= ninv and ctx.rng.random() < 0.35:
            # two consecutive calls on one instance: the views of the second call must describe the second call only
            # (tables, strings and line vectors of the previous call must not show through when a switch was turned off)
            inp2, users2 = inp, users      # same input again (definitions of call 1 persist; a different input is C04/C09 territory)
            cfg2 = make_cfg(ctx.rng, sorted(set(users) | set(users2)))
            # switches persist between calls: the effective configuration of call 2 is call 1's maps overridden by its own
            cfg2["strsw"] = {**cfg["strsw"], **cfg2["strsw"]}
            cfg2["filesw"] = {**cfg["filesw"], **cfg2["filesw"]}
            for n in list(cfg["strsw"]):
                if ctx.rng.random() < 0.5:
                    cfg2["strsw"][n] = not cfg["strsw"][n]
            both = run_calls(ctx, exe, [(cfg, inp), (cfg2, inp2)])
            hist["two_call_sequences"] = hist.get("two_call_sequences", 0) + 1
            if "crash" not in both[0] and len(both) == 2:
                handle_result(ctx, inp2, cfg2, both[1], explained_by_switch_rule(cfg2))
                evals += 1
                if ctx.violations:
                    break
            res = both[0]
        else:
            res = one_case(ctx, exe, inp, users, cfg)
        evals += 1
        if "crash" in res:
            ctx.violation("harness run crashed / gave no result", {"input": inp, "cfg": cfg_json(cfg), "result": res})
            break
        hist["blocks"][len(users)] = hist["blocks"].get(len(users), 0) + 1
        if res["rows"]:
            hist["inputs_with_rows"] += 1
            distinct.add(hash((inp, str(cfg))))
        if res["ret"]:
            hist["errors"] += 1
        mixed = explained_by_switch_rule(cfg)
        if mixed:
            hist["mixed_switch_cases"] += 1
        if i < 2:
            ctx.sample({"input": inp[:400], "cfg": cfg_json(cfg), "events": res["events"], "rows": res["rows"]})
        handle_result(ctx, inp, cfg, res, mixed)
        if ctx.violations:
            break
    ctx.cov["trace_histogram"] = hist
    return {"evaluations": evals, "distinct": len(distinct)}


def handle_result(ctx, inp, cfg, res, mixed):
    rep = {"input": inp, "cfg": cfg_json(cfg)}
    if res["diffs"]:
        # Q: correspondence broken. Evaluate the direct oracle.
        if res["oracle"] and not (mixed and all(k.startswith("sel-") for k, _ in res["oracle"])):
            ctx.violation("views disagree with the routing model and the property's own relations fail: "
                          + "; ".join(t for _, t in res["oracle"][:3]), dict(rep, diffs=res["diffs"][:5], oracle=res["oracle"][:5]))
        else:
            ctx.violation("views disagree with the routing model (Model/Route): " + str(res["diffs"][0][0]),
                          dict(rep, diffs=res["diffs"][:5], correspondence="ph_trace views vs pmodel route"),
                          found_input=True)
        return
    no_nl = users_without_newline(inp)
    for key, text in res["oracle"]:
        m = __import__("re").match(r"sel (\d+):", text)
        n_user = int(m.group(1)) if m else None
        if key in ("sel-string-rows", "sel-file-rows") and n_user in no_nl:
            # `-new_line false` / NO_NEWLINE$ ask for several records on one text line: the number of text lines is then
            # not the number of table rows by request; string = file and lines = split(string) are still judged
            continue
        if key in ("sel-string-rows", "sel-file-rows") and "INVERSE_MODELING" in inp and "-inverse_modeling true" in inp:
            # punch_model never signals end-of-row: file/string rows > table rows (known finding, see known_findings.txt)
            ctx.finding("inverse-rows-not-in-table", text, dict(rep, oracle=res["oracle"][:5]))
        elif key in ("sel-string-rows", "sel-file-rows", "sel-file-ne-string") and n_user in res.get("redefined", []):
            ctx.finding("selected-output-redefined-within-call", text, dict(rep, oracle=res["oracle"][:5]))
        elif key.startswith("sel-") and mixed:
            ctx.finding("get_sel_out_string_on-ignores-n", text, dict(rep, oracle=res["oracle"][:5]))
        else:
            ctx.violation("model and code agree but the property's relation fails: " + text,
                          dict(rep, oracle=res["oracle"][:5]))
            return


def users_without_newline(inp):
    """user numbers whose SELECTED_OUTPUT block says `-new_line false` or whose USER_PUNCH program punches NO_NEWLINE$"""
    import re
    out = set()
    cur = None
    for line in inp.splitlines():
        t = line.strip()
        m = re.match(r"(SELECTED_OUTPUT|USER_PUNCH)\s*(-?\d+)?", t, re.I)
        if m:
            cur = int(m.group(2)) if m.group(2) else 1
            continue
        if re.match(r"[A-Z_]{3,}\b", t) and not t.startswith("-") and not re.match(r"\d", t):
            if not re.match(r"(-|\d)", t) and t.split()[0].isupper() and t.split()[0] not in ("PUNCH",):
                cur = None
        if cur is not None and (re.search(r"-new_line\s+f", t, re.I) or "NO_NEWLINE$" in t.upper()):
            out.add(cur)
    return out


def cfg_json(cfg):
    return {k: ({str(a): b for a, b in v.items()} if isinstance(v, dict) else v) for k, v in cfg.items()}


def cfg_from_json(j):
    c = dict(j)
    c["strsw"] = {int(a): b for a, b in j["strsw"].items()}
    c["filesw"] = {int(a): b for a, b in j["filesw"].items()}
    for k in ("out", "log", "err", "dump"):
        c[k] = tuple(j[k])
    return c


def replay(ctx, data):
    exe = ctx.build_harness("ph_trace")
    cfg = cfg_from_json(data["cfg"])
    res = one_case(ctx, exe, data["input"], cfg["users"], cfg)
    print("replay:", {k: v for k, v in res.items() if k != "script"})
    if "crash" in res:
        ctx.violation("crash on replay", data)
        return
    handle_result(ctx, data["input"], cfg, res, explained_by_switch_rule(cfg))
