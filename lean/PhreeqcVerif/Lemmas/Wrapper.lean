import PhreeqcVerif.Model.Wrapper
import PhreeqcVerif.Lemmas.LineReader
/-! Lemmas about the wrapper model (C04): the simulation loop over a concatenated simulation list, independence of the
call-local fields, the accumulate buffer, agreement of the entry points. Core Lean only. -/
namespace PhreeqcVerif.Wrapper
open PhreeqcVerif.LineReader
variable {E : Type}

/-- sequential composition of two loop results -/
def Loop.andThen (a b : Loop E) : Loop E :=
  ⟨b.engine, a.rows ++ b.rows, b.inputError, a.io + b.io, a.warns + b.warns, b.simulation, b.firstRead⟩

theorem loop_append (eng : Engine E) (xs ys : List (List CLine)) : ∀ i fr e,
    (loop eng i fr e xs).inputError = 0 →
    loop eng i fr e (xs ++ ys) =
      (loop eng i fr e xs).andThen
        (loop eng (loop eng i fr e xs).simulation (loop eng i fr e xs).firstRead (loop eng i fr e xs).engine ys) := by
  induction xs with
  | nil => intro i fr e _; simp [loop, Loop.andThen]
  | cons t ts ih =>
    intro i fr e h
    simp only [List.cons_append, loop] at h ⊢
    by_cases hr : (eng.simStep ⟨i, i == 1, fr⟩ e t).inputError = 0
    · simp only [hr, ne_eq, not_true_eq_false, if_false] at h ⊢
      rw [ih _ _ _ h]
      simp [Loop.andThen, List.append_assoc, Nat.add_assoc]
    · simp only [hr, ne_eq, not_false_eq_true, if_true] at h

theorem loop_append_stop (eng : Engine E) (xs ys : List (List CLine)) : ∀ i fr e,
    (loop eng i fr e xs).inputError ≠ 0 → loop eng i fr e (xs ++ ys) = loop eng i fr e xs := by
  induction xs with
  | nil => intro i fr e h; simp [loop] at h
  | cons t ts ih =>
    intro i fr e h
    simp only [List.cons_append, loop] at h ⊢
    by_cases hr : (eng.simStep ⟨i, i == 1, fr⟩ e t).inputError = 0
    · simp only [hr, ne_eq, not_true_eq_false, if_false] at h ⊢
      rw [ih _ _ _ h]
    · simp [hr]

/-- an engine that does not read the call-local fields gives the same loop result whatever the counter and the
    first-read flag are (rows compared without their `sim` column) -/
theorem loop_free (eng : Engine E) (hf : eng.CallLocalFree) (ts : List (List CLine)) : ∀ i j fr fr' e,
    (loop eng i fr e ts).engine = (loop eng j fr' e ts).engine ∧
    (loop eng i fr e ts).rows.map Row.data = (loop eng j fr' e ts).rows.map Row.data ∧
    (loop eng i fr e ts).inputError = (loop eng j fr' e ts).inputError ∧
    (loop eng i fr e ts).io = (loop eng j fr' e ts).io := by
  induction ts with
  | nil => intro i j fr fr' e; simp [loop]
  | cons t ts ih =>
    intro i j fr fr' e
    obtain ⟨h1, h2, h3, h4⟩ := hf ⟨i, i == 1, fr⟩ ⟨j, j == 1, fr'⟩ e t
    simp only [loop]
    by_cases hr : (eng.simStep ⟨i, i == 1, fr⟩ e t).inputError = 0
    · have hr' : (eng.simStep ⟨j, j == 1, fr'⟩ e t).inputError = 0 := h3 ▸ hr
      simp only [hr, hr', ne_eq, not_true_eq_false, if_false]
      obtain ⟨g1, g2, g3, g4⟩ := ih (i + 1) (j + 1) false false (eng.simStep ⟨i, i == 1, fr⟩ e t).engine
      rw [← h1]
      simp [g1, g2, g3, g4, h2, h4]
    · have hr' : ¬ (eng.simStep ⟨j, j == 1, fr'⟩ e t).inputError = 0 := h3 ▸ hr
      simp [hr', h1, h2, h3, h4]

/-! ### fields of a call on a loaded object -/

theorem run_file_fields (eng : Engine E) (w : W E) (hdb : w.dbLoaded = true) (t : Bytes) :
    let r := (w.run eng (.file (some t))).1
    let l := loop eng 1 true w.engine (eng.sims t)
    r.engine = l.engine ∧ r.tables = l.rows ∧ r.inputError = l.inputError ∧ r.ioErrors = l.io ∧
    r.dbLoaded = true ∧ r.updateComponents = true ∧ r.simulation = l.simulation ∧ r.stringInput = [] ∧
    r.clearAccumulated = false := by
  simp [W.run, W.finish, W.resetInput, W.core, W.doRun, W.updateErrors, hdb]

theorem rc_zero_iff (w : W E) : w.rc = 0 ↔ w.inputError = 0 ∧ w.ioErrors = 0 := by
  unfold W.rc
  by_cases h : w.inputError = 0 <;> simp [h]

/-- with the plain reader an END boundary of the reader model is a boundary -/
theorem boundary_of_endBoundary (eng : Engine E) (hl : eng.lines = readLines) (a : Bytes) (h : endBoundary a = true) :
    eng.boundary a := by
  intro b
  simp only [Engine.sims, hl]
  exact simulations_append' a b h

/-- … and with include files followed, an END boundary of the expanded text is one -/
theorem boundary_of_endBoundaryFS (eng : Engine E) (fs : Bytes → Option Bytes) (d : Nat) (hl : eng.lines = linesFS fs d)
    (a : Bytes) (h : endBoundaryFS fs d a = true) : eng.boundary a := by
  intro b
  simp only [Engine.sims, hl]
  exact simulationsFS_append' fs d a b h

/-! ### accumulate buffer -/

def joinLines (ls : List Bytes) : Bytes := ls.flatMap (fun l => cstr l ++ [10])

theorem accumulate_fold (ls : List Bytes) : ∀ (w : W E), w.clearAccumulated = false →
    (ls.foldl W.accumulateLine w).stringInput = w.stringInput ++ joinLines ls ∧
    (ls.foldl W.accumulateLine w).clearAccumulated = false := by
  induction ls with
  | nil => intro w h; simp [joinLines, h]
  | cons l r ih =>
    intro w h
    have h1 : (w.accumulateLine l).clearAccumulated = false := by simp [W.accumulateLine]
    obtain ⟨a, b⟩ := ih (w.accumulateLine l) h1
    simp only [List.foldl_cons, a, b]
    simp [W.accumulateLine, h, joinLines, List.append_assoc]

theorem accumulate_fold_fresh (l : Bytes) (ls : List Bytes) (w : W E) (h : w.bufferFresh) :
    ((l :: ls).foldl W.accumulateLine w).stringInput = joinLines (l :: ls) ∧
    ((l :: ls).foldl W.accumulateLine w).clearAccumulated = false := by
  have h1 : (w.accumulateLine l).clearAccumulated = false := by simp [W.accumulateLine]
  have h2 : (w.accumulateLine l).stringInput = cstr l ++ [10] := by
    rcases h with h | h <;> simp [W.accumulateLine, h]
  obtain ⟨a, b⟩ := accumulate_fold ls (w.accumulateLine l) h1
  simp only [List.foldl_cons, a, b, h2]
  simp [joinLines]

/-- AccumulateLine touches only the buffer, its flag and the two reporters -/
theorem accumulate_fold_other (ls : List Bytes) : ∀ (w : W E),
    { (ls.foldl W.accumulateLine w) with stringInput := [], clearAccumulated := false, errReporter := 0, warnReporter := 0 } =
    { w with stringInput := [], clearAccumulated := false, errReporter := 0, warnReporter := 0 } := by
  induction ls with
  | nil => intro w; rfl
  | cons l r ih => intro w; simp only [List.foldl_cons]; rw [ih]; simp [W.accumulateLine]

/-! ### entry points -/

/-- `core` reads neither the reporters, the tables, the buffer nor its flag, and passes the last two through -/
theorem core_congr (eng : Engine E) (w w' : W E) (t : Option Bytes)
    (h : { w with stringInput := [], clearAccumulated := false, errReporter := 0, warnReporter := 0, tables := [] } =
         { w' with stringInput := [], clearAccumulated := false, errReporter := 0, warnReporter := 0, tables := [] }) :
    (w.core eng t).modInput = (w'.core eng t).modInput := by
  cases w; cases w'
  simp only [W.mk.injEq] at h
  obtain ⟨h1, -, -, h4, h5, -, -, h8, h9, -, h11, h12, h13, h14, h15⟩ := h
  subst h1 h4 h5 h8 h9 h11 h12 h13 h14 h15
  simp only [W.core, W.modInput, W.doRun]
  split
  · rfl
  · split <;> rfl

end PhreeqcVerif.Wrapper
