"""Translator for C08: extracts from /repo's sources the facts Model/ErrAcct.lean is built on and writes Gen/ErrAcct.lean.

* shape facts (each a Bool, obligation `shape_facts_hold` by `decide`): the bodies of get_input_errors, Phreeqc::error_msg,
  PHRQ_io::error_msg, IPhreeqc::error_msg/warning_msg, read_input's prologue, tidy_model's last statement, the API functions' order
  check_database → counters := 0 → do_run → update_errors → return get_input_errors(), check_database's Clear() calls, load_db's shape;
* `loadRefreshesLines`: whether load_db / load_db_str call update_errors() themselves (parameter `refresh` of `loadCall`);
* every `input_error++` site with its function, whether an `error_msg(` call stands next to it (same statement run: the 6 lines
  before / 8 lines after, not crossing a function boundary) and whether its function belongs to the reading phase
  (read_* / tidy_* / spread_row_to_solution …: called from read_input / tidy_model only) — obligation `bumps_paired_or_reading`.
Fails closed: a function that cannot be found or whose shape is not recognised yields the fact `false`."""
import re
from pathlib import Path

import vlib

OUT = vlib.LEAN / "PhreeqcVerif" / "Gen" / "ErrAcct.lean"


def strip_comments(t):
    t = re.sub(r"/\*.*?\*/", lambda m: re.sub(r"[^\n]", " ", m.group(0)), t, flags=re.S)
    return re.sub(r"//[^\n]*", "", t)


def body_of(text, name, cls=None):
    """body (between braces) of the first definition of function `name`; '' when not found"""
    pat = r"(?:^|\n)[^\n;{}]*\b" + (re.escape(cls) + r"::\s*" if cls else r"") + re.escape(name) + r"\s*\([^;{}]*\)\s*(?:const)?\s*(?:/\*[^\n]*\*/\s*)*\{"
    m = re.search(pat, text)
    if not m:
        return ""
    i = m.end()
    depth, j = 1, i
    while j < len(text) and depth:
        c = text[j]
        if c == "{":
            depth += 1
        elif c == "}":
            depth -= 1
        j += 1
    return text[i:j - 1]


def squeeze(s):
    return re.sub(r"\s+", "", s)


def functions_index(text):
    """[(start_offset, name)] of function definitions (PHREEQC style: name at line start, or Class::name)"""
    idx = []
    for m in re.finditer(r"^(?:[\w:<>*&~ ]+?[ \t*&])??(?:\w+::)?(\w+)\s*\([^;{}]*\)\s*(?:const)?\s*\n?(?:/\*[^\n]*\*/\s*\n)?\{", text, re.M):
        if m.group(1) not in ("if", "for", "while", "switch", "catch"):
            idx.append((m.start(), m.group(1)))
    return idx


READING_FUNCS = re.compile(r"^(read_\w+|tidy_\w+|spread_row_to_solution|add_\w+|check_\w+|parse_\w+|get_option\w*|copy_entities|reread\w*)$")


# ------------------------------------------------------------------------------------------------ structural normalisation
# Facts are extracted by structure, not by spelling.  A function body is normalised before any fact is read from it:
#   comments stripped; calls of file-static helper functions of the same file inlined one level (parameters substituted by the arguments);
#   simple local aliases (`T *p = this->PhreeqcPtr;`) resolved; file-scope named constants / #defines replaced by their literal;
#   pointer casts and static_cast removed; `this->` removed; all braces removed (single statements with or without braces read the same);
#   whitespace removed.  Facts are then stated as "contains", "A before X", "both A and B between X and Y" — never as "A textually next to B"
#   where the statements are independent.

def file_constants(text):
    """file-scope named constants with a literal value"""
    c = {}
    for m in re.finditer(r"^\s*(?:static\s+)?const\s+[\w:]+\s+(\w+)\s*=\s*([-+]?[\w.]+)\s*;", text, re.M):
        if re.fullmatch(r"[-+]?(\d[\w.]*|true|false)", m.group(2)):
            c[m.group(1)] = m.group(2)
    for m in re.finditer(r"^\s*#\s*define\s+(\w+)\s+([-+]?\d[\w.]*)\s*$", text, re.M):
        c[m.group(1)] = m.group(2)
    return c


def static_helpers(text):
    """{name: (params, body)} of file-static (or anonymous-namespace-free `static`) helper functions"""
    h = {}
    for m in re.finditer(r"(?:^|\n)\s*static\s+(?:inline\s+)?[\w:<>&*\s]+?\b(\w+)\s*\(([^;{}()]*)\)\s*\{", text):
        name = m.group(1)
        k, depth = m.end(), 1
        while k < len(text) and depth:
            depth += {"{": 1, "}": -1}.get(text[k], 0)
            k += 1
        params = []
        for prm in [x.strip() for x in m.group(2).split(",") if x.strip() and x.strip() != "void"]:
            pm = re.search(r"(\w+)\s*(?:\[\s*\])?$", prm)
            if pm:
                params.append(pm.group(1))
        h[name] = (params, text[m.end():k - 1])
    return h


def split_args(a):
    out, depth, cur = [], 0, ""
    a = a.replace("->", "\x01")                         # the arrow is not a bracket
    for ch in a:
        if ch in "(<[":
            depth += 1
        elif ch in ")>]":
            depth -= 1
        if ch == "," and depth == 0:
            out.append(cur.strip())
            cur = ""
        else:
            cur += ch
    if cur.strip():
        out.append(cur.strip())
    return [x.replace("\x01", "->") for x in out]


def inline_helpers(body, helpers):
    """replace statement-level calls `helper(args);` by the helper's body with the parameters substituted (one level)"""
    for name, (params, hb) in helpers.items():
        def rep(m):
            args = split_args(m.group(1))
            if len(args) != len(params):
                return m.group(0)
            t = hb
            for prm, a in zip(params, args):
                t = re.sub(r"\b" + re.escape(prm) + r"\b", lambda _m: a, t)
            return "{" + t + "}"
        body = re.sub(r"(?<![\w:.>])" + re.escape(name) + r"\s*\(((?:[^()]|\([^()]*\))*)\)\s*;", rep, body)
    return body


def resolve_aliases(body):
    """`Phreeqc *p = this->PhreeqcPtr;` … `p->x`  →  `this->PhreeqcPtr->x` (simple member paths only)"""
    for m in list(re.finditer(r"\b[\w:<>]+\s*[*&]\s*(?:const\s+)?(\w+)\s*=\s*((?:this->)?[\w]+(?:(?:->|\.)\w+)*)\s*;", body)):
        name, target = m.group(1), m.group(2)
        if name in ("it", "i", "j") or target in ("NULL", "nullptr", "0"):
            continue
        body = body.replace(m.group(0), "")
        body = re.sub(r"(?<![\w.>])" + re.escape(name) + r"\b", lambda _m: target, body)
    return body


def flat(text, name, cls=None, helpers=None, consts=None):
    """normalised body of function `name` (see above); '' when the function is not found"""
    b = body_of(text, name, cls)
    if not b:
        return ""
    if helpers:
        b = inline_helpers(b, {k: v for k, v in helpers.items() if k != name})
    b = resolve_aliases(b)
    for k, v in (consts or {}).items():
        b = re.sub(r"\b" + re.escape(k) + r"\b", v, b)
    b = re.sub(r"\bstatic_cast\s*<[^<>]*(?:<[^<>]*>)?[^<>]*>\s*", "", b)
    b = re.sub(r"\(\s*(?:const\s+)?[\w:]+(?:<[^()]*>)?\s*\*\s*\)", "", b)          # pointer casts
    b = b.replace("this->", "")
    b = re.sub(r"[{}]", "", b)
    b = re.sub(r"\s+", "", b)
    b = re.sub(r";;+", ";", b)
    return b


def first_pos(b, *alts):
    """first position of any of the alternative spellings; -1 when none occurs"""
    ps = [b.find(a) for a in alts if b.find(a) >= 0]
    return min(ps) if ps else -1


def stmt_with(b, start):
    """the statement (text up to the next ';') that begins with `start`, '' when absent"""
    k = b.find(start)
    return b[k:b.find(";", k) + 1] if k >= 0 else ""


def extract():
    src = vlib.REPO / "src"
    P = src / "phreeqcpp"
    facts = []
    where = {}

    def fact(name, ok, loc):
        facts.append((name, bool(ok)))
        where[name] = loc

    def load(path):
        t = strip_comments(path.read_text(errors="replace"))
        return t, static_helpers(t), file_constants(t)

    util, uh, uc = load(P / "utilities.cpp")
    b = flat(util, "get_input_errors", None, uh, uc)
    fact("get_input_errors_is_input_error_else_io_count",
         b in ("if(input_error==0)returnphrq_io->Get_io_error_count();returninput_error;",
               "if(input_error!=0)returninput_error;returnphrq_io->Get_io_error_count();",
               "returninput_error==0?phrq_io->Get_io_error_count():input_error;",
               "return(input_error==0)?phrq_io->Get_io_error_count():input_error;"), "utilities.cpp get_input_errors")

    pout, ph, pc = load(P / "PHRQ_io_output.cpp")
    b = flat(pout, "error_msg", None, ph, pc)
    fact("engine_error_msg_sets_input_error_when_count_le_0", b.startswith("if(get_input_errors()<=0)input_error=1;"), "PHRQ_io_output.cpp Phreeqc::error_msg")
    fwd = stmt_with(b, "phrq_io->error_msg(")
    fact("engine_error_msg_forwards_to_phrq_io", fwd.endswith(",stop);"), "PHRQ_io_output.cpp Phreeqc::error_msg")

    pio, ioh, ioc = load(P / "common" / "PHRQ_io.cpp")
    b = flat(pio, "error_msg", None, ioh, ioc)
    inc = first_pos(b, "io_error_count++;", "++io_error_count;", "io_error_count+=1;", "io_error_count=io_error_count+1;")
    first_if = first_pos(b, "if(")
    fact("phrq_io_error_msg_increments_io_error_count", inc >= 0 and (first_if < 0 or inc < first_if), "PHRQ_io.cpp PHRQ_io::error_msg")
    engine_all = strip_comments("".join(f.read_text(errors="replace") for f in list(P.glob("*.cpp")) + list(P.glob("*.cxx"))))
    fact("io_error_count_assigned_only_in_constructor", len(re.findall(r"\bio_error_count\s*=[^=]", pio)) == 1 and
         len(re.findall(r"Set_io_error_count\s*\(", engine_all)) == 0, "PHRQ_io.cpp / engine sources")

    ip, iph, ipc = load(src / "IPhreeqc.cpp")

    def F(name):
        return flat(ip, name, "IPhreeqc", iph, ipc)

    b = F("error_msg")
    fact("wrapper_error_msg_counts_records_and_throws",
         "PHRQ_io::error_msg(str);" in b and first_pos(b, "if(ErrorStringOn&&error_on)AddError(str);", "if(error_on&&ErrorStringOn)AddError(str);") >= 0 and
         b.endswith("throwIPhreeqcStop();") and 0 <= b.find("if(stop)") < b.rfind("throwIPhreeqcStop();"), "IPhreeqc.cpp IPhreeqc::error_msg")
    b = F("warning_msg")
    fact("wrapper_warning_msg_appends_text_and_newline",
         first_pos(b, "oss<<str<<std::endl;", "oss<<str<<\"\\n\";", "oss<<str<<'\\n';") >= 0 and "if(WarningStringOn)AddWarning(oss.str().c_str());" in b and "throw" not in b,
         "IPhreeqc.cpp IPhreeqc::warning_msg")
    b = F("check_database")
    gate = b.find("if(!DatabaseLoaded)")
    fact("check_database_clears_both_reporters", 0 <= b.find("ErrorReporter->Clear();") < gate and 0 <= b.find("WarningReporter->Clear();") < gate, "IPhreeqc.cpp check_database")
    fact("check_database_raises_no_database", gate >= 0 and gate < b.find("PhreeqcPtr->input_error=1;") < b.find("PhreeqcPtr->error_msg(oss.str().c_str(),STOP);"),
         "IPhreeqc.cpp check_database")
    for fn in ("RunString", "RunFile", "RunAccumulated"):
        b = F(fn)
        cd, r1, r2, dr = b.find("check_database(sz_routine);"), b.find("PhreeqcPtr->input_error=0;"), b.find("io_error_count=0;"), b.find("do_run(sz_routine,")
        ct, ue, ci = b.rfind("catch("), b.rfind("update_errors();"), b.rfind("clear_istream();")
        ret = b.endswith("returnPhreeqcPtr->get_input_errors();")
        fact(f"{fn}_order_clear_reset_run_update_return", 0 <= cd < r1 < dr and cd < r2 < dr and b.find("catch(constIPhreeqcStop&)") > dr and ct < ue and ret,
             f"IPhreeqc.cpp {fn}")
        fact(f"{fn}_clears_istream_after_catch_blocks", 0 <= ct < ci and ret and "PhreeqcPtr->phrq_io->clear_istream();" in b, f"IPhreeqc.cpp {fn}")
    for fn in ("load_db", "load_db_str"):
        b = F(fn)
        fact(f"{fn}_clears_istream_after_catch_blocks", 0 <= b.rfind("catch(") < b.rfind("PhreeqcPtr->phrq_io->clear_istream();"), f"IPhreeqc.cpp {fn}")
    dr0 = F("do_run")
    fact("do_run_pushes_the_callers_stream_unowned_and_never_releases", "PhreeqcPtr->phrq_io->push_istream(pis,false);" in dr0 and "clear_istream" not in dr0
         and "pop_istream" not in dr0, "IPhreeqc.cpp do_run")
    gl = flat(pio, "get_line", None, ioh, ioc)
    fact("get_line_include_missing_is_stop_error_open_is_push_eof_is_pop",
         "deletenext_stream;" in gl and "error_msg(errstr.str().c_str(),OT_STOP);" in gl and "push_istream(next_stream);" in gl and "pop_istream();" in gl,
         "PHRQ_io.cpp get_line")
    b = flat(pio, "clear_istream", None, ioh, ioc)
    fact("clear_istream_pops_everything", b in ("while(istream_list.size()>0)pop_istream();", "while(!istream_list.empty())pop_istream();"), "PHRQ_io.cpp clear_istream")
    b = F("update_errors")
    ok = True
    for X in ("Error", "Warning"):
        clr, fill, push = b.find(f"{X}Lines.clear();"), b.find(f"{X}String="), b.find(f"{X}Lines.push_back(line);")
        st = stmt_with(b, f"{X}String=")
        ok = ok and 0 <= clr < push and 0 <= fill < push and f"{X}Reporter" in st and "GetOS()->str();" in st and \
            f"std::istringstreamiss({X}String);" in b and b.count(f"{X}Lines.push_back(line);") == 1
    fact("update_errors_fills_strings_and_lines_from_reporters", ok and b.count("std::getline(iss,line)") == 2, "IPhreeqc.cpp update_errors")
    b = F("UnLoadDatabase")
    fact("unload_clears_reporters_strings_and_counters",
         all(x in b for x in ("ErrorReporter->Clear();", "ErrorString.clear();", "WarningReporter->Clear();", "WarningString.clear();", "PhreeqcPtr->input_error=0;",
                              "io_error_count=0;")), "IPhreeqc.cpp UnLoadDatabase")
    unload_clears_lines = "ErrorLines.clear()" in b and "WarningLines.clear()" in b
    refresh = []
    for fn in ("load_db", "load_db_str"):
        b = F(fn)
        fact(f"{fn}_unloads_reads_and_returns_count",
             0 <= b.find("UnLoadDatabase();") < b.find("PhreeqcPtr->read_database();") and "DatabaseLoaded=(PhreeqcPtr->get_input_errors()==0);" in b and
             b.endswith("returnPhreeqcPtr->get_input_errors();"), f"IPhreeqc.cpp {fn}")
        tail = b[b.find("PhreeqcPtr->read_database();"):]
        refresh.append("update_errors();" in tail)
    for fn in ("LoadDatabase", "LoadDatabaseString"):
        b = F(fn)
        fact(f"{fn}_runs_self_test_only_when_count_is_zero", re.search(r"intn=load_db(_str)?\((filename|input)\);if\((n==0|0==n|!n)\)n=test_db\(\);", b) is not None and
             b.endswith("returnn;"), f"IPhreeqc.cpp {fn}")
    b = F("test_db")
    fact("test_db_is_a_RunString", "=RunString(oss.str().c_str());" in b, "IPhreeqc.cpp test_db")
    b = F("GetErrorString")
    st = stmt_with(b, "ErrorString=")
    fact("GetErrorString_reads_the_reporter", "ErrorReporter" in st and "GetOS()->str();" in st and b.endswith("returnErrorString.c_str();"), "IPhreeqc.cpp GetErrorString")

    rd, rdh, rdc = load(P / "read.cpp")
    b = flat(rd, "read_input", None, rdh, rdc)
    fact("read_input_resets_input_error", 0 <= b.find("input_error=0;") < b.find("check_line("), "read.cpp read_input")
    td, tdh, tdc = load(P / "tidy.cpp")
    b = flat(td, "tidy_model", None, tdh, tdc)
    fact("tidy_model_ends_with_the_gate",
         any(b.endswith(g + r) for g in ('if(get_input_errors()>0||parse_error>0)error_msg("Calculationsterminatingduetoinputerrors.",STOP);',
                                         'if(parse_error>0||get_input_errors()>0)error_msg("Calculationsterminatingduetoinputerrors.",STOP);')
             for r in ("return(OK);", "returnOK;")), "tidy.cpp tidy_model")
    fact("do_run_reads_then_tidies", 0 <= dr0.find("if(PhreeqcPtr->read_input()==EOF)break;") < dr0.find("PhreeqcPtr->tidy_model();"), "IPhreeqc.cpp do_run")
    ms, msh, msc = load(P / "mainsubs.cpp")
    db = flat(rd, "read_database", None, rdh, rdc) or flat(ms, "read_database", None, msh, msc)
    fact("read_database_is_read_input_then_tidy_model", 0 <= db.find("read_input();") < db.find("tidy_model();"), "read_database")

    # ---- input_error++ sites
    sites = []
    files = sorted(list(P.glob("*.cpp")) + list(P.glob("*.cxx")) + list(P.glob("*.h")) + list((P / "common").glob("*.c*")) + [src / "IPhreeqc.cpp"])
    for f in files:
        raw = f.read_text(errors="replace")
        t = strip_comments(raw)
        idx = functions_index(t)
        lines = t.split("\n")
        offs = [0]
        for ln in lines:
            offs.append(offs[-1] + len(ln) + 1)
        for i, ln in enumerate(lines):
            if re.search(r"\binput_error\s*\+\+|\+\+\s*input_error\b|\binput_error\s*\+=", ln):
                fn, fstart = "?", 0
                for pos, name in idx:
                    if pos <= offs[i]:
                        fn, fstart = name, pos
                nxt = min([pos for pos, _ in idx if pos > offs[i]] + [len(t)])
                lo = max(i - 6, 0)
                hi = min(i + 9, len(lines))
                win = [lines[k] for k in range(lo, hi) if fstart <= offs[k] < nxt]
                paired = any(re.search(r"\berror_msg\b", w) for w in win)
                nth = sum(1 for s_ in sites if s_["file"] == f.name and s_["func"] == fn) + 1
                sites.append(dict(file=f.name, line=i + 1, nth=nth, func=fn, paired=paired, reading=bool(READING_FUNCS.match(fn))))
    return dict(facts=facts, where=where, refresh=all(refresh), refresh_each=refresh, unload_clears_lines=unload_clears_lines, sites=sites)


def lean_str(s):
    return '"' + s.replace("\\", "\\\\").replace('"', '\\"') + '"'


def generate(ctx=None):
    d = extract()
    L = ["/-! Generated by tools/gen_erracct.py from /repo/src on every run of the C08 check — do not edit. -/",
         "namespace PhreeqcVerif.Gen.ErrAcct", "",
         "/-- facts about the code shape Model/ErrAcct.lean reproduces: (name, holds in the current source) -/",
         "def shapeFacts : List (String × Bool) := ["]
    L.append(",\n".join(f"  ({lean_str(n)}, {'true' if v else 'false'})" for n, v in d["facts"]))
    L += ["]", "",
          "/-- load_db and load_db_str call update_errors() after reading the database, or UnLoadDatabase clears the line vectors -/",
          f"def loadRefreshesLines : Bool := {'true' if d['refresh'] else 'false'}",
          f"def unloadClearsLines : Bool := {'true' if d['unload_clears_lines'] else 'false'}", "",
          "structure BumpSite where", "  file : String", "  line : Nat", "  func : String", "  paired : Bool", "  reading : Bool", "",
          "/-- every `input_error++` in the sources -/",
          "def bumpSites : List BumpSite := ["]
    # `line` holds the ordinal of the site inside its function (stable when unrelated edits shift line numbers)
    L.append(",\n".join(f"  ⟨{lean_str(s['file'])}, {s['nth']}, {lean_str(s['func'])}, {'true' if s['paired'] else 'false'}, {'true' if s['reading'] else 'false'}⟩"
                        for s in d["sites"]))
    L += ["]", "", "end PhreeqcVerif.Gen.ErrAcct", ""]
    text = "\n".join(L)
    OUT.parent.mkdir(exist_ok=True)
    if not OUT.exists() or OUT.read_text() != text:
        OUT.write_text(text)
    return d


if __name__ == "__main__":
    d = generate()
    for n, v in d["facts"]:
        print("ok " if v else "NO ", n, "—", d["where"][n])
    print("refresh", d["refresh"], d["refresh_each"], "unload clears lines", d["unload_clears_lines"])
    print(len(d["sites"]), "sites;", sum(1 for s in d["sites"] if not s["paired"]), "unpaired:")
    for s in d["sites"]:
        if not s["paired"]:
            print("  ", s)
