import PhreeqcVerif.Model.NumOps
import PhreeqcVerif.Gen.RKTableau
/-! Model of `Phreeqc::rk_kinetics` (src/phreeqcpp/kinetics.cpp): the embedded Runge–Kutta integration of the kinetic
reactants of one cell over one kinetic time step `kin_time`.

The model is generic over the number type (`Float` executes in `pmodel rk`; `Rat` carries the theorems).  What the code
gets from outside is a parameter:

* `F t m h` — the moles SAVEd by the RATES programs for the whole sub-step `h` when TOTAL_TIME = `t` and the reactants hold
  `m` (this function also hides the chemistry solve between the stages: in a closed cell the solution composition is a
  function of the amounts reacted);
* `pw x y` — `pow(x, y)` of libm.

Everything else follows the source statement by statement: the stage combinations (from `Gen/RKTableau.lean`, regenerated
from the source), the clamp of a reaction to the available moles (`calc_final_kinetic_reaction`), the
MOLES_TOO_LARGE reduction, the early exits of `-runge_kutta 1/2/3`, the error test `max_j |Σ dc_i k_ij| / tol_j ≤ 1`, the
step-size controller, the `h_sum` loop with the last step capped to the remaining time, the persistent change of `rk`.
Not modelled: the MASS_BALANCE failure path of the chemistry solve (`moles_reduction = 9`), `limit_rates`
(`use_kinetics_limiter` is off by default), related exchangers/surfaces. -/
namespace PhreeqcVerif.RK
open PhreeqcVerif

/-- the data of the integrator as read from the source -/
structure Params (α : Type) where
  A : List (List α)
  c : List α
  b : List α
  d : List α
  e1 : List α
  e2 : List α
  e3 : List α
  safety : α
  molesMax : α
  shrinkExp : α
  growExp : α
  growThreshold : α
  growFactor : α
  tinyM : α
  minTotal : α
  zero : α
  one : α

section
variable {α : Type} [NumOps α] [∀ a b : α, Decidable (a < b)] [∀ a b : α, Decidable (a ≤ b)]

def absv (z : α) (x : α) : α := if x < z then -x else x

/-- `w0*k0 + w1*k1 + ...` per reactant, summed left to right as the C expression is -/
def lincomb (z : α) (n : Nat) : List α → List (List α) → List α
  | w :: ws, k :: ks =>
    let first := k.map (fun x => w * x)
    (ws.zip ks).foldl (fun acc wk => (acc.zip wk.2).map (fun p => p.1 + wk.1 * p.2)) first
  | _, _ => List.replicate n z

/-- `calc_final_kinetic_reaction`: a reaction larger than the available moles is cut to the available moles -/
def clamp (moles mTemp : List α) : List α :=
  (moles.zip mTemp).map (fun p => if p.2 < p.1 then p.2 else p.1)

/-- stage amounts `m_temp - moles` -/
def stageM (moles mTemp : List α) : List α :=
  (moles.zip mTemp).map (fun p => p.2 - p.1)

/-- final amounts: `m_temp - moles`, values below 1e-30 become 0 -/
def finalM (P : Params α) (moles mTemp : List α) : List α :=
  (moles.zip mTemp).map (fun p => let m := p.2 - p.1; if m < P.tinyM then P.zero else m)

/-- `if (moles_reduction * moles_max < fabs(moles)) moles_reduction = fabs(moles) / moles_max` over the reactants -/
def updReduction (P : Params α) (molesMax mr : α) (k : List α) : α :=
  k.foldl (fun r x => if r * molesMax < absv P.zero x then absv P.zero x / molesMax else r) mr

/-- all `|a_j - b_j| ≤ tol_j` -/
def allWithin (P : Params α) (a b tol : List α) : Bool :=
  ((a.zip b).zip tol).all (fun p => !(p.2 < absv P.zero (p.1.1 - p.1.2)))

/-- `error_max`: max over reactants of `|Σ dc_i k_i| / tol`, starting from 0 -/
def errorMax (P : Params α) (n : Nat) (ks : List (List α)) (tol : List α) : α :=
  ((lincomb P.zero n P.d ks).zip tol).foldl (fun e p => let l := absv P.zero p.1 / p.2; if e < l then l else e) P.zero

/-- one evaluation of the RATES programs as seen from outside: TOTAL_TIME, amounts, TIME, SAVEd moles -/
structure Eval (α : Type) where
  t : α
  m : List α
  h : α
  moles : List α

/-- the part of the state the stage computations change -/
structure Chem (α : Type) where
  m : List α            -- comps[j].m
  mTemp : List α        -- m_temp
  k1 : List α           -- rk_moles[0..n)
  mr : α                -- moles_reduction
  molesMax : α
  equalRate : Bool
  rk : Nat
  lBad : Bool
  tCur : α              -- rate_sim_time (kept stale exactly where the code keeps it)
  log : List (Eval α)   -- evaluations, newest first

/-- the step-size controller state -/
structure Ctrl (α : Type) where
  h : α
  hOld : α
  hSum : α
  stepOk : Nat
  stepBad : Nat
  accH : List α         -- accepted sub-steps, newest first
  accErr : List α       -- their scaled error estimates

inductive Outcome (α : Type) where
  | reduce (c : Chem α)                 -- goto MOLES_TOO_LARGE
  | rejected (e : α) (c : Chem α)
  | accepted (e : α) (c : Chem α)
  | exit (c : Chem α)                   -- goto EQUAL_RATE_OUT

/-- evaluate the rates at the current (possibly stale) time with amounts `m` -/
def evalAt (F : α → List α → α → List α) (h : α) (ch : Chem α) : List α × Chem α :=
  let k := F ch.tCur ch.m h
  (k, { ch with log := { t := ch.tCur, m := ch.m, h := h, moles := k } :: ch.log })

def nth (l : List α) (i : Nat) (z : α) : α := l.getD i z
def row (l : List (List α)) (i : Nat) : List α := l.getD i []

/-- an early exit of `-runge_kutta 1/2/3`: add the reaction `moles`, re-evaluate, compare with k1 -/
def earlyExit (P : Params α) (F : α → List α → α → List α) (h : α) (tol : List α) (moles : List α) (ch : Chem α)
    (setRk1 : Bool) : Bool × Chem α :=
  let mv := clamp moles ch.mTemp
  let ch := { ch with m := finalM P mv ch.mTemp }
  let r := evalAt F h ch
  let eq := allWithin P r.2.k1 r.1 tol
  (eq, if setRk1 && eq then { r.2 with rk := 1, equalRate := eq } else { r.2 with equalRate := eq })

/-- `if (moles_reduction > 1.0) goto MOLES_TOO_LARGE;` -/
def orReduce (one : α) (ch : Chem α) (k : Chem α → Outcome α) : Outcome α :=
  if one < ch.mr then .reduce ch else k ch

/-- `goto EQUAL_RATE_OUT` when `cond` holds -/
def orExit (cond : Bool) (exitCh : Chem α) (k : Unit → Outcome α) : Outcome α :=
  if cond then .exit exitCh else k ()

/-- `error_max > 1`: repeat with a smaller step, else accept -/
def gate (one e : α) (chRej : Chem α) (chAcc : Unit → Chem α) : Outcome α :=
  if one < e then .rejected e chRej else .accepted e (chAcc ())

/-- add the reaction `moles` (cut to the available amounts), evaluate the rates at node `ci`, update moles_reduction -/
def evalStage (P : Params α) (F : α → List α → α → List α) (t0 h hSum ci : α) (moles : List α) (ch : Chem α) :
    List α × Chem α :=
  let ch := { ch with m := stageM (clamp moles ch.mTemp) ch.mTemp, tCur := t0 + hSum + ci * h }
  let r := evalAt F h ch
  (r.1, { r.2 with mr := updReduction P r.2.molesMax r.2.mr r.1 })

/-- the accepted result: 5th-order weights, amounts floored, rates re-evaluated for the equal-rate test -/
def acceptStep (P : Params α) (F : α → List α → α → List α) (tol : List α) (h : α) (n : Nat) (ks : List (List α))
    (ch : Chem α) : Chem α :=
  let res := lincomb P.zero n P.b ks
  let ch := { ch with m := finalM P (clamp res ch.mTemp) ch.mTemp }
  let r := evalAt F h ch
  let eq := r.2.equalRate && allWithin P r.2.k1 r.1 tol
  let ch := { r.2 with equalRate := eq }
  if eq && ch.rk < 6 then { ch with rk := 1 } else ch

/-- stages k4, k5, k6, the error test and the accepted result (no early exit is possible here) -/
def stages456 (P : Params α) (F : α → List α → α → List α) (t0 : α) (tol : List α) (h hSum : α) (n : Nat)
    (k2 k3 : List α) (moles4 : List α) (ch : Chem α) : Outcome α :=
  let r4 := evalStage P F t0 h hSum (nth P.c 3 P.zero) moles4 ch
  orReduce P.one r4.2 fun ch =>
  let r5 := evalStage P F t0 h hSum (nth P.c 4 P.zero) (lincomb P.zero n (row P.A 4) [ch.k1, k2, k3, r4.1]) ch
  orReduce P.one r5.2 fun ch =>
  -- k6: no moles_reduction test after it
  let ch6 := { ch with m := stageM (clamp (lincomb P.zero n (row P.A 5) [ch.k1, k2, k3, r4.1, r5.1]) ch.mTemp) ch.mTemp,
                       tCur := t0 + hSum + nth P.c 5 P.zero * h }
  let r6 := evalAt F h ch6
  let ks := [r6.2.k1, k2, k3, r4.1, r5.1, r6.1]
  let e := errorMax P n ks tol
  gate P.one e r6.2 fun _ => acceptStep P F tol h n ks r6.2

/-- k1: re-used and rescaled after a bad step, evaluated otherwise -/
def k1Stage (P : Params α) (F : α → List α → α → List α) (t0 h hOld hSum : α) (ch : Chem α)
    (k : Chem α → Outcome α) : Outcome α :=
  if ch.lBad then
    k { ch with k1 := ch.k1.map (fun x => x * (h / hOld)), m := ch.mTemp, lBad := false }
  else
    let ch := { ch with mTemp := ch.m, tCur := t0 + hSum }
    let r := evalAt F h ch
    orReduce P.one { r.2 with mr := updReduction P r.2.molesMax r.2.mr r.1, k1 := r.1 } k

/-- `-runge_kutta 1` with equal rates: Euler step; the rate at the end of the step is evaluated at the end time
(`rate_sim_time = rate_sim_time_start + h_sum + h`, also when the rate at the start is zero) and the loop is left only when it
equals the rate at the start within the tolerance; otherwise the step is redone with `rk = 3` -/
def rk1Stage (P : Params α) (F : α → List α → α → List α) (t0 : α) (tol : List α) (h hSum : α) (n : Nat) (ch : Chem α)
    (k : Chem α → Outcome α) : Outcome α :=
  if ch.rk == 1 && ch.equalRate then
    let r := earlyExit P F h tol (lincomb P.zero n P.e1 [ch.k1]) { ch with tCur := t0 + hSum + h } false
    orExit r.1 r.2 fun _ => k { r.2 with rk := 3 }
  else k ch

/-- one pass through the body of `while (h_sum < kin_time)` after the MOLES_TOO_LARGE label -/
def pass (P : Params α) (F : α → List α → α → List α) (t0 : α) (tol : List α) (h hOld hSum : α) (ch : Chem α) : Outcome α :=
  let n := tol.length
  k1Stage P F t0 h hOld hSum ch fun ch =>
  rk1Stage P F t0 tol h hSum n ch fun ch =>
  let a21 := nth (row P.A 1) 0 P.zero
  let r2 := evalStage P F t0 h hSum (nth P.c 1 P.zero) (ch.k1.map (fun x => x * a21)) ch
  let ch2 := { r2.2 with equalRate := r2.2.equalRate && allWithin P r2.2.k1 r2.1 tol }
  orReduce P.one ch2 fun ch =>
  orExit (ch.rk == 2 && ch.equalRate) (earlyExit P F h tol (lincomb P.zero n P.e2 [ch.k1, r2.1]) ch true).2 fun _ =>
  let r3 := evalStage P F t0 h hSum (nth P.c 2 P.zero) (lincomb P.zero n (row P.A 2) [ch.k1, r2.1]) ch
  let ch3 := { r3.2 with equalRate := r3.2.equalRate && allWithin P r3.2.k1 r3.1 tol }
  orReduce P.one ch3 fun ch =>
  orExit (ch.rk == 3 && ch.equalRate) (earlyExit P F h tol (lincomb P.zero n P.e3 [ch.k1, r2.1, r3.1]) ch true).2 fun _ =>
  stages456 P F t0 tol h hSum n r2.1 r3.1 (lincomb P.zero n (row P.A 3) [ch.k1, r2.1, r3.1]) ch

/-- the label MOLES_TOO_LARGE: shrink the step when a stage asked for more than `moles_max` -/
def applyReduction (P : Params α) (ct : Ctrl α) (ch : Chem α) : Ctrl α × Chem α :=
  if P.one < ch.mr then
    ({ ct with hOld := ct.h, h := P.safety * ct.h / (P.one + ch.mr) },
     { ch with mr := P.one, equalRate := false, lBad := true })
  else (ct, ch)

/-- `error_max > 1`: repeat with a smaller step -/
def onReject (P : Params α) (pw : α → α → α) (e : α) (ct : Ctrl α) : Ctrl α :=
  { ct with hOld := ct.h,
            h := if ct.stepOk == 0 then ct.h * P.safety / e else ct.h * P.safety * pw e P.shrinkExp,
            stepBad := ct.stepBad + 1 }

/-- accepted step: advance `h_sum`, choose the next step and cap it to the remaining time -/
def onAccept (P : Params α) (pw : α → α → α) (kinTime e : α) (ct : Ctrl α) : Ctrl α :=
  let hSum := ct.hSum + ct.h
  let ct := { ct with stepOk := ct.stepOk + 1, hSum := hSum, accH := ct.h :: ct.accH, accErr := e :: ct.accErr }
  if hSum < kinTime then
    let h1 := if P.growThreshold < e then ct.h * P.safety * pw e P.growExp else ct.h * P.growFactor
    { ct with h := if kinTime - hSum < h1 then kinTime - hSum else h1 }
  else ct

inductive Status where
  | done          -- the while loop ended: h_sum ≥ kin_time
  | earlyExit     -- EQUAL_RATE_OUT
  | badSteps      -- "Bad RK steps > bad_step_max" (error, STOP)
  | fuel          -- the model's fuel ran out (no statement about the code)
  deriving Repr, DecidableEq

/-- the loop.  `check = true`: at the `while` test; `check = false`: at the label MOLES_TOO_LARGE (entered by goto) -/
def loop (P : Params α) (pw : α → α → α) (F : α → List α → α → List α) (t0 kinTime : α) (tol : List α) (badStepMax : Nat) :
    Nat → Bool → Ctrl α → Chem α → Status × Ctrl α × Chem α
  | 0, _, ct, ch => (.fuel, ct, ch)
  | fuel + 1, check, ct, ch =>
    if check && !(ct.hSum < kinTime) then (.done, ct, ch)
    else if check && badStepMax < ct.stepBad then (.badSteps, ct, ch)
    else
      let (ct, ch) := applyReduction P ct ch
      match pass P F t0 tol ct.h ct.hOld ct.hSum ch with
      | .reduce ch => loop P pw F t0 kinTime tol badStepMax fuel false ct ch
      | .rejected e ch => loop P pw F t0 kinTime tol badStepMax fuel true (onReject P pw e ct) { ch with lBad := true }
      | .accepted e ch => loop P pw F t0 kinTime tol badStepMax fuel true (onAccept P pw kinTime e ct) ch
      | .exit ch => (.earlyExit, { ct with accH := ct.h :: ct.accH }, ch)

/-- initial state of `rk_kinetics` for a kinetic step `kin_time` (rk is normalised to 1, 2, 3 or 6) -/
def init (P : Params α) (t0 kinTime stepDivide : α) (rk : Nat) (m : List α) : Ctrl α × Chem α :=
  let rk := if rk < 1 then 1 else if 3 < rk then 6 else rk
  let div := P.one < stepDivide
  let h := if div then kinTime / stepDivide else kinTime
  ({ h := h, hOld := h, hSum := P.zero, stepOk := 0, stepBad := 0, accH := [], accErr := [] },
   { m := m, mTemp := m, k1 := m.map (fun _ => P.zero), mr := P.one,
     molesMax := if div then P.molesMax else if stepDivide < P.one then stepDivide else P.molesMax,
     equalRate := if div then false else !(rk == 6), rk := rk, lBad := false, tCur := t0, log := [] })

/-- `rk_kinetics` for one kinetic step -/
def rkKinetics (P : Params α) (pw : α → α → α) (F : α → List α → α → List α) (t0 kinTime stepDivide : α) (rk : Nat)
    (tol m : List α) (badStepMax fuel : Nat) : Status × Ctrl α × Chem α :=
  let (ct, ch) := init P t0 kinTime stepDivide rk m
  loop P pw F t0 kinTime tol badStepMax fuel true ct ch

end

/-! ### Tableau algebra over `Rat` (order conditions, quadrature) -/

def sumL (l : List Rat) : Rat := l.foldl (· + ·) 0
def dotL (a b : List Rat) : Rat := sumL ((a.zip b).map fun p => p.1 * p.2)
/-- `A v` for the strictly lower triangular stage matrix given by rows -/
def mulA (A : List (List Rat)) (v : List Rat) : List Rat := A.map (fun r => dotL r v)
def hadamard (a b : List Rat) : List Rat := (a.zip b).map fun p => p.1 * p.2
def powL (c : List Rat) (k : Nat) : List Rat := c.map (· ^ k)
def ones (n : Nat) : List Rat := List.replicate n 1

/-- row sums of the stage matrix equal the nodes -/
def rowSumsOk (A : List (List Rat)) (c : List Rat) : Bool := A.map sumL == c

/-- the rooted-tree order conditions of order ≤ 4 (8 conditions) for weights `b` -/
def order4Conds (A : List (List Rat)) (b c : List Rat) : List (Rat × Rat) :=
  let Ac := mulA A c
  [ (sumL b, 1),
    (dotL b c, 1/2),
    (dotL b (powL c 2), 1/3), (dotL b Ac, 1/6),
    (dotL b (powL c 3), 1/4), (dotL b (hadamard c Ac), 1/8), (dotL b (mulA A (powL c 2)), 1/12), (dotL b (mulA A Ac), 1/24) ]

/-- the 9 rooted trees of order 5 -/
def order5Only (A : List (List Rat)) (b c : List Rat) : List (Rat × Rat) :=
  let Ac := mulA A c
  let Ac2 := mulA A (powL c 2)
  let Ac3 := mulA A (powL c 3)
  let AAc := mulA A Ac
  [ (dotL b (powL c 4), 1/5),
    (dotL b (hadamard (powL c 2) Ac), 1/10),
    (dotL b (hadamard Ac Ac), 1/20),
    (dotL b (hadamard c Ac2), 1/15),
    (dotL b (hadamard c AAc), 1/30),
    (dotL b Ac3, 1/20),
    (dotL b (mulA A (hadamard c Ac)), 1/40),
    (dotL b (mulA A Ac2), 1/60),
    (dotL b (mulA A AAc), 1/120) ]

def condsHold (l : List (Rat × Rat)) : Bool := l.all fun p => p.1 == p.2

/-- all 17 conditions of order 5 -/
def order5Conds (A : List (List Rat)) (b c : List Rat) : List (Rat × Rat) := order4Conds A b c ++ order5Only A b c

/-- embedded weights `b - d` -/
def embedded (b d : List Rat) : List Rat := (b.zip d).map fun p => p.1 - p.2

/-- stability function `R(z) = 1 + z bᵀ (I - zA)⁻¹ 1` of an explicit method as coefficient list `[1, bᵀ1, bᵀA1, bᵀA²1, ...]` -/
def stabCoeffs (A : List (List Rat)) (b : List Rat) : List Rat :=
  let s := b.length
  let rec go (k : Nat) (v : List Rat) (acc : List Rat) : List Rat :=
    match k with
    | 0 => acc.reverse
    | k + 1 => go k (mulA A v) (dotL b v :: acc)
  1 :: go s (ones s) []

end PhreeqcVerif.RK

namespace PhreeqcVerif.RK

/-- stage values of one step for the linear test equation `y' = λ y` with `z = λ h` and `y = 1`:
`k_i = z (1 + Σ_j a_ij k_j)` -/
def stageVals (z : Rat) : List (List Rat) → List Rat → List Rat
  | [], ks => ks
  | r :: rs, ks => stageVals z rs (ks ++ [z * (1 + dotL r ks)])

/-- growth factor of one step on the linear test equation -/
def linStep (A : List (List Rat)) (b : List Rat) (z : Rat) : Rat := 1 + dotL b (stageVals z A [])

/-- stage values of one step for a rate that depends on time only, `k_i = h p(t0 + c_i h)` -/
def quadStep (b c : List Rat) (p : Rat → Rat) (t0 h : Rat) : Rat := dotL b (c.map fun ci => h * p (t0 + ci * h))

end PhreeqcVerif.RK

namespace PhreeqcVerif.RK
open PhreeqcVerif

/-- the integrator data regenerated from the source, as numbers of type `α` (`lit` converts a source literal).
The error weights are formed as the source forms them: `dc_i = c_i - <literal>` (a difference of two converted literals). -/
def paramsOf {α : Type} [Sub α] (lit : Rat → α) (minTotal : α) : Params α :=
  { A := Gen.RKTableau.A.map (·.map lit), c := Gen.RKTableau.c.map lit, b := Gen.RKTableau.b.map lit,
    d := (Gen.RKTableau.dMin.zip Gen.RKTableau.dSub).map (fun p => lit p.1 - lit p.2),
    e1 := Gen.RKTableau.e1.map lit, e2 := Gen.RKTableau.e2.map lit, e3 := Gen.RKTableau.e3.map lit,
    safety := lit Gen.RKTableau.safety, molesMax := lit Gen.RKTableau.molesMax, shrinkExp := lit Gen.RKTableau.shrinkExp,
    growExp := lit Gen.RKTableau.growExp, growThreshold := lit Gen.RKTableau.growThreshold,
    growFactor := lit Gen.RKTableau.growFactor, tinyM := lit Gen.RKTableau.tinyM, minTotal := minTotal,
    zero := lit 0, one := lit 1 }

end PhreeqcVerif.RK
