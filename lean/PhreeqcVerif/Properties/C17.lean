import PhreeqcVerif.Lemmas.BasicParse
import PhreeqcVerif.Model.BasicExec
import PhreeqcVerif.Lemmas.BasicFor
/-! C17 — BASIC programs compute standard arithmetic, string and control-flow semantics.

Theorems about the reference evaluator `Model/Basic*.lean` (the executable model of `PBasic.cpp` that
`pmodel basic` runs against the real engine), for ALL expressions / programs / states, and facts over the token
tables regenerated from the source on every run (`Gen/BasicTokens.lean`). -/
namespace PhreeqcVerif.C17
open PhreeqcVerif.Basic PhreeqcVerif.Gen

/-! ## generated token tables -/

/-- the documented keywords denote the documented tokens in the table extracted from `PBasic.cpp` -/
theorem keywords_documented :
    (["and", "or", "xor", "not", "mod", "if", "then", "else", "for", "to", "step", "next", "while", "wend", "goto",
      "gosub", "return", "on", "data", "read", "restore", "dim", "put", "get", "punch", "save", "print", "end", "rem",
      "let", "stop", "erase", "put$", "get$"].map lookupKw)
    = (["tokand", "tokor", "tokxor", "toknot", "tokmod", "tokif", "tokthen", "tokelse", "tokfor", "tokto", "tokstep",
        "toknext", "tokwhile", "tokwend", "tokgoto", "tokgosub", "tokreturn", "tokon", "tokdata", "tokread", "tokrestore",
        "tokdim", "tokput", "tokget", "tokpunch", "toksave", "tokprint", "tokend", "tokrem",
        "toklet", "tokstop", "tokerase", "tokput_", "tokget_"].map some) := by
  decide

/-- documented numeric and string functions -/
theorem functions_documented :
    (["abs", "sqr", "sqrt", "exp", "log", "log10", "sin", "cos", "tan", "arctan", "sgn", "floor", "ceil",
      "chr$", "str$", "mid$", "len", "asc", "val", "instr", "ltrim", "rtrim", "trim", "pad", "pad$", "eol$"].map lookupKw)
    = (["tokabs", "toksqr", "toksqrt", "tokexp", "toklog", "toklog10", "toksin", "tokcos", "toktan", "tokarctan", "toksgn",
        "tokfloor", "tokceil", "tokchr_", "tokstr_", "tokmid_", "toklen", "tokasc", "tokval", "tokinstr", "tokltrim",
        "tokrtrim", "toktrim", "tokpad", "tokpad_", "tokeol_"].map some) := by
  decide

def enumIndex (t : String) : Option Nat :=
  let i := BasicTokens.tokEnum.findIdx (· == t)
  if i < BasicTokens.tokEnum.length then some i else none

/-- `relexpr` tests `(1L << (tokne + 1)) - (1L << tokeq)`: the enumerators from `tokeq` to `tokne` are exactly the
six relational operators (and all below 32, so the `long` mask can hold them) -/
theorem rel_mask_is_the_six_relations :
    BasicTokens.relRange = ("tokeq", "tokne") ∧
    (BasicTokens.tokEnum.drop 14).take 6 = ["tokeq", "toklt", "tokgt", "tokle", "tokge", "tokne"] ∧
    enumIndex "tokeq" = some 14 ∧ enumIndex "tokne" = some 19 := by
  decide +kernel

/-- the operator masks of `term`, `sexpr`, `expr` name exactly the operators of their level; the guard `kind < N` in
front of every `1L << kind` test fits the width of `long` (`N ≤ 64`), every masked enumerator — and the relational
range — lies below `N` (so the guard never cuts an operator off), and so do the separators tested by PRINT/PUNCH/SAVE -/
theorem loop_masks :
    BasicTokens.mask_term = ["toktimes", "tokdiv", "tokmod"] ∧
    BasicTokens.mask_sexpr = ["tokplus", "tokminus"] ∧
    BasicTokens.mask_expr = ["tokor", "tokxor"] ∧
    BasicTokens.maskBits ≤ 64 ∧
    (["toktimes", "tokdiv", "tokmod", "tokplus", "tokminus", "tokor", "tokxor", "tokand", "toksemi", "tokcomma",
      "tokeq", "toklt", "tokgt", "tokle", "tokge", "tokne"].all
      fun t => match enumIndex t with
        | some i => i < BasicTokens.maskBits
        | none => false) = true := by
  decide +kernel

/-! ## expressions: precedence and associativity -/

/-- **Round trip.** For every well-formed derivation `d` of the documented expression grammar
(`Model/BasicGrammar.lean`: seven levels, all fifteen binary operators, prefix operators and functions,
subscripted variables, `GET`/`GET$` argument lists, the parenthesised-argument string functions incl. `MID$`,
`PAD`, `STR_F$`, `STR_E$`; redundant parentheses allowed) the parser of the model — `expr` down to `factor`, the
code's seven functions — returns exactly the tree `d` denotes (`Deriv.den`: a chain at one level is the *left* fold
of its operators, `^` nests to the *right*, prefix operators bind tighter than any binary operator), consuming
exactly the tokens of `d`, whenever what follows cannot continue an expression. `Deriv` has a constructor for every
constructor of `Expr`, so this covers every expression form of the model. `∃ N` is the nesting budget (fuel) of the
parser; the drivers run it with `parseFuel`. -/
theorem parse_print_roundtrip {α : Type} (d : Deriv α) (hw : d.WF) (rest : List (Tok α))
    (hf : FollowOk 0 rest) :
    ∃ N, ∀ n, n ≥ N → pExpr n (d.flat ++ rest) = .ok (d.den, rest) := by
  obtain ⟨N, h⟩ := roundtrip_deriv d hw rest 0 (Nat.zero_le _) hf
  exact ⟨N + 1, pExpr_of_pLvl0 h⟩

/-- the same at every grammar level (e.g. level 5: what `upexpr` returns) -/
theorem parse_level_roundtrip {α : Type} (d : Deriv α) (hw : d.WF) (rest : List (Tok α)) (l : Nat)
    (hl : l ≤ d.level) (hf : FollowOk l rest) :
    ∃ N, ∀ n, n ≥ N → pLvl n l (d.flat ++ rest) = .ok (d.den, rest) :=
  roundtrip_deriv d hw rest l hl hf

/-- argument lists (subscripts, GET): `(, expr)* )` is read left to right into the argument list, whatever follows -/
theorem parse_args_roundtrip {α : Type} (a : DArgs α) (hw : a.WF) (rest : List (Tok α)) :
    ∃ N, ∀ n, n ≥ N → pArgsTail n (a.flat ++ rest) = .ok (a.den, rest) :=
  roundtrip_args a hw rest

/-- non-vacuity with subscripts and GET: `a(1, i + 1) * GET(2) ^ 2` -/
example :
    parseExpr (α := Nat)
      [.var "a", .k .lp, .num 1, .k .comma, .var "i", .k .plus, .num 1, .k .rp, .k .times,
       .k .get, .k .lp, .num 2, .k .rp, .k .up, .num 2]
    = .ok (.bin .times (.var "a" (.cons (.num 1) (.cons (.bin .plus (.var "i" .nil) (.num 1)) .nil)))
            (.bin .up (.get (.cons (.num 2) .nil)) (.num 2)), []) := by
  rfl

/-- non-vacuity: `- 2 ^ 2 ^ 3 * 4 - 5 - 6 < 7 AND 1 OR 0`: unary minus inside `^`, `^` to the right,
`-` to the left, relation above AND above OR — parsed with the fuel the drivers use -/
example :
    parseExpr (α := Nat)
      [.k .minus, .num 2, .k .up, .num 2, .k .up, .num 3, .k .times, .num 4, .k .minus, .num 5, .k .minus, .num 6,
       .k .lt, .num 7, .k .and_, .num 1, .k .or_, .num 0]
    = .ok (.bin .or_
            (.bin .and_
              (.bin .lt
                (.bin .minus
                  (.bin .minus
                    (.bin .times (.bin .up (.un .neg (.num 2)) (.bin .up (.num 2) (.num 3))) (.num 4))
                    (.num 5))
                  (.num 6))
                (.num 7))
              (.num 1))
            (.num 0), []) := by
  rfl

/-- the same string as a derivation: it is well formed and denotes that tree -/
example :
    let d : Deriv Nat :=
      .chain 0 (.chain 1 (.chain 2 (.chain 3 (.chain 4 (.up (.un .neg (.num 2)) (.up (.num 2) (.num 3)))
        (.cons .times (.num 4) .nil)) (.cons .minus (.num 5) (.cons .minus (.num 6) .nil)))
        (.cons .lt (.num 7) .nil)) (.cons .and_ (.num 1) .nil)) (.cons .or_ (.num 0) .nil)
    d.WF ∧ d.flat.length = 18 := by
  simp [Deriv.WF, DTail.WF, Deriv.level, binLevel, Deriv.flat, DTail.flat]

/-- **Compositionality.** The value of a binary expression is `applyBin` of the values of its operands, evaluated
left to right with the state threaded through (no short circuit, no dependence on context) -/
theorem eval_compositional {α : Type} [BNum α] (hook : Hook α) (op : BinOp) (a b : Expr α) (s : St α) :
    eval hook (.bin op a b) s =
      (match eval hook a s with
       | .error e => .error e
       | .ok (va, s1) =>
         match eval hook b s1 with
         | .error e => .error e
         | .ok (vb, s2) => applyBin op va vb s2) := by
  rw [eval]; rfl

theorem eval_compositional_un {α : Type} [BNum α] (hook : Hook α) (f : UnFn) (a : Expr α) (s : St α) :
    eval hook (.un f a) s =
      (match eval hook a s with
       | .error e => .error e
       | .ok (v, s1) => applyUn hook f v s1) := by
  rw [eval]; rfl

/-! ## execution: values or a typed error, never stuck -/

/-- a run that ends (values or error) within `n` steps ends the same way with any larger budget -/
theorem run_fuel_mono {α : Type} [BNum α] (hook : Hook α) :
    ∀ (n : Nat) (c : Cfg α), (∀ s, runLoop hook n c ≠ .fuel s) → ∀ k, runLoop hook (n + k) c = runLoop hook n c := by
  intro n
  induction n with
  | zero => intro c h; exact absurd rfl (h c.st)
  | succ n ih =>
    intro c h k
    have e : n + 1 + k = (n + k) + 1 := by omega
    rw [e]
    simp only [runLoop] at h ⊢
    cases hs : step hook c with
    | cont c' =>
      simp only [hs] at h ⊢
      exact ih c' h k
    | done s => rfl
    | err e s => rfl

/-- **Totality.** For every program text, host precision flag and budget the reference evaluation *is* one of:
finished with the state holding the PUNCH/PRINT/SAVE values, a typed BASIC error, or budget exhausted; and the
answer does not depend on the budget once the run ends (no other way to be stuck exists) -/
theorem exec_total {α : Type} [BNum α] (hook : Hook α) (c : Cfg α) (n m : Nat)
    (hn : ∀ s, runLoop hook n c ≠ .fuel s) (hm : ∀ s, runLoop hook m c ≠ .fuel s) :
    runLoop hook n c = runLoop hook m c ∧
    ((∃ s, runLoop hook n c = .done s) ∨ (∃ e s, runLoop hook n c = .err e s)) := by
  constructor
  · rcases Nat.le_total n m with h | h
    · obtain ⟨k, rfl⟩ := Nat.exists_eq_add_of_le h
      exact (run_fuel_mono hook n c hn k).symm
    · obtain ⟨k, rfl⟩ := Nat.exists_eq_add_of_le h
      exact run_fuel_mono hook m c hm k
  · cases h : runLoop hook n c with
    | done s => exact Or.inl ⟨s, rfl⟩
    | err e s => exact Or.inr ⟨e, s, rfl⟩
    | fuel s => exact absurd h (hn s)

/-! ## hosts -/

/-- **Hosts agree.** Every host observes a projection of one and the same run: RATES and CALCULATE_VALUES deliver
the same; a BASIC error of the run is an error under every host; when USER_PUNCH delivers its cells USER_PRINT
delivers its text, and RATES delivers the last SAVE value exactly when there is one (and it is a number) -/
theorem hosts_agree {α : Type} [BNum α] (o : Outcome α) :
    hostOut .rates o = hostOut .calculateValues o ∧
    (∀ e s, o = .err e s → ∀ h, hostOut h o = .basicError) ∧
    (∀ cells, hostOut .userPunch o = .punched cells →
      ∃ s, o = .done s ∧ cells = s.punch.toList ∧
        (∃ text, hostOut .userPrint o = .printed text) ∧
        (∀ x, hostOut .rates o = .saved x ↔ (s.save = some x ∧ BNum.isNaN x = false))) := by
  refine ⟨?_, ?_, ?_⟩
  · cases o <;> rfl
  · intro e s h hst; subst h; cases hst <;> rfl
  · intro cells h
    cases o with
    | fuel s => simp [hostOut] at h
    | err e s => simp [hostOut] at h
    | done s =>
      simp only [hostOut, HostOut.punched.injEq] at h
      refine ⟨s, rfl, h.symm, ⟨_, rfl⟩, ?_⟩
      intro x
      simp only [hostOut]
      cases hsv : s.save with
      | none => simp
      | some y =>
        cases hy : BNum.isNaN y with
        | true =>
          simp only [hy, if_true]
          constructor
          · intro h'; cases h'
          · intro h'
            have : y = x := Option.some.inj h'.1
            subst this
            rw [hy] at h'
            exact absurd h'.2 (by simp)
        | false =>
          simp only [hy]
          constructor
          · intro h'
            have : y = x := by simpa using h'
            subst this
            exact ⟨rfl, hy⟩
          · intro h'
            have : y = x := Option.some.inj h'.1
            subst this
            simp

/-! ## GOSUB / RETURN -/

theorem popTo_gosub {α : Type} (inner outer : List (Loop α)) (g : Loop α) (hg : g.kind = .gosub)
    (hin : ∀ l ∈ inner, l.kind ≠ .gosub) :
    popTo (fun l => l.kind == .gosub) (fun _ => false) (inner ++ g :: outer) = some (g, outer) := by
  induction inner with
  | nil => simp [popTo, hg]
  | cons l ls ih =>
    have hl : l.kind ≠ .gosub := hin l (List.mem_cons_self ..)
    have : (l.kind == LoopKind.gosub) = false := by simpa using hl
    simp only [List.cons_append, popTo, this]
    exact ih (fun x hx => hin x (List.mem_cons_of_mem _ hx))

/-- **GOSUB/RETURN stack, any nesting depth.** GOSUB records the place behind itself on top of the stack and jumps;
RETURN — whatever FOR/WHILE frames the subroutine left open (`inner`, any number) and however many callers are
waiting below (`outer`, any depth) — resumes right behind the *innermost pending* GOSUB (its line, the tokens after
its line number up to the end of that statement), discards exactly the frames above it and leaves the callers'
frames untouched -/
theorem gosub_return_stack {α : Type} [BNum α] (hook : Hook α) (s : St α) (line : Option Nat)
    (t : List (Tok α)) (inner outer : List (Loop α)) (g : Loop α) (hg : g.kind = .gosub)
    (hin : ∀ l ∈ inner, l.kind ≠ .gosub) (hs : s.loops = inner ++ g :: outer) :
    execStmt hook s line (.k .return_) t
      = .ok { st := { s with loops := outer }, line := g.homeline, t := skipToEos g.hometok } ∧
    (∀ (s' : St α) (line' : Option Nat) (t' : List (Tok α)),
      execStmt hook s' line' (.k .gosub) t'
        = cmdGoto hook { s' with loops := { kind := .gosub, homeline := line', hometok := t',
                                            max := BNum.zero, step := BNum.zero } :: s'.loops } t') := by
  constructor
  · simp only [execStmt, hs, popTo_gosub inner outer g hg hin]
  · intro s' line' t'; rfl

/-- RETURN with no pending GOSUB is the BASIC error "RETURN without GOSUB" (never a jump) -/
theorem return_without_gosub {α : Type} [BNum α] (hook : Hook α) (s : St α) (line : Option Nat)
    (t : List (Tok α)) (h : ∀ l ∈ s.loops, l.kind ≠ .gosub) :
    execStmt hook s line (.k .return_) t = .error .returnWoGosub := by
  have : popTo (fun l : Loop α => l.kind == .gosub) (fun _ => false) s.loops = none := by
    generalize s.loops = ls at h
    induction ls with
    | nil => rfl
    | cons l ls ih =>
      have hl : (l.kind == LoopKind.gosub) = false := by simpa using h l (List.mem_cons_self ..)
      simp only [popTo, hl]
      exact ih (fun x hx => h x (List.mem_cons_of_mem _ hx))
  simp only [execStmt, this]

/-! ## DATA / READ -/

/-- the forward scan stops at the *first* token (in program order) where the predicate holds -/
theorem scanToks_first {α σ : Type} (f : σ → Tok α → List (Tok α) → σ × Bool) :
    ∀ (ts : List (Tok α)) (st : σ) (r : List (Tok α)), scanToks f st ts = .inr r →
      ∃ pre tk st', ts = pre ++ tk :: r ∧ (f st' tk r).2 = true ∧
        (∀ pre1 tk1 suf, pre = pre1 ++ tk1 :: suf → ∃ st1, (f st1 tk1 (suf ++ tk :: r)).2 = false) := by
  intro ts
  induction ts with
  | nil => intro st r h; simp [scanToks] at h
  | cons t ts ih =>
    intro st r h
    simp only [scanToks] at h
    by_cases hstop : (f st t ts).2 = true
    · simp only [hstop, if_true] at h
      have : ts = r := by simpa using h
      subst this
      exact ⟨[], t, st, rfl, hstop, by intro pre1 tk1 suf h; simp at h⟩
    · have hstop' : (f st t ts).2 = false := by simpa using hstop
      simp only [hstop'] at h
      obtain ⟨pre, tk, st', hts, hf, hno⟩ := ih (f st t ts).1 r (by simpa using h)
      refine ⟨t :: pre, tk, st', by simp [hts], hf, ?_⟩
      intro pre1 tk1 suf hp
      cases pre1 with
      | nil =>
        simp only [List.nil_append, List.cons.injEq] at hp
        obtain ⟨h1, h2⟩ := hp
        subst h1; subst h2
        exact ⟨st, by rw [← hts]; exact hstop'⟩
      | cons p ps =>
        simp only [List.cons_append, List.cons.injEq] at hp
        exact hno ps tk1 suf hp.2

/-- **READ takes the DATA items in program order.** The position of the next item (`dataPos`, what `cmdread` uses):
directly behind a comma that follows the item read last (the next item of the same DATA statement, left to right);
otherwise the first `DATA` token followed by an item, searching forward from the current position through the
rest of that line and then the following lines in line-number order; none left is the error "Out of Data" -/
theorem read_data_order {α : Type} [BNum α] (s : St α) (i : Nat) (hdl : s.dataline = some i) :
    (headIs s.datatok .comma = true → dataPos s = .ok (some i, s.datatok.drop 1)) ∧
    (headIs s.datatok .comma = false →
      (∀ p, dataPos s = .ok p ↔ scanStream dataStep () (streamFrom s (some i) s.datatok) = some p) ∧
      (scanStream dataStep () (streamFrom s (some i) s.datatok) = none → dataPos s = .error .outOfData)) ∧
    (∀ r, scanToks dataStep () s.datatok = .inr r →
      ∃ pre tk, s.datatok = pre ++ tk :: r ∧ tk.isK .data = true ∧ isEos r = false ∧
        dataPos s = (if headIs s.datatok .comma then .ok (some i, s.datatok.drop 1) else .ok (some i, r))) := by
  refine ⟨?_, ?_, ?_⟩
  · intro h; simp [dataPos, hdl, h]
  · intro h
    constructor
    · intro p
      simp only [dataPos, hdl, h]
      cases scanStream dataStep () (streamFrom s (some i) s.datatok) with
      | none => simp
      | some q => simp
    · intro hn; simp [dataPos, hdl, h, hn]
  · intro r hr
    obtain ⟨pre, tk, st', hts, hf, _⟩ := scanToks_first dataStep s.datatok () r hr
    have hd : tk.isK .data = true ∧ isEos r = false := by
      simpa [dataStep] using hf
    refine ⟨pre, tk, hts, hd.1, hd.2, ?_⟩
    by_cases hc : headIs s.datatok .comma = true
    · simp [dataPos, hdl, hc]
    · have hc' : headIs s.datatok .comma = false := by simpa using hc
      simp [dataPos, hdl, hc', streamFrom, scanStream, hr]

/-! ## FOR / NEXT in exact arithmetic -/

section ForLoop
variable (F : RatFns)

/-- **FOR iterations, positive step.** In exact arithmetic (`ratNum F`: `Rat` with arbitrary uninterpreted libm
functions) a loop `FOR v = a TO b STEP s` with `s > 0` whose body leaves `v` alone runs exactly `n` times, where
`n` is the unique number with `a + (n-1)·s ≤ b < a + n·s` (i.e. `n = ⌊(b − a)/s⌋ + 1`), or not at all when
`a > b`; the body sees `a, a+s, …, a+(n−1)s` and the variable is left at `a + n·s`, the first value past the
limit (`a` itself when the loop is skipped). `forLoop` iterates `forSkips` / `nextContinues`, the two decision
functions `execStmt` itself calls for FOR and NEXT (`next_uses_nextContinues`). -/
theorem for_iterations (a b s : Rat) (hs : 0 < s) :
    (b < a → ∀ fuel, @forLoop Rat (ratNum F) a b s fuel = ([], a)) ∧
    (∀ n : Nat, 1 ≤ n → a + ((n : Rat) - 1) * s ≤ b → b < a + (n : Rat) * s → ∀ fuel, n ≤ fuel →
      @forLoop Rat (ratNum F) a b s fuel
        = ((List.range n).map (fun (i : Nat) => a + (i : Rat) * s), a + (n : Rat) * s)) :=
  for_iterations_pos F a b s hs

/-- **FOR iterations, negative step** (`s < 0`, counting down to `b`): the mirror image -/
theorem for_iterations_down (a b s : Rat) (hs : s < 0) :
    (a < b → ∀ fuel, @forLoop Rat (ratNum F) a b s fuel = ([], a)) ∧
    (∀ n : Nat, 1 ≤ n → b ≤ a + ((n : Rat) - 1) * s → a + (n : Rat) * s < b → ∀ fuel, n ≤ fuel →
      @forLoop Rat (ratNum F) a b s fuel
        = ((List.range n).map (fun (i : Nat) => a + (i : Rat) * s), a + (n : Rat) * s)) :=
  for_iterations_neg F a b s hs

/-- the count in closed form: `n = ⌊(b − a)/s⌋ + 1` satisfies the two inequalities that determine it -/
theorem for_count_closed_form (a b s : Rat) (hs : 0 < s) (hab : a ≤ b) :
    let n : Nat := ((b - a) / s).floor.toNat + 1
    1 ≤ n ∧ a + ((n : Rat) - 1) * s ≤ b ∧ b < a + (n : Rat) * s := by
  intro n
  have hq : 0 ≤ (b - a) / s := div_nonneg (by linarith) (le_of_lt hs)
  have hfl : 0 ≤ ((b - a) / s).floor := Rat.le_floor_iff.mpr (by simpa using hq)
  have hcast : ((((b - a) / s).floor.toNat : Nat) : Rat) = ((((b - a) / s).floor : Int) : Rat) := by
    have : ((((b - a) / s).floor.toNat : Nat) : Int) = ((b - a) / s).floor := Int.toNat_of_nonneg hfl
    exact_mod_cast this
  have h1 : ((((b - a) / s).floor : Int) : Rat) ≤ (b - a) / s := Rat.floor_le _
  have h2 : (b - a) / s < ((((b - a) / s).floor : Int) : Rat) + 1 := by
    have := Rat.lt_floor_add_one ((b - a) / s)
    push_cast at this
    exact this
  refine ⟨Nat.succ_le_succ (Nat.zero_le _), ?_, ?_⟩
  · have : ((n : Nat) : Rat) - 1 = ((((b - a) / s).floor : Int) : Rat) := by
      simp only [n]; push_cast; rw [hcast]; ring
    rw [this]
    have := (le_div_iff₀ hs).mp h1
    linarith
  · have : ((n : Nat) : Rat) = ((((b - a) / s).floor : Int) : Rat) + 1 := by
      simp only [n]; push_cast; rw [hcast]
    rw [this]
    have := (div_lt_iff₀ hs).mp h2
    linarith

/-- non-vacuity: `FOR i = 1 TO 2.2 STEP 0.5` runs three times (1, 1.5, 2) and leaves `i = 2.5` -/
example : @forLoop Rat (ratNum F) (1 : Rat) (22 / 10) (1 / 2) 10 = ([1, 3 / 2, 2], 5 / 2) := by
  have := (for_iterations F 1 (22 / 10) (1 / 2) (by norm_num)).2 3 (by norm_num) (by norm_num) (by norm_num) 10 (by norm_num)
  rw [this]
  norm_num [List.range_succ]

end ForLoop

/-- the NEXT statement of the machine decides with `nextContinues` on the incremented *designated cell* of the FOR
frame on top of the stack (`l.cell`, recorded by FOR): that cell becomes `v + step`; the machine goes back to the
frame's home position when `nextContinues` holds and otherwise drops the frame and goes on behind NEXT. The
variable's own pointer (`ptr`, moved by every reference to the array) plays no role. -/
theorem next_uses_nextContinues {α : Type} [BNum α] (hook : Hook α) (s : St α) (line : Option Nat)
    (l : Loop α) (rest : List (Loop α)) (hk : l.kind = .for_) (hs : s.loops = l :: rest) :
    let nv := BNum.add ((s.getVar l.var).numAt l.cell) l.step
    let s2 := s.setVar l.var ((s.getVar l.var).setNumAt l.cell nv)
    execStmt hook s line (.k .next) [] =
      (if nextContinues nv l.max l.step then
        .ok { st := { s2 with loops := l :: rest }, line := l.homeline, t := l.hometok }
       else .ok { st := { s2 with loops := rest }, line := line, t := [] }) := by
  simp [execStmt, isEos, hs, popTo, hk]

/-- **The loop cell is independent of what the body, limit and step expressions reference.** Reading and writing the
designated cell do not depend on where the variable's pointer was left (af19d591), the pointer itself is left alone,
and a write to the designated array cell changes no other cell. Together with `next_uses_nextContinues`,
`for_iterations` and `for_count_closed_form`: a FOR loop whose body does not assign its loop cell runs
`max 0 (⌊(limit − start)/step⌋ + 1)` times and leaves the designated cell at the first value past the limit, whatever
elements of the same array the body / limit / step expressions reference. -/
theorem for_cell_ignores_pointer {α : Type} [BNum α] (v : Var α) (p cell : Option Nat) (x : α) :
    ({ v with ptr := p } : Var α).numAt cell = v.numAt cell ∧
    (({ v with ptr := p } : Var α).setNumAt cell x).ptr = p ∧
    ((v.setNumAt cell x).numAt cell = x ∨ (∃ k, cell = some k ∧ v.arr.size ≤ k)) := by
  refine ⟨rfl, rfl, ?_⟩
  cases cell with
  | none => left; simp [Var.setNumAt, Var.numAt, Var.setNum, Var.numVal]
  | some k =>
    by_cases hk : k < v.arr.size
    · left; simp [Var.setNumAt, Var.numAt, Var.setNum, Var.numVal, Array.setIfInBounds, hk]
    · right; exact ⟨k, rfl, Nat.le_of_not_lt hk⟩

/-- ERASE inside a running FOR loop on an element of the erased array: the loop continues on the scalar cell -/
theorem erase_repoints_for_cell {α : Type} [BNum α] (s : St α) (name : String) (l : Loop α) (rest : List (Loop α))
    (hk : l.kind = .for_) (hv : l.var = name) (hs : s.loops = l :: rest) :
    ∃ s1 r', cmdErase 1 s [.var name] = .ok (s1, r') ∧ (s1.loops.head?.map (·.cell)) = some none := by
  refine ⟨_, _, rfl, ?_⟩
  simp [St.setVar, hs, hk, hv]
  split <;> simp [hs, hk, hv]

/-! ## IF / THEN / ELSE -/

/-- tokens that are neither IF nor ELSE -/
def NoIfElse {α : Type} (ts : List (Tok α)) : Prop := ∀ t ∈ ts, t.isK .if_ = false ∧ t.isK .else_ = false

theorem skipToElse_prefix {α : Type} (pre rest : List (Tok α)) (h : NoIfElse pre) (i : Int) (hi : 0 ≤ i) :
    skipToElse i (pre ++ rest) = skipToElse i rest := by
  induction pre with
  | nil => rfl
  | cons t ts ih =>
    have ht := h t (List.mem_cons_self ..)
    simp only [List.cons_append, skipToElse, ht.1, ht.2]
    simp only [Bool.false_eq_true, if_false, hi, if_true]
    exact ih (fun x hx => h x (List.mem_cons_of_mem _ hx))

/-- the false branch of `IF c THEN <then part> ELSE <else part>` continues exactly at the else part; nested
`IF … ELSE` pairs inside the then part are stepped over (the counter) -/
theorem skipToElse_matching {α : Type} (thenPart elsePart : List (Tok α)) (h : NoIfElse thenPart) :
    skipToElse 0 (thenPart ++ (.k .else_ : Tok α) :: elsePart) = elsePart := by
  rw [skipToElse_prefix _ _ h 0 (Int.le_refl 0)]
  simp [skipToElse, Tok.isK]

theorem skipToElse_nested {α : Type} (p1 p2 p3 elsePart : List (Tok α))
    (h1 : NoIfElse p1) (h2 : NoIfElse p2) (h3 : NoIfElse p3) :
    skipToElse 0 (p1 ++ (.k .if_ : Tok α) :: (p2 ++ (.k .else_ : Tok α) :: (p3 ++ (.k .else_ : Tok α) :: elsePart)))
      = elsePart := by
  rw [skipToElse_prefix _ _ h1 0 (Int.le_refl 0)]
  simp only [skipToElse, Tok.isK]
  simp only [beq_self_eq_true, if_true]
  have : (0 : Int) + 1 ≥ 0 := by decide
  simp only [this, if_true]
  rw [skipToElse_prefix _ _ h2 (0 + 1) (by decide)]
  simp only [skipToElse, Tok.isK]
  simp
  rw [skipToElse_prefix _ _ h3 0 (Int.le_refl 0)]
  simp [skipToElse, Tok.isK]

/-- without an ELSE the false branch skips the rest of the line -/
theorem skipToElse_no_else {α : Type} (ts : List (Tok α)) (h : NoIfElse ts) : skipToElse 0 ts = [] := by
  have := skipToElse_prefix ts [] h 0 (Int.le_refl 0)
  simpa [skipToElse] using this

/-- **IF/THEN/ELSE.** With the condition evaluated to `x` and `THEN` found: a non-zero `x` continues with the
statement right behind THEN, a zero `x` with the statement behind the matching ELSE (or nothing); if that place
holds a number the statement is `GOTO` that line; the state is the one the condition left (no other effect) -/
theorem if_then_else {α : Type} [BNum α] (hook : Hook α) (s s1 : St α) (line : Option Nat)
    (t t1 : List (Tok α)) (x : α)
    (h : realExprAt hook t s = .ok (x, (.k .then_ : Tok α) :: t1, s1)) :
    let target := if BNum.eq x BNum.zero then skipToElse 0 t1 else t1
    (∀ y r, target = .num y :: r → execStmt hook s line (.k .if_) t = cmdGoto hook s1 target) ∧
    ((∀ y r, target ≠ .num y :: r) →
      execStmt hook s line (.k .if_) t = .ok { st := s1, line := line, t := target, els := true }) := by
  intro target
  have e : execStmt hook s line (.k .if_) t =
      (match target with
       | .num _ :: _ => cmdGoto hook s1 target
       | _ => .ok { st := s1, line := line, t := target, els := true }) := by
    simp only [execStmt, h, requireK, Tok.isK]
    simp
    rfl
  constructor
  · intro y r ht
    rw [e, ht]
  · intro hn
    rw [e]
    cases htg : target with
    | nil => rfl
    | cons tk r =>
      cases tk with
      | num y => exact absurd htg (hn y r)
      | _ => rfl

/-- reaching ELSE as a statement (the end of an executed then part) skips the rest of the line -/
theorem else_skips_rest {α : Type} [BNum α] (hook : Hook α) (s : St α) (line : Option Nat) (t : List (Tok α)) :
    execStmt hook s line (.k .else_) t = .ok { st := s, line := line, t := [] } := rfl


/-! ## WHILE / WEND -/

def NoWhileWend {α : Type} (ts : List (Tok α)) : Prop := ∀ t ∈ ts, t.isK .while_ = false ∧ t.isK .wend = false

theorem whileSkip_prefix {α : Type} (pre rest : List (Tok α)) (h : NoWhileWend pre) (i : Int) (hi : 0 ≤ i) :
    scanToks whileSkipStep i (pre ++ rest) = scanToks whileSkipStep i rest := by
  induction pre with
  | nil => rfl
  | cons t ts ih =>
    have ht := h t (List.mem_cons_self ..)
    simp only [List.cons_append, scanToks, whileSkipStep, ht.1, ht.2]
    simp only [Bool.false_eq_true, if_false, hi, decide_true, Bool.not_true]
    exact ih (fun x hx => h x (List.mem_cons_of_mem _ hx))

/-- a false WHILE skips to just behind the WEND that matches it: loop-free body, and one nested WHILE…WEND -/
theorem while_skips_to_matching_wend {α : Type} (body rest : List (Tok α)) (h : NoWhileWend body) :
    scanToks whileSkipStep (0 : Int) (body ++ (.k .wend : Tok α) :: rest) = .inr rest := by
  rw [whileSkip_prefix _ _ h 0 (Int.le_refl 0)]
  simp [scanToks, whileSkipStep, Tok.isK]

theorem while_skips_nested {α : Type} (b1 b2 b3 rest : List (Tok α))
    (h1 : NoWhileWend b1) (h2 : NoWhileWend b2) (h3 : NoWhileWend b3) :
    scanToks whileSkipStep (0 : Int)
      (b1 ++ (.k .while_ : Tok α) :: (b2 ++ (.k .wend : Tok α) :: (b3 ++ (.k .wend : Tok α) :: rest))) = .inr rest := by
  rw [whileSkip_prefix _ _ h1 0 (Int.le_refl 0)]
  simp only [scanToks, whileSkipStep, Tok.isK]
  simp
  rw [whileSkip_prefix _ _ h2 1 (by decide)]
  simp only [scanToks, whileSkipStep, Tok.isK]
  simp
  rw [whileSkip_prefix _ _ h3 0 (Int.le_refl 0)]
  simp [scanToks, whileSkipStep, Tok.isK]

/-- **WHILE.** The statement records its own position on the stack; a non-zero condition enters the body (behind the
condition); a zero condition removes the record again and continues behind the matching WEND found by the forward
scan (rest of that statement skipped); no matching WEND is the error "WHILE without WEND" -/
theorem while_statement {α : Type} [BNum α] (hook : Hook α) (s s1 : St α) (line : Option Nat)
    (t t1 : List (Tok α)) (x : α) (hne : isEos t = false)
    (h : realExprAt hook t { s with loops := { kind := .while_, homeline := line, hometok := t,
                                               max := BNum.zero, step := BNum.zero } :: s.loops } = .ok (x, t1, s1)) :
    (BNum.ne0 x = true → execStmt hook s line (.k .while_) t = .ok { st := s1, line := line, t := t1 }) ∧
    (BNum.ne0 x = false →
      (∀ ln r, scanStream whileSkipStep (0 : Int) (streamFrom s1 line t1) = some (ln, r) →
        execStmt hook s line (.k .while_) t
          = .ok { st := { s1 with loops := s1.loops.drop 1 }, line := ln, t := skipToEos r }) ∧
      (scanStream whileSkipStep (0 : Int) (streamFrom s1 line t1) = none →
        execStmt hook s line (.k .while_) t = .error .whileWoWend)) := by
  refine ⟨?_, ?_⟩
  · intro hx
    simp [execStmt, hne, h, hx]
  · intro hx
    refine ⟨?_, ?_⟩
    · intro ln r hsc
      simp [execStmt, hne, h, hx, hsc]
    · intro hsc
      simp [execStmt, hne, h, hx, hsc]

/-- **WEND** (plain, no UNTIL expression) with the WHILE record `w` on top of the stack: the condition of the WHILE is
evaluated again at the WHILE's own position; non-zero goes round (stack unchanged, execution continues behind the
condition), zero drops the record and continues behind WEND -/
theorem wend_statement {α : Type} [BNum α] (hook : Hook α) (s s2 : St α) (line : Option Nat)
    (w : Loop α) (rest : List (Loop α)) (x : α) (t2 : List (Tok α))
    (hk : w.kind = .while_) (hs : s.loops = w :: rest) (hc : isEos w.hometok = false)
    (h : realExprAt hook w.hometok s = .ok (x, t2, s2)) :
    execStmt hook s line (.k .wend) [] =
      (if BNum.eq x BNum.zero then .ok { st := { s2 with loops := s2.loops.drop 1 }, line := line, t := [] }
       else .ok { st := s2, line := w.homeline, t := t2 }) := by
  have hs' : ({ s with loops := w :: rest } : St α) = s := by cases s; simp_all
  have he : isEos ([] : List (Tok α)) = true := rfl
  simp [execStmt, hs, popTo, hk, he, hc, hs', h]

/-- WEND without an open WHILE (empty stack or a GOSUB frame on top) is the error "WEND without WHILE" -/
theorem wend_without_while {α : Type} [BNum α] (hook : Hook α) (s : St α) (line : Option Nat) (t : List (Tok α))
    (h : s.loops = [] ∨ ∃ g rest, s.loops = g :: rest ∧ g.kind = .gosub) :
    execStmt hook s line (.k .wend) t = .error .wendWoWhile := by
  rcases h with h | ⟨g, rest, h, hg⟩
  · simp [execStmt, h, popTo]
  · simp [execStmt, h, popTo, hg]

/-! ## PUT / GET: a keyed store -/

theorem find_map_same {β : Type} (k : String) (v : β) :
    ∀ l : List (String × β), l.any (fun p => p.1 == k) = true →
      (l.map fun p => if (p.1 == k) = true then (k, v) else p).find? (fun p => p.1 == k) = some (k, v)
  | [], h => by simp at h
  | p :: ps, h => by
    cases hp : (p.1 == k) with
    | true => simp only [List.map_cons, hp, if_true, List.find?_cons, beq_self_eq_true]
    | false =>
      have h' : ps.any (fun p => p.1 == k) = true := by simpa [List.any_cons, hp] using h
      simp only [List.map_cons, hp, Bool.false_eq_true, if_false, List.find?_cons]
      exact find_map_same k v ps h'

theorem find_map_other {β : Type} (k k' : String) (v : β) (hkb : (k == k') = false) :
    ∀ l : List (String × β),
      (l.map fun p => if (p.1 == k) = true then (k, v) else p).find? (fun p => p.1 == k') = l.find? (fun p => p.1 == k')
  | [] => rfl
  | p :: ps => by
    cases hp : (p.1 == k) with
    | true =>
      have hpk : p.1 = k := by simpa using hp
      have hpk' : (p.1 == k') = false := by rw [hpk]; exact hkb
      simp only [List.map_cons, hp, if_true, List.find?_cons, hkb, hpk']
      exact find_map_other k k' v hkb ps
    | false =>
      simp only [List.map_cons, hp, Bool.false_eq_true, if_false, List.find?_cons]
      cases (p.1 == k') with
      | true => rfl
      | false => exact find_map_other k k' v hkb ps

theorem store_get_put_same {β : Type} (l : List (String × β)) (k : String) (v d : β) :
    lookupD (insertKV l k v) k d = v := by
  unfold insertKV lookupD
  cases h : l.any (fun p => p.1 == k) with
  | true => simp only [if_true, find_map_same k v l h]
  | false => simp [List.find?_cons]

theorem store_get_put_other {β : Type} (l : List (String × β)) (k k' : String) (v d : β) (hk : k' ≠ k) :
    lookupD (insertKV l k v) k' d = lookupD l k' d := by
  have hkb : (k == k') = false := by simpa using (Ne.symm hk)
  unfold insertKV lookupD
  cases h : l.any (fun p => p.1 == k) with
  | true => simp only [if_true, find_map_other k k' v hkb l]
  | false => simp [List.find?_cons, hkb]

/-- **GET reads the store.** `GET(i, j, …)` is the value stored under the key text of its rounded subscripts, `0` when
nothing was PUT there; evaluating it changes nothing but what its subscripts change -/
theorem get_reads_store {α : Type} [BNum α] (hook : Hook α) (a : Args α) (s : St α) :
    eval hook (.get a) s =
      (match evalInts hook a s with
       | .error e => .error e
       | .ok (is, s1) => .ok (.num (lookupD s1.putN (keyOf is) BNum.zero), s1)) := by
  rw [eval]; rfl

/-- **PUT writes the store.** `PUT(x, i, j, …)`: value `x`, key text `k` of the subscripts → the store maps `k` to
`x` and every other key as before (`store_get_put_same`, `store_get_put_other`) -/
theorem put_writes_store {α : Type} [BNum α] (hook : Hook α) (s s1 s2 : St α) (t t2 r : List (Tok α))
    (x : α) (key : String)
    (hv : realExprAt hook t s = .ok (x, t2, s1))
    (hk : putKeys hook (t2.length + 1) s1 t2 "" = .ok (key, s2, r)) :
    cmdPut hook false s ((.k .lp : Tok α) :: t) = .ok ({ s2 with putN := insertKV s2.putN key x }, r) := by
  simp [cmdPut, requireK, Tok.isK, hv, hk]

/-- the store is part of the one run every host observes (`hosts_agree`): what PUT stored, GET returns, whatever the
host — in particular the values read back and PUNCHed / SAVEd are the same -/
theorem put_then_get {α : Type} [BNum α] (s : St α) (key : String) (x : α) (d : α) :
    lookupD ({ s with putN := insertKV s.putN key x } : St α).putN key d = x ∧
    (∀ key', key' ≠ key → lookupD ({ s with putN := insertKV s.putN key x } : St α).putN key' d = lookupD s.putN key' d) :=
  ⟨store_get_put_same _ _ _ _, fun _ h => store_get_put_other _ _ _ _ _ h⟩


/-- **LET stores into the element its left-hand side designates.** `findvar` leaves the per-variable cell pointer on the
element referenced last; the right-hand side may reference other elements of the same array (moving that pointer) —
the value still goes to the cell the left-hand side designated, and the pointer is put back there (`cmdlet`'s
save/restore, numeric and string alike) -/
theorem let_stores_in_designated_cell {α : Type} [BNum α] (hook : Hook α) (s s1 s2 : St α) (name : String)
    (t t2 r : List (Tok α))
    (hv : varRefAt hook t s = .ok (name, (.k .eq : Tok α) :: t2, s1)) :
    (∀ x, isStrName name = false → realExprAt hook t2 s1 = .ok (x, r, s2) →
      cmdLet hook s t = .ok (s2.setVar name ({ s2.getVar name with ptr := (s1.getVar name).ptr }.setNum x), r)) ∧
    (∀ x, isStrName name = true → strExprAt hook t2 s1 = .ok (x, r, s2) →
      cmdLet hook s t = .ok (s2.setVar name ({ s2.getVar name with ptr := (s1.getVar name).ptr }.setStr x), r)) := by
  constructor
  · intro x hn he
    simp [cmdLet, hv, requireK, Tok.isK, hn, he]
  · intro x hn he
    simp [cmdLet, hv, requireK, Tok.isK, hn, he]

/-- the cell a store goes to is the designated one whatever the pointer was moved to meanwhile -/
theorem setNum_designated {α : Type} [BNum α] (v : Var α) (k : Nat) (x : α) (hk : k < v.arr.size) :
    (({ v with ptr := some k }.setNum x).arr[k]? = some x) ∧
    (∀ j, j ≠ k → ({ v with ptr := some k }.setNum x).arr[j]? = v.arr[j]?) := by
  constructor
  · simp [Var.setNum, Array.setIfInBounds, hk]
  · intro j hj
    simp [Var.setNum, Array.setIfInBounds, hk, Array.getElem?_set, Ne.symm hj]

/-- **The store outlives the program.** A program defined later in the same engine (a redefined USER_PUNCH, another
host's program) starts with fresh lines, variables, loop stack and DATA pointer but finds the PUT/PUT$ store exactly as
the earlier program left it -/
theorem store_survives_redefinition {α : Type} [BNum α] (s : St α) :
    (carryOver s).putN = s.putN ∧ (carryOver s).putS = s.putS ∧
    (carryOver s).vars = [] ∧ (carryOver s).loops = [] ∧ (carryOver s).lines = [] ∧ (carryOver s).dataline = none ∧
    ∀ key d, lookupD (carryOver s).putN key d = lookupD s.putN key d :=
  ⟨rfl, rfl, rfl, rfl, rfl, rfl, fun _ _ => rfl⟩

/-! ## several programs in one engine -/

/-- running one program is running it from the empty engine state -/
theorem compileAndRun_eq_from {α : Type} [BNum α] (hp : Bool) (fuel : Nat) (text : String) :
    compileAndRun (α := α) hp fuel text = compileAndRunFrom ({ hp := hp } : St α) fuel text := rfl

/-- **Program isolation.** What program B computes when it runs after program A in the same engine depends on A only
through what outlives a program (`carryOver`: the PUT/PUT$ store and the three output flags): A's lines, variables,
array dimensions, loop/GOSUB stack, DATA pointer, PUNCH/PRINT/SAVE values are invisible to B — even when both use
the same line numbers, jump targets and variable names -/
theorem program_isolation {α : Type} [BNum α] (sA sA' : St α) (fuel : Nat) (textB : String)
    (hN : sA.putN = sA'.putN) (hS : sA.putS = sA'.putS) (hp : sA.hp = sA'.hp)
    (h1 : sA.punchTab = sA'.punchTab) (h2 : sA.skipPunch = sA'.skipPunch) (h3 : sA.outNewline = sA'.outNewline) :
    compileAndRunFrom (carryOver sA) fuel textB = compileAndRunFrom (carryOver sA') fuel textB := by
  have : carryOver sA = carryOver sA' := by
    simp only [carryOver, hN, hS, hp, h1, h2, h3]
  rw [this]

/-- **B after A = B alone** when A left the store empty and the output flags at rest (the state every engine starts
from): the reference evaluation of B in a multi-program simulation is its evaluation alone -/
theorem run_after_equals_run_alone {α : Type} [BNum α] (sA : St α) (fuel : Nat) (textB : String)
    (hN : sA.putN = []) (hS : sA.putS = []) (h1 : sA.punchTab = true) (h2 : sA.skipPunch = false)
    (h3 : sA.outNewline = true) :
    compileAndRunFrom (carryOver sA) fuel textB = compileAndRun sA.hp fuel textB := by
  have : carryOver sA = ({ hp := sA.hp } : St α) := by
    simp only [carryOver, hN, hS, h1, h2, h3]
  rw [this]
  rfl

end PhreeqcVerif.C17
