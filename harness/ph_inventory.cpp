// Correspondence harness for C02 (conservation of elements and charge in reaction steps) on the real library.
// Line protocol (strings as hex, "-" = empty; doubles as 16 hex digits of the bit pattern):
//   db <hexpath>             new instance, LoadDatabase                           -> "rc <n>"
//   formula <hexformula>     count_elts = paren_count = 0; get_elts_in_species(&p, 1.0)
//                            -> "F <ok 0|1> <hex rest> name:coef ..."   (ok = returned OK and no error message)
//   gfw <hexformula>         compute_gfw                                           -> "G <ok> <gfw>"
//   dbformulas               every species / phase of the loaded database with the engine's element list
//                            -> "S <hexname> <type> name:coef ..." / "P <hexname> <hexformula> name:coef ..." / "E <name> <gfw>" ; "end"
//   run <hexinput>           RunString (dump string on)   -> "run <rc> <hex errors> <hex dump> <hex warnings>"
//                            (after a run that reported errors the later runs of the same instance are skipped: "run -1 - - -")
//   sel                      selected output, all rows of the current user number
//                            -> "sel <rows> <cols>", "h <hex heading> ...", "r <cell> ..." (cell = d<hexdouble> | s<hex> | e)
//   rxnstep <n> <inc> <step> <fraction>   xsolution_zero; incremental_reactions = inc; add_reaction(Rxn_reaction_map[n], step, fraction)
//                            -> "X <step_x> H:<total_h_x> O:<total_o_x> name:total ..."
//   kinstep <n> <inc> <step>   Rxn_kinetics_map[n].Current_step(inc, step)        -> "K <value>"
//   mbstate                  balance rows (MB, MH, MH2O, CB, PP, EXCH, SURFACE unknowns) of the last solved model
//   drive <inc> <nsteps> <kind> <n> ...   the loop of reactions() driven from here on the real parts (set_use, copy_use(-2),
//                            set_initial_moles, run_reactions, saver) with two observation points per step:
//                            "B 0 <hex raw>"  the -2 entities after copy_use (state before step 1)
//                            "A <step> <rc> H:<total_h_x> O:<total_o_x> Charge:<cb_x> elt:<master total> ... | pp name:moles ... | ss name:moles ... | kt elt:val ..."
//                                 = what step() leaves for the solver (own call of set_reaction + step(1.0), pp/ss restored afterwards)
//                            "B <step> <hex raw>"  dump_raw of the -2 entities after saver()
//                            "drive end" | "drive error <hex text>"       kinds: solution mix exchange surface gas_phase
//                            equilibrium_phases solid_solutions kinetics reaction
#ifndef CPPUNIT
#define CPPUNIT 1
#endif
#include "IPhreeqc.hpp"
#include "Phreeqc.h"
#include "Reaction.h"
#include "cxxKinetics.h"
#include "Solution.h"
#include "Exchange.h"
#include "Surface.h"
#include "GasPhase.h"
#include "PPassemblage.h"
#include "SSassemblage.h"
#include "SS.h"
#include "cxxMix.h"
#include "hx.hpp"
#include <map>
#include <memory>

class TestIPhreeqc {
public:
  static Phreeqc* engine(IPhreeqc* p) { return p->PhreeqcPtr; }

  static std::string eltlist(Phreeqc* e, int n) {
    std::ostringstream o;
    for (int i = 0; i < n; ++i) o << " " << hx::hex(e->elt_list[i].elt->name) << ":" << hx::hexd((double)e->elt_list[i].coef);
    return o.str();
  }
  static std::string nextelt(const std::vector<class elt_list>& el) {
    std::ostringstream o;
    for (size_t i = 0; i < el.size() && el[i].elt != NULL; ++i) o << " " << hx::hex(el[i].elt->name) << ":" << hx::hexd((double)el[i].coef);
    return o.str();
  }
  static void formula(IPhreeqc* ip, const std::string& f) {
    Phreeqc* e = ip->PhreeqcPtr;
    e->count_elts = 0; e->paren_count = 0;
    int err0 = e->input_error;
    ip->ClearAccumulatedLines();
    std::string buf(f);
    const char* p = buf.c_str();
    int rc = ERROR; bool thrown = false;
    size_t errlen0 = std::string(ip->GetErrorString()).size();
    try { rc = e->get_elts_in_species(&p, 1.0); } catch (...) { thrown = true; }
    size_t errlen1 = std::string(ip->GetErrorString()).size();
    bool ok = (rc == OK) && !thrown && e->input_error == err0 && errlen1 == errlen0;
    e->input_error = err0;
    std::string rest = thrown ? "" : std::string(p);
    std::cout << "F " << (ok ? 1 : 0) << " " << hx::hex(rest) << (ok ? eltlist(e, e->count_elts) : "") << "\n";
    e->count_elts = 0; e->paren_count = 0;
  }
  static void gfw(IPhreeqc* ip, const std::string& f) {
    Phreeqc* e = ip->PhreeqcPtr;
    int err0 = e->input_error;
    LDBLE g = 0; int rc = ERROR;
    try { rc = e->compute_gfw(f.c_str(), &g); } catch (...) { rc = ERROR; }
    bool ok = rc == OK && e->input_error == err0;
    e->input_error = err0;
    std::cout << "G " << (ok ? 1 : 0) << " " << hx::hexd((double)g) << "\n";
    e->count_elts = 0; e->paren_count = 0;
  }
  static void dbformulas(IPhreeqc* ip) {
    Phreeqc* e = ip->PhreeqcPtr;
    for (size_t i = 0; i < e->elements.size(); ++i)
      std::cout << "E " << hx::hex(e->elements[i]->name) << " " << hx::hexd((double)e->elements[i]->gfw) << "\n";
    for (size_t i = 0; i < e->s.size(); ++i)
      std::cout << "S " << hx::hex(e->s[i]->name) << " " << e->s[i]->type << nextelt(e->s[i]->next_elt) << "\n";
    for (size_t i = 0; i < e->phases.size(); ++i)
      std::cout << "P " << hx::hex(e->phases[i]->name) << " " << hx::hex(e->phases[i]->formula ? e->phases[i]->formula : "")
                << nextelt(e->phases[i]->next_elt) << "\n";
    std::cout << "end\n";
  }
  static void rxnstep(IPhreeqc* ip, int n, int inc, int step, double fraction) {
    Phreeqc* e = ip->PhreeqcPtr;
    std::map<int, cxxReaction>::iterator it = e->Rxn_reaction_map.find(n);
    if (it == e->Rxn_reaction_map.end()) { std::cout << "X none\n"; return; }
    cxxReaction r(it->second);
    int save_inc = e->incremental_reactions;
    e->xsolution_zero();
    e->step_x = 0.0;
    e->incremental_reactions = inc;
    int err0 = e->input_error;
    try { e->add_reaction(&r, step, fraction); } catch (...) { std::cout << "X thrown\n"; e->incremental_reactions = save_inc; return; }
    std::cout << "X " << hx::hexd((double)e->step_x) << " " << hx::hex("H") << ":" << hx::hexd((double)e->total_h_x)
              << " " << hx::hex("O") << ":" << hx::hexd((double)e->total_o_x);
    for (size_t i = 0; i < e->master.size(); ++i)
      if (e->master[i]->total != 0.0) std::cout << " " << hx::hex(e->master[i]->elt->name) << ":" << hx::hexd((double)e->master[i]->total);
    std::cout << "\n";
    e->incremental_reactions = save_inc;
    e->input_error = err0;
    e->xsolution_zero();
    e->count_elts = 0; e->paren_count = 0;
  }
  template <class T> static void dump1(std::ostringstream& o, std::map<int, T>& m, int n) {
    typename std::map<int, T>::iterator it = m.find(n);
    if (it != m.end()) { int key = n; it->second.dump_raw(o, 0, &key); }
  }
  static std::string raw2(Phreeqc* e) {
    std::ostringstream o;
    dump1(o, e->Rxn_solution_map, -2); dump1(o, e->Rxn_exchange_map, -2); dump1(o, e->Rxn_surface_map, -2);
    dump1(o, e->Rxn_gas_phase_map, -2); dump1(o, e->Rxn_pp_assemblage_map, -2); dump1(o, e->Rxn_ss_assemblage_map, -2);
    dump1(o, e->Rxn_kinetics_map, -2); dump1(o, e->Rxn_reaction_map, -2); dump1(o, e->Rxn_mix_map, -2);
    return o.str();
  }
  static void obsA(Phreeqc* e, int step, int use_mix) {
    // what step() hands to the solver, observed by an own call on the -2 entities; pure phases / solid solutions restored
    bool has_pp = e->Rxn_pp_assemblage_map.find(-2) != e->Rxn_pp_assemblage_map.end() && e->use.Get_pp_assemblage_in();
    bool has_ss = e->Rxn_ss_assemblage_map.find(-2) != e->Rxn_ss_assemblage_map.end() && e->use.Get_ss_assemblage_in();
    cxxPPassemblage pp_save; cxxSSassemblage ss_save;
    if (has_pp) pp_save = e->Rxn_pp_assemblage_map[-2];
    if (has_ss) ss_save = e->Rxn_ss_assemblage_map[-2];
    // everything else the own step() call could touch is put back as well (entities -2 and the scratch entities -1)
    std::map<int, cxxSolution> sol_save = e->Rxn_solution_map;
    std::map<int, cxxExchange> exch_save = e->Rxn_exchange_map;
    std::map<int, cxxSurface> surf_save = e->Rxn_surface_map;
    std::map<int, cxxGasPhase> gas_save = e->Rxn_gas_phase_map;
    std::map<int, cxxKinetics> kin_save = e->Rxn_kinetics_map;
    LDBLE patm_save = e->patm_x, tc_save = e->tc_x;
    e->set_reaction(-2, use_mix, e->use.Get_kinetics_in() ? TRUE : FALSE);
    int rc = e->step(1.0);
    std::cout << "A " << step << " " << rc << " " << hx::hex("H") << ":" << hx::hexd((double)e->total_h_x) << " " << hx::hex("O") << ":"
              << hx::hexd((double)e->total_o_x) << " " << hx::hex("Charge") << ":" << hx::hexd((double)e->cb_x);
    for (size_t i = 0; i < e->master.size(); ++i) {
      if (e->master[i]->total == 0.0) continue;
      if (e->master[i]->s == e->s_hplus || e->master[i]->s == e->s_h2o) continue;
      if (e->master[i]->elt->primary != e->master[i]) continue;
      std::cout << " " << hx::hex(e->master[i]->elt->name) << ":" << hx::hexd((double)e->master[i]->total);
    }
    std::cout << " | pp";
    if (has_pp && e->use.Get_pp_assemblage_ptr()) {
      std::map<std::string, cxxPPassemblageComp>& c = e->use.Get_pp_assemblage_ptr()->Get_pp_assemblage_comps();
      for (std::map<std::string, cxxPPassemblageComp>::iterator it = c.begin(); it != c.end(); ++it)
        std::cout << " " << hx::hex(it->first) << ":" << hx::hexd((double)it->second.Get_moles());
    }
    std::cout << " | ss";
    if (has_ss && e->use.Get_ss_assemblage_ptr()) {
      std::vector<cxxSS*> v = e->use.Get_ss_assemblage_ptr()->Vectorize();
      for (size_t i = 0; i < v.size(); ++i)
        for (size_t j = 0; j < v[i]->Get_ss_comps().size(); ++j)
          std::cout << " " << hx::hex(v[i]->Get_ss_comps()[j].Get_name()) << ":" << hx::hexd((double)v[i]->Get_ss_comps()[j].Get_moles());
    }
    std::cout << " | kt";
    if (e->use.Get_kinetics_ptr()) {
      cxxNameDouble& t = e->use.Get_kinetics_ptr()->Get_totals();
      for (cxxNameDouble::iterator it = t.begin(); it != t.end(); ++it) std::cout << " " << hx::hex(it->first) << ":" << hx::hexd((double)it->second);
    }
    std::cout << "\n";
    if (has_pp) e->Rxn_pp_assemblage_map[-2] = pp_save;
    if (has_ss) e->Rxn_ss_assemblage_map[-2] = ss_save;
    e->Rxn_solution_map = sol_save; e->Rxn_exchange_map = exch_save; e->Rxn_surface_map = surf_save;
    e->Rxn_gas_phase_map = gas_save; e->Rxn_kinetics_map = kin_save;
    e->patm_x = patm_save; e->tc_x = tc_save;
    e->set_reaction(-2, use_mix, e->use.Get_kinetics_in() ? TRUE : FALSE);      // pointers into the restored maps
  }
  static void drive(IPhreeqc* ip, const std::vector<std::string>& w) {
    Phreeqc* e = ip->PhreeqcPtr;
    int inc = atoi(w[1].c_str()), nsteps = atoi(w[2].c_str());
    try {
      e->use.init();
      for (size_t k = 3; k + 1 < w.size(); k += 2) {
        int n = atoi(w[k + 1].c_str());
        const std::string& kind = w[k];
        if (kind == "solution") { e->use.Set_solution_in(true); e->use.Set_n_solution_user(n); }
        else if (kind == "mix") { e->use.Set_mix_in(true); e->use.Set_n_mix_user(n); }
        else if (kind == "exchange") { e->use.Set_exchange_in(true); e->use.Set_n_exchange_user(n); }
        else if (kind == "surface") { e->use.Set_surface_in(true); e->use.Set_n_surface_user(n); }
        else if (kind == "gas_phase") { e->use.Set_gas_phase_in(true); e->use.Set_n_gas_phase_user(n); }
        else if (kind == "equilibrium_phases") { e->use.Set_pp_assemblage_in(true); e->use.Set_n_pp_assemblage_user(n); }
        else if (kind == "solid_solutions") { e->use.Set_ss_assemblage_in(true); e->use.Set_n_ss_assemblage_user(n); }
        else if (kind == "kinetics") { e->use.Set_kinetics_in(true); e->use.Set_n_kinetics_user(n); }
        else if (kind == "reaction") { e->use.Set_reaction_in(true); e->use.Set_n_reaction_user(n); }
      }
      e->state = REACTION;
      e->incremental_reactions = inc;
      int err0 = e->get_input_errors();
      size_t errlen0 = std::string(ip->GetErrorString()).size();
      if (e->set_use() == FALSE) { std::cout << "drive nouse\n"; return; }
      if (nsteps <= 0) {                        // count_steps as reactions() computes it
        nsteps = 1;
        if (e->use.Get_reaction_in() && e->use.Get_reaction_ptr() && e->use.Get_reaction_ptr()->Get_reaction_steps() > nsteps)
          nsteps = e->use.Get_reaction_ptr()->Get_reaction_steps();
        if (e->use.Get_kinetics_in() && e->use.Get_kinetics_ptr() && e->use.Get_kinetics_ptr()->Get_reaction_steps() > nsteps)
          nsteps = e->use.Get_kinetics_ptr()->Get_reaction_steps();
      }
      e->count_total_steps = nsteps;
      e->copy_use(-2);
      e->rate_sim_time_start = 0; e->rate_sim_time = 0;
      std::cout << "B 0 " << hx::hex(raw2(e)) << "\n";
      for (e->reaction_step = 1; e->reaction_step <= nsteps; e->reaction_step++) {
        e->overall_iterations = 0;
        if (e->reaction_step > 1 && inc == FALSE) e->copy_use(-2);
        e->set_initial_moles(-2);
        LDBLE kin_time = 0.0;
        if (e->use.Get_kinetics_in()) {
          cxxKinetics* k = Utilities::Rxn_find(e->Rxn_kinetics_map, -2);
          kin_time = k->Current_step(inc != 0, e->reaction_step);
        }
        int use_mix = (inc == FALSE || e->reaction_step == 1) ? TRUE : FALSE;
        obsA(e, e->reaction_step, use_mix);
        e->run_reactions(-2, kin_time, use_mix, 1.0);
        if (inc) { e->rate_sim_time_start += kin_time; e->rate_sim_time = e->rate_sim_time_start; } else e->rate_sim_time = kin_time;
        e->saver();
        if (e->get_input_errors() != err0 || std::string(ip->GetErrorString()).size() != errlen0) { std::cout << "drive error " << hx::hex(ip->GetErrorString()) << "\n"; return; }
        std::cout << "B " << e->reaction_step << " " << hx::hex(raw2(e)) << "\n";
      }
      std::cout << "drive end " << hx::hex(ip->GetWarningString()) << "\n";
    } catch (...) {
      std::cout << "drive error " << hx::hex(ip->GetErrorString()) << "\n";
    }
  }
  static void mbstate(IPhreeqc* ip) {
    // balance rows of the last solved model: "M <hex description> <type> <moles = target> <f = sum over species> <delta>"
    Phreeqc* e = ip->PhreeqcPtr;
    for (size_t i = 0; i < e->count_unknowns; ++i) {
      class unknown* u = e->x[i];
      if (u->type == MB || u->type == MH || u->type == MH2O || u->type == CB || u->type == PP || u->type == EXCH || u->type == SURFACE)
        std::cout << "M " << hx::hex(u->description ? u->description : "") << " " << u->type << " " << hx::hexd((double)u->moles) << " "
                  << hx::hexd((double)u->f) << " " << hx::hexd((double)u->delta) << "\n";
    }
    std::cout << "M end\n";
  }
  static void kinstep(IPhreeqc* ip, int n, int inc, int step) {
    Phreeqc* e = ip->PhreeqcPtr;
    std::map<int, cxxKinetics>::iterator it = e->Rxn_kinetics_map.find(n);
    if (it == e->Rxn_kinetics_map.end()) { std::cout << "K none\n"; return; }
    std::cout << "K " << hx::hexd((double)it->second.Current_step(inc != 0, step)) << "\n";
  }
};

int main() {
  std::unique_ptr<IPhreeqc> ip;
  bool failed = false;
  std::string line;
  while (std::getline(std::cin, line)) {
    std::vector<std::string> w = hx::words(line);
    if (w.empty()) continue;
    const std::string& op = w[0];
    if (op == "db") {
      ip.reset(new IPhreeqc());
      failed = false;
      int rc = ip->LoadDatabase(hx::unhex(w[1]).c_str());
      ip->SetDumpStringOn(true);
      ip->SetOutputStringOn(false);
      ip->SetErrorStringOn(true);
      std::cout << "rc " << rc << "\n";
    } else if (!ip) {
      std::cout << "noinstance\n";
    } else if (op == "formula") {
      TestIPhreeqc::formula(ip.get(), hx::unhex(w[1]));
    } else if (op == "gfw") {
      TestIPhreeqc::gfw(ip.get(), hx::unhex(w[1]));
    } else if (op == "dbformulas") {
      TestIPhreeqc::dbformulas(ip.get());
    } else if (op == "run" && failed) {
      std::cout << "run -1 - - -\n";
    } else if (op == "run") {
      int rc = -1;
      try { rc = ip->RunString(hx::unhex(w[1]).c_str()); } catch (...) { rc = -99; }
      std::string err = ip->GetErrorString();
      std::string dump = ip->GetDumpString();
      std::string warn = ip->GetWarningString();
      if (rc != 0) failed = true;
      std::cout << "run " << rc << " " << hx::hex(err) << " " << hx::hex(dump) << " " << hx::hex(warn) << "\n";
    } else if (op == "sel") {
      int rows = ip->GetSelectedOutputRowCount(), cols = ip->GetSelectedOutputColumnCount();
      std::cout << "sel " << rows << " " << cols << "\n";
      for (int r = 0; r < rows; ++r) {
        std::cout << (r == 0 ? "h" : "r");
        for (int c = 0; c < cols; ++c) {
          VAR v; VarInit(&v);
          ip->GetSelectedOutputValue(r, c, &v);
          if (v.type == TT_DOUBLE) std::cout << " d" << hx::hexd(v.dVal);
          else if (v.type == TT_LONG) std::cout << " d" << hx::hexd((double)v.lVal);
          else if (v.type == TT_STRING) std::cout << " s" << hx::hex(v.sVal ? v.sVal : "");
          else std::cout << " e";
          VarClear(&v);
        }
        std::cout << "\n";
      }
    } else if (op == "drive") {
      if (failed) std::cout << "drive skipped\n"; else TestIPhreeqc::drive(ip.get(), w);
    } else if (op == "mbstate") {
      TestIPhreeqc::mbstate(ip.get());
    } else if (op == "rxnstep") {
      TestIPhreeqc::rxnstep(ip.get(), atoi(w[1].c_str()), atoi(w[2].c_str()), atoi(w[3].c_str()), hx::unhexd(w[4]));
    } else if (op == "kinstep") {
      TestIPhreeqc::kinstep(ip.get(), atoi(w[1].c_str()), atoi(w[2].c_str()), atoi(w[3].c_str()));
    } else {
      std::cout << "unknown " << op << "\n";
    }
    std::cout.flush();
  }
  return 0;
}
