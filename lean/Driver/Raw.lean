import PhreeqcVerif.Model.Util
import PhreeqcVerif.Model.RawTables
import PhreeqcVerif.Gen.RawTables
/-! `pmodel raw`: the RAW table model on a list of queries (one answer line per query).
  find <table> <hexitem> <0|1>   → `I <index|-1>`            find_option(item, vopts, exact)
  line <table> <hextoken>        → `I <index|-1>`            what get_option selects for the first token of a line
  route <table> <hexkey>         → `R <kind> <sinks,|-> <continues01>`   case a written key is dispatched to
  keys <table>                   → `K key:status …`  status ∈ restored | dropped | cross | unknown | const
  failing                        → `F table:obligation,… …`
  tables                         → `T name …`
  merge <this> <source>          → `M hexname:value,…`   cxxNameDouble::merge_redox; maps as `hexname:value,…` (`-` = empty), result in key order
-/
namespace Driver.Raw
open PhreeqcVerif PhreeqcVerif.Util PhreeqcVerif.Raw PhreeqcVerif.Gen.Raw

def showIdx : Option Nat → String
  | some i => s!"I {i}"
  | none => "I -1"

def kindStr : CKind → String
  | .value => "value" | .namedouble => "namedouble" | .nested => "nested" | .ignore => "ignore" | .error => "error"

def statusOf (t : ClassTab) (k : WKey) : String :=
  if isConst k then "const" else
  match resolve t k with
  | none => "unknown"
  | some c =>
    if c.kind == .error then "unknown"
    else if !subset c.sinks k.members then "cross"
    else if subset k.members c.sinks then "restored" else "dropped"

def parseND (s : String) : Option (NameDouble String) :=
  if s == "-" then some [] else
  (s.splitOn ",").mapM fun item =>
    match item.splitOn ":" with
    | [k, v] => (unhexStr k).map fun k' => (k', v)
    | _ => none

def showND (m : NameDouble String) : String :=
  let sorted := m.toArray.qsort (fun a b => a.1 < b.1) |>.toList
  if sorted.isEmpty then "M -" else "M " ++ ",".intercalate (sorted.map fun e => s!"{hexStr e.1}:{e.2}")

def answer (line : String) : String :=
  match words line with
  | ["find", tn, hk, ex] =>
    match lookupTab allTables tn, unhexStr hk with
    | some t, some k => showIdx (if ex == "1" then findOptionExact k t.vopts else findOption k t.vopts)
    | _, _ => "bad-op"
  | ["line", tn, hk] =>
    match lookupTab allTables tn, unhexStr hk with
    | some t, some k => showIdx (lineOption k t.vopts)
    | _, _ => "bad-op"
  | ["route", tn, hk] =>
    match lookupTab allTables tn, unhexStr hk with
    | some t, some k =>
      match (findOption k t.vopts).bind (caseOf t) with
      | some c => s!"R {kindStr c.kind} {if c.sinks.isEmpty then "-" else ",".intercalate c.sinks} {if c.continues then 1 else 0}"
      | none => "R none - 0"
    | _, _ => "bad-op"
  | ["keys", tn] =>
    match lookupTab allTables tn with
    | some t => "K " ++ " ".intercalate (t.written.map fun k => s!"{if k.key.isEmpty then "_" else k.key}:{statusOf t k}")
    | none => "bad-op"
  | ["failing"] =>
    "F " ++ " ".intercalate ((allTables.filter fun t => !(failing allTables t).isEmpty).map fun t =>
      s!"{t.name}:{",".intercalate (failing allTables t)}")
  | ["merge", a, b] =>
    match parseND a, parseND b with
    | some m, some src => showND (mergeRedox m src)
    | _, _ => "bad-op"
  | ["tables"] => "T " ++ " ".intercalate (allTables.map (·.name))
  | _ => "bad-op"

def run : IO Unit := do
  let stdin ← IO.getStdin
  let lines ← readLines stdin
  for l in lines do
    if l.trimAscii.toString.isEmpty then continue
    IO.println (answer l)

end Driver.Raw
