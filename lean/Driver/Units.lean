import PhreeqcVerif.Model.Util
import PhreeqcVerif.Model.Units
import PhreeqcVerif.Model.MixAlg
/-! `pmodel units`: line-protocol driver of the unit-conversion and mixing models (exact `Rat` arithmetic; doubles in,
nearest doubles out).

```
conv <hex solution units> <density> <water> <sum0> <density_iterations> <kgw_kgs>    start a convert_units case
elt <hex element> <gfw>                                                              element weight
comp <hex name> <conc> <hex own unit | -> <alk 0|1> <gfw> <hex as> <elts e:coef,… | -> <master gfw | -> <minor 0|1>
go                      → R <errors> <massWater>, T <hex name> <moles> …, G <hex name> <gfw after the pass> …, E
sol <n> tc ph pe mu ah2o density patm totalH totalO cb water alk <hex name>:<val> …   start/extend a mixing case
prim <hex name> <hex primary | ->
line <n> <fraction>     one data line of the MIX block (input order)
gomix                   → MIX n:f …, AM …, CM …, MU …, E
```
numbers are 16 hex digits of the double. -/
namespace Driver.Units
open PhreeqcVerif PhreeqcVerif.Util PhreeqcVerif.Units PhreeqcVerif.MixAlg

/-- exact value of a finite double -/
def ratOfBits (b : UInt64) : Rat :=
  let s := b >>> 63
  let e := ((b >>> 52) &&& 0x7ff).toNat
  let m := (b &&& 0xFFFFFFFFFFFFF).toNat
  let mag : Rat :=
    if e == 0x7ff then 0
    else if e == 0 then (m : Rat) / ((2 : Rat) ^ 1074)
    else if e ≥ 1075 then ((2 ^ 52 + m : Nat) : Rat) * ((2 : Rat) ^ (e - 1075))
    else ((2 ^ 52 + m : Nat) : Rat) / ((2 : Rat) ^ (1075 - e))
  if s == 1 then -mag else mag

/-- a double within one unit in the last place of `q` -/
def floatOfRat' (q : Rat) : Float :=
  if q == 0 then 0.0 else
  let n := q.num.natAbs
  let d := q.den
  let k : Int := 64 + (Nat.log2 d : Int) - (Nat.log2 n : Int)
  let t : Nat := if k ≥ 0 then (n <<< k.toNat) / d else n / (d <<< (-k).toNat)
  let f := (Float.ofNat t).scaleB (-k)
  if q.num < 0 then -f else f

def num? (s : String) : Option Rat := (unhex64 s).map ratOfBits
def outNum (q : Rat) : String := hexOfFloat (floatOfRat' q)

structure TextCase where
  unitsTok : String := ""
  density : Rat := 1
  water : Rat := 1
  sum0 : Rat := 0
  pass2 : Option (Rat × Nat × Rat) := none      -- density, density_iterations, kgw_kgs of a later call in the density loop
  elts : List (String × Rat) := []
  masters : List (String × String) := []        -- name ↦ number text or formula
  minors : List String := []
  lines : List (List Char) := []
  auto : Bool := false                          -- solution-level options are read from the text as well (Sol.readBlock / readRow)
  bopts : List (List Char) := []                -- block-level option lines of a SOLUTION_SPREAD
  cells : List (List Char × List Char × List Char) := []
  isRow : Bool := false

structure ConvCase where
  solUnit : Units.Unit := Units.Unit.molPerKgw
  density : Rat := 1
  water : Rat := 1
  sum0 : Rat := 0
  iter : Nat := 0
  kgwKgs : Rat := 1
  elts : List (String × Rat) := []
  comps : List Comp := []

structure MixCase where
  sols : List (Int × Sol) := []
  prims : List (String × Option String) := []
  lines : List (Int × Rat) := []

structure State where
  txt : TextCase := {}
  conv : ConvCase := {}
  mix : MixCase := {}

def parseElts (s : String) : Option (List (String × Rat)) :=
  if s == "-" then some [] else
  (s.splitOn ",").mapM fun it =>
    match it.splitOn ":" with
    | [e, c] => do let e ← unhexStr e; let c ← num? c; pure (e, c)
    | _ => none

def parseTotals (ws : List String) : Option Totals :=
  ws.foldlM (fun (m : Totals) it =>
    match it.splitOn ":" with
    | [k, v] => do let k ← unhexStr k; let v ← num? v; pure (m.insert k v)
    | _ => none) ∅

def showTotals (t : Totals) : String :=
  String.intercalate " " (t.toList.map fun kv => s!"{hexStr kv.1}:{outNum kv.2}")

def showSol (tag : String) (n : Int) (s : Sol) : String :=
  s!"{tag} {n} {outNum s.tc} {outNum s.ph} {outNum s.pe} {outNum s.mu} {outNum s.ah2o} {outNum s.density} " ++
  s!"{outNum s.totalH} {outNum s.totalO} {outNum s.cb} {outNum s.water} {outNum s.patm} {outNum s.alk} {showTotals s.totals}"

def step (st : State) (line : String) : State × List String :=
  match words line with
  | ["conv", u, dens, water, sum0, iter, kk] =>
    match (unhexStr u).bind Units.Unit.ofCanon, num? dens, num? water, num? sum0, iter.toNat?, num? kk with
    | some u, some d, some w, some s0, some it, some k =>
      ({ st with conv := { solUnit := u, density := d, water := w, sum0 := s0, iter := it, kgwKgs := k } }, [])
    | _, _, _, _, _, _ => (st, ["bad-conv"])
  | ["elt", e, g] =>
    match unhexStr e, num? g with
    | some e, some g => ({ st with conv := { st.conv with elts := st.conv.elts ++ [(e, g)] } }, [])
    | _, _ => (st, ["bad-elt"])
  | ["comp", name, conc, own, alk, gfw, asn, elts, mg, minor] =>
    let mgv : Option (Option Rat) := if mg == "-" then some none else (num? mg).map some
    let ownU : Option (Option Units.Unit) :=
      if own == "-" then some none else ((unhexStr own).bind Units.Unit.ofCanon).map some
    match unhexStr name, num? conc, ownU.bind (fixupUnit st.conv.solUnit · (alk == "1")), num? gfw, unhexStr asn, parseElts elts, mgv with
    | some name, some conc, some unit, some gfw, some asn, some elts, some mgv =>
      let c : Comp := { name := name, conc := conc, unit := unit, gfw := gfw, asName := asn, asElts := elts,
                        masterGfw := mgv, minor := minor == "1" }
      ({ st with conv := { st.conv with comps := st.conv.comps ++ [c] } }, [])
    | _, _, _, _, _, _, _ => (st, ["bad-comp"])
  | ["cu", parser, tok, alk, compat, dflt] =>
    match unhexStr tok, unhexStr dflt with
    | some tok, some dflt =>
      match Txt.checkUnits (parser == "1") tok.toList (alk == "1") (compat == "1") dflt.toList with
      | some r => (st, [s!"CU {hexStr (String.ofList r)}"])
      | none => (st, ["CU ERR"])
    | _, _ => (st, ["bad-cu"])
  | ["tables"] =>
    (st, Txt.replacements.map (fun p => s!"REPL {hexStr p.1} {hexStr p.2}") ++
         Txt.unitTable.map (fun u => s!"UNIT {hexStr u}") ++
         documentedSpellings.map (fun p => s!"SPELL {hexStr p.1} {hexStr p.2.str}") ++ ["E"])
  | ["gfwf", f] =>
    -- gfw of a formula from the element weights given so far (`elt` lines of the text case)
    match unhexStr f with
    | some f =>
      let elt : String → Option Rat := fun e => (st.txt.elts.find? (·.1 == e)).map (·.2)
      match gfwOfFormula elt f with
      | some g => (st, [s!"GFW {outNum g}"])
      | none => (st, ["GFW ERR"])
    | none => (st, ["bad-gfwf"])
  | ["text", u, dens, water, sum0] =>
    match unhexStr u, num? dens, num? water, num? sum0 with
    | some u, some d, some w, some s0 => ({ st with txt := { unitsTok := u, density := d, water := w, sum0 := s0 } }, [])
    | _, _, _, _ => (st, ["bad-text"])
  | ["text2", kind] => ({ st with txt := { auto := true, isRow := kind == "row" } }, [])
  | ["bopt", l] =>
    match unhexStr l with
    | some l => ({ st with txt := { st.txt with bopts := st.txt.bopts ++ [l.toList] } }, [])
    | none => (st, ["bad-bopt"])
  | ["pass2", dens, iter, kk] =>
    match num? dens, iter.toNat?, num? kk with
    | some d, some it, some k => ({ st with txt := { st.txt with pass2 := some (d, it, k) } }, [])
    | _, _, _ => (st, ["bad-pass2"])
  | ["telt", e, g] =>
    match unhexStr e, num? g with
    | some e, some g => ({ st with txt := { st.txt with elts := st.txt.elts ++ [(e, g)] } }, [])
    | _, _ => (st, ["bad-telt"])
  | ["master", n, v] =>
    match unhexStr n, unhexStr v with
    | some n, some v => ({ st with txt := { st.txt with masters := st.txt.masters ++ [(n, v)] } }, [])
    | _, _ => (st, ["bad-master"])
  | ["minor", n] =>
    match unhexStr n with
    | some n => ({ st with txt := { st.txt with minors := n :: st.txt.minors } }, [])
    | none => (st, ["bad-minor"])
  | ["tline", l] =>
    match unhexStr l with
    | some l => ({ st with txt := { st.txt with lines := st.txt.lines ++ [l.toList] } }, [])
    | none => (st, ["bad-tline"])
  | ["cell", h, d, u] =>
    match unhexStr h, unhexStr d, unhexStr u with
    | some h, some d, some u =>
      ({ st with txt := { st.txt with lines := st.txt.lines ++ [Txt.spreadCell h.toList d.toList u.toList],
                                      cells := st.txt.cells ++ [(h.toList, d.toList, u.toList)] } }, [])
    | _, _, _ => (st, ["bad-cell"])
  | ["gotext"] =>
    let c := st.txt
    let elt : String → Option Rat := fun e => (c.elts.find? (·.1 == e)).map (·.2)
    -- master gfw: a number, or a formula weighed with the element table (tidy_species: compute_gfw(gfw_formula))
    let master : String → Option Rat := fun n =>
      match c.masters.find? (·.1 == n) with
      | none => none
      | some (_, v) => match Txt.scanNum v.toList with
        | some x => if Txt.isDigitTok v.toList then some x else gfwOfFormula elt v
        | none => gfwOfFormula elt v
    if c.auto then
      -- everything from the text: settings (units, water, density, pH …) and constituents
      match (if c.isRow then Sol.readRow c.bopts c.cells else Sol.readBlock c.lines) with
      | none => ({ st with txt := {} }, ["bad-solution", "E"])
      | some rd =>
        match Sol.compsOf master (fun n => c.minors.contains n) rd with
        | none => ({ st with txt := {} }, ["bad-line", "E"])
        | some cl =>
          let se := rd.set
          let comps := (readComps cl).toList.map (·.2)
          let gh := (elt "H").getD 0
          let goh := gh + (elt "O").getD 0
          let LOG10 : Float := Float.log 10.0
          let phf := floatOfRat' se.ph
          -- exp(-pH·ln10)·gfw(H) + exp((pH-14)·ln10)·gfw(OH), in doubles as the code does
          let s0f : Float := Float.exp (-phf * LOG10) * floatOfRat' gh + Float.exp ((-14.0 + phf) * LOG10) * floatOfRat' goh
          let p : Params := { solUnit := se.units, density := se.density, water := se.water, sum0 := ratOfBits s0f.toBits, elt := elt }
          let r := convertUnits p ∅ comps
          let after := comps.map (·.afterPass se.units.den se.density elt)
          let out1 := [s!"S {hexStr se.units.str} {outNum se.water} {outNum se.density} {outNum se.ph} {outNum se.temp} {outNum se.pe} {if se.calcDens then 1 else 0}",
                       s!"R {r.err} {outNum r.massWater} {hexStr se.units.str}"] ++
            after.map (fun cc => s!"C {hexStr cc.name} {outNum cc.conc} {hexStr cc.unit.str} {hexStr cc.asName} {outNum cc.gfw}") ++
            r.totals.toList.map (fun kv => s!"T {hexStr kv.1} {outNum kv.2}")
          let out2 := match c.pass2 with
            | none => []
            | some (d2, it, kk) =>
              let p2 : Params := { p with density := d2, densityIter := it, kgwKgs := kk }
              (convertUnits p2 r.totals after).totals.toList.map (fun kv => s!"U {hexStr kv.1} {outNum kv.2}")
          ({ st with txt := {} }, out1 ++ out2 ++ ["E"])
    else
    -- `-units` of the block: check_units(token, false, false, "mMol/kgw", false); default mMol/kgw when absent
    let dflt : Option Units.Unit :=
      if c.unitsTok.isEmpty then some ⟨.milli, .mol, .perKgw⟩
      else (Txt.checkUnits false c.unitsTok.toList false false []).bind Units.Unit.ofChars
    match dflt with
    | none => ({ st with txt := {} }, ["bad-units", "E"])
    | some du =>
      let parsed := c.lines.map fun l => (Txt.readCompLine l).bind (compOfText master (fun n => c.minors.contains n) du)
      if parsed.any (·.isNone) then ({ st with txt := {} }, ["bad-line", "E"]) else
      let comps := (readComps (parsed.filterMap id)).toList.map (·.2)
      let p : Params := { solUnit := du, density := c.density, water := c.water, sum0 := c.sum0, elt := elt }
      let r := convertUnits p ∅ comps
      let after := comps.map (·.afterPass du.den c.density elt)
      let out1 := [s!"R {r.err} {outNum r.massWater} {hexStr du.str}"] ++
        after.map (fun cc => s!"C {hexStr cc.name} {outNum cc.conc} {hexStr cc.unit.str} {hexStr cc.asName} {outNum cc.gfw}") ++
        r.totals.toList.map (fun kv => s!"T {hexStr kv.1} {outNum kv.2}")
      let out2 := match c.pass2 with
        | none => []
        | some (d2, it, kk) =>
          let p2 : Params := { p with density := d2, densityIter := it, kgwKgs := kk }
          (convertUnits p2 r.totals after).totals.toList.map (fun kv => s!"U {hexStr kv.1} {outNum kv.2}")
      ({ st with txt := {} }, out1 ++ out2 ++ ["E"])
  | ["go"] =>
    let c := st.conv
    let elt : String → Option Rat := fun e => (c.elts.find? (·.1 == e)).map (·.2)
    let p : Params := { solUnit := c.solUnit, density := c.density, water := c.water, sum0 := c.sum0,
                        densityIter := c.iter, kgwKgs := c.kgwKgs, elt := elt }
    -- the code iterates the keyed map: last definition of a name wins, key order
    let comps := (readComps c.comps).toList.map (·.2)
    let r := convertUnits p ∅ comps
    let out := [s!"R {r.err} {outNum r.massWater}"] ++
      r.totals.toList.map (fun kv => s!"T {hexStr kv.1} {outNum kv.2}") ++
      comps.map (fun cc => s!"G {hexStr cc.name} {outNum (cc.afterPass p.solUnit.den p.density elt).gfw}") ++ ["E"]
    ({ st with conv := {} }, out)
  | "sol" :: n :: tc :: ph :: pe :: mu :: ah :: de :: pa :: th :: to :: cb :: wa :: al :: tot =>
    match n.toInt?, [tc, ph, pe, mu, ah, de, pa, th, to, cb, wa, al].mapM num?, parseTotals tot with
    | some n, some [tc, ph, pe, mu, ah, de, pa, th, to, cb, wa, al], some t =>
      let s : Sol := ⟨tc, ph, pe, mu, ah, de, pa, th, to, cb, wa, al, t⟩
      ({ st with mix := { st.mix with sols := st.mix.sols ++ [(n, s)] } }, [])
    | _, _, _ => (st, ["bad-sol"])
  | ["prim", k, p] =>
    match unhexStr k, (if p == "-" then some none else (unhexStr p).map some) with
    | some k, some p => ({ st with mix := { st.mix with prims := st.mix.prims ++ [(k, p)] } }, [])
    | _, _ => (st, ["bad-prim"])
  | ["line", n, f] =>
    match n.toInt?, num? f with
    | some n, some f => ({ st with mix := { st.mix with lines := st.mix.lines ++ [(n, f)] } }, [])
    | _, _ => (st, ["bad-line"])
  | ["gomix"] =>
    let m := st.mix
    let store : Int → Option Sol := fun n => (m.sols.find? (·.1 == n)).map (·.2)
    let prim : String → Option String := fun k => match m.prims.find? (·.1 == k) with | some (_, p) => p | none => none
    let comps := (readMix m.lines).toList
    let a := addMix prim store comps Acc.zero
    let cm := mixSolutions store comps
    let l1 := "MIX " ++ String.intercalate " " (comps.map fun nf => s!"{nf.1}:{outNum nf.2}")
    let l2 := s!"AM {outNum a.tc} {outNum a.ph} {outNum a.pe} {outNum a.mu} {outNum a.ah2o} {outNum a.density} " ++
      s!"{outNum a.totalH} {outNum a.totalO} {outNum a.cb} {outNum a.water} {outNum a.patm} {a.err} " ++
      String.intercalate " " ((a.totals.toList.filter (·.2 != 0)).map fun kv => s!"{hexStr kv.1}:{outNum kv.2}")
    let l3 := showSol "CM" 0 cm
    let l4 := match comps with
      | (n, f) :: _ => match store n with | some s => [showSol "MU" n (s.multiply f)] | none => []
      | [] => []
    ({ st with mix := {} }, [l1, l2, l3] ++ l4 ++ ["E"])
  | [] => (st, [])
  | _ => (st, ["bad-op"])

def run : IO _root_.Unit := do
  let stdin ← IO.getStdin
  let lines ← readLines stdin
  let out ← IO.getStdout
  let mut st : State := {}
  for l in lines do
    let (st', o) := step st l
    st := st'
    for x in o do out.putStrLn x
  out.flush

end Driver.Units
