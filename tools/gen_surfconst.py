"""Translator for C20: physical constants and hard-coded factors of the surface code → Lean (`Gen/SurfConst.lean`).

What is read from /repo on every run (values, not spellings):
  F_C_MOL, F_KJ_V_EQ, R_KJ_DEG_MOL, EPSILON_ZERO   wherever they are defined (#define / const / constexpr / enum), evaluated
  GC_FACTOR      model.cpp: every `sqrt(E)` whose argument is the monomial c·eps_r·EPSILON_ZERO·R_KJ_DEG_MOL·tk_x → c/10^6 (= 8)
  FSINH_FACTOR   integrate.cpp: every `sqrt(E)` with E = c·eps_r·EPSILON_ZERO·R_KJ_DEG_MOL·tk_x·mu_x → c/10^3 (= 8000)
  ALPHA_FACTOR   integrate.cpp: every `sqrt(E)` with E = c·eps_r·EPSILON_ZERO·R_KJ_DEG_MOL·tk_x (c < 10^6·1) → c/10^6 (= 1/2)
  CD_DDL_FACTOR  residuals: the two assignments  v = ±c · <a Gouy–Chapman constant variable> · sqrt(…)          → c (= 1/2)
  CCM_FACTOR     residuals: the term  c · capacitance0 · la · R_KJ_DEG_MOL · tk_x · LOG_10 / F_KJ_V_EQ            → c (= 2)
  TRXN_DZ_COEF_POWER  structures.cpp trxn_add: `trxn.dz[i] += coef^p · r.dz[i]` (count_trxn > 0 branch)                → p (= 1)
  PSI_COEF       add_potential_factor: `X += …->z * ….coef` accumulates X, then `….coef = c · X`                 → c (= -2)

The facts are read from the STRUCTURE of the code: comments are stripped; every statement `lhs = rhs;` of the function is
found whatever surrounds it (so added guards, reordered branches, extra statements do not matter); before an expression is
read
  * locals that are initialised once and never assigned again (`const LDBLE K = -2.0;`, `LDBLE T = tk_x;`) are replaced by
    their initialiser, names defined by `#define` / `static const` / `constexpr` / enumerators in the file or in
    global_structures.h (other than the four physical constants, which stay symbolic) by their value,
  * a call of a file-local `static` helper whose body is a single `return E;` is replaced by E with the arguments substituted
    (one level),
  * the expression is parsed (numbers, names, member chains, calls, casts, + - * /) and normalised to a polynomial
    coefficient·∏ atoms, so regrouping, reordering of factors, `1000*1000` vs `1e6`, renamed locals do not change what is
    read; atoms that are local names are matched by ROLE (left-hand side of a Gouy–Chapman assignment, accumulator of
    `z*coef`), members by their last component (`->la`, `Get_capacitance0()`).
Only a real change of a factor, constant or term changes the generated table.  When a fact cannot be established the
translator FAILS CLOSED: `recognised = false` (and the value 0), which breaks `source_constants` in Properties/C20.lean.
"""
import re
from fractions import Fraction

import vlib

PHYS = ("F_C_MOL", "F_KJ_V_EQ", "R_KJ_DEG_MOL", "EPSILON_ZERO")
TYPES = {"LDBLE", "double", "float", "int", "long", "size_t", "unsigned"}


class Unrecognised(Exception):
    pass


# ------------------------------------------------------------------------------------------------ text level
def strip_comments(src):
    src = re.sub(r"/\*.*?\*/", lambda m: "\n" * m.group(0).count("\n"), src, flags=re.S)
    return re.sub(r"//[^\n]*", "", src)


def match_close(s, i, op="{", cl="}"):
    """index just after the bracket that closes the one at s[i]"""
    depth = 0
    for j in range(i, len(s)):
        if s[j] == op:
            depth += 1
        elif s[j] == cl:
            depth -= 1
            if depth == 0:
                return j + 1
    raise Unrecognised("unbalanced " + op)


def function_body(src, name):
    m = re.search(r"\b(?:Phreeqc::\s*)?%s\s*\([^)]*\)\s*(?:const\s*)?\{" % re.escape(name), src)
    if not m:
        raise Unrecognised(f"function {name} not found")
    return src[m.end() - 1:match_close(src, m.end() - 1)]


def function_bodies(src):
    """all top-level function bodies of a file (name, body)"""
    out = []
    for m in re.finditer(r"\b(\w+)\s*\([^;{}()]*\)\s*(?:const\s*)?\{", src):
        if m.group(1) in ("if", "for", "while", "switch", "catch"):
            continue
        try:
            out.append((m.group(1), src[m.end() - 1:match_close(src, m.end() - 1)]))
        except Unrecognised:
            pass
    return out


# ------------------------------------------------------------------------------------------------ expressions
TOK = re.compile(r"\s*(\d+\.\d*(?:[eE][+-]?\d+)?|\.\d+(?:[eE][+-]?\d+)?|\d+(?:[eE][+-]?\d+)?|[A-Za-z_]\w*|->|::|[-+*/()\[\],.<>=!&|?:%])")


def tokenize(s):
    toks, i = [], 0
    s = s.strip()
    while i < len(s):
        m = TOK.match(s, i)
        if not m:
            raise Unrecognised("cannot tokenise: " + s[i:i + 30])
        toks.append(m.group(1))
        i = m.end()
    return toks


class Poly(dict):
    """polynomial: {monomial: Fraction}, monomial = sorted tuple of (atom text, integer power)"""

    @staticmethod
    def num(q):
        return Poly({(): Fraction(q)}) if q != 0 else Poly()

    @staticmethod
    def atom(a):
        return Poly({((a, 1),): Fraction(1)})

    def add(self, o, sign=1):
        r = Poly(self)
        for k, v in o.items():
            r[k] = r.get(k, 0) + sign * v
            if r[k] == 0:
                del r[k]
        return r

    def mul(self, o):
        r = Poly()
        for k1, v1 in self.items():
            for k2, v2 in o.items():
                d = dict(k1)
                for a, p in k2:
                    d[a] = d.get(a, 0) + p
                k = tuple(sorted((a, p) for a, p in d.items() if p != 0))
                r[k] = r.get(k, 0) + v1 * v2
                if r[k] == 0:
                    del r[k]
        return r

    def inv(self):
        if len(self) != 1:
            return Poly.atom("1/(" + self.text() + ")") if False else Poly({((("(" + self.text() + ")"), -1),): Fraction(1)})
        (k, v), = self.items()
        return Poly({tuple(sorted((a, -p) for a, p in k)): 1 / v})

    def text(self):
        parts = []
        for k in sorted(self):
            parts.append(str(self[k]) + "".join(f"*{a}^{p}" for a, p in k))
        return "+".join(parts) if parts else "0"


class Parser:
    def __init__(self, toks):
        self.t, self.i = toks, 0

    def peek(self):
        return self.t[self.i] if self.i < len(self.t) else None

    def eat(self, x=None):
        tok = self.peek()
        if tok is None or (x is not None and tok != x):
            raise Unrecognised(f"expected {x}, found {tok}")
        self.i += 1
        return tok

    def expr(self):
        r = self.term()
        while self.peek() in ("+", "-"):
            op = self.eat()
            r = r.add(self.term(), 1 if op == "+" else -1)
        return r

    def term(self):
        r = self.unary()
        while self.peek() in ("*", "/"):
            op = self.eat()
            u = self.unary()
            r = r.mul(u if op == "*" else u.inv())
        return r

    def unary(self):
        if self.peek() == "-":
            self.eat()
            return self.unary().mul(Poly.num(-1))
        if self.peek() == "+":
            self.eat()
            return self.unary()
        # cast: ( type )
        if self.peek() == "(" and self.i + 2 < len(self.t) and self.t[self.i + 1] in TYPES and self.t[self.i + 2] == ")":
            self.i += 3
            return self.unary()
        return self.postfix()

    def postfix(self):
        tok = self.peek()
        if tok is None:
            raise Unrecognised("unexpected end")
        if tok == "(":
            self.eat()
            r = self.expr()
            self.eat(")")
            if self.peek() not in ("->", ".", "["):
                return r
            text = "(" + r.text() + ")"
        elif re.match(r"\d|\.\d", tok):
            self.eat()
            return Poly.num(Fraction(tok))
        elif re.match(r"[A-Za-z_]", tok):
            text = self.eat()
        else:
            raise Unrecognised("unexpected token " + tok)
        while self.peek() in ("->", ".", "::", "(", "["):
            op = self.eat()
            if op in ("->", ".", "::"):
                text += op + self.eat()
            elif op == "(":
                args = []
                if self.peek() != ")":
                    args.append(self.expr())
                    while self.peek() == ",":
                        self.eat()
                        args.append(self.expr())
                self.eat(")")
                text += "(" + ",".join(a.text() for a in args) + ")"
            else:
                idx = self.expr()
                self.eat("]")
                text += "[" + idx.text() + "]"
        return Poly.atom(text)


def parse(s):
    p = Parser(tokenize(s))
    r = p.expr()
    if p.peek() is not None:
        raise Unrecognised("trailing tokens in: " + s[:80])
    return r


def single(poly):
    """(coefficient, {atom: power}) of a polynomial that is one monomial"""
    if len(poly) != 1:
        raise Unrecognised("not a single term: " + poly.text()[:120])
    (k, v), = poly.items()
    return v, dict(k)


# ------------------------------------------------------------------------------------------------ resolution of names
def file_constants(*texts):
    """name -> expression text for `#define N e`, `static const T N = e;`, `constexpr T N = e;`, `const T N = e;` at file
    level and enumerators `N = e` — candidates for substitution"""
    out = {}
    for t in texts:
        for m in re.finditer(r"(?m)^[ \t]*#[ \t]*define[ \t]+(\w+)[ \t]+([^\n]+?)[ \t]*$", t):
            out.setdefault(m.group(1), m.group(2))
        for m in re.finditer(r"(?m)^[ \t]*(?:static\s+)?(?:constexpr|const)\s+(?:static\s+)?(?:const\s+)?\w+\s+(\w+)\s*=\s*([^;]+);", t):
            out.setdefault(m.group(1), m.group(2))
    return out


def numeric(name, consts, depth=0):
    """value of a named constant (recursively through other named constants)"""
    if depth > 6 or name not in consts:
        raise Unrecognised(f"constant {name} not found")
    expr = substitute(consts[name], {k: v for k, v in consts.items() if k != name}, keep=())
    c, atoms = single(parse(expr))
    if atoms:
        raise Unrecognised(f"constant {name} is not a number: {expr}")
    return c


def substitute(expr, table, keep=PHYS):
    """replace whole-word names (not members: not after `.` / `->`) by `(value)`; a few passes for nested names"""
    for _ in range(4):
        changed = False

        def rep(m):
            nonlocal changed
            n = m.group(0)
            if n in table and n not in keep:
                changed = True
                return "(" + table[n] + ")"
            return n
        expr = re.sub(r"(?<![\w.>])(?<!->)[A-Za-z_]\w*(?!\s*\()", rep, expr)
        if not changed:
            break
    return expr


def local_initialisers(body):
    """locals `T name = expr;` that are never assigned again in the body: name -> expr"""
    out = {}
    for m in re.finditer(r"(?:\bconst\s+)?\b(?:LDBLE|double|float|int|long|size_t)\s+(?:const\s+)?(\w+)\s*=\s*([^;,]+);", body):
        name = m.group(1)
        rest = body[:m.start()] + body[m.end():]
        if re.search(r"(?<![\w.>])%s\s*(?:[-+*/]?=(?!=)|\+\+|--)" % re.escape(name), rest) or re.search(r"(?:\+\+|--)\s*%s\b" % re.escape(name), rest):
            continue
        out[name] = m.group(2).strip()
    return out


def static_helpers(src):
    """file-local helpers whose body is one `return E;`: name -> (parameter names, E)"""
    out = {}
    for m in re.finditer(r"\bstatic\s+(?:inline\s+)?(?:const\s+)?\w+\s+(\w+)\s*\(([^)]*)\)\s*\{\s*return\s+([^;]+);\s*\}", src):
        params = [p.strip().split()[-1].lstrip("*&") for p in m.group(2).split(",") if p.strip() and p.strip() != "void"]
        out[m.group(1)] = (params, m.group(3))
    return out


def inline_helpers(expr, helpers):
    for name, (params, body) in helpers.items():
        while True:
            m = re.search(r"(?<![\w.>])%s\s*\(" % re.escape(name), expr)
            if not m:
                break
            end = match_close(expr, m.end() - 1, "(", ")")
            args, depth, cur = [], 0, ""
            for ch in expr[m.end():end - 1]:
                if ch == "," and depth == 0:
                    args.append(cur)
                    cur = ""
                else:
                    depth += ch in "(["
                    depth -= ch in ")]"
                    cur += ch
            if cur.strip():
                args.append(cur)
            if len(args) != len(params):
                raise Unrecognised(f"helper {name}: argument count")
            b = body
            for p, a in zip(params, args):
                b = re.sub(r"(?<![\w.>])%s\b" % re.escape(p), "(" + a.strip() + ")", b)
            expr = expr[:m.start()] + "(" + b + ")" + expr[end:]
    return expr


def assignments(body):
    """(lhs, op, rhs) of every statement `lhs = rhs;` / `lhs += rhs;` of a body, whatever block it sits in"""
    out = []
    for chunk in re.split(r"[;{}]", body):
        c = " ".join(chunk.split())
        # drop leading `else`, `if (...)`
        while True:
            if c.startswith("else "):
                c = c[5:]
                continue
            m = re.match(r"(?:if|while|for)\s*\(", c)
            if m:
                try:
                    c = c[match_close(c, m.end() - 1, "(", ")"):].strip()
                    continue
                except Unrecognised:
                    break
            break
        # remainder of a `for (a; b; c) stmt` header that the split on `;` left in front of the statement
        depth = 0
        for j, ch in enumerate(c):
            if ch == "(":
                depth += 1
            elif ch == ")":
                depth -= 1
                if depth < 0:
                    c = c[j + 1:].strip()
                    break
        m = re.match(r"^((?:\w|\.|->|::|\[[^\]]*\]|\([^)]*\))+)\s*(\+=|-=|=)(?!=)\s*(.+)$", c)
        if m and not re.match(r"(?:LDBLE|double|int|float|return)\b", c):
            out.append((m.group(1), m.group(2), m.group(3)))
        else:
            m = re.match(r"^(?:const\s+)?(?:LDBLE|double|float)\s+(?:const\s+)?(\w+)\s*=\s*(.+)$", c)
            if m:
                out.append((m.group(1), "=", m.group(2)))
    return out


def prepared(expr, table, helpers):
    return substitute(inline_helpers(expr, helpers), table)


def last(atom):
    """last component of a member chain: `x[i]->master[0]->s->la` → `la`"""
    return re.split(r"->|\.", atom)[-1]


# ------------------------------------------------------------------------------------------------ the facts
def sqrt_monomials(src, consts, want_atoms):
    """coefficients c of every `name = sqrt(E)` in the file where E = c·∏ want_atoms; also the left-hand names"""
    helpers = static_helpers(src)
    coefs, names = [], set()
    for fname, body in function_bodies(src):
        if "EPSILON_ZERO" not in body and not any(h in body for h in helpers):
            continue
        table = dict(consts)
        table.update(local_initialisers(body))
        for lhs, op, rhs in assignments(body):
            if op != "=" or "sqrt" not in prepared(rhs, table, helpers):
                continue
            e = prepared(rhs, table, helpers)
            if "EPSILON_ZERO" not in e:
                continue
            m = re.match(r"^\(*\s*sqrt\s*\(", e)
            if not m:
                continue
            try:
                inner = e[m.end():match_close(e, m.end() - 1, "(", ")") - 1]
                c, atoms = single(parse(inner))
            except Unrecognised:
                continue
            if atoms == {a: 1 for a in want_atoms}:
                coefs.append(c)
                names.add(lhs)
    return coefs, names


def extract():
    src = vlib.REPO / "src" / "phreeqcpp"
    gs = strip_comments((src / "global_structures.h").read_text())
    model = strip_comments((src / "model.cpp").read_text())
    prep = strip_comments((src / "prep.cpp").read_text())
    integ = strip_comments((src / "integrate.cpp").read_text())
    phq = strip_comments((src / "Phreeqc.h").read_text())
    out, where, ok = {}, [], True

    def fail(key, why):
        nonlocal ok
        ok = False
        out[key] = Fraction(0)
        where.append(f"{key}: NOT RECOGNISED ({why})")

    consts_all = file_constants(gs, phq)
    for name in PHYS:
        try:
            out[name] = numeric(name, consts_all)
            where.append(f"{name} (definition evaluated)")
        except Unrecognised as e:
            fail(name, str(e))
    # the four physical constants stay symbolic inside expressions
    def table_for(text):
        t = file_constants(gs, phq, text)
        for p in PHYS:
            t.pop(p, None)
        # only names that evaluate to numbers are substituted
        good = {}
        for k in list(t):
            try:
                good[k] = str(numeric(k, dict(t)))
            except Unrecognised:
                pass
        return good

    base4 = ("eps_r", "EPSILON_ZERO", "R_KJ_DEG_MOL", "tk_x")
    tm, ti, tp = table_for(model), table_for(integ), table_for(prep)
    # Gouy–Chapman constant in model.cpp
    gc, gcnames = sqrt_monomials(model, tm, base4)
    if len(gc) < 3 or len(set(gc)) != 1:
        fail("GC_FACTOR", f"{len(gc)} occurrences {sorted(set(map(str, gc)))}")
    else:
        out["GC_FACTOR"] = gc[0] / 10 ** 6
        where.append(f"model.cpp Gouy-Chapman sqrt x{len(gc)}")
    # integrate.cpp: f_sinh (with mu_x) and alpha
    fs, _ = sqrt_monomials(integ, ti, base4 + ("mu_x",))
    if len(fs) < 2 or len(set(fs)) != 1:
        fail("FSINH_FACTOR", f"{len(fs)} occurrences")
    else:
        out["FSINH_FACTOR"] = fs[0] / 10 ** 3
        where.append(f"integrate.cpp f_sinh x{len(fs)}")
    al, _ = sqrt_monomials(integ, ti, base4)
    if len(al) < 2 or len(set(al)) != 1:
        fail("ALPHA_FACTOR", f"{len(al)} occurrences")
    else:
        out["ALPHA_FACTOR"] = al[0] / 10 ** 6
        where.append(f"integrate.cpp alpha x{len(al)}")
    # residuals: CD-MUSIC diffuse-layer charge and the CCM term
    try:
        body = function_body(model, "residuals")
        helpers = static_helpers(model)
        table = dict(tm)
        table.update(local_initialisers(body))
        cds, ccm = [], []
        for lhs, op, rhs in assignments(body):
            e = prepared(rhs, table, helpers)
            if op == "=" and "sqrt" in e and any(re.search(r"\b%s\b" % re.escape(g), e) for g in gcnames) and "sinh(" not in e:
                try:
                    c, atoms = single(parse(e))
                except Unrecognised:
                    continue
                rest = {a: p for a, p in atoms.items() if a not in gcnames}
                if len(atoms) - len(rest) == 1 and len(rest) == 1 and list(rest)[0].startswith("sqrt(") and list(rest.values()) == [1]:
                    cds.append(c)
            if op == "=" and "Get_capacitance0" in e and "LOG_10" in e:
                try:
                    poly = parse(e)
                except Unrecognised:
                    continue
                for k, v in poly.items():
                    roles = sorted((last(a), p) for a, p in k)
                    if roles == sorted([("Get_capacitance0()", 1), ("la", 1), ("R_KJ_DEG_MOL", 1), ("tk_x", 1), ("LOG_10", 1), ("F_KJ_V_EQ", -1)]):
                        ccm.append(v)
        if sorted(cds) and len(cds) == 2 and cds[0] == -cds[1]:
            out["CD_DDL_FACTOR"] = abs(cds[0])
            where.append("model.cpp residuals sigmaddl ±")
        else:
            fail("CD_DDL_FACTOR", f"found {list(map(str, cds))}")
        if len(ccm) == 1:
            out["CCM_FACTOR"] = ccm[0]
            where.append("model.cpp residuals CCM term")
        else:
            fail("CCM_FACTOR", f"found {list(map(str, ccm))}")
    except Unrecognised as e:
        fail("CD_DDL_FACTOR", str(e))
        fail("CCM_FACTOR", str(e))
    # add_potential_factor: coefficient of the accumulated charge
    try:
        body = function_body(prep, "add_potential_factor")
        helpers = static_helpers(prep)
        table = dict(tp)
        table.update(local_initialisers(body))
        asg = [(l, o, prepared(r, table, helpers)) for l, o, r in assignments(body)]
        acc = set()
        for lhs, op, e in asg:
            if op == "+=":
                try:
                    c, atoms = single(parse(e))
                except Unrecognised:
                    continue
                if c == 1 and sorted((last(a), p) for a, p in atoms.items()) == [("coef", 1), ("z", 1)]:
                    acc.add(lhs)
        found = []
        for lhs, op, e in asg:
            if op == "=" and last(lhs) == "coef":
                try:
                    c, atoms = single(parse(e))
                except Unrecognised:
                    continue
                if len(atoms) == 1 and list(atoms)[0] in acc and list(atoms.values()) == [1]:
                    found.append(c)
        if len(acc) == 1 and len(found) == 1:
            out["PSI_COEF"] = found[0]
            where.append("prep.cpp add_potential_factor coef = c * accumulated z")
        else:
            fail("PSI_COEF", f"accumulators {sorted(acc)}, assignments {list(map(str, found))}")
    except Unrecognised as e:
        fail("PSI_COEF", str(e))
    # trxn_add: the CD-MUSIC distribution of a substituted reaction is scaled by the stoichiometric coefficient
    try:
        st = strip_comments((src / "structures.cpp").read_text())
        m = re.search(r"\btrxn_add\s*\(([^)]*)\)\s*\{", st)
        if not m:
            raise Unrecognised("trxn_add not found")
        params = [p.strip().split()[-1].lstrip("*&") for p in m.group(1).split(",")]
        if len(params) < 2:
            raise Unrecognised("trxn_add parameters")
        coefname = params[1]
        body = st[m.end() - 1:match_close(st, m.end() - 1)]
        table = dict(table_for(st))
        table.update(local_initialisers(body))
        pw = []
        for lhs, op, rhs in assignments(body):
            if op == "+=" and re.match(r"trxn\.dz\[", lhs):
                c, atoms = single(parse(prepared(rhs, table, static_helpers(st))))
                rest = {a: p for a, p in atoms.items() if a != coefname}
                if c == 1 and len(rest) == 1 and re.search(r"Get_dz\(\)\[|\bdz\[", list(rest)[0]) and list(rest.values()) == [1]:
                    pw.append(Fraction(atoms.get(coefname, 0)))
                else:
                    raise Unrecognised("dz accumulation is not coef^p * dz: " + rhs)
        if len(pw) == 1:
            out["TRXN_DZ_COEF_POWER"] = pw[0]
            where.append("structures.cpp trxn_add dz accumulation")
        else:
            fail("TRXN_DZ_COEF_POWER", f"{len(pw)} accumulation statements")
    except Unrecognised as e:
        fail("TRXN_DZ_COEF_POWER", str(e))
    return out, where, ok


KEYS = ("F_C_MOL", "F_KJ_V_EQ", "R_KJ_DEG_MOL", "EPSILON_ZERO", "GC_FACTOR", "FSINH_FACTOR", "ALPHA_FACTOR", "CD_DDL_FACTOR",
        "PSI_COEF", "CCM_FACTOR", "TRXN_DZ_COEF_POWER")


def lean_rat(q):
    return f"({q.numerator} / {q.denominator} : Rat)" if q >= 0 else f"(-{-q.numerator} / {q.denominator} : Rat)"


def generate(ctx=None):
    out, where, ok = extract()
    lines = ["/-! GENERATED by tools/gen_surfconst.py from /repo/src/phreeqcpp — do not edit.",
             "Facts: " + "; ".join(where) + " -/",
             "namespace PhreeqcVerif.Gen.SurfConst", ""]
    for k in KEYS:
        lines.append(f"def {k} : Rat := {lean_rat(out.get(k, Fraction(0)))}")
    lines.append(f"/-- every fact the translator looks for was established -/\ndef recognised : Bool := {'true' if ok else 'false'}")
    lines += ["", "end PhreeqcVerif.Gen.SurfConst", ""]
    text = "\n".join(lines)
    p = vlib.LEAN / "PhreeqcVerif" / "Gen" / "SurfConst.lean"
    if not p.exists() or p.read_text() != text:
        p.write_text(text)
    if ctx is not None:
        ctx.cov["translator_surfconst"] = {"recognised": ok, "facts": where,
                                           "values": {k: str(v) for k, v in out.items()}}
    return ok


if __name__ == "__main__":
    o, w, k = extract()
    print(k)
    for kk in KEYS:
        print(kk, o.get(kk))
    print("\n".join(w))
