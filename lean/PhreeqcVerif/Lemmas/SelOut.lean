import PhreeqcVerif.Model.SelOut
/-! Helper lemmas for the selected-output table model. -/
namespace PhreeqcVerif.SelOut

theorem findCol_lt {hs : List String} {k : String} {i : Nat} (h : findCol hs k = some i) :
    i < hs.length := by
  induction hs generalizing i with
  | nil => simp [findCol] at h
  | cons x xs ih =>
    simp only [findCol] at h
    split at h
    · cases h; simp
    · cases hf : findCol xs k with
      | none => simp [hf] at h
      | some j =>
        simp [hf] at h
        subst h
        have := ih hf
        simp; omega

theorem findCol_get {hs : List String} {k : String} {i : Nat} (h : findCol hs k = some i) :
    hs.getD i "" = k := by
  induction hs generalizing i with
  | nil => simp [findCol] at h
  | cons x xs ih =>
    simp only [findCol] at h
    split at h
    · cases h; simp_all
    · cases hf : findCol xs k with
      | none => simp [hf] at h
      | some j =>
        simp [hf] at h
        subst h
        simpa using ih hf

theorem findCol_none {hs : List String} {k : String} (h : findCol hs k = none) : k ∉ hs := by
  induction hs with
  | nil => simp
  | cons x xs ih =>
    simp only [findCol] at h
    split at h
    · cases h
    · cases hf : findCol xs k with
      | none => simp_all; intro h'; simp_all
      | some j => simp [hf] at h

theorem findCol_append_self {hs : List String} {k : String} (h : findCol hs k = none) :
    findCol (hs ++ [k]) k = some hs.length := by
  induction hs with
  | nil => simp [findCol]
  | cons x xs ih =>
    simp only [findCol] at h
    split at h
    · cases h
    · rename_i hne
      cases hf : findCol xs k with
      | none => simp [findCol, hne, ih hf]
      | some j => simp [hf] at h

theorem modifyNth_length {α} (f : α → α) (l : List α) (n : Nat) :
    (modifyNth f l n).length = l.length := by
  induction l generalizing n with
  | nil => simp [modifyNth]
  | cons x xs ih => cases n <;> simp [modifyNth, ih]

theorem mem_modifyNth {α} {f : α → α} {l : List α} {n : Nat} {y : α}
    (h : y ∈ modifyNth f l n) : y ∈ l ∨ ∃ x ∈ l, y = f x := by
  induction l generalizing n with
  | nil => simp [modifyNth] at h
  | cons x xs ih =>
    cases n with
    | zero =>
      simp [modifyNth] at h
      rcases h with h | h
      · right; exact ⟨x, by simp, h⟩
      · left; simp [h]
    | succ n =>
      simp [modifyNth] at h
      rcases h with h | h
      · left; simp [h]
      · rcases ih h with h' | ⟨z, hz, e⟩
        · left; simp [h']
        · right; exact ⟨z, by simp [hz], e⟩

theorem modifyNth_getD {α} (f : α → α) (l : List α) (n i : Nat) (d : α) (hi : i < l.length) :
    (modifyNth f l n).getD i d = if i = n then f (l.getD i d) else l.getD i d := by
  induction l generalizing n i with
  | nil => simp at hi
  | cons x xs ih =>
    cases n with
    | zero => cases i <;> simp [modifyNth]
    | succ n =>
      cases i with
      | zero => simp [modifyNth]
      | succ i =>
        simp [modifyNth]
        have := ih n i (by simpa using hi)
        simpa using this

theorem padTo_length (n : Nat) (c : List Var) : (padTo n c).length = max n c.length := by
  simp [padTo]; omega

theorem putCell_length (r : Nat) (v : Var) (c : List Var)
    (h : c.length = r ∨ c.length = r + 1) : (putCell r v c).length = r + 1 := by
  unfold putCell
  split
  · simp; omega
  · simp; omega

end PhreeqcVerif.SelOut
