import PhreeqcVerif.Model.BasicExec
import Mathlib.Tactic.Linarith
import Mathlib.Tactic.Ring
import Mathlib.Algebra.Order.Field.Rat
/-! Lemmas for C17: FOR/NEXT control (`forSkips`, `nextContinues`, `forBody`, `forLoop` of `Model/BasicExec.lean`) in
exact arithmetic, i.e. over `ratNum F` for arbitrary uninterpreted libm functions `F`. -/
namespace PhreeqcVerif.Basic
variable (F : RatFns)

@[simp] theorem le_rat (x y : Rat) : @BNum.le Rat (ratNum F) x y = decide (x ≤ y) := rfl
@[simp] theorem lt_rat (x y : Rat) : @BNum.lt Rat (ratNum F) x y = decide (x < y) := rfl
@[simp] theorem add_rat (x y : Rat) : @BNum.add Rat (ratNum F) x y = x + y := rfl
@[simp] theorem ofInt_rat (i : Int) : @BNum.ofInt Rat (ratNum F) i = (i : Rat) := rfl

theorem forSkips_rat (v b s : Rat) :
    @forSkips Rat (ratNum F) v b s = ((decide (0 ≤ s) && decide (b < v)) || (decide (s ≤ 0) && decide (v < b))) := by
  simp [forSkips, BNum.ge, BNum.gt, BNum.zero]

theorem nextContinues_rat (v b s : Rat) :
    @nextContinues Rat (ratNum F) v b s = ((decide (s < 0) || decide (v ≤ b)) && (decide (0 < s) || decide (b ≤ v))) := by
  simp [nextContinues, BNum.ge, BNum.gt, BNum.zero]

theorem forBody_succ (b s v : Rat) (f : Nat) :
    @forBody Rat (ratNum F) b s (f + 1) v =
      (if @nextContinues Rat (ratNum F) (v + s) b s then
        (v :: (@forBody Rat (ratNum F) b s f (v + s)).1, (@forBody Rat (ratNum F) b s f (v + s)).2)
       else ([v], v + s)) := by
  simp [forBody]

theorem forBody_count_pos (b s : Rat) (hs : 0 < s) :
    ∀ n : Nat, 1 ≤ n → ∀ (v : Rat) (fuel : Nat), n ≤ fuel → v + ((n : Rat) - 1) * s ≤ b → b < v + (n : Rat) * s →
      @forBody Rat (ratNum F) b s fuel v = ((List.range n).map (fun (i : Nat) => v + (i : Rat) * s), v + (n : Rat) * s) := by
  intro n
  induction n with
  | zero => intro h; omega
  | succ n ih =>
    intro _ v fuel hfuel hle hlt
    obtain ⟨f, rfl⟩ : ∃ f, fuel = f + 1 := ⟨fuel - 1, by omega⟩
    rw [forBody_succ, nextContinues_rat]
    have h1 : decide (s < 0) = false := by simpa using le_of_lt hs
    have h2 : decide (0 < s) = true := by simpa using hs
    simp only [h1, h2, Bool.false_or, Bool.true_or, Bool.and_true]
    by_cases hn : n = 0
    · subst hn
      have : ¬ (v + s ≤ b) := by
        have : b < v + s := by simpa using hlt
        exact not_le.mpr this
      simp [this]
    · have hn1 : 1 ≤ n := Nat.one_le_iff_ne_zero.mpr hn
      have hq : (1 : Rat) ≤ (n : Rat) := by exact_mod_cast hn1
      push_cast at hle hlt
      have hge : v + s ≤ b := by nlinarith
      have := ih hn1 (v + s) f (by omega) (by linarith) (by linarith)
      simp only [hge, decide_true, if_true, this]
      refine Prod.ext ?_ ?_
      · simp only [List.range_succ_eq_map, List.map_cons, List.map_map]
        congr 1
        · simp
        · apply List.map_congr_left
          intro i _
          simp only [Function.comp, Nat.cast_succ]
          ring
      · push_cast; ring

theorem for_iterations_pos (a b s : Rat) (hs : 0 < s) :
    (b < a → ∀ fuel, @forLoop Rat (ratNum F) a b s fuel = ([], a)) ∧
    (∀ n : Nat, 1 ≤ n → a + ((n : Rat) - 1) * s ≤ b → b < a + (n : Rat) * s → ∀ fuel, n ≤ fuel →
      @forLoop Rat (ratNum F) a b s fuel = ((List.range n).map (fun (i : Nat) => a + (i : Rat) * s), a + (n : Rat) * s)) := by
  have h1 : decide ((0 : Rat) ≤ s) = true := by simpa using le_of_lt hs
  have h2 : decide (s ≤ (0 : Rat)) = false := by simpa using hs
  constructor
  · intro hab fuel
    simp [forLoop, forSkips_rat, h1, h2, hab]
  · intro n hn hle hlt fuel hfuel
    have hq : (1 : Rat) ≤ (n : Rat) := by exact_mod_cast hn
    have hna : ¬ (b < a) := by
      have : a ≤ a + ((n : Rat) - 1) * s := by nlinarith
      exact not_lt.mpr (le_trans this hle)
    simp only [forLoop, forSkips_rat, h1, h2, hna, decide_false, Bool.and_false, Bool.false_and, Bool.or_false]
    exact forBody_count_pos F b s hs n hn a fuel hfuel hle hlt

theorem forBody_count_neg (b s : Rat) (hs : s < 0) :
    ∀ n : Nat, 1 ≤ n → ∀ (v : Rat) (fuel : Nat), n ≤ fuel → b ≤ v + ((n : Rat) - 1) * s → v + (n : Rat) * s < b →
      @forBody Rat (ratNum F) b s fuel v = ((List.range n).map (fun (i : Nat) => v + (i : Rat) * s), v + (n : Rat) * s) := by
  intro n
  induction n with
  | zero => intro h; omega
  | succ n ih =>
    intro _ v fuel hfuel hle hlt
    obtain ⟨f, rfl⟩ : ∃ f, fuel = f + 1 := ⟨fuel - 1, by omega⟩
    rw [forBody_succ, nextContinues_rat]
    have h1 : decide (s < 0) = true := by simpa using hs
    have h2 : decide (0 < s) = false := by simpa using le_of_lt hs
    simp only [h1, h2, Bool.false_or, Bool.true_or, Bool.true_and]
    by_cases hn : n = 0
    · subst hn
      have : ¬ (b ≤ v + s) := by
        have : v + s < b := by simpa using hlt
        exact not_le.mpr this
      simp [this]
    · have hn1 : 1 ≤ n := Nat.one_le_iff_ne_zero.mpr hn
      have hq : (1 : Rat) ≤ (n : Rat) := by exact_mod_cast hn1
      push_cast at hle hlt
      have hge : b ≤ v + s := by nlinarith
      have := ih hn1 (v + s) f (by omega) (by linarith) (by linarith)
      simp only [hge, decide_true, if_true, this]
      refine Prod.ext ?_ ?_
      · simp only [List.range_succ_eq_map, List.map_cons, List.map_map]
        congr 1
        · simp
        · apply List.map_congr_left
          intro i _
          simp only [Function.comp, Nat.cast_succ]
          ring
      · push_cast; ring

theorem for_iterations_neg (a b s : Rat) (hs : s < 0) :
    (a < b → ∀ fuel, @forLoop Rat (ratNum F) a b s fuel = ([], a)) ∧
    (∀ n : Nat, 1 ≤ n → b ≤ a + ((n : Rat) - 1) * s → a + (n : Rat) * s < b → ∀ fuel, n ≤ fuel →
      @forLoop Rat (ratNum F) a b s fuel = ((List.range n).map (fun (i : Nat) => a + (i : Rat) * s), a + (n : Rat) * s)) := by
  have h1 : decide ((0 : Rat) ≤ s) = false := by simpa using hs
  have h2 : decide (s ≤ (0 : Rat)) = true := by simpa using le_of_lt hs
  constructor
  · intro hab fuel
    simp [forLoop, forSkips_rat, h1, h2, hab]
  · intro n hn hle hlt fuel hfuel
    have hq : (1 : Rat) ≤ (n : Rat) := by exact_mod_cast hn
    have hna : ¬ (a < b) := by
      have : a + ((n : Rat) - 1) * s ≤ a := by nlinarith
      exact not_lt.mpr (le_trans hle this)
    simp only [forLoop, forSkips_rat, h1, h2, hna, decide_false, Bool.and_false, Bool.false_and, Bool.or_false]
    exact forBody_count_neg F b s hs n hn a fuel hfuel hle hlt

end PhreeqcVerif.Basic
