/- helper lemmas for Properties/C07 (core Lean only) -/
import PhreeqcVerif.Model.Reset

namespace PhreeqcVerif.Reset

variable {E : Type}

/-- with `EngineReset`, what `loadDb` produces depends on the instance only through id, switches, names and the per-call members -/
theorem loadDb_eq (eng : Engine E) (hE : EngineReset eng) (w : W E) (db : String) :
    loadDb eng w db =
      ({ id := w.id, sw := w.sw, names := w.names,
         pc := { w.pc with errorLines := (eng.readDbText eng.fresh db).1, warningLines := (eng.readDbText eng.fresh db).2 },
         engine := (eng.readDb eng.fresh db).1,
         c := { dbLoaded := ((eng.readDb eng.fresh db).2 == 0), errReporter := (eng.readDbText eng.fresh db).1,
                warnReporter := (eng.readDbText eng.fresh db).2, errorString := (eng.readDbText eng.fresh db).1,
                warningString := (eng.readDbText eng.fresh db).2 } }, (eng.readDb eng.fresh db).2) := by
  simp [loadDb, unloadDatabase, hE w.engine]

/-- a run on a loaded instance does not look at the per-call members -/
theorem runString_loaded_pc (eng : Engine E) (w : W E) (pc' : PerCall) (input : String) (h : w.c.dbLoaded = true) :
    runString eng { w with pc := pc' } input = runString eng w input := by
  simp [runString, runCore, h, runEnv]

theorem runOps_append (eng : Engine E) (w : W E) (a b : List Op) : runOps eng w (a ++ b) = runOps eng (runOps eng w a) b := by
  simp [runOps, List.foldl_append]



/-- an equivalence-like relation on engine states that no operation can tell apart -/
structure Respects (eng : Engine E) (R : E → E → Prop) : Prop where
  readDb : ∀ e1 e2 db, R e1 e2 → R (eng.readDb e1 db).1 (eng.readDb e2 db).1 ∧ (eng.readDb e1 db).2 = (eng.readDb e2 db).2
  readDbText : ∀ e1 e2 db, R e1 e2 → eng.readDbText e1 db = eng.readDbText e2 db
  run : ∀ e1 e2 env s, R e1 e2 → R (eng.run e1 env s).1 (eng.run e2 env s).1 ∧ (eng.run e1 env s).2 = (eng.run e2 env s).2
  unload : ∀ e1 e2, R e1 e2 → R (eng.unload e1) (eng.unload e2)
  testInput : ∀ e1 e2, R e1 e2 → eng.testInput e1 = eng.testInput e2
  components : ∀ e1 e2, R e1 e2 → eng.components e1 = eng.components e2

/-- unload reaches the fresh engine up to R -/
def EngineResetUpTo (eng : Engine E) (R : E → E → Prop) : Prop := ∀ e, R (eng.unload e) eng.fresh

/-- two instances that agree on every wrapper member and whose engines are related -/
def Rel (R : E → E → Prop) (w1 w2 : W E) : Prop :=
  w1.id = w2.id ∧ w1.sw = w2.sw ∧ w1.names = w2.names ∧ w1.c = w2.c ∧ w1.pc = w2.pc ∧ R w1.engine w2.engine

theorem runCore_rel (eng : Engine E) (R : E → E → Prop) (hR : Respects eng R) (w1 w2 : W E) (s : String)
    (h : Rel R w1 w2) : Rel R (runCore eng w1 s).1 (runCore eng w2 s).1 ∧ (runCore eng w1 s).2 = (runCore eng w2 s).2 := by
  obtain ⟨hid, hsw, hn, hc, hpc, he⟩ := h
  have henv : runEnv w1 = runEnv w2 := by simp [runEnv, hid, hsw, hn, hc]
  have hr := hR.run w1.engine w2.engine (runEnv w2) s he
  unfold runCore
  rw [henv, hc]
  by_cases hl : w2.c.dbLoaded = true
  · simp only [hl, Bool.not_true, Bool.false_eq_true, ↓reduceIte]
    rw [hr.2]
    exact ⟨⟨hid, hsw, by simp [hn], rfl, rfl, hr.1⟩, rfl⟩
  · simp only [hl, Bool.not_false, ↓reduceIte, Bool.not_eq_true] 
    simp at hl
    simp [hl, Rel, hid, hsw, hn, he]

theorem runString_rel (eng : Engine E) (R : E → E → Prop) (hR : Respects eng R) (w1 w2 : W E) (s : String)
    (h : Rel R w1 w2) : Rel R (runString eng w1 s).1 (runString eng w2 s).1 ∧ (runString eng w1 s).2 = (runString eng w2 s).2 := by
  unfold runString
  apply runCore_rel eng R hR
  obtain ⟨hid, hsw, hn, hc, hpc, he⟩ := h
  exact ⟨hid, hsw, hn, by simp [hc], hpc, he⟩

theorem runAccumulated_rel (eng : Engine E) (R : E → E → Prop) (hR : Respects eng R) (w1 w2 : W E)
    (h : Rel R w1 w2) : Rel R (runAccumulated eng w1).1 (runAccumulated eng w2).1 ∧ (runAccumulated eng w1).2 = (runAccumulated eng w2).2 := by
  unfold runAccumulated
  have hc : w1.c = w2.c := h.2.2.2.1
  have := runCore_rel eng R hR w1 w2 w2.c.accumulated h
  rw [hc]
  obtain ⟨⟨hid, hsw, hn, hc', hpc, he⟩, hres⟩ := this
  exact ⟨⟨hid, hsw, hn, by simp [hc'], hpc, he⟩, hres⟩

/-- LoadDatabase decomposed: hold three file switches off, load_db, test_db when the read succeeded, restore the switches -/
def holdOff (w : W E) : W E := { w with sw := { w.sw with errFile := false, outFile := false, logFile := false } }
def restore (w : W E) (saved : Switches) : W E :=
  { w with sw := { w.sw with errFile := saved.errFile, outFile := saved.outFile, logFile := saved.logFile } }
def loadTail (eng : Engine E) (r : W E × Nat) : W E × Nat :=
  if r.2 == 0 then runString eng r.1 (eng.testInput r.1.engine) else r

theorem load_unfold (eng : Engine E) (w : W E) (db : String) :
    load eng w db = (restore (loadTail eng (loadDb eng (holdOff w) db)).1 w.sw, (loadTail eng (loadDb eng (holdOff w) db)).2) := by
  unfold load loadTail holdOff restore
  by_cases h : ((loadDb eng { w with sw := { w.sw with errFile := false, outFile := false, logFile := false } } db).2 == 0) = true
  · simp [h]
  · simp [h]

theorem holdOff_rel (R : E → E → Prop) (w1 w2 : W E) (h : Rel R w1 w2) : Rel R (holdOff w1) (holdOff w2) := by
  obtain ⟨hid, hsw, hn, hc, hpc, he⟩ := h
  exact ⟨hid, by simp [holdOff, hsw], hn, hc, hpc, he⟩

theorem restore_rel (R : E → E → Prop) (w1 w2 : W E) (s : Switches) (h : Rel R w1 w2) : Rel R (restore w1 s) (restore w2 s) := by
  obtain ⟨hid, hsw, hn, hc, hpc, he⟩ := h
  exact ⟨hid, by simp [restore, hsw], hn, hc, hpc, he⟩

theorem loadDb_rel (eng : Engine E) (R : E → E → Prop) (hR : Respects eng R) (w1 w2 : W E) (db : String)
    (h : Rel R w1 w2) : Rel R (loadDb eng w1 db).1 (loadDb eng w2 db).1 ∧ (loadDb eng w1 db).2 = (loadDb eng w2 db).2 := by
  obtain ⟨hid, hsw, hn, hc, hpc, he⟩ := h
  have hd := hR.readDb _ _ db (hR.unload _ _ he)
  have ht := hR.readDbText _ _ db (hR.unload _ _ he)
  simp only [loadDb, unloadDatabase]
  exact ⟨⟨hid, hsw, hn, by simp [hd.2, ht], by simp [hpc, ht], hd.1⟩, hd.2⟩

theorem loadTail_rel (eng : Engine E) (R : E → E → Prop) (hR : Respects eng R) (r1 r2 : W E × Nat)
    (h : Rel R r1.1 r2.1) (hn : r1.2 = r2.2) :
    Rel R (loadTail eng r1).1 (loadTail eng r2).1 ∧ (loadTail eng r1).2 = (loadTail eng r2).2 := by
  unfold loadTail
  rw [hn, hR.testInput _ _ h.2.2.2.2.2]
  by_cases hz : (r2.2 == 0) = true
  · simp only [hz, ↓reduceIte]; exact runString_rel eng R hR _ _ _ h
  · simp only [hz, Bool.false_eq_true, ↓reduceIte]; exact ⟨h, hn⟩

theorem load_rel (eng : Engine E) (R : E → E → Prop) (hR : Respects eng R) (w1 w2 : W E) (db : String)
    (h : Rel R w1 w2) : Rel R (load eng w1 db).1 (load eng w2 db).1 ∧ (load eng w1 db).2 = (load eng w2 db).2 := by
  rw [load_unfold, load_unfold]
  have h1 := loadDb_rel eng R hR _ _ db (holdOff_rel R _ _ h)
  have h2 := loadTail_rel eng R hR _ _ h1.1 h1.2
  have hsw : w1.sw = w2.sw := h.2.1
  rw [hsw]
  exact ⟨restore_rel R _ _ _ h2.1, h2.2⟩

theorem step_rel (eng : Engine E) (R : E → E → Prop) (hR : Respects eng R) (w1 w2 : W E) (op : Op)
    (h : Rel R w1 w2) : Rel R (step eng w1 op) (step eng w2 op) ∧ result eng w1 op = result eng w2 op := by
  have h' := h
  obtain ⟨hid, hsw, hn, hc, hpc, he⟩ := h
  cases op with
  | setSwitch k b => exact ⟨⟨hid, by simp [step, hsw], hn, hc, hpc, he⟩, rfl⟩
  | setName k v => exact ⟨⟨hid, hsw, by simp [step, hn], hc, hpc, he⟩, rfl⟩
  | setSelName v =>
      refine ⟨?_, rfl⟩
      by_cases hv : v = ""
      · simp only [step, hv, ↓reduceIte]; exact h'
      · simp only [step, hv, ↓reduceIte]; exact ⟨hid, hsw, by simp [hn, hc], hc, hpc, he⟩
  | setCur n =>
      refine ⟨?_, rfl⟩
      by_cases hv : 0 ≤ n
      · simp only [step, hv, ↓reduceIte]; exact ⟨hid, hsw, hn, by simp [hc], hpc, he⟩
      · simp only [step, hv, ↓reduceIte]; exact h'
  | setSelFileOn b =>
      refine ⟨?_, rfl⟩
      simp only [step, hc]
      by_cases hv : 0 ≤ w2.c.curSel
      · simp only [hv, ↓reduceIte]; exact ⟨hid, hsw, hn, by simp [hc], hpc, he⟩
      · simp only [hv, ↓reduceIte]; exact h'
  | setSelStrOn b => exact ⟨⟨hid, hsw, hn, by simp [step, hc], hpc, he⟩, rfl⟩
  | accumulate l => exact ⟨⟨hid, hsw, hn, by simp [step, accumulate, hc], hpc, he⟩, rfl⟩
  | clearAccumulated => exact ⟨⟨hid, hsw, hn, by simp [step, hc], hpc, he⟩, rfl⟩
  | runString s => exact runString_rel eng R hR w1 w2 s h'
  | runAccumulated => exact runAccumulated_rel eng R hR w1 w2 h'
  | load db => exact load_rel eng R hR w1 w2 db h'
  | listComponents =>
      refine ⟨?_, rfl⟩
      simp only [step, hc]
      cases hcc : w2.c.compCache with
      | some l => exact h'
      | none => exact ⟨hid, hsw, hn, by simp [hc, hR.components _ _ he], hpc, he⟩

theorem observe_rel (eng : Engine E) (R : E → E → Prop) (hR : Respects eng R) (w1 w2 : W E) (h : Rel R w1 w2) :
    observe eng w1 = observe eng w2 := by
  obtain ⟨hid, hsw, hn, hc, hpc, he⟩ := h
  simp only [observe, hid, hsw, hn, hc, hpc]
  cases w2.c.compCache with
  | some l => rfl
  | none => simp [hR.components _ _ he]

theorem trace_rel (eng : Engine E) (R : E → E → Prop) (hR : Respects eng R) (ops : List Op) :
    ∀ w1 w2 : W E, Rel R w1 w2 → trace eng w1 ops = trace eng w2 ops := by
  induction ops with
  | nil => intro _ _ _; rfl
  | cons op rest ih =>
      intro w1 w2 h
      have hs := step_rel eng R hR w1 w2 op h
      simp only [trace, hs.2, observe_rel eng R hR _ _ hs.1, ih _ _ hs.1]


/-- `runString` on an instance with a loaded database overwrites the per-call members: their old value is irrelevant -/
theorem runString_forgets_pc (eng : Engine E) (w : W E) (pc' : PerCall) (input : String) (h : w.c.dbLoaded = true) :
    runString eng { w with pc := pc' } input = runString eng w input := by
  simp [runString, runCore, h, runEnv]

/-- core of C07 for an engine that is reset only up to an indistinguishability relation R -/
theorem load_rel_fresh (eng : Engine E) (R : E → E → Prop) (hEq : Equivalence R) (hR : Respects eng R)
    (hU : EngineResetUpTo eng R) (w : W E) (db : String) (h0 : (load eng w db).2 = 0) :
    Rel R (load eng w db).1 (load eng (freshWith eng (survivors w)) db).1 ∧
    (load eng (freshWith eng (survivors w)) db).2 = 0 := by
  rw [load_unfold] at h0
  rw [load_unfold, load_unfold]
  -- engines after unload are related
  have hu : R (eng.unload w.engine) (eng.unload eng.fresh) := hEq.trans (hU _) (hEq.symm (hU _))
  have hd := hR.readDb _ _ db hu
  have ht := hR.readDbText _ _ db hu
  -- after load_db the two instances differ at most in the per-call members
  have hA : Rel R { (loadDb eng (holdOff w) db).1 with pc := (loadDb eng (holdOff (freshWith eng (survivors w))) db).1.pc }
                  (loadDb eng (holdOff (freshWith eng (survivors w))) db).1 := by
    simp only [loadDb, unloadDatabase, holdOff, freshWith, create, survivors]
    exact ⟨rfl, rfl, rfl, by simp [hd.2, ht], rfl, hd.1⟩
  have hN : (loadDb eng (holdOff w) db).2 = (loadDb eng (holdOff (freshWith eng (survivors w))) db).2 := by
    simp only [loadDb, unloadDatabase, holdOff, freshWith, create, survivors]; exact hd.2
  have hz : (loadDb eng (holdOff w) db).2 = 0 := by
    by_cases hz : (loadDb eng (holdOff w) db).2 = 0
    · exact hz
    · simp [loadTail, hz] at h0
  have hl : (loadDb eng (holdOff w) db).1.c.dbLoaded = true := by
    have : (loadDb eng (holdOff w) db).1.c.dbLoaded = ((loadDb eng (holdOff w) db).2 == 0) := by simp [loadDb]
    rw [this, hz]; rfl
  have hT : loadTail eng (loadDb eng (holdOff w) db) =
      runString eng { (loadDb eng (holdOff w) db).1 with pc := (loadDb eng (holdOff (freshWith eng (survivors w))) db).1.pc }
        (eng.testInput (loadDb eng (holdOff w) db).1.engine) := by
    simp only [loadTail, hz, beq_self_eq_true, ↓reduceIte]
    exact (runString_forgets_pc eng _ _ _ hl).symm
  have hT2 : loadTail eng (loadDb eng (holdOff (freshWith eng (survivors w))) db) =
      runString eng (loadDb eng (holdOff (freshWith eng (survivors w))) db).1
        (eng.testInput (loadDb eng (holdOff (freshWith eng (survivors w))) db).1.engine) := by
    simp only [loadTail, ← hN, hz, beq_self_eq_true, ↓reduceIte]
  have hti : eng.testInput (loadDb eng (holdOff w) db).1.engine =
             eng.testInput (loadDb eng (holdOff (freshWith eng (survivors w))) db).1.engine := hR.testInput _ _ hA.2.2.2.2.2
  have hrun := runString_rel eng R hR _ _ (eng.testInput (loadDb eng (holdOff (freshWith eng (survivors w))) db).1.engine) hA
  rw [hT, hT2, hti]
  rw [hT, hti] at h0
  refine ⟨restore_rel R _ _ _ hrun.1, ?_⟩
  rw [← hrun.2]; exact h0

/-- C07 at the wrapper level with the weaker engine hypothesis: result codes and all observations of every later call
    sequence coincide, for every history -/
theorem load_then_calls_eq_fresh_upto (eng : Engine E) (R : E → E → Prop) (hEq : Equivalence R) (hR : Respects eng R)
    (hU : EngineResetUpTo eng R) (i : Nat) (hist later : List Op) (db : String)
    (h0 : (load eng (runOps eng (create eng i) hist) db).2 = 0) :
    trace eng (load eng (runOps eng (create eng i) hist) db).1 later =
    trace eng (load eng (freshWith eng (survivors (runOps eng (create eng i) hist))) db).1 later :=
  trace_rel eng R hR later _ _ (load_rel_fresh eng R hEq hR hU _ db h0).1

/-! ### engines whose state is a valuation of numbered members -/

/-- agreement on the members that can reach a result -/
def Agree {V : Type} (live : Nat → Bool) (e1 e2 : Nat → V) : Prop := ∀ i, live i = true → e1 i = e2 i

theorem agree_equivalence {V : Type} (live : Nat → Bool) : Equivalence (Agree (V := V) live) where
  refl := fun _ _ _ => rfl
  symm := fun h i hi => (h i hi).symm
  trans := fun h1 h2 i hi => (h1 i hi).trans (h2 i hi)

/-- the reset path as the extracted tables describe it: member i gets its fresh value iff `resetBy i` -/
def unloadTable {V : Type} (fresh : Nat → V) (resetBy : Nat → Bool) (e : Nat → V) : Nat → V :=
  fun i => if resetBy i then fresh i else e i

theorem unloadTable_agrees {V : Type} (fresh : Nat → V) (resetBy live : Nat → Bool)
    (h : ∀ i, live i = true → resetBy i = true) (e : Nat → V) : Agree live (unloadTable fresh resetBy e) fresh := by
  intro i hi
  simp [unloadTable, h i hi]

end PhreeqcVerif.Reset
