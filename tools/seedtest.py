#!/usr/bin/env python3
"""Confirm a seeded change (scratch worktree) and run /verif checks against it.
usage: seedtest.py confirm <worktree> <id>      -- copies _seed/* to /verif/seeded/<id>, rebuilds the mutated library,
                                                   runs the demo on original and mutated library and the test suite
       seedtest.py check <id> <prop> [<prop>..] -- applies seeded/<id>/patch.diff to /repo, runs quick checks, reverts"""
import json
import shutil
import subprocess
import sys
from pathlib import Path

ROOT = Path(__file__).resolve().parent.parent
INC = "-DSWIG_SHARED_OBJ -DUSE_PHRQ_ALLOC -I{w}/src -I{w}/src/phreeqcpp -I{w}/src/phreeqcpp/common -I{w}/src/phreeqcpp/PhreeqcKeywords"


def sh(cmd, **kw):
    return subprocess.run(cmd, shell=True, text=True, capture_output=True, **kw)


def confirm(wt, sid):
    wt = Path(wt)
    dst = ROOT / "seeded" / sid
    dst.mkdir(parents=True, exist_ok=True)
    for f in (wt / "_seed").iterdir():
        if f.is_file() and f.suffix in (".diff", ".cpp", ".json", ".sh", ".in", ".txt", ".c", ".py", ".dat"):
            shutil.copy(f, dst / f.name)
    # regenerate the patch from the worktree to be sure it is what is applied there
    d = sh(f"git -C {wt} diff -- src")
    (dst / "patch.diff").write_text(d.stdout)
    out = {"worktree": str(wt)}
    r = sh(f"cmake --build {wt}/_b -j16 2>&1 | tail -1")
    out["build_mutated"] = r.stdout.strip()
    demo = dst / "demo.cpp"
    if demo.exists():
        src = demo.read_text()
        for name, lib, inc in (("mutated", f"{wt}/_b/libIPhreeqc.a", wt), ("original", f"{ROOT}/build/lib/libIPhreeqc.a", "/repo")):
            # the demo uses absolute paths into the worktree database; fine for both
            exe = f"/tmp/seed_demo_{sid}_{name}"
            c = sh(f"g++ -O1 -w -std=gnu++17 {INC.format(w=inc)} {demo} {lib} -lpthread -o {exe}")
            if c.returncode:
                out[f"demo_{name}"] = "compile failed: " + c.stderr[-300:]
                continue
            r = sh(exe, cwd="/tmp", timeout=600)
            out[f"demo_{name}"] = {"exit": r.returncode, "tail": (r.stdout + r.stderr)[-300:]}
            Path(exe).unlink()
    t = sh(f"ctest --test-dir {wt}/_b -j1 --timeout 900 2>&1 | grep -E 'tests passed|Failed' | head -5")
    out["ctest_mutated"] = t.stdout.strip()
    meta = {}
    if (dst / "meta.json").exists():
        try:
            meta = json.loads((dst / "meta.json").read_text())
        except Exception:
            meta = {"raw": (dst / "meta.json").read_text()[:2000]}
    meta["confirmed_by_verif"] = out
    (dst / "meta.json").write_text(json.dumps(meta, indent=1))
    print(json.dumps(out, indent=1))


def check(sid, props, tier="quick", inplace=False):
    """run checks against the seeded change. Default: isolated (scratch worktree of /repo with the patch applied, private
    build/lean/evidence dirs) so that concurrent work on /repo is not disturbed; --inplace applies it to /repo itself."""
    import os
    patch = ROOT / "seeded" / sid / "patch.diff"
    env = dict(os.environ)
    scratch = Path(f"/tmp/seedrun/{sid}")
    if inplace:
        assert sh("git -C /repo status --short -- src").stdout.strip() == "", "/repo not clean"
        a = sh(f"git -C /repo apply {patch}")
    else:
        sh(f"git -C /repo worktree remove --force {scratch}/repo")
        shutil.rmtree(scratch, ignore_errors=True)
        scratch.mkdir(parents=True)
        sh(f"git -C /repo worktree add --detach {scratch}/repo HEAD")
        a = sh(f"git -C {scratch}/repo apply {patch}")
        sh(f"rsync -a {ROOT}/lean/ {scratch}/lean/")
        (scratch / "build").mkdir()
        # reuse the already configured library build as a starting point (ninja rebuilds what differs)
        env.update(VERIF_REPO=f"{scratch}/repo", VERIF_LEAN=f"{scratch}/lean", VERIF_BUILD=f"{scratch}/build",
                   VERIF_EVID=f"{scratch}/ev", VERIF_REPLAYS=f"{scratch}/rp")
    if a.returncode:
        print("patch does not apply:", a.stderr)
        return
    res = {}
    try:
        for p in props:
            r = sh(f"python3 {ROOT}/tools/vcheck.py --prop {p} --tier {tier}", cwd=ROOT, timeout=7200, env=env)
            lines = [l for l in r.stdout.splitlines() if l.startswith("VIOLATION") or "violation:" in l or " OK:" in l]
            res[p] = {"exit": r.returncode, "lines": [l[:400] for l in lines[:4]]}
            print(p, "exit", r.returncode)
            for l in lines[:4]:
                print("   ", l[:400])
            if r.returncode not in (0, 1):
                print(r.stdout[-1500:], r.stderr[-1500:])
    finally:
        if inplace:
            sh("git -C /repo checkout -- .")
        else:
            sh(f"git -C /repo worktree remove --force {scratch}/repo")
            shutil.rmtree(scratch, ignore_errors=True)
    mp = ROOT / "seeded" / sid / "meta.json"
    meta = json.loads(mp.read_text()) if mp.exists() else {}
    meta.setdefault("verif_checks", {}).update(res)
    mp.write_text(json.dumps(meta, indent=1))


if __name__ == "__main__":
    if sys.argv[1] == "confirm":
        confirm(sys.argv[2], sys.argv[3])
    else:
        tier = "quick"
        args = sys.argv[3:]
        if "--thorough" in args:
            args.remove("--thorough")
            tier = "thorough"
        inplace = "--inplace" in args
        if inplace:
            args.remove("--inplace")
        check(sys.argv[2], args, tier, inplace)
