import PhreeqcVerif.Model.Transport
/-! C11 (first version; extended below) -/
namespace PhreeqcVerif.Transport

/-- after a forward shift the column has the same number of cells -/
theorem shiftF_length (c : Col Rat) : (shiftF c).cells.length = c.cells.length := by
  simp [shiftF]

end PhreeqcVerif.Transport
