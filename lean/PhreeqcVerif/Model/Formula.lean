/-! Model of the chemical-formula parser of PHREEQC (`parse.cpp`: `get_elts_in_species`, `get_elt`, `get_num`),
exactly as coded: nested parentheses with a trailing multiplier, `:n` hydrate tails (the recursive call after a colon
runs to the end of the formula *or to the next right parenthesis, which it consumes*), numbers = digits with at most
one decimal point (absent = 1), element names = capital letter + lower-case letters/underscores, or `[...]` names,
`e-`; parsing stops at the first `+` or `-` (the charge is not read here) or at the end of the string.
The global `paren_count` is threaded through explicitly.  Errors (`return ERROR` or an `error_msg`) are `none`.
Coefficients are exact rationals: the decimal value of the token (the C code holds the nearest double). -/
namespace PhreeqcVerif.Formula

abbrev Elt := String

/-! character classes on ASCII codes (the C locale of `isupper`, `islower`, `isdigit`) -/
def isCh (c : Char) (code : Nat) : Bool := c.toNat == code
def isUp (c : Char) : Bool := 65 ≤ c.toNat && c.toNat ≤ 90
def isDig (c : Char) : Bool := 48 ≤ c.toNat && c.toNat ≤ 57
/-- `islower(c) || c == '_'` -/
def isLow (c : Char) : Bool := (97 ≤ c.toNat && c.toNat ≤ 122) || c.toNat == 95
/-- `isdigit(c) || c == '.'` -/
def isNumCh (c : Char) : Bool := isDig c || isCh c 46

/-- `get_num`: longest prefix of digits with at most one '.' -/
def spanNum : List Char → Bool → List Char × List Char
  | [], _ => ([], [])
  | c :: t, dot =>
    if isDig c then ((c :: (spanNum t dot).1), (spanNum t dot).2)
    else if isCh c 46 && !dot then ((c :: (spanNum t true).1), (spanNum t true).2)
    else ([], c :: t)

def digitsVal (ds : List Char) : Nat := ds.foldl (fun a c => a * 10 + (c.toNat - 48)) 0

/-- value `strtod` gives to a token made of digits and at most one '.' ("." alone is 0) -/
def numVal (tok : List Char) : Rat :=
  let ip := tok.takeWhile (fun c => !isCh c 46)
  let fp := (tok.dropWhile (fun c => !isCh c 46)).drop 1
  (digitsVal ip : Rat) + (digitsVal fp : Rat) / ((10 ^ fp.length : Nat) : Rat)

/-- value of a number token; the empty token (no number written) is 1 -/
def numOr1 (tok : List Char) : Rat := if tok.isEmpty then 1 else numVal tok

def getNum (s : List Char) : Rat × List Char := (numOr1 (spanNum s false).1, (spanNum s false).2)

/-- lower-case/underscore tail of an element name -/
def spanLow : List Char → List Char × List Char
  | [] => ([], [])
  | c :: t => if isLow c then (c :: (spanLow t).1, (spanLow t).2) else ([], c :: t)

/-- the `[`…`]` loop of `get_elt` (input = text after the `[`): characters up to and including the first `]`
that is not the very first character; a missing `]` is an error.  (`[` at the very end of the string is an error: since /repo 78dd29d4 the loop tests for the end before consuming.) -/
def bracket : List Char → Option (List Char × List Char)
  | [] => none
  | c :: t =>
    if isCh c 93 then some ([], c :: t) else
    match t with
    | [] => none
    | d :: t' =>
      if isCh d 93 then some ([c, d], t') else
      match bracket (d :: t') with
      | none => none
      | some (a, r) => some (c :: a, r)

/-- `get_elt` -/
def getElt : List Char → Option (List Char × List Char)
  | [] => none
  | c :: t =>
    if isCh c 91 then
      match bracket t with
      | none => none
      | some (b, r) => some (c :: (b ++ (spanLow r).1), (spanLow r).2)
    else some (c :: (spanLow t).1, (spanLow t).2)

def scale (d : Rat) (l : List (Elt × Rat)) : List (Elt × Rat) := l.map fun p => (p.1, p.2 * d)

def startsElt (c : Char) (t : List Char) : Bool :=
  isUp c || (isCh c 101 && (match t with | [] => false | d :: _ => isCh d 45)) || isCh c 91

/-- `get_elts_in_species(&ptr, coef)`: result = (entries appended to `elt_list`, rest of the text, `paren_count`).
`fuel` bounds the recursion; `length + 1` always suffices (every call consumes a character). -/
def elts : Nat → Rat → List Char → Nat → Option (List (Elt × Rat) × List Char × Nat)
  | 0, _, _, _ => none
  | fuel + 1, coef, s, pc =>
    match s with
    | [] => if pc != 0 then none else some ([], [], pc)
    | c :: t =>
      if isCh c 43 || isCh c 45 then (if pc != 0 then none else some ([], c :: t, pc))
      else if isCh c 41 then (if pc == 0 then none else some ([], t, pc - 1))
      else if startsElt c t then
        match getElt (c :: t) with
        | none => none
        | some (name, r1) =>
          match elts fuel coef (getNum r1).2 pc with
          | none => none
          | some (l, r, pc') => some ((String.ofList name, (getNum r1).1 * coef) :: l, r, pc')
      else if isCh c 40 then
        match elts fuel coef t (pc + 1) with
        | none => none
        | some (l1, r1, pc1) =>
          match elts fuel coef (getNum r1).2 pc1 with
          | none => none
          | some (l2, r, pc2) => some (scale (getNum r1).1 l1 ++ l2, r, pc2)
      else if isCh c 58 then
        match elts fuel coef (getNum t).2 pc with
        | none => none
        | some (l1, r1, pc1) =>
          match elts fuel coef r1 pc1 with
          | none => none
          | some (l2, r, pc2) => some (scale (getNum t).1 l1 ++ l2, r, pc2)
      else none

/-- the element list of a formula (`count_elts = 0; paren_count = 0; get_elts_in_species(&ptr, coef)`) -/
def parseChars (coef : Rat) (s : List Char) : Option (List (Elt × Rat)) :=
  match elts (s.length + 1) coef s 0 with
  | some (l, _, _) => some l
  | none => none

def parseFormula (s : String) : Option (List (Elt × Rat)) := parseChars 1 s.toList

/-- text left unread by the parser (the charge) -/
def formulaRest (s : String) : Option String :=
  match elts (s.length + 1) 1 s.toList 0 with
  | some (_, r, _) => some (String.ofList r)
  | none => none

/-! ### Abstract syntax of well-formed formulas (for the print/parse theorems) -/

/-- a formula body: sequence of `Element number` and `( body ) number` items; names and numbers are kept as the
character tokens that are printed -/
inductive Seq where
  | nil
  | elt (name num : List Char) (rest : Seq)
  | paren (body : Seq) (num : List Char) (rest : Seq)

namespace Seq

def print : Seq → List Char
  | nil => []
  | elt n k r => n ++ (k ++ print r)
  | paren b k r => '(' :: (print b ++ (')' :: (k ++ print r)))

/-- the element list the formula denotes (entries in reading order, not combined), multiplied by `coef` -/
def denote (coef : Rat) : Seq → List (Elt × Rat)
  | nil => []
  | elt n k r => (String.ofList n, numOr1 k * coef) :: denote coef r
  | paren b k r => scale (numOr1 k) (denote coef b) ++ denote coef r

def append : Seq → Seq → Seq
  | nil, q => q
  | elt n k r, q => elt n k (append r q)
  | paren b k r, q => paren b k (append r q)

/-- a number token is valid when `get_num` reads exactly it -/
def validNum (k : List Char) : Prop := spanNum k false = (k, [])
/-- an element token is valid when it starts like an element and `get_elt` reads exactly it -/
def validElt (n : List Char) : Prop :=
  (∃ c t, n = c :: t ∧ (isUp c = true ∨ isCh c 91 = true)) ∧ getElt n = some (n, [])

def WF : Seq → Prop
  | nil => True
  | elt n k r => validElt n ∧ validNum k ∧ WF r
  | paren b k r => WF b ∧ validNum k ∧ WF r

end Seq

/-- text that cannot extend a preceding name or number token -/
def SafeStart : List Char → Prop
  | [] => True
  | c :: _ => isLow c = false ∧ isNumCh c = false

/-- text that cannot extend a preceding name token -/
def NoLow : List Char → Prop
  | [] => True
  | c :: _ => isLow c = false

end PhreeqcVerif.Formula
