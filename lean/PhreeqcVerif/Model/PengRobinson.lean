import PhreeqcVerif.Model.NumOps
/-! Peng–Robinson equation of state as coded in `Phreeqc::calc_PR(phase_ptrs, P, TK, V_m)` (prep.cpp) and
`calc_gas_binary_parameter` (gases.cpp).  Written once over `[NumOps α]`:
`Float` executes it (driver `pmodel gas`, compared with the real `calc_PR` called in-process),
`Rat` (with uninterpreted `sqrt cbrt cos acos ln exp`) carries the theorems of `Properties/C19.lean`.

Order of the floating-point operations follows the C++ source so that the `Float` instance reproduces the
code to the last bits (the correspondence check allows 1e-10 relative). -/
namespace PhreeqcVerif.PR
open NumOps

variable {α : Type} [NumOps α] [∀ a b : α, Decidable (a < b)] [∀ a b : α, Decidable (a ≤ b)]

/-- `x == 0` of the C++ on doubles -/
def isZero (x : α) : Bool := decide (x ≤ lit 0) && decide (lit 0 ≤ x)

/-- `fabs` -/
def absv (x : α) : α := if x < lit 0 then -x else x

/-- `R_LITER_ATM` (global_structures.h) -/
def gasR : α := lit (820597 / 10000000)

/-! ## component parameters -/

/-- `pr_a = 0.457235 * R * R * T_c * T_c / P_c` -/
def prA (R tc pc : α) : α := lit (457235 / 1000000) * R * R * tc * tc / pc

/-- `pr_b = 0.077796 * R * T_c / P_c` -/
def prB (R tc pc : α) : α := lit (77796 / 1000000) * R * tc / pc

/-- `kk = 0.37464 + oo * (1.54226 - 0.26992 * oo)` -/
def kappa (oo : α) : α := lit (37464 / 100000) + oo * (lit (154226 / 100000) - lit (26992 / 100000) * oo)

/-- `pr_alpha = pow(1 + kk * (1 - sqrt(T_r)), 2)` with `T_r = TK / T_c` -/
def alphaT (tk tc oo : α) : α :=
  let s := lit 1 + kappa oo * (lit 1 - sqrt (tk / tc))
  s * s

/-- database constants of a gas (class phase: name, t_c, p_c, omega) -/
structure Gas (α : Type) where
  name : String
  tc : α
  pc : α
  omega : α

/-- one entry of `phase_ptrs` at the mixing stage: `pr_a`, `pr_b`, `pr_alpha`, `fraction_x` -/
structure Comp (α : Type) where
  name : String
  a : α
  b : α
  alpha : α
  x : α

/-! ## binary interaction factor (`calc_gas_binary_parameter`) -/

/-- the hard-coded Soreide–Whitson factors for the partner of `H2O(g)` -/
def specialPartner (n : String) : Option α :=
  if n == "CO2(g)" then some (lit (81 / 100))
  else if n == "H2S(g)" || n == "H2Sg(g)" then some (lit (81 / 100))
  else if n == "CH4(g)" || n == "Mtg(g)" || n == "Methane(g)" then some (lit (51 / 100))
  else if n == "N2(g)" || n == "Ntg(g)" then some (lit (51 / 100))
  else if n == "Ethane(g)" then some (lit (51 / 100))
  else if n == "Propane(g)" then some (lit (45 / 100))
  else none

/-- `gas_binary_parameters.find(pair)` on an association list holding the map's content -/
def lookupK (tab : List ((String × String) × α)) (n1 n2 : String) : Option α :=
  match tab with
  | [] => none
  | ((a, b), k) :: rest => if a == n1 && b == n2 then some k else lookupK rest n1 n2

/-- checked on every run for the map the engine holds: both key orders are present with the same value
(`read_gas_binary_parameters` stores `(gas1, gas2)` and `(gas2, gas1)`) -/
def symmetricTab [BEq α] (tab : List ((String × String) × α)) : Bool :=
  tab.all fun e => lookupK tab e.1.1 e.1.2 == lookupK tab e.1.2 e.1.1

/-- `calc_gas_binary_parameter(name1, name2)`: `1 - k` from the map, else the hard-coded table, else 1 -/
def binaryFactor (tab : List ((String × String) × α)) (n1 n2 : String) : α :=
  match lookupK tab n1 n2 with
  | some k => lit 1 - k
  | none =>
    let f1 : α := if n1 == "H2O(g)" then (match specialPartner n2 with | some v => v | none => lit 1) else lit 1
    if n2 == "H2O(g)" then (match specialPartner n1 with | some v => v | none => f1) else f1

/-! ## mixing rules -/

/-- `a_aa = sqrt(a_i α_i a_j α_j) * binary factor` -/
def aaPair (kf : String → String → α) (ci cj : Comp α) : α :=
  sqrt (ci.a * ci.alpha * cj.a * cj.alpha) * kf ci.name cj.name

/-- inner loop over `i1`: running `(a_aa_sum, a_aa_sum2)`; components with `fraction_x == 0` are skipped -/
def mixInner (kf : String → String → α) (ci : Comp α) (cs : List (Comp α)) (acc : α × α) : α × α :=
  cs.foldl (fun (st : α × α) cj =>
    if isZero cj.x then st
    else
      let aa := aaPair kf ci cj
      (st.1 + ci.x * cj.x * aa, st.2 + cj.x * aa)) acc

/-- result of the mixing loops: `b_sum`, `a_aa_sum`, and `pr_aa_sum2` of every component -/
structure Mix (α : Type) where
  bsum : α
  asum : α
  aa2 : List α

/-- outer loop over `i` -/
def mix (kf : String → String → α) (cs : List (Comp α)) : Mix α :=
  cs.foldl (fun (m : Mix α) ci =>
    let r := mixInner kf ci cs (m.asum, lit 0)
    { bsum := m.bsum + ci.x * ci.b, asum := r.1, aa2 := m.aa2 ++ [r.2] }) ⟨lit 0, lit 0, []⟩

/-! ## equation of state -/

/-- `P = R_TK / (V_m - b_sum) - a_aa_sum / (V_m * (V_m + 2 * b_sum) - b2)` -/
def prP (rt b a v : α) : α := rt / (v - b) - a / (v * (v + lit 2 * b) - b * b)

/-- coefficients `r3[1..3]` of `V³ + r1 V² + r2 V + r3 = 0` -/
structure Cubic (α : Type) where
  r1 : α
  r2 : α
  r3 : α

def cubicOf (rt b a p : α) : Cubic α :=
  let b2 := b * b
  { r1 := b - rt / p
    r2 := lit (-3) * b2 + (a - rt * lit 2 * b) / p
    r3 := b2 * b + (rt * b2 - b * a) / p }

def Cubic.eval (c : Cubic α) (v : α) : α := v * v * v + c.r1 * (v * v) + c.r2 * v + c.r3

/-- `rp`, `rq`, `rz` of the depressed cubic `t³ + rp t + rq`, `V = t - r1/3` -/
def Cubic.rp (c : Cubic α) : α := c.r2 - c.r1 * c.r1 / lit 3
def Cubic.rq (c : Cubic α) : α :=
  (lit 2 * (c.r1 * c.r1) * c.r1 - lit 9 * c.r1 * c.r2) / lit 27 + c.r3
def Cubic.rz (c : Cubic α) : α :=
  let rp := c.rp
  c.rq * c.rq / lit 4 + rp * rp * rp / lit 27

/-- discriminant as coded for the three-root test -/
def Cubic.disct (c : Cubic α) : α :=
  lit 18 * c.r1 * c.r2 * c.r3 - lit 4 * (c.r1 * c.r1 * c.r1) * c.r3 + c.r1 * c.r1 * c.r2 * c.r2
    - lit 4 * (c.r2 * c.r2 * c.r2) - lit 27 * c.r3 * c.r3

/-- Cardano, first branch (`rz ≥ 0`, `ri + rq/2 ≤ 0`) -/
def rootA (c : Cubic α) : α :=
  let rq := c.rq
  let ri := sqrt c.rz
  cbrt (ri - rq / lit 2) + cbrt (-ri - rq / lit 2) - c.r1 / lit 3

/-- Cardano, second branch (`rz ≥ 0`, `ri + rq/2 > 0`) -/
def rootB (c : Cubic α) : α :=
  let rq := c.rq
  let ri := sqrt c.rz
  let w := -(cbrt (ri + rq / lit 2))
  w - c.rp / (lit 3 * w) - c.r1 / lit 3

/-- trigonometric branch (`rz < 0`) -/
def rootC (c : Cubic α) : α :=
  let rp := c.rp
  let ri := sqrt (-(rp * rp * rp) / lit 27)
  let th := acos (-c.rq / lit 2 / ri)
  lit 2 * cbrt ri * cos (th / lit 3) - c.r1 / lit 3

/-- which branch `calc_PR` takes: 0 / 1 / 2 -/
def Cubic.branch (c : Cubic α) : Nat :=
  if lit 0 ≤ c.rz then (if sqrt c.rz + c.rq / lit 2 ≤ lit 0 then 0 else 1) else 2

/-- molar volume chosen by `calc_PR` for a given pressure -/
def vmOfP (rt b a p : α) : α :=
  let c := cubicOf rt b a p
  match c.branch with
  | 0 => rootA c
  | 1 => rootB c
  | _ => rootC c

/-! ## fugacity coefficient -/

def lnPhiLo : α := lit (-46 / 10)
def lnPhiHi : α := lit (444 / 100)

/-- `phi > 4.44 ? 4.44 : (phi < -4.6 ? -4.6 : phi)` -/
def clampPhi (phi : α) : α := if lnPhiHi < phi then lnPhiHi else if phi < lnPhiLo then lnPhiLo else phi

/-- the unclamped expression for ln φ_i -/
def lnPhiRaw (rt b a p v bi aa2i : α) : α :=
  let rz := p * v / rt
  let A := a * p / (rt * rt)
  let B := b * p / rt
  let Br := bi / b
  Br * (rz - lit 1) - ln (rz - B)
    + A / (lit (2828427 / 1000000) * B) * (Br - lit 2 * aa2i / a)
      * ln ((rz + lit (241421356 / 100000000) * B) / (rz - lit (41421356 / 100000000) * B))

/-- ln φ_i as stored (`phi` before `exp`): clamp to [-4.6, 4.44]; `-4.6` when `z ≤ B` -/
def lnPhi (rt b a p v bi aa2i : α) : α :=
  if b * p / rt < p * v / rt then clampPhi (lnPhiRaw rt b a p v bi aa2i) else lnPhiLo

/-! ## three-root search of the volume-given mode (`f_Vm`, `halve`, the secant loop) -/

/-- `f_Vm`: dP/dV -/
def fVm (rt b a v : α) : α :=
  let ff := v * (v + lit 2 * b) - b * b
  (-rt) / ((v - b) * (v - b)) + a * lit 2 * (v + b) / (ff * ff)

/-- `halve(f, x0, x1, tol)`: at most 100 interval halvings -/
def halveLoop (f : α → α) (tol : α) : Nat → α → α → α → α
  | 0, x0, _, dx => x0 + dx
  | n + 1, x0, y0, dx =>
    let dx := dx * lit (1 / 2)
    let x := x0 + dx
    let y := f x
    if dx < tol || isZero y then x0 + dx
    else if lit 0 ≤ y0 * y then halveLoop f tol n x y dx
    else halveLoop f tol n x0 y0 dx

def halve (f : α → α) (x0 x1 tol : α) : α := halveLoop f tol 100 x0 (f x0) (x1 - x0)

structure Search (α : Type) where
  v1 : α
  vinit : α
  dpdv : α
  it : Nat
  halved : Bool

/-- body of `while (fabs(dp_dv) > 1e-11 && it < 40)`; `fuel = 40 - it` -/
def searchLoop (f : α → α) : Nat → Search α → Search α
  | 0, s => s
  | fuel + 1, s =>
    if ¬ (lit (1 / 100000000000) < absv s.dpdv) then s else
    let ddp : α := lit (1 / 1000000000)
    let dpdv2 := f (s.v1 - ddp)
    let v1 := s.v1 - (s.dpdv * ddp / (s.dpdv - dpdv2))
    let (v1, vinit, halved) : α × α × Bool :=
      if !s.halved && (s.vinit < v1 || v1 < lit (3 / 100)) then
        let vinit := if lit (329 / 1000) < s.vinit then s.vinit - lit (1 / 10) else s.vinit - lit (5 / 100)
        if vinit < lit (3 / 100) then
          let vi := halve f (lit (3 / 100)) (lit 1) (lit (1 / 1000))
          let vi := if f (vi - lit (2 / 1000)) < lit 0 then halve f (vi + lit (2 / 1000)) (lit 1) (lit (1 / 1000)) else vi
          (vi, vi, true)
        else (vinit, vinit, s.halved)
      else (v1, s.vinit, s.halved)
    let dpdv := f v1
    let (v1, dpdv) : α × α :=
      if absv dpdv < lit (1 / 100000000000) then
        if f (v1 - lit (1 / 10000)) < lit 0 then
          let v := halve f (v1 + lit (1 / 10000)) (lit 1) (lit (1 / 1000))
          (v, f v)
        else (v1, dpdv)
      else (v1, dpdv)
    searchLoop f fuel { v1 := v1, vinit := vinit, dpdv := dpdv, it := s.it + 1, halved := halved }

/-- pressure of the volume-given mode: EOS pressure, replaced by the pressure at the spinodal volume `v1`
when the three-root search applies (`search` = `iterations > 0`) and `V_m < v1`; `P ≤ 0` becomes 1 -/
def pOfVm (search : Bool) (rt b a v : α) : α :=
  let p0 := prP rt b a v
  let p :=
    if search && decide (p0 < lit 150) && decide (v < lit (101 / 100)) then
      let c := cubicOf rt b a p0
      if lit 0 < c.disct then
        let f := fVm rt b a
        let v0 : α := lit (729 / 1000)
        let s := searchLoop f 40 { v1 := v0, vinit := v0, dpdv := f v0, it := 0, halved := false }
        if v < s.v1 && s.it < 40 then prP rt b a s.v1 else p0
      else p0
    else p0
  if p ≤ lit 0 then lit 1 else p

/-! ## the whole of `calc_PR(phase_ptrs, P, TK, V_m)` -/

/-- per component: `fraction_x`, `pr_p`, ln φ (clamped, = `pr_si_f * LOG_10`) -/
structure CompOut (α : Type) where
  x : α
  p : α
  lnphi : α

structure Out (α : Type) where
  vm : α
  p : α
  bsum : α
  asum : α
  comps : List (CompOut α)

/-- the record of one component: `fraction_x == 0` gives `pr_p = 0`, `pr_phi = 1` (ln φ = 0), else the share and ln φ -/
def compOut (rt b a p vm : α) (c : Comp α) (aa2 : α) : CompOut α :=
  if isZero c.x then { x := c.x, p := lit 0, lnphi := lit 0 }
  else { x := c.x, p := c.x * p, lnphi := lnPhi rt b a p vm c.b aa2 }

/-- assemble the result from the mixture sums and the chosen `(P, V_m)` -/
def outOf (rt : α) (cs : List (Comp α)) (m : Mix α) (p vm : α) : Out α :=
  { vm := vm, p := p, bsum := m.bsum, asum := m.asum
    comps := (cs.zip m.aa2).map fun (c, aa2) => compOut rt m.bsum m.asum p vm c aa2 }

/-- mole fractions: a single gas has `fraction_x = 1`; otherwise `moles_x / m_sum` with `m_sum` the running sum
of the non-zero `moles_x`; `none` = the early `return (OK)` for `m_sum == 0` -/
def fractions (moles : List α) : Option (List α) :=
  match moles with
  | [_] => some [lit 1]
  | _ =>
    let msum := moles.foldl (fun acc m => if isZero m then acc else acc + m) (lit 0)
    if isZero msum then none else some (moles.map fun m => m / msum)

def comps (tk : α) (gs : List (Gas α)) (xs : List α) : List (Comp α) :=
  (gs.zip xs).map fun (g, x) =>
    { name := g.name, a := prA gasR g.tc g.pc, b := prB gasR g.tc g.pc, alpha := alphaT tk g.tc g.omega, x := x }

/-- `vGiven = (V_m != 0)`; `search = (iterations > 0)` -/
def calcPR (tab : List ((String × String) × α)) (search : Bool) (gs : List (Gas α)) (moles : List α)
    (p tk vm : α) : Option (Out α) :=
  match fractions moles with
  | none => none
  | some xs =>
    let cs := comps tk gs xs
    let m := mix (binaryFactor tab) cs
    let rt := gasR * tk
    let pv : α × α :=
      if isZero vm then
        let p := if p < lit (1 / 10000000000) then lit (1 / 10000000000) else p
        (p, vmOfP rt m.bsum m.asum p)
      else (pOfVm search rt m.bsum m.asum vm, vm)
    some (outOf rt cs m pv.1 pv.2)

/-! ## `calc_PR()` of gases.cpp (numerical fixed-volume path, called by `calc_fixed_volume_gas_pressures`) -/

/-- `P = 0; while (P <= 0) { P = EOS(V_m); if (P <= 0) V_m *= 2.0; }` — the molar volume is doubled until the
Peng–Robinson pressure is positive, and the doubled value is the one stored in the gas phase -/
def doubleLoop (rt b a : α) : Nat → α → α × α
  | 0, v => (prP rt b a v, v)
  | fuel + 1, v =>
    let p := prP rt b a v
    if p ≤ lit 0 then doubleLoop rt b a fuel (v * lit 2) else (p, v)

/-- the search part of `pOfVm` applied to an already computed pressure `p0` -/
def searchP (search : Bool) (rt b a v p0 : α) : α :=
  if search && decide (p0 < lit 150) && decide (v < lit (101 / 100)) then
    let c := cubicOf rt b a p0
    if lit 0 < c.disct then
      let f := fVm rt b a
      let v0 : α := lit (729 / 1000)
      let s := searchLoop f 40 { v1 := v0, vinit := v0, dpdv := f v0, it := 0, halved := false }
      if v < s.v1 && s.it < 40 then prP rt b a s.v1 else p0
    else p0
  else p0

/-- `calc_PR()`: mole fractions `moles / m_sum` over all gas unknowns, `V_m = volume / m_sum`, doubling loop,
three-root search, fugacity coefficients; `none` = `m_sum == 0` -/
def calcPRnum (tab : List ((String × String) × α)) (search : Bool) (gs : List (Gas α)) (moles : List α)
    (vol tk : α) : Option (Out α) :=
  let msum := moles.foldl (fun acc m => acc + m) (lit 0)
  if isZero msum then none else
  let xs := moles.map fun m => m / msum
  let cs := comps tk gs xs
  let m := mix (binaryFactor tab) cs
  let rt := gasR * tk
  let d := doubleLoop rt m.bsum m.asum 2200 (vol / msum)
  let p := searchP search rt m.bsum m.asum d.2 d.1
  let p := if p ≤ lit 0 then lit 1 else p
  some (outOf rt cs m p d.2)

end PhreeqcVerif.PR
