import PhreeqcVerif.Model.BasicLex
/-! Expressions of the BASIC interpreter (C17): syntax tree, the seven-level recursive-descent parser exactly as
`PBasic::factor / upexpr / term / sexpr / relexpr / andexpr / expr` consume tokens, the token printer used by the
round-trip theorem, and the evaluator (`valrec` semantics, quirks included).

The C code evaluates while it parses. Inside one expression nothing is skipped (no short circuit), so
"parse the expression at the current token position, then evaluate the tree" yields the same value / the same
error-or-not as the interleaved C code; at *statement* level the model stays token driven (`Model/BasicExec.lean`). -/
namespace PhreeqcVerif.Basic

inductive BinOp where
  | up | times | div | mod_ | plus | minus | eq | lt | gt | le | ge | ne | and_ | or_ | xor_
deriving DecidableEq, Repr

/-- prefix operators / functions whose operand is a *factor* (`realfactor`, `strfactor`, `intfactor`) -/
inductive UnFn where
  | neg | pos | not_ | sqr | sqrt | ceil | floor | log10 | sin | cos | tan | arctan | log | exp | abs | sgn
  | str_ | val | chr_ | asc | len
deriving DecidableEq, Repr

inductive TrimFn where
  | ltrim | rtrim | trim
deriving DecidableEq, Repr

mutual
inductive Expr (α : Type) where
  | num (x : α)
  | str (s : String)
  | var (name : String) (subs : Args α)
  | un (f : UnFn) (e : Expr α)
  | eol | eolNotab | noNewline
  | get (a : Args α)
  | getS (a : Args α)
  | instr (a b : Expr α)
  | trimf (f : TrimFn) (a : Expr α)
  | pad (a n : Expr α)
  | mid2 (s i : Expr α)
  | mid3 (s i j : Expr α)
  | fmt (isE : Bool) (x w p : Expr α)          -- STR_F$(x, w, p) / STR_E$(x, w, p)
  | bin (op : BinOp) (a b : Expr α)
inductive Args (α : Type) where
  | nil
  | cons (e : Expr α) (rest : Args α)
end

namespace Args
variable {α : Type}
def length : Args α → Nat
  | .nil => 0
  | .cons _ r => r.length + 1
def isNil : Args α → Bool
  | .nil => true
  | _ => false
end Args

/-! ### errors -/

inductive Err where
  | syntax (what : String)
  | typeMismatch
  | badSubscript
  | undefLine
  | forWoNext | nextWoFor | whileWoWend | wendWoWhile | returnWoGosub
  | outOfData
  | extra
  | arrayAlready
  | illegal
  | stop
  | lex (e : LexErr)
  | notSaved
  | lineTooLarge
  | unsupported (what : String)   -- outside the model (chemistry functions, PEEK/POKE, editor commands …)
  | resource                       -- array too large for the model
  | fuel
deriving DecidableEq, Repr

/-! ### parser -/

section Parser
variable {α : Type}

def unFnOfK : K → Option UnFn
  | .minus => some .neg | .plus => some .pos | .not_ => some .not_ | .sqr => some .sqr | .sqrt => some .sqrt
  | .ceil => some .ceil | .floor => some .floor | .log10 => some .log10 | .sin => some .sin | .cos => some .cos
  | .tan => some .tan | .arctan => some .arctan | .log => some .log | .exp => some .exp | .abs => some .abs
  | .sgn => some .sgn | .str_ => some .str_ | .val => some .val | .chr_ => some .chr_ | .asc => some .asc
  | .len => some .len
  | _ => none

def trimFnOfK : K → Option TrimFn
  | .ltrim => some .ltrim | .rtrim => some .rtrim | .trim => some .trim
  | _ => none

def termOp : K → Option BinOp
  | .times => some .times | .div => some .div | .mod_ => some .mod_
  | _ => none
def sexprOp : K → Option BinOp
  | .plus => some .plus | .minus => some .minus
  | _ => none
def relOp : K → Option BinOp
  | .eq => some .eq | .lt => some .lt | .gt => some .gt | .le => some .le | .ge => some .ge | .ne => some .ne
  | _ => none
def exprOp : K → Option BinOp
  | .or_ => some .or_ | .xor_ => some .xor_
  | _ => none

def andOp : K → Option BinOp
  | .and_ => some .and_
  | _ => none

/-- the operator tokens each loop accepts (the masks of `expr`, `andexpr`, `relexpr`, `sexpr`, `term`) -/
def opAtLevel : Nat → K → Option BinOp
  | 0 => exprOp
  | 1 => andOp
  | 2 => relOp
  | 3 => sexprOp
  | 4 => termOp
  | _ => fun _ => none

/-- enumerators that are statement keywords / editor commands: `factor` answers them with a syntax error
(its `default:` branch); every other unknown enumerator is a function outside the model -/
def stmtOnlyOther (n : String) : Bool :=
  ["tokinput", "tokgotoxy", "tokpoke", "toklist", "tokrun", "toknew", "tokload", "tokmerge", "tokdel", "tokrenum",
   "tokchange_por", "tokchange_surf", "tokgraph_x", "tokgraph_y", "tokgraph_sy", "tokplot_xy", "tokrem",
   "tokvar", "toknum", "tokstr", "toksnerr"].contains n

def headOp (f : K → Option BinOp) (ts : List (Tok α)) : Option BinOp := match ts with
  | .k k :: _ => f k
  | _ => none

abbrev PRes (α : Type) (β : Type) := Except Err (β × List (Tok α))

def requireK (k : K) (ts : List (Tok α)) : Except Err (List (Tok α)) := match ts with
  | t :: r => if t.isK k then .ok r else .error (.syntax "missing token")
  | [] => .error (.syntax "missing token")

mutual
/-- `PBasic::factor` -/
def pFactor : Nat → List (Tok α) → PRes α (Expr α)
  | 0, _ => .error .fuel
  | _ + 1, [] => .error (.syntax "missing variable or command")
  | fuel + 1, t :: r =>
    match t with
    | .num x => .ok (.num x, r)
    | .str s => .ok (.str s, r)
    | .var name =>
      if headIs r .lp then
        match pExpr fuel (r.drop 1) with
        | .error e => .error e
        | .ok (e1, r1) =>
          match pArgsTail fuel r1 with
          | .error e => .error e
          | .ok (rest, r2) => .ok (.var name (.cons e1 rest), r2)
      else .ok (.var name .nil, r)
    | .snerr _ => .error (.syntax "missing \" or (")
    | .rem _ => .error (.syntax "missing \" or (")
    | .k k =>
      match unFnOfK k with
      | some f =>
        (match pFactor fuel r with
         | .error e => .error e
         | .ok (e, r') => .ok (.un f e, r'))
      | none =>
      match trimFnOfK k with
      | some f =>
        (match requireK .lp r with
         | .error e => .error e
         | .ok r1 =>
           match pFactor fuel r1 with
           | .error e => .error e
           | .ok (e, r2) =>
             match requireK .rp r2 with
             | .error e => .error e
             | .ok r3 => .ok (.trimf f e, r3))
      | none =>
      match k with
      | .lp =>
        (match pExpr fuel r with
         | .error e => .error e
         | .ok (e, r1) =>
           match requireK .rp r1 with
           | .error e => .error e
           | .ok r2 => .ok (e, r2))
      | .eol_ => .ok (.eol, r)
      | .eol_notab_ => .ok (.eolNotab, r)
      | .no_newline_ => .ok (.noNewline, r)
      | .get | .get_ =>
        (match requireK .lp r with
         | .error e => .error e
         | .ok r1 =>
           let mk : Args α → Expr α := if k == .get then .get else .getS
           if headIs r1 .rp then .ok (mk .nil, r1.drop 1)
           else
             match pExpr fuel r1 with
             | .error e => .error e
             | .ok (e1, r2) =>
               match pArgsTail fuel r2 with
               | .error e => .error e
               | .ok (rest, r3) => .ok (mk (.cons e1 rest), r3))
      | .instr =>
        (match requireK .lp r with
         | .error e => .error e
         | .ok r1 =>
           match pFactor fuel r1 with
           | .error e => .error e
           | .ok (a, r2) =>
             match requireK .comma r2 with
             | .error e => .error e
             | .ok r3 =>
               match pFactor fuel r3 with
               | .error e => .error e
               | .ok (b, r4) =>
                 match requireK .rp r4 with
                 | .error e => .error e
                 | .ok r5 => .ok (.instr a b, r5))
      | .pad =>
        (match requireK .lp r with
         | .error e => .error e
         | .ok r1 =>
           match pExpr fuel r1 with
           | .error e => .error e
           | .ok (a, r2) =>
             match requireK .comma r2 with
             | .error e => .error e
             | .ok r3 =>
               match pExpr fuel r3 with
               | .error e => .error e
               | .ok (b, r4) =>
                 match requireK .rp r4 with
                 | .error e => .error e
                 | .ok r5 => .ok (.pad a b, r5))
      | .mid_ =>
        (match requireK .lp r with
         | .error e => .error e
         | .ok r1 =>
           match pExpr fuel r1 with
           | .error e => .error e
           | .ok (s, r2) =>
             match requireK .comma r2 with
             | .error e => .error e
             | .ok r3 =>
               match pExpr fuel r3 with
               | .error e => .error e
               | .ok (i, r4) =>
                 if headIs r4 .comma then
                   match pExpr fuel (r4.drop 1) with
                   | .error e => .error e
                   | .ok (j, r5) =>
                     match requireK .rp r5 with
                     | .error e => .error e
                     | .ok r6 => .ok (.mid3 s i j, r6)
                 else
                   match requireK .rp r4 with
                   | .error e => .error e
                   | .ok r5 => .ok (.mid2 s i, r5))
      | .str_f_ | .str_e_ =>
        (match requireK .lp r with
         | .error e => .error e
         | .ok r1 =>
           match pExpr fuel r1 with
           | .error e => .error e
           | .ok (x, r2) =>
             match requireK .comma r2 with
             | .error e => .error e
             | .ok r3 =>
               match pExpr fuel r3 with
               | .error e => .error e
               | .ok (w, r4) =>
                 match requireK .comma r4 with
                 | .error e => .error e
                 | .ok r5 =>
                   match pExpr fuel r5 with
                   | .error e => .error e
                   | .ok (p, r6) =>
                     match requireK .rp r6 with
                     | .error e => .error e
                     | .ok r7 => .ok (.fmt (k == .str_e_) x w p, r7))
      | .other n => if stmtOnlyOther n then .error (.syntax "missing \" or (") else .error (.unsupported n)
      | _ => .error (.syntax "missing \" or (")

/-- `( , expr)* )` : the remaining subscripts / arguments up to and including the right parenthesis -/
def pArgsTail : Nat → List (Tok α) → PRes α (Args α)
  | 0, _ => .error .fuel
  | fuel + 1, ts =>
    if headIs ts .comma then
      match pExpr fuel (ts.drop 1) with
      | .error e => .error e
      | .ok (e, r1) =>
        match pArgsTail fuel r1 with
        | .error e => .error e
        | .ok (rest, r2) => .ok (.cons e rest, r2)
    else
      match requireK .rp ts with
      | .error e => .error e
      | .ok r => .ok (.nil, r)

/-- the binary levels by number: 0 `expr` (OR XOR), 1 `andexpr` (AND), 2 `relexpr`, 3 `sexpr` (+ -),
4 `term` (* / MOD), 5 `upexpr` (^), 6 `factor`.
`pLvl fuel l` is the C function of level `l`: for `l ≤ 4` "operand of level l+1, then the loop of level l"
(left associative), for `l = 5` `factor [ ^ upexpr ]` (right associative), for `l ≥ 6` `factor`. -/
def pLvl : Nat → Nat → List (Tok α) → PRes α (Expr α)
  | 0, _, _ => .error .fuel
  | fuel + 1, l, ts =>
    if l ≥ 6 then pFactor fuel ts
    else if l = 5 then
      match pLvl fuel 6 ts with
      | .error e => .error e
      | .ok (a, r) =>
        if headIs r .up then
          match pLvl fuel 5 (r.drop 1) with
          | .error e => .error e
          | .ok (b, r') => .ok (.bin .up a b, r')
        else .ok (a, r)
    else
      match pLvl fuel (l + 1) ts with
      | .error e => .error e
      | .ok (a, r) => pLoop fuel l a r

/-- the `while` loop of `term` / `sexpr` / `relexpr` / `andexpr` / `expr` -/
def pLoop : Nat → Nat → Expr α → List (Tok α) → PRes α (Expr α)
  | 0, _, _, _ => .error .fuel
  | fuel + 1, l, acc, ts =>
    match headOp (opAtLevel l) ts with
    | some op =>
      (match pLvl fuel (l + 1) (ts.drop 1) with
       | .error e => .error e
       | .ok (b, r) => pLoop fuel l (.bin op acc b) r)
    | none => .ok (acc, ts)

/-- `PBasic::expr` -/
def pExpr : Nat → List (Tok α) → PRes α (Expr α)
  | 0, _ => .error .fuel
  | fuel + 1, ts => pLvl fuel 0 ts
end

/-- fuel that always suffices: every token is consumed after at most 20 nested calls -/
def parseFuel (ts : List (Tok α)) : Nat := 20 * ts.length + 40

def parseExpr (ts : List (Tok α)) : PRes α (Expr α) := pExpr (parseFuel ts) ts
def parseFactor (ts : List (Tok α)) : PRes α (Expr α) := pFactor (parseFuel ts) ts

/-- `findvar` as a parser: a variable token with optional subscripts -/
def parseVarRef (ts : List (Tok α)) : PRes α (String × Args α) := match ts with
  | .var name :: r =>
    if headIs r .lp then
      match parseExpr (r.drop 1) with
      | .error e => .error e
      | .ok (e1, r1) =>
        match pArgsTail (parseFuel r1) r1 with
        | .error e => .error e
        | .ok (rest, r2) => .ok ((name, .cons e1 rest), r2)
    else .ok ((name, .nil), r)
  | _ => .error (.syntax "can`t find variable")

end Parser

/-! ### printer (tokens) -/

section Printer
variable {α : Type}

def kOfBin : BinOp → K
  | .up => .up | .times => .times | .div => .div | .mod_ => .mod_ | .plus => .plus | .minus => .minus
  | .eq => .eq | .lt => .lt | .gt => .gt | .le => .le | .ge => .ge | .ne => .ne
  | .and_ => .and_ | .or_ => .or_ | .xor_ => .xor_

def kOfUn : UnFn → K
  | .neg => .minus | .pos => .plus | .not_ => .not_ | .sqr => .sqr | .sqrt => .sqrt | .ceil => .ceil
  | .floor => .floor | .log10 => .log10 | .sin => .sin | .cos => .cos | .tan => .tan | .arctan => .arctan
  | .log => .log | .exp => .exp | .abs => .abs | .sgn => .sgn | .str_ => .str_ | .val => .val
  | .chr_ => .chr_ | .asc => .asc | .len => .len

def kOfTrim : TrimFn → K
  | .ltrim => .ltrim | .rtrim => .rtrim | .trim => .trim

/-- grammar level of a binary operator: 0 = `expr` (OR XOR), 1 = `andexpr`, 2 = `relexpr`, 3 = `sexpr`,
4 = `term`, 5 = `upexpr`; 6 = `factor` -/
def binLevel : BinOp → Nat
  | .or_ | .xor_ => 0
  | .and_ => 1
  | .eq | .lt | .gt | .le | .ge | .ne => 2
  | .plus | .minus => 3
  | .times | .div | .mod_ => 4
  | .up => 5

def exprLevel : Expr α → Nat
  | .bin op _ _ => binLevel op
  | _ => 6

mutual
/-- tokens of `e` in a position where the grammar expects level `lvl`: parenthesised exactly when the
top operator of `e` binds weaker than the position allows -/
def printAt : Nat → Expr α → List (Tok α)
  | lvl, .bin op a b =>
    let l := binLevel op
    let body : List (Tok α) :=
      if op == .up then printAt 6 a ++ [.k .up] ++ printAt 5 b          -- factor ^ upexpr
      else printAt l a ++ [.k (kOfBin op)] ++ printAt (l + 1) b           -- left associative
    if l < lvl then [.k .lp] ++ body ++ [.k .rp] else body
  | _, .num x => [.num x]
  | _, .str s => [.str s]
  | _, .var name .nil => [.var name]
  | _, .var name (.cons e r) => [.var name, .k .lp] ++ printAt 0 e ++ printArgsTail r
  | _, .un f e => [.k (kOfUn f)] ++ printAt 6 e
  | _, .eol => [.k .eol_]
  | _, .eolNotab => [.k .eol_notab_]
  | _, .noNewline => [.k .no_newline_]
  | _, .get .nil => [.k .get, .k .lp, .k .rp]
  | _, .get (.cons e r) => [.k .get, .k .lp] ++ printAt 0 e ++ printArgsTail r
  | _, .getS .nil => [.k .get_, .k .lp, .k .rp]
  | _, .getS (.cons e r) => [.k .get_, .k .lp] ++ printAt 0 e ++ printArgsTail r
  | _, .instr a b => [.k .instr, .k .lp] ++ printAt 6 a ++ [.k .comma] ++ printAt 6 b ++ [.k .rp]
  | _, .trimf f a => [.k (kOfTrim f), .k .lp] ++ printAt 6 a ++ [.k .rp]
  | _, .pad a n => [.k .pad, .k .lp] ++ printAt 0 a ++ [.k .comma] ++ printAt 0 n ++ [.k .rp]
  | _, .mid2 s i => [.k .mid_, .k .lp] ++ printAt 0 s ++ [.k .comma] ++ printAt 0 i ++ [.k .rp]
  | _, .mid3 s i j =>
    [.k .mid_, .k .lp] ++ printAt 0 s ++ [.k .comma] ++ printAt 0 i ++ [.k .comma] ++ printAt 0 j ++ [.k .rp]
  | _, .fmt isE x w p =>
    [.k (if isE then .str_e_ else .str_f_), .k .lp] ++ printAt 0 x ++ [.k .comma] ++ printAt 0 w ++ [.k .comma]
      ++ printAt 0 p ++ [.k .rp]
def printArgsTail : Args α → List (Tok α)
  | .nil => [.k .rp]
  | .cons e r => [.k .comma] ++ printAt 0 e ++ printArgsTail r
end

end Printer

end PhreeqcVerif.Basic
