import PhreeqcVerif.Model.Settings
import PhreeqcVerif.Properties.C13
import PhreeqcVerif.Model.Api
/-!
# C13 — setters and getters behave as a simple store; invalid ids and arguments change nothing
-/
namespace PhreeqcVerif.Settings
open PhreeqcVerif.Registry

/-- what was set is what is read -/
theorem setSw_getSw (i : Inst) (s : Sw) (v : Bool) : (i.setSw s v).getSw s = v := by
  simp [Inst.setSw, Inst.getSw]

/-- different switches are independent -/
theorem setSw_other (i : Inst) (s t : Sw) (v : Bool) (h : t ≠ s) : (i.setSw s v).getSw t = i.getSw t := by
  simp [Inst.setSw, Inst.getSw, h]

/-- a switch setter changes no name, no selected-output setting and not the current user number -/
theorem setSw_frame (i : Inst) (s : Sw) (v : Bool) :
    (i.setSw s v).name = i.name ∧ (i.setSw s v).cur = i.cur ∧ (i.setSw s v).selFileOn = i.selFileOn ∧
    (i.setSw s v).selStrOn = i.selStrOn ∧ (i.setSw s v).selFileName = i.selFileName ∧ (i.setSw s v).id = i.id := by
  simp [Inst.setSw]

theorem setName_getName (i : Inst) (n : Nm) (s : String) (h : s.isEmpty = false) :
    (i.setName n (some s)).getName n = s := by
  simp [Inst.setName, Inst.getName, h]

theorem setName_other (i : Inst) (n m : Nm) (v : Option String) (h : m ≠ n) :
    (i.setName n v).getName m = i.getName m := by
  unfold Inst.setName Inst.getName
  cases v with
  | none => rfl
  | some s => by_cases he : s.isEmpty <;> simp [he, h]

/-- NULL and the empty string are rejected and change nothing -/
theorem setName_invalid (i : Inst) (n : Nm) : i.setName n none = i ∧ i.setName n (some "") = i := by
  constructor <;> simp [Inst.setName]

/-- a negative user number is rejected with VR_INVALIDARG and changes nothing -/
theorem setCur_invalid (i : Inst) (n : Int) (h : n < 0) : i.setCur n = (i, -3) := by
  have : ¬ 0 ≤ n := by omega
  simp [Inst.setCur, this]

theorem setCur_valid (i : Inst) (n : Int) (h : 0 ≤ n) : (i.setCur n).1.cur = n ∧ (i.setCur n).2 = 0 := by
  simp [Inst.setCur, h]

theorem lookup_setAssoc {β} (m : List (Int × β)) (k : Int) (v : β) :
    (setAssoc m k v).lookup k = some v := by simp [setAssoc, List.lookup_cons]

theorem lookup_setAssoc_ne {β} (m : List (Int × β)) (k j : Int) (v : β) (h : j ≠ k) :
    (setAssoc m k v).lookup j = m.lookup j := by
  have h1 : (j == k) = false := by simpa using h
  simp only [setAssoc, List.lookup_cons, h1]
  induction m with
  | nil => rfl
  | cons p ps ih =>
    obtain ⟨a, b⟩ := p
    by_cases hp : a = k
    · subst hp
      have h2 : (j == a) = false := by simpa using h
      simpa [List.filter_cons, List.lookup_cons, h2] using ih
    · by_cases ha : j = a
      · subst ha; simp [List.filter_cons, hp, List.lookup_cons]
      · have h2 : (j == a) = false := by simpa using ha
        simpa [List.filter_cons, hp, List.lookup_cons, h2] using ih

/-- **what a load preserves and what it resets** (`LoadDatabase` and `LoadDatabaseString`, successful or not: both start with
`UnLoadDatabase()` and save/restore the output, error and log file switches around the load): every switch, the four file
names and the per-number selected-output file names are kept; the current user number returns to 1, the per-number file and
string switches to their initial maps, the accumulated lines are cleared, the engine's SELECTED_OUTPUT blocks are forgotten -/
theorem load_preserves_and_resets (i : Inst) (ok : Bool) :
    (∀ s, (i.unload ok).getSw s = i.getSw s) ∧ (∀ n, (i.unload ok).getName n = i.getName n) ∧
    (i.unload ok).selFileName = i.selFileName ∧ (i.unload ok).id = i.id ∧
    (i.unload ok).cur = 1 ∧ (∀ k, ((i.unload ok).selFileOn.lookup k).getD false = false) ∧
    (∀ k, ((i.unload ok).selStrOn.lookup k).getD false = false) ∧ (i.unload ok).acc = false ∧
    (i.unload ok).engSel = [] ∧ (i.unload ok).loaded = ok := by
  refine ⟨fun _ => rfl, fun _ => rfl, rfl, rfl, rfl, ?_, ?_, rfl, rfl, rfl⟩ <;>
    (intro k; by_cases hk : k = 1 <;> simp [Inst.unload, List.lookup_cons, hk] <;> split <;> simp_all)

/-- per-user-number selected-output switch: set then get under the same current number -/
theorem setSelStrOn_get (i : Inst) (v : Bool) : (i.setSelStrOn v).getSelStrOn = v := by
  simp [Inst.setSelStrOn, Inst.getSelStrOn, lookup_setAssoc]

theorem setSelFileOn_get (i : Inst) (v : Bool) (h : 0 ≤ i.cur) : (i.setSelFileOn v).getSelFileOn = v := by
  simp [Inst.setSelFileOn, Inst.getSelFileOn, h, lookup_setAssoc]

/-- switches of different user numbers are independent -/
theorem setSelStrOn_other_number (i : Inst) (v : Bool) (j : Int) (h : j ≠ i.cur) :
    (i.setSelStrOn v).selStrOn.lookup j = i.selStrOn.lookup j := by
  simp [Inst.setSelStrOn, lookup_setAssoc_ne _ _ _ _ h]

/-- documented defaults: all file sinks and string sinks off except error string, names embed the id -/
theorem defaults (id : Nat) :
    (fresh id).getSw .outFile = false ∧ (fresh id).getSw .outStr = false ∧ (fresh id).getSw .errFile = false ∧
    (fresh id).getSw .errStr = true ∧ (fresh id).getSw .logFile = false ∧ (fresh id).getSw .logStr = false ∧
    (fresh id).getSw .dumpFile = false ∧ (fresh id).getSw .dumpStr = false ∧ (fresh id).getSelFileOn = false ∧
    (fresh id).getSelStrOn = false ∧ (fresh id).cur = 1 ∧
    (fresh id).getName .out = s!"phreeqc.{id}.out" ∧ (fresh id).getName .dump = s!"dump.{id}.out" ∧
    (fresh id).getSelName = selName 1 id := by
  simp [fresh, Inst.getSw, Inst.getName, Inst.getSelFileOn, Inst.getSelStrOn, Inst.getSelName]

/-- a well-formed wrapper on a live id returns what the method returns -/
theorem capi_live (r : Reg Inst) (id : Int) (c : Call) (i : Inst) (h : r.lookup id = some i) :
    (capi r id c).2 = (i.call c).2 := by
  simp [capi, Reg.apply, h]

/-- a call with an id that is not live changes no instance and returns the invalid-instance result -/
theorem capi_dead (r : Reg Inst) (id : Int) (c : Call) (h : r.lookup id = none) :
    capi r id c = (r, badResult c) := by
  simp [capi, Reg.apply, h]

/-- a call on one instance never changes another instance's settings -/
theorem capi_other (r : Reg Inst) (id j : Int) (c : Call) (hj : j ≠ id) :
    (capi r id c).1.lookup j = r.lookup j := apply_other r id j _ _ hj

/-- getters do not change the store -/
theorem getters_pure (i : Inst) :
    (∀ s, (i.call (.getSw s)).1 = i) ∧ (∀ n, (i.call (.getName n)).1 = i) ∧ (i.call .getCur).1 = i ∧
    (i.call .getSelFileOn).1 = i ∧ (i.call .getSelStrOn).1 = i ∧ (i.call .getSelName).1 = i := by
  simp [Inst.call]

/-! ### Refinement: the settings model is a plain key → value store -/

/-- the specification: one total value per key, no hidden structure -/
structure AStore where
  sw : Sw → Bool
  name : Nm → String
  cur : Int
  selFile : Int → Bool
  selStr : Int → Bool
  selName : Int → String

def upd {α} (f : Int → α) (k : Int) (v : α) : Int → α := fun j => if j = k then v else f j

/-- abstraction function: what the store holds for every key -/
def Inst.abs (i : Inst) : AStore :=
  ⟨i.sw, i.name, i.cur, fun k => (i.selFileOn.lookup k).getD false, fun k => (i.selStrOn.lookup k).getD false,
   fun k => (i.selFileName.lookup k).getD ""⟩

/-- calls of the setter/getter/load interface (everything except the two `Run*` effects) -/
def Call.isStore : Call → Bool
  | .defSel _ _ => false
  | .rerun => false
  | .runAcc => false
  | _ => true

/-- the specification of every store call on the plain store -/
def specCall : Call → AStore → AStore × Res
  | .setSw s v, a => ({ a with sw := fun t => if t = s then v else a.sw t }, .int 0)
  | .getSw s, a => (a, .int (b2i (a.sw s)))
  | .setName n (some s), a => (if s.isEmpty then a else { a with name := fun t => if t = n then s else a.name t }, .int 0)
  | .setName _ none, a => (a, .int 0)
  | .getName n, a => (a, .str (a.name n))
  | .setCur n, a => if 0 ≤ n then ({ a with cur := n }, .int 0) else (a, .int (-3))
  | .getCur, a => (a, .int a.cur)
  | .setSelFileOn v, a => (if 0 ≤ a.cur then { a with selFile := upd a.selFile a.cur v } else a, .int 0)
  | .getSelFileOn, a => (a, .int (b2i (a.selFile a.cur)))
  | .setSelStrOn v, a => ({ a with selStr := upd a.selStr a.cur v }, .int 0)
  | .getSelStrOn, a => (a, .int (b2i (a.selStr a.cur)))
  | .setSelName (some s), a => (if s.isEmpty then a else { a with selName := upd a.selName a.cur s }, .int 0)
  | .setSelName none, a => (a, .int 0)
  | .getSelName, a => (a, .str (a.selName a.cur))
  | .unload ok, a => ({ a with cur := 1, selFile := fun _ => false, selStr := fun _ => false }, .int (if ok then 0 else 1))
  | .defSel _ _, a => (a, .int 0)
  | .rerun, a => (a, .int 0)
  | .accumulate, a => (a, .int 0)
  | .clearAcc, a => (a, .int 0)
  | .runAcc, a => (a, .int 0)

theorem getD_lookup_setAssoc {β} (m : List (Int × β)) (k : Int) (v d : β) :
    (fun j => ((setAssoc m k v).lookup j).getD d) = upd (fun j => (m.lookup j).getD d) k v := by
  funext j
  by_cases h : j = k
  · subst h; simp [upd, lookup_setAssoc]
  · simp [upd, h, lookup_setAssoc_ne _ _ _ _ h]

/-- **refinement, one call**: every store call on the model acts on the abstraction exactly as the specification says, and
returns what the specification returns -/
theorem call_refines (i : Inst) (c : Call) (h : c.isStore = true) :
    (i.call c).1.abs = (specCall c i.abs).1 ∧ (i.call c).2 = (specCall c i.abs).2 := by
  cases c with
  | setSw s v => simp [Inst.call, specCall, Inst.abs, Inst.setSw]
  | getSw s => simp [Inst.call, specCall, Inst.abs, Inst.getSw]
  | setName n v =>
    cases v with
    | none => simp [Inst.call, specCall, Inst.abs, Inst.setName]
    | some s => by_cases he : s.isEmpty <;> simp [Inst.call, specCall, Inst.abs, Inst.setName, he]
  | getName n => simp [Inst.call, specCall, Inst.abs, Inst.getName]
  | setCur n => by_cases hn : 0 ≤ n <;> simp [Inst.call, specCall, Inst.abs, Inst.setCur, hn]
  | getCur => simp [Inst.call, specCall, Inst.abs]
  | setSelFileOn v =>
    by_cases hc : 0 ≤ i.cur
    · simp [Inst.call, specCall, Inst.abs, Inst.setSelFileOn, hc, getD_lookup_setAssoc]
    · simp [Inst.call, specCall, Inst.abs, Inst.setSelFileOn, hc]
  | getSelFileOn => simp [Inst.call, specCall, Inst.abs, Inst.getSelFileOn]
  | setSelStrOn v => simp [Inst.call, specCall, Inst.abs, Inst.setSelStrOn, getD_lookup_setAssoc]
  | getSelStrOn => simp [Inst.call, specCall, Inst.abs, Inst.getSelStrOn]
  | setSelName v =>
    cases v with
    | none => simp [Inst.call, specCall, Inst.abs, Inst.setSelName]
    | some s => by_cases he : s.isEmpty <;> simp [Inst.call, specCall, Inst.abs, Inst.setSelName, he, getD_lookup_setAssoc]
  | getSelName => simp [Inst.call, specCall, Inst.abs, Inst.getSelName]
  | unload ok =>
    simp only [Inst.call, specCall, Inst.abs, Inst.unload, and_true]
    congr 1 <;> funext k <;> by_cases hk : k = 1 <;> simp [List.lookup_cons, hk] <;> split <;> simp_all
  | defSel n f => simp [Call.isStore] at h
  | rerun => simp [Call.isStore] at h
  | accumulate => simp [Inst.call, specCall, Inst.abs]
  | clearAcc => simp [Inst.call, specCall, Inst.abs]
  | runAcc => simp [Call.isStore] at h

def runCalls (i : Inst) : List Call → Inst × List Res
  | [] => (i, [])
  | c :: cs => let (j, r) := i.call c; let (k, rs) := runCalls j cs; (k, r :: rs)

def runSpec (a : AStore) : List Call → AStore × List Res
  | [] => (a, [])
  | c :: cs => let (b, r) := specCall c a; let (d, rs) := runSpec b cs; (d, r :: rs)

/-- **refinement, every call sequence**: the results of any sequence of store calls are those of the plain store -/
theorem calls_refine (cs : List Call) (h : ∀ c ∈ cs, c.isStore = true) (i : Inst) :
    (runCalls i cs).1.abs = (runSpec i.abs cs).1 ∧ (runCalls i cs).2 = (runSpec i.abs cs).2 := by
  induction cs generalizing i with
  | nil => simp [runCalls, runSpec]
  | cons c cs ih =>
    obtain ⟨h1, h2⟩ := call_refines i c (h c (by simp))
    obtain ⟨h3, h4⟩ := ih (fun d hd => h d (by simp [hd])) (i.call c).1
    simp only [runCalls, runSpec]
    rw [← h1, ← h2]
    exact ⟨h3, by rw [h4]⟩

/-! ### the same at the level of the C API: several instances behind ids -/

def absReg (r : Reg Inst) : Int → Option AStore := fun j => (r.lookup j).map Inst.abs

/-- specification of a C call: an id without a store gets the invalid-instance result and nothing changes; otherwise
only that id's store changes, as `specCall` says -/
def specCapi (g : Int → Option AStore) (id : Int) (c : Call) : (Int → Option AStore) × Res :=
  match g id with
  | none => (g, badResult c)
  | some a => ((fun j => if j = id then some (specCall c a).1 else g j), (specCall c a).2)

theorem lookup_map_self {σ} (l : List (Nat × σ)) (b : Nat) (s s' : σ) (h : List.lookup b l = some s) :
    List.lookup b (l.map (fun p => if p.1 = b then (p.1, s') else p)) = some s' := by
  induction l with
  | nil => simp at h
  | cons p ps ih =>
    obtain ⟨k, v⟩ := p
    by_cases hk : k = b
    · subst hk; simp [List.lookup_cons]
    · have h1 : (b == k) = false := by simpa using (Ne.symm hk)
      simp only [List.lookup_cons, h1] at h
      simpa [List.lookup_cons, h1, hk] using ih h

theorem capi_refines (r : Reg Inst) (id : Int) (c : Call) (h : c.isStore = true) :
    absReg (capi r id c).1 = (specCapi (absReg r) id c).1 ∧ (capi r id c).2 = (specCapi (absReg r) id c).2 := by
  cases hl : r.lookup id with
  | none => simp [capi, Reg.apply, specCapi, absReg, hl]
  | some s =>
    obtain ⟨h1, h2⟩ := call_refines s c h
    have hres : (capi r id c).2 = (s.call c).2 := by simp [capi, Reg.apply, hl]
    refine ⟨?_, ?_⟩
    · funext j
      simp only [specCapi, absReg, hl, Option.map_some]
      by_cases hj : j = id
      · subst hj
        have hid : ¬ j < 0 := by intro h0; simp [Reg.lookup, h0] at hl
        have hl' : List.lookup j.toNat r.live = some s := by simpa [Reg.lookup, hid] using hl
        simp only [capi, Reg.apply, Reg.lookup, hid, if_false, hl']
        rw [lookup_map_self _ _ _ _ hl']
        simp [h1]
      · simp only [hj, if_false]
        rw [capi, apply_other r id j _ _ hj]
    · simp [specCapi, absReg, hl, hres, h2]


theorem render_isEmpty (id : Nat) (x : SName) : (x.render id).isEmpty = x.isEmptyS := by
  cases x with
  | dflt n => cases n <;> simp [SName.render, SName.isEmptyS]
  | dfltSel k => simp [SName.render, SName.isEmptyS, selName]
  | user s => rfl

theorem lookup_map_snd {α β} (m : List (Int × α)) (f : α → β) (k : Int) :
    (m.map (fun p => (p.1, f p.2))).lookup k = (m.lookup k).map f := by
  induction m with
  | nil => rfl
  | cons p ps ih =>
    obtain ⟨a, b⟩ := p
    by_cases h : k = a
    · subst h; simp [List.lookup_cons]
    · have h1 : (k == a) = false := by simpa using h
      simpa [List.lookup_cons, h1] using ih

theorem setAssoc_map {α β} (m : List (Int × α)) (f : α → β) (k : Int) (v : α) :
    (setAssoc m k v).map (fun p => (p.1, f p.2)) = setAssoc (m.map (fun p => (p.1, f p.2))) k (f v) := by
  simp [setAssoc, List.filter_map, Function.comp_def]

theorem fresh_render (id : Nat) : fresh id = sfresh.render id := by
  simp only [fresh, sfresh, SInst.render, List.map_cons, List.map_nil, SName.render]
  congr 1
  funext n; cases n <;> rfl

theorem punchName_render (id : Nat) (s : SInst) (n : Int) :
    (s.render id).punchName n = (s.punchName n).render id := by
  have hmiss : (((s.render id).selFileName.lookup n).getD "").isEmpty =
      (match s.selFileName.lookup n with | some x => x.isEmptyS | none => true) := by
    simp only [SInst.render, lookup_map_snd]
    cases s.selFileName.lookup n with
    | none => simp
    | some x => simp [render_isEmpty]
  have he : (s.render id).engSel = s.engSel := rfl
  simp only [Inst.punchName, SInst.punchName, hmiss, he]
  cases punchChoice (s.engSel.lookup n).join (match s.selFileName.lookup n with | some x => x.isEmptyS | none => true) with
  | file f => simp only [SInst.render]; rw [setAssoc_map s.selFileName (SName.render id) n (.user f)]; rfl
  | dflt => simp only [SInst.render]; rw [setAssoc_map s.selFileName (SName.render id) n (.dfltSel n)]; rfl
  | keep => rfl

theorem foldl_punchName_render (id : Nat) (ks : List Int) (s : SInst) :
    ks.foldl (fun j k => j.punchName k) (s.render id) = (ks.foldl (fun j k => j.punchName k) s).render id := by
  induction ks generalizing s with
  | nil => rfl
  | cons k ks ih => simp only [List.foldl_cons, punchName_render, ih]

/-- **one call**: running a call on the rendered state = rendering the result of the symbolic call, which never sees the id -/
theorem call_render (id : Nat) (s : SInst) (c : Call) :
    (s.render id).call c = (((s.call c).1).render id, ((s.call c).2).render id) := by
  cases c with
  | setSw w v => simp [Inst.call, SInst.call, SInst.render, Inst.setSw, SRes.render]
  | getSw w => simp [Inst.call, SInst.call, SInst.render, Inst.getSw, SRes.render]
  | setName n v =>
    cases v with
    | none => simp [Inst.call, SInst.call, SInst.render, Inst.setName, SRes.render]
    | some x =>
      by_cases he : x.isEmpty
      · simp [Inst.call, SInst.call, SInst.render, Inst.setName, SRes.render, he]
      · simp only [Inst.call, SInst.call, SInst.render, Inst.setName, SRes.render, he]
        simp only [Bool.false_eq_true, if_false, Prod.mk.injEq, and_true]
        congr 1
        funext t; by_cases ht : t = n <;> simp [ht, SName.render]
  | getName n => simp [Inst.call, SInst.call, SInst.render, Inst.getName, SRes.render]
  | setCur n => by_cases hn : 0 ≤ n <;> simp [Inst.call, SInst.call, SInst.render, Inst.setCur, SRes.render, hn]
  | getCur => simp [Inst.call, SInst.call, SInst.render, SRes.render]
  | setSelFileOn v =>
    by_cases hc : 0 ≤ s.cur <;> simp [Inst.call, SInst.call, SInst.render, Inst.setSelFileOn, SRes.render, hc]
  | getSelFileOn => simp [Inst.call, SInst.call, SInst.render, Inst.getSelFileOn, SRes.render]
  | setSelStrOn v => simp [Inst.call, SInst.call, SInst.render, Inst.setSelStrOn, SRes.render]
  | getSelStrOn => simp [Inst.call, SInst.call, SInst.render, Inst.getSelStrOn, SRes.render]
  | setSelName v =>
    cases v with
    | none => simp [Inst.call, SInst.call, SInst.render, Inst.setSelName, SRes.render]
    | some x =>
      by_cases he : x.isEmpty
      · simp [Inst.call, SInst.call, SInst.render, Inst.setSelName, SRes.render, he]
      · simp only [Inst.call, SInst.call, SInst.render, Inst.setSelName, SRes.render, he, Bool.false_eq_true, if_false]
        rw [setAssoc_map s.selFileName (SName.render id) s.cur (.user x)]
        rfl
  | getSelName =>
    simp only [Inst.call, SInst.call, SInst.render, Inst.getSelName, SRes.render, lookup_map_snd]
    cases s.selFileName.lookup s.cur <;> simp [SName.render]
  | unload ok => simp [Inst.call, SInst.call, SInst.render, Inst.unload, SRes.render]
  | defSel n f =>
    have h1 : (s.render id).loaded = s.loaded := rfl
    have h2 : (s.render id).engSel = s.engSel := rfl
    have h3 : (s.render id).selFileOn = s.selFileOn := rfl
    have h4 : ∀ e, (s.render id).withEng e = (s.withEng e).render id := fun _ => rfl
    by_cases hl : s.loaded
    · simp only [Inst.call, Inst.defSel, SInst.call, h1, h2, h3, h4, hl, Bool.not_true, Bool.false_eq_true, if_false,
        foldl_punchName_render, SRes.render]
    · simp [Inst.call, Inst.defSel, SInst.call, h1, hl, SRes.render]
  | rerun =>
    have h1 : (s.render id).loaded = s.loaded := rfl
    have h2 : (s.render id).engSel = s.engSel := rfl
    have h3 : (s.render id).selFileOn = s.selFileOn := rfl
    by_cases hl : s.loaded
    · simp only [Inst.call, Inst.rerun, SInst.call, h1, h2, h3, hl, Bool.not_true, Bool.false_eq_true, if_false,
        foldl_punchName_render, SRes.render]
    · simp [Inst.call, Inst.rerun, SInst.call, h1, hl, SRes.render]
  | accumulate => simp [Inst.call, SInst.call, SInst.render, SRes.render]
  | clearAcc => simp [Inst.call, SInst.call, SInst.render, SRes.render]
  | runAcc =>
    have h0 : (s.render id).acc = s.acc := rfl
    have h1 : (s.render id).loaded = s.loaded := rfl
    have h2 : (s.render id).engSel = s.engSel := rfl
    have h3 : (s.render id).selFileOn = s.selFileOn := rfl
    by_cases ha : s.acc
    · by_cases hl : s.loaded
      · simp only [Inst.call, Inst.runAcc, Inst.rerun, SInst.call, h0, h1, h2, h3, ha, hl, if_true, Bool.not_true,
          Bool.false_eq_true, if_false, foldl_punchName_render, SRes.render]
      · simp [Inst.call, Inst.runAcc, Inst.rerun, SInst.call, h0, h1, ha, hl, SRes.render]
    · simp [Inst.call, Inst.runAcc, SInst.call, h0, h1, ha, SRes.render]

def srunCalls (i : SInst) : List Call → SInst × List SRes
  | [] => (i, [])
  | c :: cs => let (j, r) := i.call c; let (k, rs) := srunCalls j cs; (k, r :: rs)

theorem runCalls_render (id : Nat) (cs : List Call) (s : SInst) :
    runCalls (s.render id) cs = (((srunCalls s cs).1).render id, (srunCalls s cs).2.map (SRes.render id)) := by
  induction cs generalizing s with
  | nil => rfl
  | cons c cs ih => simp only [runCalls, srunCalls, call_render, ih, List.map_cons]

/-- **results are a function of the call sequence alone, except id-derived default file names**: for every call sequence
(setters, getters, loads, selected-output definitions, runs) the results on a fresh instance with id `id` are the rendering,
with `id`, of results computed without any id. Hence the same sequence at two ids gives results that differ at most in the
rendered default names. -/
theorem results_depend_on_id_only_through_default_names (cs : List Call) (id : Nat) :
    (runCalls (fresh id) cs).2 = (srunCalls sfresh cs).2.map (SRes.render id) := by
  rw [fresh_render, runCalls_render]

/-- integer results (switches, user numbers, result codes) do not depend on the id at all -/
theorem int_results_id_independent (cs : List Call) (a b : Nat) (k : Nat) (v : Int)
    (h : (runCalls (fresh a) cs).2[k]? = some (.int v)) : (runCalls (fresh b) cs).2[k]? = some (.int v) := by
  rw [results_depend_on_id_only_through_default_names] at h ⊢
  simp only [List.getElem?_map] at h ⊢
  cases hx : (srunCalls sfresh cs).2[k]? with
  | none => simp [hx] at h
  | some x =>
    cases x with
    | int w => simp [hx, SRes.render] at h ⊢; exact h
    | name n => simp [hx, SRes.render] at h


/-! ### The model's invalid-instance results are the documented ones -/

/-- the C function behind each call of the store interface -/
def Call.cName : Call → String
  | .setSw .outFile _ => "SetOutputFileOn" | .setSw .outStr _ => "SetOutputStringOn" | .setSw .errFile _ => "SetErrorFileOn"
  | .setSw .errStr _ => "SetErrorStringOn" | .setSw .errOn _ => "SetErrorOn" | .setSw .logFile _ => "SetLogFileOn"
  | .setSw .logStr _ => "SetLogStringOn" | .setSw .dumpFile _ => "SetDumpFileOn" | .setSw .dumpStr _ => "SetDumpStringOn"
  | .getSw .outFile => "GetOutputFileOn" | .getSw .outStr => "GetOutputStringOn" | .getSw .errFile => "GetErrorFileOn"
  | .getSw .errStr => "GetErrorStringOn" | .getSw .errOn => "GetErrorOn" | .getSw .logFile => "GetLogFileOn"
  | .getSw .logStr => "GetLogStringOn" | .getSw .dumpFile => "GetDumpFileOn" | .getSw .dumpStr => "GetDumpStringOn"
  | .setName .out _ => "SetOutputFileName" | .setName .err _ => "SetErrorFileName" | .setName .log _ => "SetLogFileName"
  | .setName .dump _ => "SetDumpFileName"
  | .getName .out => "GetOutputFileName" | .getName .err => "GetErrorFileName" | .getName .log => "GetLogFileName"
  | .getName .dump => "GetDumpFileName"
  | .setCur _ => "SetCurrentSelectedOutputUserNumber" | .getCur => "GetCurrentSelectedOutputUserNumber"
  | .setSelFileOn _ => "SetSelectedOutputFileOn" | .getSelFileOn => "GetSelectedOutputFileOn"
  | .setSelStrOn _ => "SetSelectedOutputStringOn" | .getSelStrOn => "GetSelectedOutputStringOn"
  | .setSelName _ => "SetSelectedOutputFileName" | .getSelName => "GetSelectedOutputFileName"
  | .unload _ => "LoadDatabase" | .defSel _ _ => "RunString" | .rerun => "RunString"
  | .accumulate => "AccumulateLine" | .clearAcc => "ClearAccumulatedLines" | .runAcc => "RunAccumulated"

/-- what a documentation class means as a result value -/
def docResult (name : String) : PhreeqcVerif.Api.BadDoc → Option Res
  | .code | .negative | .silentCode => some (.int (-6))
  | .silentZero => some (.int 0)
  | .silentEmpty => some (.str "")
  | .silentMsg => some (.str (PhreeqcVerif.Api.invalidMsg name))
  | .silentVoid | .noId => none

/-- the invalid-instance result the model returns for each call is the entry of the documentation table for its C function
(so `capi_dead` speaks about the documented results) -/
theorem badResult_matches_doc (c : Call) :
    (PhreeqcVerif.Api.specOf c.cName).bind (docResult c.cName) = some (badResult c) := by
  cases c with
  | setSw s v => cases s <;> (simp only [Call.cName, badResult]; decide)
  | getSw s => cases s <;> (simp only [Call.cName, badResult]; decide)
  | setName n v => cases n <;> (simp only [Call.cName, badResult]; decide)
  | getName n => cases n <;> (simp only [Call.cName, badResult]; decide)
  | setCur n => simp only [Call.cName, badResult]; decide
  | getCur => simp only [Call.cName, badResult]; decide
  | setSelFileOn v => simp only [Call.cName, badResult]; decide
  | getSelFileOn => simp only [Call.cName, badResult]; decide
  | setSelStrOn v => simp only [Call.cName, badResult]; decide
  | getSelStrOn => simp only [Call.cName, badResult]; decide
  | setSelName v => simp only [Call.cName, badResult]; decide
  | getSelName => simp only [Call.cName, badResult]; decide
  | unload ok => simp only [Call.cName, badResult]; decide
  | defSel n f => simp only [Call.cName, badResult]; decide
  | rerun => simp only [Call.cName, badResult]; decide
  | accumulate => simp only [Call.cName, badResult]; decide
  | clearAcc => simp only [Call.cName, badResult]; decide
  | runAcc => simp only [Call.cName, badResult]; decide

/-- non-vacuity of the refinement and of the id theorem on one history: switches, names, user numbers, a load, selected-output
definitions with and without `-file` -/
example :
    let cs : List Call := [.setSw .outFile true, .setName .out (some "a.out"), .setName .err (some ""), .setCur 5, .setSelFileOn true,
      .setCur (-2), .getCur, .getSelFileOn, .setCur 1, .getSelFileOn, .getName .out, .getName .err, .unload true, .defSel 5 none,
      .setCur 5, .getSelName, .defSel 2 (some "u.sel"), .setCur 2, .getSelName, .getSelFileOn]
    (runCalls (fresh 3) cs).2 = [.int 0, .int 0, .int 0, .int 0, .int 0, .int (-3), .int 5, .int 1, .int 0, .int 0, .str "a.out",
      .str "phreeqc.3.err", .int 0, .int 0, .int 0, .str "selected_5.3.out", .int 0, .int 0, .str "u.sel", .int 0] ∧
    (runCalls (fresh 8) cs).2[15]? = some (.str "selected_5.8.out") ∧
    (runSpec (fresh 3).abs (cs.take 12)).2 = (runCalls (fresh 3) (cs.take 12)).2 := by decide

end PhreeqcVerif.Settings
