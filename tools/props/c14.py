"""C14 — numbered reactants behave as a keyed store under COPY/DELETE/SAVE/USE/MODIFY.

Proof obligations: Properties/C14.lean (model Model/Store.lean): the association-list store is a lawful finite map,
every store operation of the keyword drivers (Rxn_copy, Rxn_copies, the Rxn_copy loops, the COPY loop, DELETE, SAVE,
range definitions, MODIFY) has a closed map-level meaning, any sequence of them refines the abstract map
(kind, number) -> entry, operations on one kind leave the other kinds alone, the component list is a superset.
Tie: random histories rendered as PHREEQC input and run on the real engine through IPhreeqc; after every RunString call
`DUMP -all` and GetComponentCount/GetComponent are compared with what `pmodel store` predicts from the same op list
(which (kind, number) exist, which entries share content, descriptions, effect of *_MODIFY, predicted "not found"
stops); RUN_CELLS on cell n versus USE of every reactant n + SAVE, both on the real engine. The loop variable type of
copy_entities and the Rxn_copies / Rxn_copy-loop choice of saver are re-read from the source on every run."""
import concurrent.futures
import json
import os
import re
import resource
import subprocess

import gen_store
import vlib
from gens import store as G
from vlib import shrink_list

HDR = re.compile(r"^(SOLUTION|EQUILIBRIUM_PHASES|EXCHANGE|SURFACE|SOLID_SOLUTIONS|GAS_PHASE|KINETICS|MIX|REACTION|"
                 r"REACTION_TEMPERATURE|REACTION_PRESSURE)_RAW\s+(-?\d+)\s*(.*)$")
KW2KIND = {v: k for k, v in G.KW.items()}
STOPNAME = {"Solution": "solution", "Mix": "mix", "Pure phase assemblage": "pp", "Reaction": "reaction",
            "Exchange": "exchange", "Kinetics": "kinetics", "Surface": "surface", "Temperature": "temperature",
            "Pressure": "pressure", "Gas_phase": "gas", "ss_assemblage": "ss"}
RE_NOTFOUND = re.compile(r"^ERROR: (Solution|Mix|Pure phase assemblage|Reaction|Exchange|Kinetics|Surface|Temperature|"
                         r"Pressure|Gas_phase|ss_assemblage) (-?\d+) not found\.$")
RE_INIT = re.compile(r"^ERROR: Solution not found for initial (exchange|surface) calculation")
RE_NEVER = re.compile(r"Unknown input reading (DELETE|RUN_CELLS|DUMP)|Expected single number or range|Dump entity type not defined|"
                      r"Expecting keyword solution|Unknown item in USE|Source index number|Target index number|Unknown input in COPY")
RE_INITGAS = re.compile(r"^ERROR: Solution needed for calculation not found, stopping\.")
RE_MIXMISSING = re.compile(r"^ERROR: Mix solution not found, (-?\d+)\.$")
RE_INPUTERR = re.compile(r"^ERROR: Calculations terminating due to input errors\.")
RE_BENIGN = re.compile(r"not found in mix_cxxSolutions|^ERROR: Program terminating due to input errors\.")
SAVE_DESC = {"solution": r"Solution after simulation \d+\.", "pp": r"Pure-phase assemblage after simulation \d+\.",
             "exchange": r"Exchange assemblage after simulation \d+\.", "gas": r"Gas phase after simulation \d+\.",
             "ss": r"Solid solution assemblage after simulation \d+"}


def hx(s):
    return s.encode().hex() if s else "-"


def unhx(h):
    return "" if h == "-" else bytes.fromhex(h).decode(errors="replace")


# ------------------------------------------------------------------------------------------------ source facts
def source_facts():
    """facts of the anchored code the model depends on: read by the structural translator tools/gen_store.py (statement
    trees, aliases / file-local helpers / enumerators resolved, switch cases as a set) — nothing here matches source text"""
    f = gen_store.extract()
    return {"copy_loop": f["copy_loop"], "saver_chain": dict(f["saver"])}


# ------------------------------------------------------------------------------------------------ dump text
def split_dump(text):
    """my own small DUMP splitter: [(kind, number, description, [stripped body lines])] in dump order"""
    out, cur = [], None
    for line in text.splitlines():
        m = HDR.match(line)
        if m:
            cur = (KW2KIND[m.group(1)], int(m.group(2)), m.group(3).strip(), [])
            out.append(cur)
        elif line.startswith("USE "):
            cur = None
        elif cur is not None and line.strip():
            cur[3].append(line.rstrip())
    return out


VISC = re.compile(r"^  -(viscosity|viscos_0)\s")


def canon(kind, lines):
    """content lines used for 'same content' comparisons. KINETICS: the trailing `-totals` block is a workspace that
    list_components (GetComponentCount) refills in the stored object itself (calc_dummy_kinetic_reaction_tally), so it
    changes by being observed; it is left out."""
    if kind == "kinetics":
        for i in range(len(lines) - 1, -1, -1):
            if lines[i].startswith("  -totals"):
                return lines[:i]
    if kind == "pp":
        # `-eltList` ("List of all elements in phases") is rebuilt by tidy_pp_assemblage for every assemblage that is
        # touched by a keyword (e.g. after EQUILIBRIUM_PHASES_MODIFY it loses the scaling of EQUILIBRIUM_PHASES_MIX)
        out, skip = [], False
        for ln in lines:
            if ln.startswith("  -eltList"):
                skip = True
                out.append("  -eltList")
                continue
            if skip and ln.startswith("    ") and not ln.strip().startswith("-"):
                continue
            skip = False
            out.append(ln)
        return out
    if kind == "solution":
        # derived transport data that calculations *using* a solution write back into the stored object
        # (initial_surfaces / initial_exchangers: use.Get_solution_ptr()->Set_viscosity(...)); counted separately
        return [ln for ln in lines if not VISC.match(ln)]
    return lines


def parse_formula(f):
    """element names of a chemical formula such as CaSO4:2H2O, Ca(OH)2, NaX, CO2(g)"""
    f = re.sub(r"\((g|s|l|aq)\)$", "", f)
    f = re.sub(r"[+-]\d*(\.\d+)?$", "", f)
    return set(re.findall(r"[A-Z][a-z_]*", f))


def load_phases(db):
    """phase name -> element set, from the PHASES blocks of the database (first token of the equation's left side)"""
    phases, inblock, name = {}, False, None
    for raw in db.read_text(errors="replace").splitlines():
        line = raw.split("#")[0].rstrip()
        if not line.strip():
            continue
        if re.match(r"^[A-Z_]+\s*$", line.strip()) and line == line.lstrip():
            inblock = line.strip() == "PHASES"
            name = None
            continue
        if not inblock:
            continue
        if line == line.lstrip() and "=" not in line and not line.strip().startswith("-"):
            name = line.split()[0]
        elif name and "=" in line and name not in phases:
            left = line.split("=")[0]
            els = set()
            for tok in left.split("+"):
                tok = tok.strip()
                tok = re.sub(r"^\d+(\.\d+)?\s*", "", tok)
                els |= parse_formula(tok)
            phases[name] = els
    return phases


def entry_elements(kind, lines, phases):
    """elements present (non-zero amount) in one dumped entry — direct reading of the RAW text"""
    els = set()
    sect, comp = None, None

    def nonzero(w):
        try:
            return float(w) != 0.0
        except ValueError:
            return False
    for ln in lines:
        s = ln.strip()
        if s.startswith("#"):
            continue
        w = s.split()
        if w[0].startswith("-"):
            sect = w[0]
            if w[0] == "-component" and len(w) > 1:
                comp = w[1]
            elif w[0] == "-moles" and comp and kind in ("pp", "gas", "ss") and len(w) > 1 and nonzero(w[1]):
                els |= phases.get(comp, set())
            continue
        # data line under the last option
        if sect in ("-totals", "-namecoef", "-reactant_list") and len(w) >= 2 and nonzero(w[1]):
            name = w[0]
            if sect == "-totals":
                els |= parse_formula(name.split("(")[0])
            else:
                els |= phases[name] if name in phases else parse_formula(name)
    return els


# ------------------------------------------------------------------------------------------------ running
def run_engine(exe, db, histories, templates, timeout=420):
    """one harness process for a list of histories; returns per history a list of per-call observations"""
    lines = []
    for h in histories:
        lines.append("new " + hx(str(db)))
        lines.append("run " + hx(G.PREAMBLE))
        for run in h:
            lines.append("run " + hx(G.render_run(run, templates)))
    timed_out = False

    def lim():       # a COPY loop that does not end must die (bad_alloc) instead of eating the machine
        resource.setrlimit(resource.RLIMIT_AS, (2 << 30, 2 << 30))
    try:
        r = subprocess.run([str(exe)], input="\n".join(lines) + "\n", text=True, capture_output=True, timeout=timeout,
                           preexec_fn=lim)
        stdout, rc, errtail = r.stdout, r.returncode, r.stderr[-300:]
    except subprocess.TimeoutExpired as e:      # a calculation that does not finish: what was printed so far is judged
        so = e.stdout or ""
        stdout = so.decode(errors="replace") if isinstance(so, bytes) else so
        stdout = stdout[:stdout.rfind("\n") + 1]
        rc, errtail, timed_out = 0, "timeout", True
    res, cur, obs = [], None, None
    for ln in stdout.splitlines():
        w = ln.split(" ")
        if w[0] == "N":
            cur = []
            res.append(cur)
        elif w[0] == "R":
            obs = {"nerr": int(w[1]), "err": unhx(w[2])}
            cur.append(obs)
        elif w[0] == "D":
            obs["dump"] = unhx(w[1])
        elif w[0] == "F":
            obs["nerr2"] = int(w[1])
            obs["err2"] = unhx(w[2])
        elif w[0] == "C":
            obs["comps"] = w[2:]
    if timed_out and res:
        res[-1] = None                     # the history being run when time was up
    return res, rc != 0, errtail


def run_model(ctx, histories, templates, cfg):
    lines = []
    for h in histories:
        lines += G.model_lines([[[]]] + h, templates, cfg)      # the preamble call holds no store block
    out = ctx.pmodel("store", "\n".join(lines) + "\n", timeout=240)
    res, cur, obs = [], None, None
    nruns = [len(h) + 1 for h in histories]
    hi, cnt = 0, 0
    for ln in out:
        w = ln.split(" ")
        if w[0] == "R":
            if cur is None or cnt == nruns[hi]:
                if cur is not None:
                    hi += 1
                cur, cnt = [], 0
                res.append(cur)
            obs = {"stop": None if w[1] == "ok" else w[2:], "E": [], "H": [], "T": {}}
            cur.append(obs)
            cnt += 1
        elif w[0] == "F":
            obs["fstop"] = None if w[1] == "ok" else w[2:]
        elif w[0] == "E":
            obs["E"].append((w[1], int(w[2]), int(w[3])))
        elif w[0] == "H":
            obs["H"].append((w[1], int(w[2]), int(w[3])))
        elif w[0] == "T":
            obs["T"][int(w[1])] = w[2:]
        elif w[0].startswith("bad-op"):
            raise RuntimeError("pmodel store: " + ln)
    return res


def classify_errors(err):
    """(modelled stop or None, other error lines)"""
    stop, other = None, []
    for ln in err.splitlines():
        if not ln.startswith("ERROR"):
            continue
        m = RE_NOTFOUND.match(ln)
        if m:
            stop = stop or ["notfound", STOPNAME[m.group(1)], m.group(2)]
            continue
        m = RE_INIT.match(ln)
        if m:
            stop = stop or ["init", m.group(1)]
            continue
        if RE_INITGAS.match(ln):
            stop = stop or ["init", "gas"]
            continue
        m = RE_MIXMISSING.match(ln)
        if m:
            stop = stop or ["mixmissing", m.group(1)]
            continue
        if RE_BENIGN.search(ln):
            continue
        if RE_INPUTERR.match(ln):
            stop = stop or ["inputerrors"]
            continue
        other.append(ln)
    return stop, other


class Judge:
    """compares one history: engine observations vs model prediction"""

    def __init__(self, phases, blocks_by_id):
        self.phases = phases
        self.memo = {}        # token -> (kind, desc, lines)
        self.rawmemo = {}
        self.elems = {}       # token -> elements read from its dump text
        self.prov = {}        # token -> provenance words
        self.blocks = blocks_by_id
        self.stats = {"entries": 0, "memo_hits": 0, "mod_checked": 0, "comp_checked": 0, "stops": 0}

    def expected_desc(self, tok):
        p = self.prov.get(tok)
        if not p:
            return None
        if p[0] == "def":
            return ("eq", f"D{p[2]}")
        if p[0] == "raw":
            return ("eq", f"R{p[2]}")
        if p[0] == "mod":
            return ("eq", f"M{p[3]}")
        if p[0] == "isol":
            return self.expected_desc(int(p[1]))
        if p[0] == "kin":
            return self.expected_desc(int(p[1]))
        if p[0] == "save" and p[1] in SAVE_DESC:
            return ("re", SAVE_DESC[p[1]])
        if p[0] == "init" and p[1] in SAVE_DESC:
            return ("re", SAVE_DESC[p[1]])
        return None

    def call(self, ci, eng, mod):
        """returns None (agree), ('unjudged', why) or ('bad', what)"""
        self.prov.update(mod["T"])
        stop, other = classify_errors(eng["err"])
        never = [ln for ln in other if RE_NEVER.search(ln)]
        if never:
            # every option and number written by the generator resolves in the model (resolveDelLine / resolveCells)
            return ("bad", f"call {ci}: the engine rejects input that the option tables accept: {never[0][:160]}")
        if other:
            return ("unjudged", other[0][:120])
        mstop = mod["stop"]
        if mstop and mstop[0] == "runaway":
            return ("bad", f"call {ci}: COPY {' '.join(mstop[1:])}: with the loop variable type read from copy_entities the copy "
                           "loop does not end (targets 0,1,2,... until memory is exhausted)")
        if (stop is None) != (mstop is None):
            return ("bad", f"call {ci}: engine stop {stop} vs model stop {mstop}")
        if stop:
            self.stats["stops"] += 1
            if stop[0] == "notfound" and (mstop[0] != "notfound" or mstop[1:3] != stop[1:3]):
                return ("bad", f"call {ci}: engine stopped with {stop}, model predicts {mstop}")
            if stop[0] == "init" and (mstop[0] != "init" or mstop[1] != stop[1]):
                return ("bad", f"call {ci}: engine stopped with {stop}, model predicts {mstop}")
            if stop[0] in ("mixmissing", "inputerrors") and mstop[0] != stop[0]:
                return ("bad", f"call {ci}: engine stopped with {stop}, model predicts {mstop}")
        stop2, other2 = classify_errors(eng.get("err2", ""))
        if other2:
            return ("unjudged", "observing run: " + other2[0][:120])
        fstop = mod.get("fstop")
        if (stop2 is None) != (fstop is None) or (stop2 and stop2[0] != fstop[0]):
            return ("bad", f"call {ci}: observing run: engine stop {stop2} vs model stop {fstop}")
        if stop2:
            self.stats["stops"] += 1
            return None           # no dump was written; the pending request stays pending in both
        ents = split_dump(eng["dump"])
        keys_e = [(k, n) for k, n, _, _ in ents]
        keys_m = [(k, n) for k, n, _ in mod["E"]]
        if keys_e != keys_m:
            only_e = [x for x in keys_e if x not in keys_m]
            only_m = [x for x in keys_m if x not in keys_e]
            return ("bad", f"call {ci}: entries differ: only in engine {only_e[:6]}, only in model {only_m[:6]}"
                    + ("" if only_e or only_m else " (order)"))
        for (k, n, desc, rawlines), (_, _, tok) in zip(ents, mod["E"]):
            lines = canon(k, rawlines)
            self.stats["entries"] += 1
            ed = self.expected_desc(tok)
            if ed and ((ed[0] == "eq" and desc != ed[1]) or (ed[0] == "re" and not re.fullmatch(ed[1], desc))):
                return ("bad", f"call {ci}: {k} {n} has description {desc!r}, expected {ed[1]!r} (content token {tok}: {' '.join(self.prov.get(tok, []))})")
            if tok in self.memo:
                self.stats["memo_hits"] += 1
                k0, d0, l0 = self.memo[tok]
                if k == "solution" and self.rawmemo.get(tok) != rawlines:
                    self.stats["viscosity_rewritten"] = self.stats.get("viscosity_rewritten", 0) + 1
                if (k0, d0, l0) != (k, desc, lines):
                    diff = [(a, b) for a, b in zip(l0, lines) if a != b][:3]
                    return ("bad", f"call {ci}: {k} {n} should hold the same content as seen before for token {tok} "
                                   f"({' '.join(self.prov.get(tok, []))}) but differs: {diff or (len(l0), len(lines), d0, desc)}")
            else:
                self.memo[tok] = (k, desc, lines)
                self.rawmemo[tok] = rawlines
                p = self.prov.get(tok, [])
                if p and p[0] == "mod" and int(p[2]) in self.memo:
                    e = self.check_modify(k, n, tok, p, lines)
                    if e:
                        return ("bad", f"call {ci}: " + e)
        if not stop and not stop2 and "comps" in eng:
            comps = set(eng["comps"])
            self.measure_components(comps, ents, mod)
            for k, n, desc, lines in ents:
                els = entry_elements(k, lines, self.phases) - {"H", "O", "E", "X", "Charge", "Alkalinity"}
                els = {e for e in els if not e.startswith("Hfo")}
                self.stats["comp_checked"] += 1
                if not els <= comps:
                    return ("bad", f"call {ci}: component list {sorted(comps)} misses {sorted(els - comps)} present in {k} {n}")
        return None

    def measure_components(self, comps, ents, mod):
        """Not a requirement of the property (which asks for a superset) — a measurement of what the code does: is the
        reported list exactly the union over every stored entry, including the ones filed under negative numbers that
        DUMP never shows (copy_use(-2) leaves a copy of every used reactant under -2, and DELETE of the visible entry
        does not remove that copy)?"""
        def clean(els):
            return {e for e in els - {"H", "O", "E", "X", "Charge", "Alkalinity"} if not e.startswith("Hfo")}
        for (k, n, _, lines), (_, _, tok) in zip(ents, mod["E"]):
            self.elems[tok] = clean(entry_elements(k, lines, self.phases))
        vis = set()
        for _, _, tok in mod["E"]:
            vis |= self.elems[tok]
        hid, unknown = set(), False
        for k, n, tok in mod["H"]:
            if tok in self.elems:
                hid |= self.elems[tok]
            else:
                unknown = True
        st = self.stats
        st["comp_calls"] = st.get("comp_calls", 0) + 1
        if comps == vis:
            st["comp_exact_visible"] = st.get("comp_exact_visible", 0) + 1
        elif comps - vis and comps <= vis | hid:
            st["comp_extra_from_hidden_negative_numbers"] = st.get("comp_extra_from_hidden_negative_numbers", 0) + 1
        elif unknown:
            st["comp_extra_hidden_content_unknown"] = st.get("comp_extra_hidden_content_unknown", 0) + 1
        else:
            st["comp_extra_unexplained"] = st.get("comp_extra_unexplained", 0) + 1

    def check_modify(self, k, n, tok, p, lines):
        blk = self.blocks.get(int(p[3]))
        if not blk:
            return None
        _, allowed, must = G.modify_lines(k, blk["val"])
        old = self.memo[int(p[2])][2]
        if k in ("pp", "ss") and not any(re.match(r"-component\s+Calcite$", ln.strip()) for ln in old):
            return None      # the named component does not exist in this (empty, mixed from nothing) entity: MODIFY adds it
        self.stats["mod_checked"] += 1
        if isinstance(must, tuple):
            # numeric value: compare as doubles (the dump prints 17 significant digits, e.g. 20.745000000000001)
            def shows(ln):
                m = re.match(must[0], ln.strip())
                try:
                    return bool(m) and float(m.group(1)) == must[1]
                except ValueError:
                    return False
            present = any(shows(ln) for ln in lines)
        else:
            present = any(re.match(must, ln.strip()) for ln in lines)
        if not present:
            return f"{k} {n} after {G.KW[k]}_MODIFY does not show the new value ({must})"
        if len(old) != len(lines):
            return f"{k} {n}: {G.KW[k]}_MODIFY changed the number of lines {len(old)} -> {len(lines)}"
        for a, b in zip(old, lines):
            # `-new_def` is bookkeeping, not a quantity: read_raw resets it (Model: SOp.modify, theorem modify_local)
            if a != b and not re.match(allowed, b.strip()) and not re.match(r"^-new_def\s", b.strip()):
                return f"{k} {n}: {G.KW[k]}_MODIFY changed an unnamed quantity: {a.strip()!r} -> {b.strip()!r}"
        return None


def blocks_by_id(history):
    d = {}
    for run in history:
        for sim in run:
            for b in sim:
                if "id" in b:
                    d[b["id"]] = b
    return d


def judge_history(phases, h, eng_calls, mod_calls):
    """first disagreement of a history or None; eng_calls/mod_calls include the preamble call at index 0"""
    j = Judge(phases, blocks_by_id(h))
    unj = None
    if len(eng_calls) != len(h) + 1:
        # the engine process died (the two causes found in round 1 — entities mixed from nothing — are repaired in
        # e9270b5d / 03535ceb and replayed as fixed corpus histories by probe_crash_findings): always a violation
        return ("bad", f"engine produced {len(eng_calls)} call results for {len(h) + 1} calls (crash?)"), j.stats, None
    for ci, (e, m) in enumerate(zip(eng_calls, mod_calls)):
        r = j.call(ci, e, m)
        if r is None:
            continue
        if r[0] == "unjudged":
            unj = r[1]
            break
        return r, j.stats, None
    return None, j.stats, unj


# ------------------------------------------------------------------------------------------------ templates
def harvest_templates(exe, db):
    """RAW bodies for *_RAW blocks: dump of every menu item of every kind, produced by the engine under test"""
    tpl = {k: [] for k in G.KINDS}
    sims = []
    for item in range(5):
        blocks = []
        for k in G.KINDS:
            b = {"op": "def", "kind": k, "n": 1, "m": None, "id": 900 + item, "item": item}
            if k == "mix":
                b["comps"] = [(1, 0.5), (2 + item % 3, 0.5)]
            blocks.append(b)
        sims.append([b for b in blocks if b["kind"] not in ("solution",)])
    # keep the items apart: one fresh instance per item, nothing reacts (no solution is defined together with reactants)
    lines = []
    for item in range(5):
        lines.append("new " + hx(str(db)))
        lines.append("run " + hx(G.PREAMBLE))
        lines.append("run " + hx(G.render_sim(sims[item], {})))
        lines.append("run " + hx(G.render_sim([{"op": "def", "kind": "solution", "n": 1, "m": None, "id": 900 + item, "item": item}], {})))
    r = subprocess.run([str(exe)], input="\n".join(lines) + "\n", text=True, capture_output=True, timeout=120)
    dumps = [unhx(ln.split(" ")[1]) for ln in r.stdout.splitlines() if ln.startswith("D ")]
    for item in range(5):
        d = dumps[item * 3 + 2]
        for k, n, desc, lines_ in split_dump_raw(d):
            nd = any(re.match(r"\s*-new_def\s+1", ln) for ln in lines_)
            t = {"body": lines_, "new_def": nd}
            if k == "mix":
                t["refs"] = [int(ln.split()[0]) for ln in lines_ if ln.split() and re.match(r"-?\d+$", ln.split()[0])]
            tpl[k].append(t)
    for k in G.KINDS:
        if not tpl[k]:
            raise RuntimeError(f"no RAW template harvested for {k}")
    return tpl


def split_dump_raw(text):
    """like split_dump but keeps the body lines unstripped (they are fed back as input)"""
    out, cur = [], None
    for line in text.splitlines():
        m = HDR.match(line)
        if m:
            cur = (KW2KIND[m.group(1)], int(m.group(2)), m.group(3).strip(), [])
            out.append(cur)
        elif line.startswith("USE "):
            cur = None
        elif cur is not None and line.strip():
            cur[3].append(line.rstrip())
    return out


# ------------------------------------------------------------------------------------------------ RUN_CELLS vs USE+SAVE
def runcells_pairs(rng, n):
    """pairs of input texts that must leave the same store: RUN_CELLS on cell c vs USE of every reactant c + SAVE"""
    cases = []
    for _ in range(n):
        c = rng.randint(1, 4)
        ids = iter(range(1, 100))
        rk = ["pp", "exchange", "surface", "gas", "ss", "reaction", "temperature", "pressure", "kinetics"]
        kinds = ["solution"] + [k for k in rk if rng.random() < 0.45]
        if len(kinds) == 1:
            # a lone solution is not a batch reaction for USE/SAVE (set_use returns FALSE) while RUN_CELLS re-speciates
            # and re-saves it: the comparison is made for cells that hold at least one reactant
            kinds.append(rng.choice(rk))
        defs = []
        for k in kinds:
            defs.append({"op": "def", "kind": k, "n": c, "m": None, "id": next(ids), "item": rng.randint(0, 11)})
        # a second cell that must stay untouched
        other = c + 1
        defs.append({"op": "def", "kind": "solution", "n": other, "m": None, "id": next(ids), "item": rng.randint(0, 11)})
        if rng.random() < 0.5:
            defs.append({"op": "def", "kind": "pp", "n": other, "m": None, "id": next(ids), "item": rng.randint(0, 11)})
        setup = []
        # every definition in its own simulation so that nothing reacts during the set-up
        for d in defs:
            setup.append(G.render_sim([d], {}))
        a = G.render_sim([{"op": "cells", "toks": [[c]]}], {})
        use = [{"op": "use", "kind": k, "n": c} for k in kinds]
        save = [{"op": "save", "kind": k, "n": c, "m": None} for k in kinds if k in G.SAVE_KINDS]
        b = G.render_sim(use + save, {})
        cases.append({"cell": c, "kinds": kinds, "setup": setup, "run_cells": a, "use_save": b})
    return cases


NUM = re.compile(r"^-?\d+(\.\d+)?([eE][-+]?\d+)?$")


def same_store(d1, d2, rtol=1e-9):
    e1, e2 = split_dump(d1), split_dump(d2)
    if [(k, n) for k, n, _, _ in e1] != [(k, n) for k, n, _, _ in e2]:
        return f"entries differ: {[(k, n) for k, n, _, _ in e1]} vs {[(k, n) for k, n, _, _ in e2]}"
    for (k, n, da, la), (_, _, db_, lb) in zip(e1, e2):
        if da != db_:
            return f"{k} {n}: description {da!r} vs {db_!r}"
        if len(la) != len(lb):
            return f"{k} {n}: {len(la)} vs {len(lb)} lines"
        for x, y in zip(la, lb):
            if x == y:
                continue
            wx, wy = x.split(), y.split()
            if len(wx) != len(wy):
                return f"{k} {n}: {x.strip()!r} vs {y.strip()!r}"
            for p, q in zip(wx, wy):
                if p == q:
                    continue
                if NUM.match(p) and NUM.match(q):
                    fp, fq = float(p), float(q)
                    if abs(fp - fq) <= rtol * max(abs(fp), abs(fq)) + 1e-18:
                        continue
                return f"{k} {n}: {x.strip()!r} vs {y.strip()!r}"
    return None


def run_runcells_case(exe, db, case):
    outs = []
    for last in (case["run_cells"], case["use_save"]):
        lines = ["new " + hx(str(db)), "run " + hx(G.PREAMBLE)] + ["run " + hx(t) for t in case["setup"]] + ["run " + hx(last)]
        r = subprocess.run([str(exe)], input="\n".join(lines) + "\n", text=True, capture_output=True, timeout=120)
        if r.returncode:
            return ("crash", r.stderr[-200:])
        rs = [ln for ln in r.stdout.splitlines() if ln.startswith("R ")]
        ds = [ln for ln in r.stdout.splitlines() if ln.startswith("D ")]
        if any(int(x.split(" ")[1]) for x in rs):
            return ("unjudged", unhx(rs[-1].split(" ")[2])[:100])
        outs.append(unhx(ds[-1].split(" ")[1]))
    d = same_store(outs[0], outs[1])
    return ("bad", d) if d else None


# ------------------------------------------------------------------------------------------------ findings
def probe_copy_findings(ctx, exe, db, facts):
    """the two departures of copy_entities' size_t loop from the property, each on a minimal fixed replay"""
    sol = "SOLUTION 1 D1\n pH 7\n Na 1\n Cl 1\nEND\n"
    # (1) a target range from a negative to a non-negative number copies nothing
    inp = [sol, "COPY solution 1 -2-3\nEND\n"]
    lines = ["new " + hx(str(db))] + ["run " + hx(t) for t in inp]
    r = subprocess.run([str(exe)], input="\n".join(lines) + "\n", text=True, capture_output=True, timeout=60)
    d = [unhx(ln.split(" ")[1]) for ln in r.stdout.splitlines() if ln.startswith("D ")]
    nums = [n for k, n, _, _ in split_dump(d[-1])] if d else []
    ctx.cov["probe_copy_negative_start"] = nums
    if nums and not {0, 2, 3} <= set(nums):
        ctx.finding("copy-range-negative-start",
                    f"COPY solution 1 -2-3 made no copy (solutions present afterwards: {nums}): copy_entities loops with "
                    "`size_t i = start` so a negative start never satisfies i <= end",
                    {"calls": inp, "present": nums})
    # (2) a target range ending at -1 never terminates (SIZE_MAX): run under an address-space limit
    inp2 = [sol, "COPY solution 1 -3--1\nEND\n"]
    lines = ["new " + hx(str(db))] + ["run " + hx(t) for t in inp2]

    def lim():
        resource.setrlimit(resource.RLIMIT_AS, (1500 * 1024 * 1024, 1500 * 1024 * 1024))
    try:
        r = subprocess.run([str(exe)], input="\n".join(lines) + "\n", text=True, capture_output=True, timeout=120, preexec_fn=lim)
        done = len([ln for ln in r.stdout.splitlines() if ln.startswith("R ")]) == 2 and r.returncode == 0
        how = f"exit {r.returncode}: {r.stderr.strip()[-80:]}"
    except subprocess.TimeoutExpired:
        done, how = False, "timeout"
    ctx.cov["probe_copy_range_to_minus_one"] = "completed" if done else how
    if not done:
        ctx.finding("copy-range-runaway",
                    "COPY solution 1 -3--1 does not return: the size_t loop bound is SIZE_MAX, copies are made to 0,1,2,... "
                    f"until memory is exhausted ({how} under a 1.5 GB limit)", {"calls": inp2})
    pred = (facts["copy_loop"] == "sizet")
    if pred != bool(nums and not {0, 2, 3} <= set(nums)):
        ctx.violation("copy_entities loop type read from the source does not explain the observed COPY behaviour",
                      {"facts": facts, "present": nums})


CRASH_PROBES = {
    "crash-gas-phase-mixed-from-nothing": (
        ["GAS_PHASE_MIX 2\n 5 1\nEND\n", "SOLUTION 2-3\n pH 7\n Ca 1\n Cl 2\nEND\n", "RUN_CELLS\n -cells 2-3\nEND\n"],
        "a gas phase that GAS_PHASE_MIX built from no existing gas phase (empty, no type/volume data) is used by RUN_CELLS "
        "and the next cell has no gas phase"),
    "crash-modify-of-empty-solid-solution": (
        ["SOLID_SOLUTIONS_MIX 0\n 2 1\nEND\n", "SOLUTION 1\n pH 7.5\n Ca 1\n Cl 2\nEND\n", "REACTION_TEMPERATURE 1\n 28\nEND\n",
         "SOLID_SOLUTIONS_MODIFY 0-1\n -solid_solution CaSr\nEND\n", "RUN_CELLS\n -cells 1\nEND\n"],
        "a solid solution added by SOLID_SOLUTIONS_MODIFY to an empty (mixed from nothing) assemblage is used in a calculation"),
}


def probe_crash_findings(ctx, exe, db):
    """two ways in which an entity that a *_MIX keyword built from no existing component kills the process when a
    later calculation reads it (found by the random histories; replayed here on fixed minimal inputs)"""
    for key, (calls, what) in CRASH_PROBES.items():
        lines = ["new " + hx(str(db))] + ["run " + hx(t) for t in calls]
        r = subprocess.run([str(exe)], input="\n".join(lines) + "\n", text=True, capture_output=True, timeout=120)
        done = len([ln for ln in r.stdout.splitlines() if ln.startswith("R ")])
        ctx.cov["probe_" + key] = "completed" if r.returncode == 0 else f"exit {r.returncode} after {done} of {len(calls)} calls"
        if r.returncode != 0:
            ctx.finding(key, f"engine process died (exit {r.returncode}) in call {done}: {what}", {"calls": calls, "crash": key})


def probe_reserved_numbers(ctx, exe, db):
    """The numbers the engine itself files entities under (friend access to the maps): after a batch reaction that uses
    every kind (two reaction steps, kinetics, mix) and a RUN_CELLS, the negative keys must lie in gens.store.RESERVED —
    the generator keeps user numbers away from exactly these. Second part: a user entity filed under -2 is overwritten
    by the next batch reaction (reserved = not a user number), and the component list after DELETE still carries the
    elements of the scratch entries."""
    ids = iter(range(1, 99))
    sim = [{"op": "def", "kind": k, "n": 1, "m": None, "id": next(ids), "item": 1} for k in G.KINDS if k != "mix"]
    sim.append({"op": "def", "kind": "solution", "n": 2, "m": None, "id": next(ids), "item": 0})
    sim.append({"op": "def", "kind": "mix", "n": 1, "m": None, "id": next(ids), "item": 0, "comps": [(1, 0.5), (2, 0.5)]})
    sim.append({"op": "save", "kind": "solution", "n": 3, "m": None})
    t1, t2 = G.render_sim(sim, {}), G.render_sim([{"op": "cells", "opt": "cells", "toks": [[1]]}], {})
    lines = ["new " + hx(str(db)), "run " + hx(G.PREAMBLE), "run " + hx(t1), "neg", "run " + hx(t2), "neg"]
    r = subprocess.run([str(exe)], input="\n".join(lines) + "\n", text=True, capture_output=True, timeout=120)
    used = set()
    for ln in r.stdout.splitlines():
        if ln.startswith("G"):
            for w in ln.split()[1:]:
                used |= {int(x) for x in w.split(":")[1].split(",") if x}
    ctx.cov["engine_scratch_numbers_seen"] = sorted(used)
    if not used or not used <= G.RESERVED:
        ctx.violation(f"the engine files entities under {sorted(used)}; the reserved set assumed by the generator is {sorted(G.RESERVED)}",
                      {"calls": [t1, t2], "seen": sorted(used)}, found_input=False)
    # a user solution under -2 does not survive a batch reaction; components after DELETE
    c1 = "SOLUTION -2 mine\n pH 7\n K 1\n Cl 1\nEND\n"
    c2 = "SOLUTION 1 D1\n pH 7\n Na 1\n Cl 1\nEQUILIBRIUM_PHASES 1 D2\n Calcite 0 0.01\nEND\n"
    c3 = "COPY solution -2 9\nEND\n"
    c4 = "DELETE\n -solution 1 9\n -equilibrium_phases 1\nEND\n"
    c5 = "DELETE\n -all\nEND\n"
    lines = ["new " + hx(str(db))] + ["run " + hx(t) for t in (c1, c2, c3, c4, c5)]
    r = subprocess.run([str(exe)], input="\n".join(lines) + "\n", text=True, capture_output=True, timeout=120)
    dumps = [unhx(ln.split(" ")[1]) for ln in r.stdout.splitlines() if ln.startswith("D ")]
    comps = [ln.split()[2:] for ln in r.stdout.splitlines() if ln.startswith("C ")]
    if len(dumps) == 5:
        d9 = [d for k, n, d, _ in split_dump(dumps[2]) if (k, n) == ("solution", 9)]
        ctx.cov["reserved_minus2_after_reaction"] = {"user_description": "mine", "description_found_under_-2": d9}
        ctx.cov["component_list_after_delete"] = {
            "after reaction (solution 1 Na Cl + Calcite)": comps[1],
            "after DELETE of every visible entry (dump: %s)" % [(k, n) for k, n, _, _ in split_dump(dumps[3])]: comps[3],
            "after DELETE -all (clears the maps, scratch numbers included)": comps[4]}


# ------------------------------------------------------------------------------------------------ main
def check_chunk(ctx, exe, db, phases, templates, cfg, chunk):
    mod = run_model(ctx, chunk, templates, cfg)
    # a history in which, with the loop variable type read from copy_entities, a COPY loop does not end is reported from
    # the model's prediction alone (probe_copy_findings shows it once on the engine under a memory limit); all other
    # histories run on the engine — under an address-space and a time limit, so a loop the translator did not foresee
    # ends as a dead process, i.e. as a violation too
    runaway = {i: next(c["stop"] for c in m if c["stop"] and c["stop"][0] == "runaway")
               for i, m in enumerate(mod) if any(c["stop"] and c["stop"][0] == "runaway" for c in m)}
    idx = [i for i in range(len(chunk)) if i not in runaway]
    sub = [chunk[i] for i in idx]
    eng, crashed, errtail = run_engine(exe, db, sub, templates) if sub else ([], False, "")
    while crashed and errtail != "timeout" and 0 < len(eng) < len(sub):
        # the process died inside history len(eng)-1 (judged as such below); the rest of the chunk runs in a new process
        more, crashed, errtail = run_engine(exe, db, sub[len(eng):], templates)
        eng += more
    pos = {i: k for k, i in enumerate(idx)}
    res = []
    for i, h in enumerate(chunk):
        if i in runaway:
            res.append((("bad", f"COPY {' '.join(runaway[i][1:])}: with the loop variable type read from copy_entities the copy "
                                "loop does not end (targets 0,1,2,... until memory is exhausted)"), {}, None))
            continue
        k = pos[i]
        if k >= len(eng) or eng[k] is None:
            if errtail == "timeout":
                res.append((None, {}, "calculation did not finish within the time limit"))
            else:
                res.append((("bad", f"harness died ({errtail})"), {}, None))
            continue
        res.append(judge_history(phases, h, eng[k], mod[i]))
    return res


def one_history(ctx, exe, db, phases, templates, cfg, h):
    return check_chunk(ctx, exe, db, phases, templates, cfg, [h])[0]


def flatten(h):
    return [(ri, si, b) for ri, run in enumerate(h) for si, sim in enumerate(run) for b in sim]


def unflatten(items):
    h, key = [], None
    for ri, si, b in items:
        if key is None or ri != key[0]:
            h.append([[b]])
        elif si != key[1]:
            h[-1].append([b])
        else:
            h[-1][-1].append(b)
        key = (ri, si)
    return h


def hist_stats(h, hist):
    for run in h:
        for sim in run:
            for b in sim:
                key = b["op"] + ("-range" if b.get("m") not in (None, b.get("n")) or b.get("b") not in (None, b.get("a")) else "")
                hist[key] = hist.get(key, 0) + 1
                if "kind" in b:
                    hist["kind:" + b["kind"]] = hist.get("kind:" + b["kind"], 0) + 1
                for f in ("n", "a", "src"):
                    if isinstance(b.get(f), int) and b[f] < 0:
                        hist["negative-number"] = hist.get("negative-number", 0) + 1
                    if isinstance(b.get(f), int) and abs(b[f]) >= 100000:
                        hist["number>=1e5"] = hist.get("number>=1e5", 0) + 1
                if b["op"] == "def" and b.get("eq") is not None:
                    hist["equilibrate:" + b["kind"]] = hist.get("equilibrate:" + b["kind"], 0) + 1
                if b["op"] == "del":
                    for l in b["lines"]:
                        kind = "abbreviated" if l[1] is None else ("canonical" if l[0] in G.DEL_NAME.values() or l[0] in ("all", "cell") else "alias")
                        hist["del-option:" + kind] = hist.get("del-option:" + kind, 0) + 1
                        if len(l) > 3 and l[3]:
                            hist["del-continuation-line"] = hist.get("del-continuation-line", 0) + 1
                if b["op"] == "copy":
                    b2 = b["a"] if b.get("b") is None else b["b"]
                    if b2 == -1 and b["a"] < 0:
                        hist["copy-target-ending-at--1"] = hist.get("copy-target-ending-at--1", 0) + 1
                    elif b["a"] >= 0 > b2:
                        hist["copy-target-nonneg-to-negative"] = hist.get("copy-target-nonneg-to-negative", 0) + 1
                    elif b["a"] < 0 <= b2:
                        hist["copy-target-negative-to-nonneg"] = hist.get("copy-target-negative-to-nonneg", 0) + 1
                if b["op"] == "cells":
                    hist["cells-option:" + b.get("opt", "cells")] = hist.get("cells-option:" + b.get("opt", "cells"), 0) + 1


def run(ctx):
    try:
        facts = gen_store.generate(ctx)
        try:
            import gen_keywords                     # Gen/Keywords.lean (keyword text -> KEY_x) is used by use_copy_names_resolve
            gen_keywords.generate(ctx)
        except ImportError:
            pass
        ctx.cov["source_facts"] = {k: facts[k] for k in ("do_run", "copy_loop", "saver", "bin_vopts", "bin_cases")}
        facts_ok = True
    except Exception as e:       # code shape not recognised: protocol P
        facts, facts_ok = {"copy_loop": "int"}, False
        ctx.proof_broken.append({"stage": "translator", "error": str(e)})
        ctx.log("translator failed:", e)
    ok = ctx.prove(["PhreeqcVerif.Properties.C14"]) and facts_ok
    ctx.build_lib()
    exe = ctx.build_harness("ph_store")
    db = vlib.REPO / "database" / "phreeqc.dat"
    phases = load_phases(db)
    templates = harvest_templates(exe, db)
    cfg = facts["copy_loop"]
    nh = ctx.n(3000, 30000)
    max_ops = ctx.n(15, 40)
    if not ok:
        nh, max_ops = max(nh, 2000), 40
    hists = [G.gen_history(ctx.rng, max_ops) for _ in range(nh)]
    hist = {}
    for h in hists:
        hist_stats(h, hist)
    nchunk = max(1, min(len(hists) // 4, vlib.NCPU * 2))
    chunks = [hists[i::nchunk] for i in range(nchunk)]
    totals = {"entries": 0, "memo_hits": 0, "mod_checked": 0, "comp_checked": 0, "stops": 0, "viscosity_rewritten": 0,
              "comp_calls": 0, "comp_exact_visible": 0, "comp_extra_from_hidden_negative_numbers": 0,
              "comp_extra_hidden_content_unknown": 0, "comp_extra_unexplained": 0}
    unjudged, judged_calls, bad, found = {}, 0, None, {}
    with concurrent.futures.ThreadPoolExecutor(max_workers=vlib.NCPU) as ex:
        futs = [ex.submit(check_chunk, ctx, exe, db, phases, templates, cfg, c) for c in chunks]
        for c, f in zip(chunks, futs):
            for h, (r, st, unj) in zip(c, f.result()):
                for k in totals:
                    totals[k] += st.get(k, 0)
                judged_calls += len(h)
                if unj:
                    unjudged[unj[:60]] = unjudged.get(unj[:60], 0) + 1
                if r and r[0] == "finding":
                    if r[1] not in found:
                        found[r[1]] = (h, r)
                elif r and bad is None:
                    bad = (h, r)
    for key, (h, r) in found.items():
        items = flatten(h)

        def same(sub, key=key):
            rr, _, _ = one_history(ctx, exe, db, phases, templates, cfg, unflatten(sub))
            return rr is not None and rr[0] == "finding" and rr[1] == key
        hs = unflatten(shrink_list(items, same, max_iter=80))
        ctx.finding(key, r[2], {"history": hs, "calls": [G.render_run(run_, templates) for run_ in hs]})
    if bad:
        h, r = bad
        ctx.log("disagreement:", r[1][:300])
        items = flatten(h)

        def fails(sub):
            rr, _, _ = one_history(ctx, exe, db, phases, templates, cfg, unflatten(sub))
            return rr is not None and rr[0] == "bad"
        small = shrink_list(items, fails, max_iter=150)
        hs = unflatten(small)
        rr, _, _ = one_history(ctx, exe, db, phases, templates, cfg, hs)
        ctx.violation("engine and keyed-store model disagree: " + (rr or r)[1][:600],
                      {"history": hs, "calls": [G.render_run(run_, templates) for run_ in hs], "cfg": cfg,
                       "model": G.model_lines([[[]]] + hs, templates, cfg), "result": (rr or r)[1]})
    # RUN_CELLS on cell n  ==  USE every reactant n + SAVE n   (both on the real engine)
    ncell = ctx.n(24, 400)
    cases = runcells_pairs(ctx.rng, ncell)
    rc_unj, rc_done = 0, 0
    with concurrent.futures.ThreadPoolExecutor(max_workers=vlib.NCPU) as ex:
        for case, res in zip(cases, ex.map(lambda c: run_runcells_case(exe, db, c), cases)):
            if res is None:
                rc_done += 1
            elif res[0] == "unjudged":
                rc_unj += 1
            elif not any("RUN_CELLS" in v[2] for v in ctx.violations):
                ctx.violation("RUN_CELLS on a cell and USE of every reactant of that number + SAVE leave different stores: " + str(res[1])[:400],
                              {"runcells_case": case, "result": res})
    probe_copy_findings(ctx, exe, db, facts)
    probe_crash_findings(ctx, exe, db)
    probe_reserved_numbers(ctx, exe, db)
    if hists:
        ctx.sample({"calls": [G.render_run(r_, templates) for r_ in hists[0][:2]]})
        ctx.sample({"model_lines": G.model_lines(hists[0][:2], templates, cfg)[:12]})
    ctx.cov["evaluations"] = judged_calls + rc_done
    ctx.cov["distinct_nontrivial"] = len({json.dumps(h, sort_keys=True) for h in hists}) + rc_done
    ctx.cov["histories"] = len(hists)
    ctx.cov["calls_compared"] = judged_calls
    ctx.cov["checked"] = totals
    ctx.cov["unjudged_histories_truncated"] = unjudged
    ctx.cov["runcells_pairs"] = {"equal": rc_done, "unjudged": rc_unj}
    ctx.cov["op_histogram"] = dict(sorted(hist.items()))
    ctx.cov["rule"] = ("seeded random histories (calls of 1-3 simulations of 1-4 blocks) over 11 kinds: keyword definitions "
                       "with ranges/negative/reversed numbers, *_RAW (bodies harvested from the engine under test), *_MODIFY, "
                       "USE, SAVE ranges, COPY (kind and cell, ranges), DELETE (kinds, -cell, -all, ranges), RUN_CELLS, *_MIX; "
                       "after every call DUMP -all + component list vs pmodel store: same (kind, number) set and order, "
                       "same content for entries the model says share a content token (also across time), descriptions, "
                       "MODIFY changes only the named line, predicted 'not found' stops, elements of every dumped entry "
                       "in the component list. evaluations = calls compared + RUN_CELLS pairs; distinct = distinct histories.")
    if not ok and not ctx.violations:
        ctx.violation("proof obligation / source translator of C14 no longer checks and no failing history was found",
                      {"broken": ctx.proof_broken}, found_input=False)


def replay(ctx, data):
    facts = source_facts()
    ctx.build_lib()
    exe = ctx.build_harness("ph_store")
    db = vlib.REPO / "database" / "phreeqc.dat"
    if "history" in data:
        phases = load_phases(db)
        templates = harvest_templates(exe, db)
        r, st, unj = one_history(ctx, exe, db, phases, templates, facts["copy_loop"], data["history"])
        print("replay:", r, unj)
        if r and r[0] == "finding":
            ctx.finding(r[1], r[2], data)
        elif r:
            ctx.violation("replayed history still disagrees: " + r[1][:400], data)
    elif "runcells_case" in data:
        r = run_runcells_case(exe, db, data["runcells_case"])
        print("replay:", r)
        if r and r[0] == "bad":
            ctx.violation("replayed RUN_CELLS pair still differs", data)
    elif "crash" in data:
        probe_crash_findings(ctx, exe, db)
    elif "calls" in data:
        probe_copy_findings(ctx, exe, db, facts)
    else:
        run(ctx)


MANIFEST = dict(
    technique="Lean 4 refinement proof (association-list store of the keyword drivers vs the abstract finite map "
              "(kind, number) -> entry; induction over arbitrary sequences of store operations) + translator "
              "(tools/gen_store.py -> Gen/StoreTables.lean: call order of one simulation, kind orders of the driver loops, "
              "option vectors and case wiring of DELETE/RUN_CELLS/DUMP, KEY_x wiring of USE/SAVE/COPY; decide obligations) + "
              "differential correspondence of random input histories on the real engine (DUMP -all, component list, stops)",
    text="Theorems (Properties/C14.lean over Model/Store.lean, Lemmas/Store.lean): find/put/erase laws of the std::map "
         "model; closed map-level forms of Rxn_copy, the chained Rxn_copies loop, the Rxn_copy loops, the COPY loop, "
         "DELETE, MODIFY; refines_map / refines_content for every sequence of store operations; other_kinds_untouched and "
         "ops_commute_across_kinds; delete_exact, delete_all_exact; copy_content_eq and copy_content_eq_current (the loop "
         "variable read from the source is signed: any range, negative numbers included), copy_content_eq_partial + "
         "counter-examples for the former size_t loop; copy_then_write_independent; range_define / save_overwrites; "
         "modify_local; use_reads_only; representation invariant kept by every operation, abs_injective; "
         "components_superset. Against generated tables (re-decided every run): schedule_is_do_run / "
         "schedule_is_run_simulations / schedule_split (DELETE after DUMP), kind orders of set_use, copy_use, saver (+ "
         "fan-out kind), do_mixes, copy_entities, delete_entities, dump_ostream, list_components; delete_names_resolve, "
         "delete_abbreviations, delete_options_all_wired, run_cells_option_resolves, dump_all_resolves, "
         "dump_options_wired, use_copy_names_resolve, save_names_resolve. The option text of DELETE / RUN_CELLS is "
         "resolved inside the model (find_option = lower-case prefix, first match, over the generated vectors). "
         "Correspondence per RunString call: same (kind, number) set and order as pmodel store predicts, equal dump text "
         "for entries the model gives the same content token (also across time), descriptions, MODIFY changes only the "
         "named line, predicted stops ('not found', initial exchange/surface/gas solution missing, mix solution missing, "
         "input errors), every element of every dumped entry is in GetComponent; the engine never rejects an option the "
         "tables accept; RUN_CELLS on cell n vs USE of every reactant n + SAVE n on the engine; engine scratch numbers "
         "(friend access) stay inside the reserved set {-1,-2,-5,-6}.",
    note="Trusted: harness/ph_store.cpp, tools/gen_store.py (regex extraction, fails closed), the DUMP splitter / "
         "canonicalisation / comparison in tools/props/c14.py, and the bodies of the phases in Model/Store.lean (their "
         "ORDER is proved against the source, what each does is validated by the correspondence); that every map mutation "
         "is one of the proved store operations is checked at run time by pmodel (maps = recorded operations applied to "
         "the empty store). Content is an opaque token: what a calculation computes is outside the model (in particular "
         "the entities the engine leaves under its scratch numbers are not predicted); calls ending in other errors or "
         "not finishing are counted, not judged. Left out of 'same content': KINETICS trailing -totals (refilled by "
         "GetComponentCount), SOLUTION -viscosity/-viscos_0 (written back by initial surface/exchange calculations), "
         "EQUILIBRIUM_PHASES -eltList (rebuilt by tidy). Measured, not required: the component list equals the union over "
         "the visible entries in ~89% of calls; the rest carries elements of entities under scratch numbers, which "
         "DELETE of the visible entries does not remove (DELETE -all does). Selective DUMP options are tied by theorem "
         "only (dump_options_wired); the observing dump is always -all. Fixed corpus histories replayed every run: the two "
         "COPY range shapes of the former size_t loop (7d4d2190) and the two crashes on entities mixed from nothing "
         "(e9270b5d, 03535ceb); every harness process runs under a 2 GB address-space limit and a time limit, so a COPY "
         "loop that does not end is reported, not avoided.",
)
