import PhreeqcVerif.Model.Util
import PhreeqcVerif.Model.NumOps
import PhreeqcVerif.Model.Transport
/-! `pmodel transport`: line protocol of the C11 model.

    setup <flow -1|0|1> <bf> <bl> <corr 0|1> <diffc> <timest> <n> <L1..Ln> <D1..Dn>     rationals as `num/den`
        → `PLAN nmix=<k> pre=<sub-mixes before the shift> maxmix=<rat>` and one `W <i> <l> <s> <r>` per cell (exact rationals)
    force <k>            recompute the weights for `k` sub-mixes (used only when 1.5·maxmix is an integer up to rounding)
    col <name> <first> <last> <cell1> … <celln>     one extensive quantity (doubles as 16 hex digits)
    run <shifts>         → `S <step> <name> <cells…>` for every step and quantity (Float execution of `transportStepWith`)
    advect <shifts>      → the same for the ADVECTION keyword
    reset                forget the quantities
    mark <id>            → `M <id>` -/
namespace Driver.Transport
open PhreeqcVerif PhreeqcVerif.Util PhreeqcVerif.Transport

def parseRat (s : String) : Option Rat :=
  match s.splitOn "/" with
  | [a] => a.toInt?.map fun n => (n : Rat)
  | [a, b] => match a.toInt?, b.toNat? with
    | some n, some d => if d = 0 then none else some (mkRat n d)
    | _, _ => none
  | _ => none

def showRat (q : Rat) : String := s!"{q.num}/{q.den}"

def allSome {β : Type} : List (Option β) → Option (List β)
  | [] => some []
  | none :: _ => none
  | some x :: xs => (allSome xs).map (x :: ·)

def parseSetup (ws : List String) : Option Setup :=
  match ws with
  | fl :: bf :: bl :: corr :: dc :: ts :: n :: rest =>
    match fl.toInt?, bf.toNat?, bl.toNat?, corr.toNat?, parseRat dc, parseRat ts, n.toNat? with
    | some fl, some bf, some bl, some corr, some dc, some ts, some n =>
      if rest.length ≠ 2 * n then none else
      match allSome ((rest.take n).map parseRat), allSome ((rest.drop n).map parseRat) with
      | some ls, some ds =>
        some { cells := (ls.zip ds).map fun (l, d) => { len := l, disp := d }
               flow := if fl = 0 then Flow.none else if fl > 0 then Flow.forward else Flow.back
               bconFirst := bf, bconLast := bl, correctDisp := corr ≠ 0, diffc := dc, timest := ts }
      | _, _ => none
    | _, _, _, _, _, _, _ => none
  | _ => none

def wFloat (w : W Rat) : W Float := { l := floatOfRat w.l, s := floatOfRat w.s, r := floatOfRat w.r }

structure St where
  setup : Option Setup := none
  nmix : Nat := 0
  weights : List (W Rat) := []
  comps : Array (String × Col Float) := #[]

def showCells (c : Col Float) : String := String.intercalate " " (c.cells.map hexOfFloat)

def planLines (s : Setup) (nmix : Nat) (ws : List (W Rat)) (mx : Rat) : List String :=
  s!"PLAN nmix={nmix} pre={preMixes s nmix} maxmix={showRat mx}" ::
    (ws.zipIdx.map fun (w, i) => s!"W {i + 1} {showRat w.l} {showRat w.s} {showRat w.r}")

def step (st : St) (line : String) : St × List String :=
  match words line with
  | "setup" :: rest =>
    match parseSetup rest with
    | some s => let p := initMix s
                ({ st with setup := some s, nmix := p.nmix, weights := p.weights }, planLines s p.nmix p.weights p.maxmix)
    | none => (st, ["bad-setup"])
  | ["force", k] =>
    match st.setup, k.toNat? with
    | some s, some k => let r := rawMix s
                        let ws := weightsWith r.1 k
                        ({ st with nmix := k, weights := ws }, planLines s k ws r.2)
    | _, _ => (st, ["bad-op"])
  | "col" :: name :: f :: l :: cells =>
    match floatOfHex f, floatOfHex l, allSome (cells.map floatOfHex) with
    | some f, some l, some cs => ({ st with comps := st.comps.push (name, { first := f, cells := cs, last := l }) }, [])
    | _, _, _ => (st, ["bad-col"])
  | ["reset"] => ({ st with comps := #[] }, [])
  | ["mark", i] => (st, [s!"M {i}"])
  | ["run", k] =>
    match st.setup, k.toNat? with
    | some s, some k =>
      let ws := st.weights.map wFloat
      let stepF : Col Float → Col Float := transportStepWith ws st.nmix (preMixes s st.nmix) s.flow
      let out := st.comps.toList.flatMap fun (name, c) =>
        (runWith stepF k c).zipIdx.map fun (c', t) => s!"S {t + 1} {name} {showCells c'}"
      (st, out)
    | _, _ => (st, ["bad-op"])
  | ["advect", k] =>
    match k.toNat? with
    | some k =>
      let out := st.comps.toList.flatMap fun (name, c) =>
        (advectionRun k c).zipIdx.map fun (c', t) => s!"S {t + 1} {name} {showCells c'}"
      (st, out)
    | none => (st, ["bad-op"])
  | [] => (st, [])
  | _ => (st, ["bad-op"])

def run : IO Unit := do
  let lines ← readLines (← IO.getStdin)
  let out ← IO.getStdout
  let mut st : St := {}
  for l in lines do
    let (st', o) := step st l
    st := st'
    for s in o do out.putStrLn s

end Driver.Transport
