/-! Number-type abstraction of the formula layer (DESIGN.md §2 "Number types").

A formula of the engine (log K(T), Debye–Hückel, Peng–Robinson, Gouy–Chapman …) is written once over a
type `α` with `[NumOps α]`:

* `NumOps Float` executes it (IEEE double, same libm as the C++), used by the `pmodel` drivers;
* `NumOps.ofField`-style instances on `Rat` (core) or on ℝ (Mathlib, in `Lemmas/`) carry the theorems.
  The transcendental members are *parameters* of those instances (`TransFns`), so a theorem proved for
  `ratOps f` for every `f` uses nothing about `log10`, `exp` … except what its hypotheses state.

`simp only [NumOps.toRat]`-free usage: the arithmetic members are the ordinary `+ - * /` of the type
(the class `extends Add α, …`), so `ring`/`grind`/`linarith` work on goals over `Rat`/ℝ directly. -/
namespace PhreeqcVerif

/-- the non-algebraic functions a model may call -/
structure TransFns (α : Type) where
  log10 : α → α
  exp10 : α → α
  ln    : α → α
  exp   : α → α
  sqrt  : α → α
  sinh  : α → α
  cos   : α → α
  acos  : α → α
  cbrt  : α → α
  floor : α → α

class NumOps (α : Type) extends Add α, Sub α, Mul α, Div α, Neg α, LT α, LE α where
  ofRat : Rat → α
  fns   : TransFns α

namespace NumOps
variable {α : Type} [NumOps α]
def log10 (x : α) : α := (NumOps.fns).log10 x
def exp10 (x : α) : α := (NumOps.fns).exp10 x
def ln (x : α) : α := (NumOps.fns).ln x
def exp (x : α) : α := (NumOps.fns).exp x
def sqrt (x : α) : α := (NumOps.fns).sqrt x
def sinh (x : α) : α := (NumOps.fns).sinh x
def cos (x : α) : α := (NumOps.fns).cos x
def acos (x : α) : α := (NumOps.fns).acos x
def cbrt (x : α) : α := (NumOps.fns).cbrt x
def floor (x : α) : α := (NumOps.fns).floor x
/-- numeric literal `q` of the source as an element of `α` -/
def lit (q : Rat) : α := NumOps.ofRat q
end NumOps

def floatOfRat (q : Rat) : Float :=
  let n := q.num
  let d := q.den
  let fn : Float := if n < 0 then -(Float.ofNat n.natAbs) else Float.ofNat n.natAbs
  fn / Float.ofNat d

def floatFns : TransFns Float where
  log10 := Float.log10
  exp10 := fun x => Float.pow 10.0 x
  ln := Float.log
  exp := Float.exp
  sqrt := Float.sqrt
  sinh := Float.sinh
  cos := Float.cos
  acos := Float.acos
  cbrt := Float.cbrt
  floor := Float.floor

instance : NumOps Float where
  ofRat := floatOfRat
  fns := floatFns

/-- `Rat` with arbitrary (uninterpreted) transcendental functions: theorems quantify over `f` -/
@[reducible] def ratOps (f : TransFns Rat) : NumOps Rat where
  ofRat := id
  fns := f

end PhreeqcVerif
