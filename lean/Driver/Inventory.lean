import PhreeqcVerif.Model.Util
import PhreeqcVerif.Model.Formula
import PhreeqcVerif.Model.NameDouble
import PhreeqcVerif.Model.Inventory
/-! `pmodel inventory`: line-protocol driver of the inventory model (exact `Rat`; numbers arrive as the decimal text of
the dump, names and formulas as hex).

```
cell <id>                                   start (or reset) a cell description
sol <id> <fraction> <totalH> <totalO> <cb> <massWater> <hexname>:<val> …
exch <id> <newdef> | xcomp <id> <cb> name:val …
surf <id> <type> <dltype> <newdef> | scomp <id> <cb> name:val … | scharge <id> <cb> name:val …
gas|ss <id> <moles> <hexformula>            pp <id> <moles> <hexformula> <precipOnly> <alt>
kin <id> <m> <hexformula>:<coef> …
rxn <hexunits> <equal> <count> <step> …     reactant <hexformula> <coef>          norxn
amount <inc> <n>                            → A <num>/<den>                       stepAmount
kstep <inc> <equal> <count> <n> <step> …    → K <num>/<den>                       Current_step
added <inc> <nsteps>                        → D name:num/den …   what the reaction adds over the steps of one simulation
inv <id>                                    → I name:num/den …
kintotals name:val …                        kinetics_ptr->totals handed to step()
assemble <id> <inc> <n>                     → T <massbalance 0|1> name:num/den …  totals after solution_check ; P moles… ; S moles…
judgestep <before> <after> <inc> <k> <tol> <chargeScale> <floor>   as judge, for the single step k
judge <before> <after> <inc> <nsteps> <tol> <chargeScale> <floor>
          → J <hexname> <before> <added> <after> <diff> <scale> <ok 0|1|2>  (floats as hex; 2 = below floor, not judged), then "E"
```
-/
namespace Driver.Inventory
open PhreeqcVerif PhreeqcVerif.Util PhreeqcVerif.NameDouble PhreeqcVerif.Inventory

def ratStr (q : Rat) : String := s!"{q.num}/{q.den}"

/-- a double within one unit in the last place of `q` -/
def floatOfRat (q : Rat) : Float :=
  if q == 0 then 0.0 else
  let n := q.num.natAbs
  let d := q.den
  let k : Int := 64 + (Nat.log2 d : Int) - (Nat.log2 n : Int)
  let t : Nat := if k ≥ 0 then (n <<< k.toNat) / d else n / (d <<< (-k).toNat)
  let f := (Float.ofNat t).scaleB (-k)
  if q.num < 0 then -f else f

def outF (q : Rat) : String := hexOfFloat (floatOfRat q)

def pair? (w : String) : Option (String × Rat) :=
  match w.splitOn ":" with
  | [a, b] => match unhexStr a, parseDec b with
    | some n, some v => some (n, v)
    | _, _ => none
  | _ => none

def pairs (ws : List String) : List (String × Rat) := ws.filterMap pair?

def dec (s : String) : Rat := (parseDec s).getD 0

def formulaOf (h : String) : Inventory.Formula :=
  match unhexStr h with
  | some s => (Formula.parseFormula s).getD []
  | none => []

structure St where
  cells : List (String × Cell) := []
  rxn : Option Reaction := none
  kinTotals : ND := []

def St.getCell (st : St) (id : String) : Cell := (st.cells.lookup id).getD { sols := [] }
def St.setCell (st : St) (id : String) (c : Cell) : St :=
  { st with cells := (id, c) :: st.cells.filter (·.1 != id) }

def surfType (n : String) : SurfType :=
  match n with
  | "1" => SurfType.noEdl | "2" => SurfType.ddl | "3" => SurfType.cdMusic | "4" => SurfType.ccm | _ => SurfType.unknown

def entries (l : List (String × Rat)) : String :=
  String.join (l.map fun p => s!" {hexStr p.1}:{ratStr p.2}")

/-- what the reaction adds over one simulation of `nsteps` steps: cumulative mode restarts every step from the
saved state, so only the last step counts; incremental mode chains the steps -/
def addedOver (inc : Bool) (r : Reaction) (nsteps : Nat) : List (String × Rat) :=
  if inc then (List.range nsteps).flatMap fun k => reactionContribs true r (k + 1) 1
  else reactionContribs false r nsteps 1

def absQ (x : Rat) : Rat := if x < 0 then -x else x
def maxQ (a b : Rat) : Rat := if a < b then b else a

/-- gross size of what is stored under a key (sum of magnitudes of the contributions) -/
def gross (l : List (String × Rat)) (e : String) : Rat :=
  l.foldl (fun a p => if p.1 == e then a + absQ p.2 else a) 0

def step (st : St) (line : String) : St × List String :=
  match words line with
  | ["cell", id] => (st.setCell id { sols := [] }, [])
  | "sol" :: id :: f :: th :: to :: cb :: mw :: rest =>
    let c := st.getCell id
    let s : Solution := { totalH := dec th, totalO := dec to, cb := dec cb, massWater := dec mw, totals := pairs rest }
    (st.setCell id { c with sols := c.sols ++ [(dec f, s)] }, [])
  | ["exch", id, nd] =>
    let c := st.getCell id
    (st.setCell id { c with exch := some { newDef := nd == "1", comps := [] } }, [])
  | "xcomp" :: id :: cb :: rest =>
    let c := st.getCell id
    match c.exch with
    | some x => (st.setCell id { c with exch := some { x with comps := x.comps ++ [{ totals := pairs rest, cb := dec cb }] } }, [])
    | none => (st, ["? xcomp without exch"])
  | ["surf", id, ty, dl, nd] =>
    let c := st.getCell id
    (st.setCell id { c with surf := some { typ := surfType ty, hasDL := dl != "0", newDef := nd == "1", comps := [], charges := [] } }, [])
  | "scomp" :: id :: cb :: rest =>
    let c := st.getCell id
    match c.surf with
    | some s => (st.setCell id { c with surf := some { s with comps := s.comps ++ [{ totals := pairs rest, cb := dec cb }] } }, [])
    | none => (st, ["? scomp without surf"])
  | "scharge" :: id :: cb :: rest =>
    let c := st.getCell id
    match c.surf with
    | some s => (st.setCell id { c with surf := some { s with charges := s.charges ++ [{ cb := dec cb, dl := pairs rest }] } }, [])
    | none => (st, ["? scharge without surf"])
  | ["gas", id, m, f] =>
    let c := st.getCell id
    (st.setCell id { c with gas := c.gas ++ [{ formula := formulaOf f, moles := dec m }] }, [])
  | ["ss", id, m, f] =>
    let c := st.getCell id
    (st.setCell id { c with ss := c.ss ++ [{ formula := formulaOf f, moles := dec m }] }, [])
  | ["pp", id, m, f, po, alt] =>
    let c := st.getCell id
    (st.setCell id { c with pp := c.pp ++ [{ formula := formulaOf f, moles := dec m, precipOnly := po == "1", alt := alt == "1" }] }, [])
  | "kin" :: id :: m :: rest =>
    let c := st.getCell id
    let parts := rest.filterMap fun w => match w.splitOn ":" with
      | [a, b] => some (formulaOf a, dec b)
      | _ => none
    (st.setCell id { c with kin := c.kin ++ [{ m := dec m, parts := parts }] }, [])
  | "rxn" :: u :: eq :: cnt :: steps =>
    ({ st with rxn := some { reactants := [], steps := steps.map dec, equal := eq == "1", count := cnt.toNat!,
                             unitFactor := unitFactorOf ((unhexStr u).getD "") } }, [])
  | ["norxn"] => ({ st with rxn := none }, [])
  | ["reactant", f, coef] =>
    match st.rxn with
    | some r => ({ st with rxn := some { r with reactants := r.reactants ++ [(formulaOf f, dec coef)] } }, [])
    | none => (st, ["? reactant without rxn"])
  | ["amount", inc, n] =>
    match st.rxn with
    | some r => (st, [s!"A {ratStr (stepAmount (inc == "1") r n.toNat!)}"])
    | none => (st, ["A none"])
  | "kstep" :: inc :: eq :: cnt :: n :: steps =>
    (st, [s!"K {ratStr (kinStep (inc == "1") (steps.map dec) (eq == "1") cnt.toNat! n.toNat!)}"])
  | ["added", inc, ns] =>
    match st.rxn with
    | some r => (st, [s!"D{entries (ofList (addedOver (inc == "1") r ns.toNat!))}"])
    | none => (st, ["D"])
  | ["inv", id] => (st, [s!"I{entries (inventory (st.getCell id))}"])
  | "kintotals" :: rest => ({ st with kinTotals := pairs rest }, [])
  | ["assemble", id, inc, n] =>
    let ac := assembleChecked (st.getCell id) st.rxn (inc == "1") n.toNat! 1 st.kinTotals
    let a := ac.1
    let all := contribs (st.getCell id) ++ (match st.rxn with
      | some r => reactionContribs (inc == "1") r n.toNat! 1
      | none => []) ++ st.kinTotals
    let g := ofList (all.map fun p => (p.1, absQ p.2))
    (st, [s!"T {if ac.2 then 1 else 0}{entries a.totals.asList}", s!"G{entries g}",
          "P" ++ String.join (a.pp.map fun x => " " ++ ratStr x.moles),
          "S" ++ String.join (a.ss.map fun x => " " ++ ratStr x.moles)])
  | [jop, b, a, inc, ns, tol, cs, fl] =>
    if jop != "judge" && jop != "judgestep" then (st, ["? " ++ line]) else
    let cb := contribs (st.getCell b)
    let ca := contribs (st.getCell a)
    let add := match st.rxn with
      | some r => if jop == "judgestep" then reactionContribs (inc == "1") r ns.toNat! 1 else addedOver (inc == "1") r ns.toNat!
      | none => []
    let ib := ofList cb
    let ia := ofList ca
    let iadd := ofList add
    let ks := (ofList ((ib ++ ia ++ iadd).map fun p => (p.1, (0 : Rat)))).map (·.1)
    let tolQ := dec tol
    let out := ks.map fun e =>
      let vb := get ib e
      let va := get ia e
      let vd := get iadd e
      let diff := va - (vb + vd)
      let scale := if e == "Charge" then maxQ (dec cs) (maxQ (absQ va) (absQ (vb + vd)))
                   else maxQ (absQ va) (absQ (vb + vd))
      let ok := if scale ≤ dec fl then "2" else if absQ diff ≤ tolQ * scale then "1" else "0"
      s!"J {hexStr e} {outF vb} {outF vd} {outF va} {outF diff} {outF scale} {ok}"
    (st, out ++ ["E"])
  | [] => (st, [])
  | _ => (st, ["? " ++ line])

def run : IO Unit := do
  let stdin ← IO.getStdin
  let lines ← readLines stdin
  let out ← IO.getStdout
  let mut st : St := {}
  for l in lines do
    let (st', o) := step st l
    st := st'
    for x in o do out.putStrLn x

end Driver.Inventory
