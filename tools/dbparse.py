"""Independent parser of PHREEQC database text (no code of /repo is executed or imported).

API (kept deliberately small; other checks reuse it):

    db = dbparse.parse(path_or_text, is_text=False)      -> DB
    DB.masters   : list[Master]   in file order (element, species, alk, gfw, gfw_formula, primary, elt_gfw)
    DB.species   : dict name -> Species   (SOLUTION_SPECIES; a later definition replaces an earlier one)
                   Species.name, .z, .rxn = [(species_name, coef)] WITHOUT the defined species itself, sign convention
                   of the engine:  log a(name) = log K + sum coef * log a(species_name)
                   .head_coef (coefficient written in front of the defined species, normally 1)
                   .logk = LogK(log_k, delta_h, dh_unit, analytic[6]); .add_logk = [(named_expression, coef)]
                   .elements = {element: count} from the formula of the name; .gamma, .llnl_gamma, .no_check, .mole_balance
    DB.named     : dict lower-case name -> Named(name, logk, add_logk)      (NAMED_EXPRESSIONS)
    DB.phases    : dict name -> Phase(name, formula, rxn, logk, add_logk, elements); dissociation convention:
                   SI = sum coef * log a(species) - log K      (rxn excludes the phase formula itself)
    DB.exchange_species / DB.surface_species : parsed with the same grammar (reaction + log K options only)
    DB.blocks    : list of (keyword, first_line_no) seen;  DB.has_pitzer / has_sit / has_llnl_model : bool
    DB.problems  : list of strings (lines the parser could not interpret) -- empty means "read completely"

    LogK.delta_h_kj()            ΔH converted to kJ/mol as the option text prescribes (kcal, cal, joules, kJ)
    LogK.vector()                [logK_T0, ΔH(kJ), A1..A6] after the engine's rule "analytic expression wins"
    dbparse.formula_elements(s)  {element: count} of a chemical formula (parentheses, ':' hydrates, [13C] names)
    dbparse.split_equation(s)    ([(coef, name, z)] lhs, [(coef, name, z)] rhs) with normalised charge spelling
    dbparse.to_lines(db)         compact line format consumed by `pmodel speciate` (see Driver/Speciate.lean)

Grammar notes (from the PHREEQC manual, re-implemented here): '#' starts a comment, ';' separates logical lines, a
trailing '\\' continues a line; a line whose first word is a keyword starts a block; inside a block a line starting with
'-letters' is an option matched by *prefix* against the block's option list (first match), a line whose first word
*equals* an option name is that option, anything else is a new reaction equation. The database ends at the first END.
"""
import re
import struct

KEYWORDS = set("""advection calculate_values comment copy database debug delete dump end eof equilibria equilibrium
equilibrium_phase equilibrium_phase_mix equilibrium_phases equilibrium_phases_mix equilibrium_phases_modify
equilibrium_phases_raw exchange exchange_master_species exchange_mix exchange_modify exchange_raw exchange_species
gas_binary_parameters gas_phase gas_phase_mix gas_phase_modify gas_phase_raw incremental incremental_reactions
inverse_modeling isotope_alphas isotope_ratios isotopes kinetics kinetics_mix kinetics_modify kinetics_raw knobs
llnl_aqueous_model llnl_aqueous_model_parameters mean_gammas mix mix_equilibrium_phase mix_equilibrium_phases mix_exchange
mix_gas_phase mix_kinetics mix_raw mix_solid_solution mix_solid_solutions mix_solution mix_surface
named_analytical_expression named_analytical_expressions named_expressions named_log_k phases pitzer print pure
pure_phases rate_parameters_hermanska rate_parameters_pk rate_parameters_svd rates reaction reaction_modify
reaction_pressure reaction_pressure_modify reaction_pressure_raw reaction_pressures reaction_raw reaction_temperature
reaction_temperature_modify reaction_temperature_raw run_cells save select_out select_output selected_out selected_output
sit solid_solution solid_solution_mix solid_solution_modify solid_solutions solid_solutions_mix solid_solutions_modify
solid_solutions_raw solution solution_master_species solution_mix solution_modify solution_raw solution_s
solution_species solution_spread spread_solution surface surface_master_species surface_mix surface_modify surface_raw
surface_species title transport use user_graph user_print user_punch""".split())

SPECIES_OPTS = ["no_check", "check", "gamma", "mb", "mass_balance", "log_k", "logk", "delta_h", "deltah",
                "analytical_expression", "a_e", "ae", "mole_balance", "llnl_gamma", "co2_llnl_gamma", "activity_water",
                "add_logk", "add_log_k", "add_constant", "dw", "erm_ddl", "millero", "vm", "viscosity"]
PHASE_OPTS = ["no_check", "check", "log_k", "logk", "delta_h", "deltah", "analytical_expression", "a_e", "ae",
              "add_logk", "add_log_k", "add_constant", "t_c", "p_c", "omega", "vm"]
NAMED_OPTS = ["log_k", "logk", "delta_h", "deltah", "analytical_expression", "a_e", "ae", "ln_alpha1000", "add_logk",
              "add_log_k", "vm"]
EXCH_OPTS = ["no_check", "check", "mb", "mass_balance", "log_k", "logk", "delta_h", "deltah", "analytical_expression",
             "a_e", "ae", "mole_balance", "gamma", "davies", "offset", "llnl_gamma", "add_logk", "add_log_k",
             "add_constant", "vm"]
SURF_OPTS = ["no_check", "check", "mb", "mass_balance", "log_k", "logk", "delta_h", "deltah", "analytical_expression",
             "a_e", "ae", "mole_balance", "offset", "add_logk", "add_log_k", "add_constant", "cd_music", "music", "vm"]

LN10 = 2.302585092994046
NUM = re.compile(r"[+-]?(?:\d+\.?\d*|\.\d+)(?:[eEdD][+-]?\d+)?")


def hexd(x):
    return struct.pack(">d", float(x)).hex()


def leading_number(tok):
    """value of the longest numeric prefix of tok (what sscanf %lf reads) or None"""
    m = NUM.match(tok)
    if not m:
        return None
    return float(m.group(0).replace("d", "e").replace("D", "e"))


class LogK:
    def __init__(self):
        self.log_k = 0.0
        self.delta_h = 0.0          # value as written
        self.dh_unit = "kJ"         # kJ | J | kcal | cal
        self.analytic = [0.0] * 6
        self.ln_alpha = False

    def delta_h_kj(self):
        v = self.delta_h
        if self.dh_unit in ("J", "cal"):
            v = v / 1000.0
        if self.dh_unit in ("kcal", "cal"):
            v = v * 4.184
        return v

    def vector(self):
        """[logK_T0, ΔH kJ, A1..A6] with the engine's selection rule: any non-zero analytic term switches log_k/ΔH off"""
        if any(a != 0.0 for a in self.analytic):
            return [0.0, 0.0] + list(self.analytic)
        return [self.log_k, self.delta_h_kj()] + [0.0] * 6


class Master:
    def __init__(self, element, species, alk, gfw, gfw_formula, primary, elt_gfw, line):
        self.element, self.species, self.alk = element, species, alk
        self.gfw, self.gfw_formula, self.primary, self.elt_gfw, self.line = gfw, gfw_formula, primary, elt_gfw, line


class Species:
    kind = "aq"

    def __init__(self, name, z, rxn, head_coef, line):
        self.name, self.z, self.rxn, self.head_coef, self.line = name, z, rxn, head_coef, line
        self.logk = LogK()
        self.add_logk = []
        self.gamma = None
        self.llnl_gamma = None
        self.no_check = False
        self.mole_balance = None
        self.elements = {}


class Phase:
    def __init__(self, name, formula, rxn, head_coef, line):
        self.name, self.formula, self.rxn, self.head_coef, self.line = name, formula, rxn, head_coef, line
        self.logk = LogK()
        self.add_logk = []
        self.no_check = False
        self.elements = {}


class Named:
    def __init__(self, name):
        self.name = name
        self.logk = LogK()
        self.add_logk = []


class DB:
    def __init__(self):
        self.masters = []
        self.species = {}
        self.named = {}
        self.phases = {}
        self.exchange_species = {}
        self.surface_species = {}
        self.blocks = []
        self.problems = []
        self.has_pitzer = self.has_sit = self.has_llnl_model = False

    def master_of_element(self, elt):
        for m in self.masters:
            if m.element == elt:
                return m
        return None


# ----------------------------------------------------------------------------- lexical layer
def logical_lines(text):
    """(line_no, text_without_comment) for each non-empty logical line"""
    out = []
    cur = []
    n = len(text)
    i = 0
    line_no = 1
    start = 1

    def flush():
        s = "".join(cur)
        s = s.split("#", 1)[0]
        if s.strip():
            out.append((start, s))
        cur.clear()

    while i < n:
        c = text[i]
        if c == "#":
            while i < n and text[i] != "\n":
                i += 1
            continue
        if c == ";":
            flush()
            start = line_no
            i += 1
            continue
        if c == "\n":
            flush()
            line_no += 1
            start = line_no
            i += 1
            continue
        if c == "\\":
            # continuation when only blanks follow up to the newline
            j = i + 1
            while j < n and text[j] in " \t\r":
                j += 1
            if j < n and text[j] == "\n":
                i = j + 1
                line_no += 1
                continue
            cur.append(c)
            i += 1
            continue
        cur.append(c)
        i += 1
    flush()
    return out


def classify(line, opts):
    """-> (kind, option_name|None, rest) kind in keyword/option/unknown_option/default"""
    toks = line.split()
    first = toks[0]
    low = first.lower()
    if low in KEYWORDS:
        return "keyword", low, line
    rest = line.lstrip()[len(first):]
    if len(first) > 1 and first[0] == "-" and first[1].isalpha():
        key = low[1:]
        for o in opts:
            if o.startswith(key):
                return "option", o, rest
        return "unknown_option", key, rest
    for o in opts:
        if o == low:
            return "option", o, rest
    return "default", None, line


# ----------------------------------------------------------------------------- chemistry layer
def norm_charge(ch):
    """'++' -> ('+2', 2.0); '+' -> ('+', 1); '-0' -> ('', 0); '+0.5' -> ('+0.5', .5)"""
    if ch == "":
        return "", 0.0
    c = ch[0]
    if c not in "+-":
        raise ValueError("charge " + ch)
    if all(x == c for x in ch):
        i = len(ch) if c == "+" else -len(ch)
    else:
        m = re.fullmatch(r"([+-]\d+)(?:\.(\d*))?", ch)
        if not m:
            raise ValueError("charge " + ch)
        if m.group(2) and m.group(2).strip("0"):
            return ch, float(ch)
        i = int(m.group(1))
    if i == 0:
        return "", 0.0
    if abs(i) == 1:
        return c, float(i)
    return "%+d" % i, float(i)


def _take_species(s, pos):
    """reads [coef] name [charge] starting at s[pos]; returns (coef, name, z, newpos)"""
    n = len(s)
    c = s[pos] if pos < n else ""
    coef = 0.0
    starters = "()[]"
    if c.isalpha() or c in starters:
        coef = 1.0
    elif c in "+-" and pos + 1 < n and (s[pos + 1].isalpha() or s[pos + 1] in starters):
        coef = 1.0 if c == "+" else -1.0
        pos += 1
    elif c.isdigit() or c in "+-.":
        j = pos
        while j < n and (s[j].isdigit() or s[j] in "+-."):
            j += 1
        coef = float(s[pos:j])
        pos = j
    else:
        raise ValueError("equation construct at %r" % s[pos:])
    # name
    j = pos
    name = []
    while j < n and s[j] not in "+-=":
        name.append(s[j])
        if s[j] == "[":
            j += 1
            while j < n and s[j] != "]":
                name.append(s[j])
                j += 1
            if j >= n:
                raise ValueError("no closing bracket")
            name.append("]")
        j += 1
    if not name:
        raise ValueError("empty species name at %r" % s[pos:])
    if j >= n or s[j] == "=":
        return coef, "".join(name), 0.0, j
    k = j
    while k < n and not s[k].isalpha() and s[k] not in "()[]=":
        k += 1
    if k < n and s[k] != "=":
        # the last + or - belongs to the next species
        k -= 1
        while s[k] not in "+-":
            k -= 1
    cs, z = norm_charge(s[j:k])
    return coef, "".join(name) + cs, z, k


def split_equation(eq):
    s = "".join(eq.split())
    for ch in s:
        if not (ch.isalnum() or ch in "+-=().:_[]"):
            raise ValueError("illegal character %r" % ch)
    if "=" not in s:
        raise ValueError("no equal sign")
    lhs, rhs = [], []
    pos = 0
    while s[pos] != "=":
        c, nm, z, pos = _take_species(s, pos)
        lhs.append((c, nm, z))
    pos += 1
    while pos < len(s):
        c, nm, z, pos = _take_species(s, pos)
        rhs.append((c, nm, z))
    return lhs, rhs


def _num(s, pos):
    m = re.compile(r"\d*\.?\d*").match(s, pos)
    t = m.group(0)
    if t == "" or t == ".":
        return 1.0, pos if t == "" else pos + 1
    return float(t), m.end()


def formula_elements(formula):
    """element counts of a formula; stops at a charge sign; handles (), ':' hydrates, [..] isotope names"""
    out = {}

    def add(e, c):
        out[e] = out.get(e, 0.0) + c

    def walk(pos, coef, depth):
        items = []          # (elt, count) of this level
        n = len(formula)
        while pos < n and formula[pos] not in "+-":
            c = formula[pos]
            if c == ")":
                if depth == 0:
                    raise ValueError("too many )")
                return items, pos + 1
            if c.isupper() or c == "[" or (c == "e" and formula[pos + 1:pos + 2] == "-"):
                j = pos + 1
                if c == "[":
                    while j < n and formula[j] != "]":
                        j += 1
                    j += 1
                while j < n and (formula[j].islower() or formula[j] == "_"):
                    j += 1
                elt = formula[pos:j]
                d, j = _num(formula, j)
                items.append([elt, d * coef])
                pos = j
                continue
            if c == "(":
                sub, pos = walk(pos + 1, coef, depth + 1)
                d, pos = _num(formula, pos)
                for it in sub:
                    it[1] *= d
                items += sub
                continue
            if c == ":":
                d, pos = _num(formula, pos + 1)
                sub, pos2 = walk(pos, coef, depth)
                for it in sub:
                    it[1] *= d
                items += sub
                return items, pos2
            raise ValueError("unexpected %r in formula %s" % (c, formula))
        return items, pos

    items, _ = walk(0, 1.0, 0)
    for e, c in items:
        add(e, c)
    return out


def _strip_state(name):
    for t in ("(s)", "(S)", "(g)", "(G)"):
        name = name.replace(t, "")
    return name


# ----------------------------------------------------------------------------- block readers
def _read_logk_option(obj, opt, rest, db, where):
    lk = obj.logk
    if opt in ("log_k", "logk"):
        v = leading_number((rest.replace("=", " ").split() or [""])[0])
        if v is None:
            db.problems.append(f"{where}: expecting log k")
        else:
            lk.log_k = v
    elif opt in ("delta_h", "deltah"):
        toks = rest.replace("=", " ").split()
        v = leading_number(toks[0]) if toks else None
        if v is None:
            db.problems.append(f"{where}: expecting delta h")
            return True
        lk.delta_h = v
        unit = "kJ"
        if len(toks) > 1 and toks[1][0].isalpha():
            u = toks[1].lower()
            kilo = u.startswith("k")
            cal = "c" in u
            unit = {(True, False): "kJ", (False, False): "J", (True, True): "kcal", (False, True): "cal"}[(kilo, cal)]
        lk.dh_unit = unit
    elif opt in ("analytical_expression", "a_e", "ae", "ln_alpha1000"):
        vals = []
        for t in rest.split():
            m = NUM.fullmatch(t)
            if not m:
                v = leading_number(t)
                if v is not None:
                    vals.append(v)
                break
            vals.append(leading_number(t))
            if len(vals) == 6:
                break
        if not vals:
            db.problems.append(f"{where}: expecting analytical expression")
        lk.analytic = (vals + [0.0] * 6)[:6]
        if opt == "ln_alpha1000":
            lk.ln_alpha = True
            for i in range(5):          # the sixth term is not scaled by the engine
                lk.analytic[i] = lk.analytic[i] / (1000.0 * LN10)
    elif opt in ("add_logk", "add_log_k"):
        toks = rest.split()
        if not toks:
            db.problems.append(f"{where}: expected name of a named expression")
            return True
        c = leading_number(toks[1]) if len(toks) > 1 else None
        obj.add_logk.append((toks[0], 1.0 if c is None else c))
    elif opt == "add_constant":
        toks = rest.split()
        c = leading_number(toks[0]) if toks else None
        if c is None:
            db.problems.append(f"{where}: expected constant")
        else:
            obj.add_logk.append(("XconstantX", c))
    else:
        return False
    return True


def _species_from_equation(line, cls, ln, db, what):
    lhs, rhs = split_equation(line)
    if not rhs:
        raise ValueError("no species on the right-hand side")
    hc, hname, hz = rhs[0]
    rxn = [(nm, c) for c, nm, z in lhs] + [(nm, -c) for c, nm, z in rhs[1:]]
    sp = cls(hname, hz, rxn, hc, ln)
    sp.zs = {nm: z for c, nm, z in lhs + rhs}
    sp.elements = formula_elements(_strip_state(hname))
    return sp


def _read_species_block(db, lines, i, opts, store, what):
    cur = None
    while i < len(lines):
        ln, line = lines[i]
        kind, opt, rest = classify(line, opts)
        if kind == "keyword":
            return i
        i += 1
        where = f"{what} line {ln}"
        if kind == "unknown_option":
            db.problems.append(f"{where}: unknown option -{opt}")
            continue
        if kind == "default":
            try:
                cur = _species_from_equation(line, Species, ln, db, what)
                cur.kind = what
                store[cur.name] = cur
            except ValueError as e:
                cur = None
                db.problems.append(f"{where}: {e}: {line.strip()}")
            continue
        if cur is None:
            db.problems.append(f"{where}: option before a reaction")
            continue
        if _read_logk_option(cur, opt, rest, db, where):
            continue
        if opt == "no_check":
            cur.no_check = True
        elif opt == "check":
            cur.no_check = False
        elif opt == "gamma":
            vals = [leading_number(t) for t in rest.split()[:2]]
            cur.gamma = tuple(v for v in vals if v is not None)
        elif opt == "llnl_gamma":
            t = rest.split()
            cur.llnl_gamma = leading_number(t[0]) if t else None
        elif opt in ("mb", "mass_balance", "mole_balance"):
            t = rest.split()
            cur.mole_balance = t[0] if t else None
        # everything else (dw, vm, millero, viscosity, erm_ddl, cd_music, offset …) does not enter log K at 1 atm
    return i


def _read_phases(db, lines, i):
    cur = None
    while i < len(lines):
        ln, line = lines[i]
        kind, opt, rest = classify(line, PHASE_OPTS)
        if kind == "keyword":
            return i
        i += 1
        where = f"PHASES line {ln}"
        if kind == "unknown_option":
            db.problems.append(f"{where}: unknown option -{opt}")
            continue
        if kind == "default":
            name = line.split()[0]
            cur = None
            if i >= len(lines):
                break
            ln2, eq = lines[i]
            k2, _, _ = classify(eq, PHASE_OPTS)
            if k2 == "keyword":
                return i
            i += 1
            if k2 != "default":
                db.problems.append(f"{where}: expecting equation for phase {name}")
                continue
            try:
                lhs, rhs = split_equation(eq)
                hc, hname, hz = lhs[0]
                rxn = [(nm, -c) for c, nm, z in lhs[1:]] + [(nm, c) for c, nm, z in rhs]
                rxn2 = []
                for nm, c in rxn:
                    if not any(t in nm for t in ("(s)", "(g)", "(S)", "(G)")):
                        nm = nm.replace("(aq)", "").replace("(AQ)", "").replace("H2O(l)", "H2O")
                    rxn2.append((nm, c))
                cur = Phase(name, _strip_state(hname), rxn2, hc, ln)
                cur.elements = formula_elements(_strip_state(hname))
                for old in [k for k in db.phases if k.lower() == name.lower()]:
                    del db.phases[old]          # phase names are case-insensitive: a later definition replaces
                db.phases[name] = cur
            except ValueError as e:
                db.problems.append(f"{where}: {e}: {eq.strip()}")
            continue
        if cur is None:
            continue
        if _read_logk_option(cur, opt, rest, db, where):
            continue
        if opt == "no_check":
            cur.no_check = True
        elif opt == "check":
            cur.no_check = False
    return i


def _read_named(db, lines, i):
    cur = None
    while i < len(lines):
        ln, line = lines[i]
        kind, opt, rest = classify(line, NAMED_OPTS)
        if kind == "keyword":
            return i
        i += 1
        where = f"NAMED_EXPRESSIONS line {ln}"
        if kind == "unknown_option":
            db.problems.append(f"{where}: unknown option -{opt}")
            continue
        if kind == "default":
            cur = Named(line.split()[0])
            db.named[cur.name.lower()] = cur
            continue
        if cur is None:
            db.problems.append(f"{where}: option before a name")
            continue
        _read_logk_option(cur, opt, rest, db, where)
    return i


def _read_masters(db, lines, i, store):
    while i < len(lines):
        ln, line = lines[i]
        toks = line.split()
        if toks[0].lower() in KEYWORDS:
            return i
        i += 1
        where = f"MASTER_SPECIES line {ln}"
        if len(toks) < 4 or not (toks[0][0].isupper() or toks[0][0] == "["):
            db.problems.append(f"{where}: cannot read {line.strip()}")
            continue
        elt = toks[0].replace("(+", "(")
        try:
            lhs, _ = split_equation(toks[1] + "=")
            sname = lhs[0][1]
        except ValueError as e:
            db.problems.append(f"{where}: {e}")
            continue
        alk = leading_number(toks[2])
        if alk is None:
            db.problems.append(f"{where}: expected alkalinity")
            continue
        gfw, gfw_formula = None, None
        if toks[3][0].isdigit() or toks[3][0] in "+-.":
            gfw = leading_number(toks[3])
        else:
            gfw_formula = toks[3]
        primary = "(" not in elt
        elt_gfw = None
        if primary and elt != "E" and len(toks) > 4:
            elt_gfw = leading_number(toks[4])
        store[:] = [m for m in store if m.element != elt]
        store.append(Master(elt, sname, alk, gfw, gfw_formula, primary, elt_gfw, ln))
    return i


def parse(src, is_text=False):
    text = src if is_text else open(src, encoding="latin-1").read()
    lines = logical_lines(text)
    db = DB()
    db.exchange_masters = []
    db.surface_masters = []
    i = 0
    while i < len(lines):
        ln, line = lines[i]
        key = line.split()[0].lower()
        if key not in KEYWORDS:
            i += 1          # stray line outside a known block (title text, data of a skipped block)
            continue
        db.blocks.append((key, ln))
        i += 1
        if key == "end":
            break
        if key == "solution_master_species":
            i = _read_masters(db, lines, i, db.masters)
        elif key == "solution_species":          # ("solution_s" is an alias of SOLUTION_SPREAD, not of SOLUTION_SPECIES)
            i = _read_species_block(db, lines, i, SPECIES_OPTS, db.species, "aq")
        elif key == "phases":
            i = _read_phases(db, lines, i)
        elif key in ("named_expressions", "named_log_k", "named_analytical_expression", "named_analytical_expressions"):
            i = _read_named(db, lines, i)
        elif key == "exchange_master_species":
            i = _read_exsurf_masters(db, lines, i, db.exchange_masters)
        elif key == "surface_master_species":
            i = _read_exsurf_masters(db, lines, i, db.surface_masters)
        elif key == "exchange_species":
            i = _read_species_block(db, lines, i, EXCH_OPTS, db.exchange_species, "ex")
        elif key == "surface_species":
            i = _read_species_block(db, lines, i, SURF_OPTS, db.surface_species, "surf")
        else:
            if key == "pitzer":
                db.has_pitzer = True
            if key == "sit":
                db.has_sit = True
            if key in ("llnl_aqueous_model_parameters", "llnl_aqueous_model"):
                db.has_llnl_model = True
            while i < len(lines) and lines[i][1].split()[0].lower() not in KEYWORDS:
                i += 1
    return db


def _read_exsurf_masters(db, lines, i, store):
    while i < len(lines):
        ln, line = lines[i]
        toks = line.split()
        if toks[0].lower() in KEYWORDS:
            return i
        i += 1
        if len(toks) >= 2:
            try:
                lhs, _ = split_equation(toks[1] + "=")
                store.append((toks[0], lhs[0][1]))
            except ValueError as e:
                db.problems.append(f"master line {ln}: {e}")
    return i


# ----------------------------------------------------------------------------- compact line format for pmodel
UNIT_CODE = {"kJ": 0, "J": 1, "kcal": 2, "cal": 3}


def _logk_fields(lk):
    return [hexd(lk.log_k), hexd(lk.delta_h), str(UNIT_CODE[lk.dh_unit])] + [hexd(a) for a in lk.analytic]


def _pairs(ps):
    out = [str(len(ps))]
    for nm, c in ps:
        out += [nm, hexd(c)]
    return out


def to_lines(db, name="db", drop_constants=False):
    """lines for `pmodel speciate`:
       db <name>
       named <lower-name> <logK> <dH> <unit 0..3> <A1..A6> <n> (<name> <coef>)*
       master <element> <species> <alk> <primary 0|1>
       species <name> <z> <logK> <dH> <unit> <A1..A6> <n> (<species> <coef>)* <n> (<named> <coef>)* <n> (<element> <count>)*
       phase <name> <logK> <dH> <unit> <A1..A6> <n> (<species> <coef>)* <n> (<named> <coef>)*
       enddb                       (all numbers are 16 hex digits of the IEEE double)"""
    out = [f"db {name}"]

    def adds(obj):
        if drop_constants:          # variant "every -add_constant line absent"
            return [(n, c) for n, c in obj.add_logk if n != "XconstantX"]
        return obj.add_logk
    for k in sorted(db.named):
        nd = db.named[k]
        out.append(" ".join(["named", k] + _logk_fields(nd.logk) + _pairs(nd.add_logk)))
    for m in db.masters:
        out.append(f"master {m.element} {m.species} {hexd(m.alk)} {1 if m.primary else 0}")
    for nm, sp in db.species.items():
        out.append(" ".join(["species", nm, hexd(sp.z)] + _logk_fields(sp.logk) + _pairs(sp.rxn) + _pairs(adds(sp))
                            + _pairs(sorted(sp.elements.items()))))
    for nm, ph in db.phases.items():
        out.append(" ".join(["phase", nm] + _logk_fields(ph.logk) + _pairs(ph.rxn) + _pairs(adds(ph))))
    out.append("enddb")
    return out


if __name__ == "__main__":
    import sys
    for p in sys.argv[1:]:
        d = parse(p)
        print(p, "masters", len(d.masters), "species", len(d.species), "phases", len(d.phases), "named", len(d.named),
              "pitzer", d.has_pitzer, "sit", d.has_sit, "problems", len(d.problems))
        for q in d.problems[:8]:
            print("   ", q)
