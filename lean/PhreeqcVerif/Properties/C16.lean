import PhreeqcVerif.Lemmas.Gamma
import PhreeqcVerif.Gen.GammaSrc
import Mathlib.Tactic.Ring
import Mathlib.Tactic.Linarith
import Mathlib.Tactic.FieldSimp
import Mathlib.Algebra.Order.Field.Basic
/-!
# C16 — activity-coefficient models follow their defining equations and Gibbs–Duhem

Statements about `Model/Gamma.lean` (the branches of `Phreeqc::gammas`, the model-selection rule of `read_species`,
the LLNL grid interpolation) and `Model/Pitzer.lean` (the sums of `Phreeqc::pitzer` / `Phreeqc::sit`).  The models are
tied to the C++ by `tools/props/c16.py` (per-species correspondence of real runs at 1e-9; in-process comparison of the
Pitzer/SIT working arrays; integrated Gibbs–Duhem and water-activity oracles on real outputs).

What is *not* a theorem here: Gibbs–Duhem for the ionic-strength-dependent terms (Debye–Hückel `F`, β¹·g, β²·g, ᴱθ)
— that part is the numerical oracle of the check; only the algebraic relation `g + g′ = exp(−x)` is proved.
-/
namespace PhreeqcVerif.Gamma
open NumOps

/-! ## model selection -/

theorem applyOpt_model {α : Type} (a : Assign α) (o : GOpt α) : (applyOpt a o).model = o.model := by
  cases o with
  | gamma x y => cases x <;> rfl
  | llnlGamma x => rfl
  | co2Llnl => rfl
  | actWater => rfl

theorem foldl_applyOpt_model {α : Type} (opts : List (GOpt α)) (a : Assign α) (o : GOpt α)
    (h : opts.getLast? = some o) : (opts.foldl applyOpt a).model = o.model := by
  induction opts generalizing a with
  | nil => simp at h
  | cons x xs ih =>
    cases xs with
    | nil =>
      simp at h
      subst h
      simpa using applyOpt_model a x
    | cons y ys =>
      simp only [List.foldl_cons]
      apply ih
      simpa [List.getLast?_cons_cons] using h

/-- the executable rule satisfies the declarative rule -/
theorem assign_assigned {α : Type} [NumOps α] (d : Decl α) : Assigned d (assign d).model := by
  cases hl : d.opts.getLast? with
  | some o =>
    have := foldl_applyOpt_model d.opts (defaultAssign d) o hl
    unfold assign
    rw [this]
    exact Assigned.lastOpt d o hl
  | none =>
    have hnil : d.opts = [] := by simpa using hl
    have hm : (assign d).model = (defaultAssign d).model := by simp [assign, hnil]
    rw [hm]
    cases hs : d.special with
    | none =>
      cases hz : d.zIsZero with
      | true =>
        have : (defaultAssign d).model = .uncharged := by simp [defaultAssign, hs, hz]
        rw [this]; exact Assigned.neutral d hnil hs hz
      | false =>
        have : (defaultAssign d).model = .davies := by simp [defaultAssign, hs, hz]
        rw [this]; exact Assigned.charged d hnil hs hz
    | eminus =>
      have : (defaultAssign d).model = .unity := by simp [defaultAssign, hs]
      rw [this]; exact Assigned.special d hnil (by simp [hs])
    | h2o =>
      have : (defaultAssign d).model = .unity := by simp [defaultAssign, hs]
      rw [this]; exact Assigned.special d hnil (by simp [hs])

/-- the declarative rule assigns at most one model -/
theorem assigned_unique {α : Type} (d : Decl α) (k₁ k₂ : GModel) (h₁ : Assigned d k₁) (h₂ : Assigned d k₂) : k₁ = k₂ := by
  cases h₁ with
  | lastOpt o h =>
    cases h₂ with
    | lastOpt o' h' => rw [h] at h'; cases h'; rfl
    | special h' _ => simp [h'] at h
    | neutral h' _ _ => simp [h'] at h
    | charged h' _ _ => simp [h'] at h
  | special h hs =>
    cases h₂ with
    | lastOpt o' h' => simp [h] at h'
    | special _ _ => rfl
    | neutral _ hs' _ => exact absurd hs' hs
    | charged _ hs' _ => exact absurd hs' hs
  | neutral h hs hz =>
    cases h₂ with
    | lastOpt o' h' => simp [h] at h'
    | special _ hs' => exact absurd hs hs'
    | neutral _ _ _ => rfl
    | charged _ _ hz' => rw [hz] at hz'; cases hz'
  | charged h hs hz =>
    cases h₂ with
    | lastOpt o' h' => simp [h] at h'
    | special _ hs' => exact absurd hs hs'
    | neutral _ _ hz' => rw [hz] at hz'; cases hz'
    | charged _ _ _ => rfl

/-- **Every species gets exactly one activity-coefficient model**: for every species declaration (charge, name,
any sequence of gamma-type options) there is one and only one model the database rule assigns, it is the one the
reader computes, and it is one of the aqueous branches of `gammas` (never exchange / surface). -/
theorem gamma_model_total_exclusive {α : Type} [NumOps α] (d : Decl α) :
    (∃ k, Assigned d k ∧ ∀ k', Assigned d k' → k' = k) ∧ Assigned d (assign d).model ∧
    (assign d).model ∈ [GModel.uncharged, .davies, .wateq, .unity, .llnl, .llnlCO2, .actWater] := by
  refine ⟨⟨(assign d).model, assign_assigned d, fun k' h => assigned_unique d _ _ h (assign_assigned d)⟩,
    assign_assigned d, ?_⟩
  have h := assign_assigned d
  generalize (assign d).model = m at h
  cases h with
  | lastOpt o _ => cases o <;> simp [GOpt.model]
  | special _ _ => simp
  | neutral _ _ _ => simp
  | charged _ _ _ => simp

/-- `gflag` numbers and branches correspond one to one -/
theorem flag_roundtrip (m : GModel) : GModel.ofFlag m.flag = some m := by cases m <;> rfl

/-- every selectable model has a defined value once the LLNL parameters exist (or are not needed) -/
theorem lgOf_defined {α : Type} [NumOps α] [∀ a b : α, Decidable (a < b)] [∀ a b : α, Decidable (a ≤ b)]
    (d : Decl α) (e : Env α) (z : α)
    (h : e.hasLlnl = true ∨ ((assign d).model ≠ .llnl ∧ (assign d).model ≠ .llnlCO2)) :
    (lgOf e (assign d).model z (assign d).dha (assign d).dhb).isSome = true := by
  have hm := (gamma_model_total_exclusive d).2.2
  generalize (assign d).model = m at hm h
  simp at hm
  rcases hm with rfl | rfl | rfl | rfl | rfl | rfl | rfl <;> simp [lgOf] <;> rcases h with h | h <;> simp_all

/-- non-vacuity: `-llnl_gamma 4` followed by `-gamma 5` (second number missing) on a charged species -/
example (f : TransFns Rat) : letI := ratOps f
    (assign (α := Rat) { zIsZero := false, special := .none, opts := [.llnlGamma (some 4), .gamma (some 5) none] }).model
      = GModel.wateq ∧
    (assign (α := Rat) { zIsZero := false, special := .none, opts := [.llnlGamma (some 4), .gamma (some 5) none] }).dha = 5 ∧
    (assign (α := Rat) { zIsZero := true, special := .none, opts := [] }).dhb = 1 / 10 := by
  refine ⟨rfl, rfl, rfl⟩


/-! ## the formulas -/

/-- **log γ = 0 at I = 0** for every formula branch of `gammas` (Davies, extended/WATEQ Debye–Hückel, `b·I`,
B-dot, the CO₂ polynomial), for arbitrary parameters, whatever `sqrt` is as long as `sqrt 0 = 0`. -/
theorem gamma_zero_mu (f : TransFns Rat) (hs : f.sqrt 0 = 0) (a b z dha dhb aL bL bd c0 c1 c2 c3 c4 tk : Rat) :
    letI := ratOps f
    davies a 0 z = 0 ∧ wateq a b 0 z dha dhb = 0 ∧ uncharged 0 dhb = 0 ∧ bdot aL bL bd 0 z dha = 0 ∧
    co2Poly c0 c1 c2 c3 c4 tk 0 = 0 := by
  refine ⟨?_, ?_, ?_, ?_, ?_⟩
  · simp [davies, hs]
  · simp [wateq, hs]
  · simp [uncharged]
  · simp only [bdot, rat_sqrt, rat_lit, hs]
    split <;> simp
  · simp [co2Poly]

/-- the same through `lgOf`: with `mu = 0` every defined value other than the water-activity branch is 0 -/
theorem gamma_zero_mu_lgOf (f : TransFns Rat) (hs : f.sqrt 0 = 0) (e : Env Rat) (hmu : e.mu = 0)
    (c0 c1 c2 c3 c4 tk : Rat) (m : GModel) (hm : m ≠ .actWater) (z dha dhb v : Rat) :
    letI := ratOps f
    e.lgCO2 = co2Poly c0 c1 c2 c3 c4 tk e.mu → lgOf e m z dha dhb = some v → v = 0 := by
  intro hc h
  have hz := gamma_zero_mu f hs e.a e.b z dha dhb e.aL e.bL e.bdotL c0 c1 c2 c3 c4 tk
  obtain ⟨h1, h2, h3, h4, h5⟩ := hz
  cases m <;> simp only [lgOf, hmu] at h
  · cases h; exact h3
  · cases h; exact h1
  · cases h; exact h2
  · cases h; rfl
  · cases h
  · cases h; rfl
  · cases h
  · split at h
    · cases h; exact h4
    · cases h
  · split at h
    · cases h; rw [hc, hmu]; exact h5
    · cases h
  · exact absurd rfl hm

/-- the entry of `gammas` never evaluates the formulas at `mu <= 0`: it substitutes `1e-10` -/
theorem clampMu_spec (f : TransFns Rat) (mu : Rat) :
    letI := ratOps f
    (mu ≤ 0 → clampMu mu = 1 / 10000000000) ∧ (0 < mu → clampMu mu = mu) ∧ 0 < clampMu mu := by
  simp only [clampMu, rat_lit]
  by_cases h : mu ≤ 0
  · simp [h]
  · have h' : 0 < mu := lt_of_not_ge h
    simp [h, h']

theorem isZero_iff (f : TransFns Rat) (z : Rat) : letI := ratOps f; isZero z = true ↔ z = 0 := by
  simp only [isZero, rat_lit, Bool.and_eq_true]
  exact ⟨fun ⟨a, b⟩ => le_antisymm (of_decide_eq_true a) (of_decide_eq_true b),
    fun h => by subst h; exact ⟨decide_eq_true (le_refl _), decide_eq_true (le_refl _)⟩⟩

theorem isZero_eq_of_sq (f : TransFns Rat) (z z' : Rat) (h : z * z = z' * z') :
    letI := ratOps f; isZero z = isZero z' := by
  have h1 := isZero_iff f z
  have h2 := isZero_iff f z'
  have : z = 0 ↔ z' = 0 := by
    constructor
    · intro h0; subst h0; simpa using h.symm
    · intro h0; subst h0; simpa using h
  rw [Bool.eq_iff_iff, h1, h2, this]

/-- **γ depends on the charge only through z²**: two charges with the same square give the same value in every
branch (in particular `z` and `−z`). -/
theorem gamma_depends_on_z_sq (f : TransFns Rat) (e : Env Rat) (m : GModel) (z z' dha dhb : Rat)
    (h : z * z = z' * z') : letI := ratOps f; lgOf e m z dha dhb = lgOf e m z' dha dhb := by
  have hz := isZero_eq_of_sq f z z' h
  cases m <;> simp only [lgOf]
  · simp only [davies]
    have : (-z) * z = (-z') * z' := by linarith
    rw [this]
  · simp only [wateq]
    have : ∀ x : Rat, (-e.a) * x * z * z = (-e.a) * x * z' * z' := by
      intro x
      have : (-e.a) * x * z * z = (-e.a) * x * (z * z) := by ring
      rw [this, h]; ring
    rw [this]
  · simp only [bdot, hz]
    have : ∀ x : Rat, (-e.aL) * x * z * z = (-e.aL) * x * z' * z' := by
      intro x
      have : (-e.aL) * x * z * z = (-e.aL) * x * (z * z) := by ring
      rw [this, h]; ring
    rw [this]

/-- non-vacuity: Davies at `a = 1/2`, `I = 1`, `sqrt 1 = 1`: `z = 2` and `z = −2` both give `−2/5` -/
example : letI := ratOps ⟨id, id, id, id, id, id, id, id, id, id⟩
    davies (1 / 2 : Rat) 1 2 = -2 / 5 ∧ davies (1 / 2 : Rat) 1 (-2) = -2 / 5 := by
  refine ⟨by norm_num [davies], by norm_num [davies]⟩


/-! ## LLNL temperature grid -/

/-- what the search loop returns on a strictly increasing (suffix of the) grid that contains a node `>= tc`:
`ilast` is the first such node; `ifirst` is the same node when it equals `tc`, otherwise the node before it
(`ifirst0`, the value carried in, when there is none in this suffix) -/
theorem searchGo_spec (f : TransFns Rat) (tc : Rat) (n : Nat) (l : List Rat) (i ifirst : Nat)
    (hex : ∃ x ∈ l, tc ≤ x) :
    letI := ratOps f
    ∃ k, k < l.length ∧ (searchGo tc n l i ifirst).2 = i + k ∧ tc ≤ l.getD k 0 ∧ (∀ j, j < k → l.getD j 0 < tc) ∧
      (searchGo tc n l i ifirst).1 = (if l.getD k 0 ≤ tc then i + k else if k = 0 then ifirst else i + k - 1) := by
  induction l generalizing i ifirst with
  | nil => obtain ⟨x, hx, _⟩ := hex; simp at hx
  | cons t rest ih =>
    by_cases h : tc ≤ t
    · refine ⟨0, by simp, ?_, by simpa using h, by intro j hj; omega, ?_⟩
      · simp [searchGo, h]
      · by_cases h2 : t ≤ tc <;> simp [searchGo, h, h2]
    · have hlt : t < tc := lt_of_not_ge h
      have hex' : ∃ x ∈ rest, tc ≤ x := by
        obtain ⟨x, hx, hxt⟩ := hex
        simp at hx
        rcases hx with rfl | hx
        · exact absurd hxt h
        · exact ⟨x, hx, hxt⟩
      obtain ⟨k, hk, h2, h3, h4, h5⟩ := ih (i + 1) i hex'
      have e : ∀ j, (t :: rest).getD (j + 1) 0 = rest.getD j 0 := fun j => by simp
      refine ⟨k + 1, by simp; omega, ?_, by rw [e]; exact h3, ?_, ?_⟩
      · simp only [searchGo, h, if_false, le_of_lt hlt, if_true]
        rw [h2]; omega
      · intro j hj
        cases j with
        | zero => simpa using hlt
        | succ j => rw [e]; exact h4 j (by omega)
      · simp only [searchGo, h, if_false, le_of_lt hlt, if_true]
        rw [h5, e]
        by_cases h6 : rest.getD k 0 ≤ tc
        · rw [if_pos h6, if_pos h6]; omega
        · rw [if_neg h6, if_neg h6, if_neg (Nat.succ_ne_zero k)]
          by_cases hk0 : k = 0
          · rw [if_pos hk0]; omega
          · rw [if_neg hk0]; omega

theorem getD_lt_of_pairwise (l : List Rat) (hs : l.Pairwise (· < ·)) (a b : Nat) (hab : a < b) (hb : b < l.length) :
    l.getD a 0 < l.getD b 0 := by
  have ha : a < l.length := by omega
  have e1 : l.getD a 0 = l[a] := by simp [List.getD_eq_getElem?_getD, List.getElem?_eq_getElem ha]
  have e2 : l.getD b 0 = l[b] := by simp [List.getD_eq_getElem?_getD, List.getElem?_eq_getElem hb]
  rw [e1, e2]
  exact List.pairwise_iff_getElem.mp hs a b ha hb hab

/-- **The LLNL interpolation as coded is a convex combination of adjacent grid nodes and is exact at nodes**:
on a strictly increasing temperature grid and for `tc` inside it, the indices found by the search loop are equal or
adjacent and bracket `tc`; the weight lies in `[0, 1]`; every interpolated array value lies between the two grid
values; at a node the value is the grid value. -/
theorem llnl_interp_convex (f : TransFns Rat) (ts vs : List Rat) (tc : Rat) (hs : ts.Pairwise (· < ·))
    (hr : letI := ratOps f; inRange ts tc = true) :
    letI := ratOps f
    ∃ i j v, search ts tc = (i, j) ∧ interp ts vs tc = some v ∧ j < ts.length ∧ (j = i ∨ j = i + 1) ∧
      ts.getD i 0 ≤ tc ∧ tc ≤ ts.getD j 0 ∧
      0 ≤ weight ts tc i j ∧ weight ts tc i j ≤ 1 ∧
      min (vs.getD i 0) (vs.getD j 0) ≤ v ∧ v ≤ max (vs.getD i 0) (vs.getD j 0) ∧
      (∀ k, k < ts.length → ts.getD k 0 = tc → i = k ∧ j = k ∧ v = vs.getD k 0) := by
  let _i : NumOps Rat := ratOps f
  cases ts with
  | nil => simp [inRange] at hr
  | cons t0 rest =>
    simp only [inRange, Bool.not_eq_true', Bool.or_eq_false_iff, decide_eq_false_iff_not, not_lt] at hr
    obtain ⟨hlo, hhi⟩ := hr
    have hex : ∃ x ∈ t0 :: rest, tc ≤ x := ⟨(t0 :: rest).getLastD t0, by
      cases rest with
      | nil => simp
      | cons a r => simp [List.getLastD], hhi⟩
    obtain ⟨k, hk, h2, h3, h4, h5⟩ := searchGo_spec f tc (t0 :: rest).length (t0 :: rest) 0 0 hex
    simp only [Nat.zero_add] at h2 h5
    -- ifirst
    have hi : (searchGo tc (t0 :: rest).length (t0 :: rest) 0 0).1 = (if (t0 :: rest).getD k 0 ≤ tc then k else k - 1) := by
      rw [h5]
      by_cases h6 : (t0 :: rest).getD k 0 ≤ tc
      · rw [if_pos h6, if_pos h6]
      · rw [if_neg h6, if_neg h6]
        by_cases hk0 : k = 0
        · subst hk0
          have : (t0 :: rest).getD 0 0 = t0 := by simp
          rw [this] at h6
          exact absurd hlo h6
        · rw [if_neg hk0]
    set ts := t0 :: rest with hts
    have hsearch : search ts tc = ((if ts.getD k 0 ≤ tc then k else k - 1), k) := by
      unfold search
      exact Prod.ext hi h2
    by_cases h6 : ts.getD k 0 ≤ tc
    · -- tc is the node k
      have heq : ts.getD k 0 = tc := le_antisymm h6 h3
      simp only [h6, if_true] at hsearch
      refine ⟨k, k, vs.getD k 0, hsearch, ?_, hk, Or.inl rfl, h6, h3, ?_, ?_, ?_, ?_, ?_⟩
      · have : inRange ts tc = true := by
          simp only [hts, inRange, Bool.not_eq_true', Bool.or_eq_false_iff, decide_eq_false_iff_not, not_lt]
          exact ⟨hlo, hhi⟩
        simp only [interp, this, if_true, hsearch, weight, blend, rat_lit]
        simp
      · simp [weight]
      · simp [weight]
      · simp
      · simp
      · intro k' hk' hk'eq
        have : k' = k := by
          rcases Nat.lt_trichotomy k' k with hlt | heq' | hgt
          · have := h4 k' hlt; rw [hk'eq] at this; exact absurd this (lt_irrefl _)
          · exact heq'
          · have := getD_lt_of_pairwise ts hs k k' hgt hk'
            rw [heq, hk'eq] at this; exact absurd this (lt_irrefl _)
        subst this
        exact ⟨rfl, rfl, rfl⟩
    · -- strictly between node k-1 and node k
      have hk0 : k ≠ 0 := by
        intro hk0; subst hk0; simp [hts] at h6; exact absurd hlo (not_le.mpr h6)
      have hlt : tc < ts.getD k 0 := lt_of_not_ge h6
      have hprev : ts.getD (k - 1) 0 < tc := h4 (k - 1) (by omega)
      simp only [h6, if_false] at hsearch
      have hne : ¬ (k = k - 1) := by omega
      have hden : 0 < ts.getD k 0 - ts.getD (k - 1) 0 := by linarith
      have hw : weight ts tc (k - 1) k = (tc - ts.getD (k - 1) 0) / (ts.getD k 0 - ts.getD (k - 1) 0) := by
        simp [weight, hne]
      have hw0 : 0 ≤ weight ts tc (k - 1) k := by
        rw [hw]; exact div_nonneg (by linarith) (le_of_lt hden)
      have hw1 : weight ts tc (k - 1) k ≤ 1 := by
        rw [hw, div_le_one hden]; linarith
      refine ⟨k - 1, k, blend (weight ts tc (k - 1) k) vs (k - 1) k, hsearch, ?_, hk, Or.inr (by omega), le_of_lt hprev,
        h3, hw0, hw1, ?_, ?_, ?_⟩
      · have : inRange ts tc = true := by
          simp only [hts, inRange, Bool.not_eq_true', Bool.or_eq_false_iff, decide_eq_false_iff_not, not_lt]
          exact ⟨hlo, hhi⟩
        simp only [interp, this, if_true, hsearch]
      · simp only [blend, rat_lit]
        set w := weight ts tc (k - 1) k
        rcases le_total (vs.getD (k - 1) 0) (vs.getD k 0) with hle | hle
        · rw [min_eq_left hle]; nlinarith
        · rw [min_eq_right hle]; nlinarith
      · simp only [blend, rat_lit]
        set w := weight ts tc (k - 1) k
        rcases le_total (vs.getD (k - 1) 0) (vs.getD k 0) with hle | hle
        · rw [max_eq_right hle]; nlinarith
        · rw [max_eq_left hle]; nlinarith
      · intro k' hk' hk'eq
        exfalso
        rcases Nat.lt_or_ge k' k with hlt' | hge
        · have := h4 k' hlt'; rw [hk'eq] at this; exact lt_irrefl _ this
        · rcases Nat.eq_or_lt_of_le hge with heq' | hgt
          · subst heq'; rw [hk'eq] at hlt; exact lt_irrefl _ hlt
          · have := getD_lt_of_pairwise ts hs k k' hgt hk'
            rw [hk'eq] at this; linarith

/-- non-vacuity on the head of llnl.dat's grid: 40 °C lies between the 25 °C and 60 °C nodes -/
example : letI := ratOps ⟨id, id, id, id, id, id, id, id, id, id⟩
    search [1 / 100, 25, 60, 100] (40 : Rat) = (1, 2) ∧
    interp [1 / 100, 25, 60, 100] [4939 / 10000, 5114 / 10000, 5465 / 10000, 5995 / 10000] (40 : Rat)
      = some ((1 - 3 / 7) * (5114 / 10000) + 3 / 7 * (5465 / 10000)) ∧
    interp [1 / 100, 25, 60, 100] [4939 / 10000, 5114 / 10000, 5465 / 10000, 5995 / 10000] (60 : Rat) = some (5465 / 10000) ∧
    interp [1 / 100, 25, 60, 100] [1, 2, 3, 4] (101 : Rat) = none := by
  refine ⟨?_, ?_, ?_, ?_⟩ <;>
    norm_num [search, searchGo, interp, inRange, weight, blend, List.getLastD]


end PhreeqcVerif.Gamma

namespace PhreeqcVerif.Pitzer
open NumOps

/-! ## Gibbs–Duhem for the constant-coefficient virial part -/

/-- a parameter with rational coefficients as a parameter over the dual numbers (all coefficients constant) -/
def PParam.toDual (p : PParam Rat) : PParam Dual :=
  { type := p.type, i0 := p.i0, i1 := p.i1, i2 := p.i2, p := .const p.p, c0den := .const p.c0den,
    ln0 := .const p.ln0, ln1 := .const p.ln1, ln2 := .const p.ln2, os := .const p.os, g := .const p.g,
    gp := .const p.gp, ex := .const p.ex, etheta := .const p.etheta, ethetap := .const p.ethetap }

def uses3 : PType → Bool
  | .psi | .zeta | .eta | .mu => true
  | _ => false

/-- species indices inside `0..n-1` -/
def PParam.wf (n : Nat) (p : PParam Rat) : Prop :=
  p.i0 < n ∧ p.i1 < n ∧ (uses3 p.type = true → p.i2 < n)

/-- the `ln_coef` / `os_coef` multipliers are the ones `pitzer_tidy` computes -/
def PParam.tidy (f : TransFns Rat) (neutral : Nat → Bool) (p : PParam Rat) : Prop :=
  letI := ratOps f
  (p.type = .lambda → (p.ln0, p.ln1, p.os) = lambdaCoefs p.i0 p.i1) ∧
  (p.type = .mu → p.ln0 = muLn p.i0 p.i1 p.i2 p.i0 (neutral p.i0) ∧ p.ln1 = muLn p.i0 p.i1 p.i2 p.i1 (neutral p.i1) ∧
      p.ln2 = muLn p.i0 p.i1 p.i2 p.i2 (neutral p.i2) ∧
      p.os = muOs p.i0 p.i1 p.i2 (neutral p.i0) (neutral p.i1) (neutral p.i2))

/-- weighted sum of the first-order parts of a list of additions -/
def wsum (m : Nat → Rat) (T : List (Nat × Dual)) : Rat :=
  match T with
  | [] => 0
  | t :: rest => m t.1 * t.2.eps + wsum m rest

theorem wsum_append (m : Nat → Rat) (A B : List (Nat × Dual)) : wsum m (A ++ B) = wsum m A + wsum m B := by
  induction A with
  | nil => simp [wsum]
  | cons a A ih => simp only [List.cons_append, wsum, ih]; ring

/-- `Σ_k m_k · ε(LGAMMA[k])` over the species equals the weighted sum over the additions -/
theorem rsum_addTerms (f : TransFns Rat) (n : Nat) (m : Nat → Rat) (T : List (Nat × Dual)) (acc : Nat → Dual)
    (h : ∀ t ∈ T, t.1 < n) :
    letI := dualOps f
    rsum n (fun k => m k * (addTerms T k (acc k)).eps) = rsum n (fun k => m k * (acc k).eps) + wsum m T := by
  induction T generalizing acc with
  | nil => simp [addTerms, wsum]
  | cons t T ih =>
    have ht : t.1 < n := h t (by simp)
    have hT : ∀ t' ∈ T, t'.1 < n := fun t' ht' => h t' (by simp [ht'])
    have step := ih (fun k => if t.1 = k then acc k + t.2 else acc k) hT
    simp only [addTerms, List.foldl_cons] at step ⊢
    rw [step]
    have : (fun k => m k * (if t.1 = k then acc k + t.2 else acc k).eps)
        = (fun k => m k * (acc k).eps + (if t.1 = k then m t.1 * t.2.eps else 0)) := by
      funext k
      by_cases hk : t.1 = k
      · subst hk; simp; ring
      · simp [hk]
    rw [this, rsum_add, rsum_ite n t.1 _ ht]
    simp only [wsum]; ring

theorem foldl_add_eps (f : TransFns Rat) {β : Type} (l : List β) (g : β → Dual) (a : Dual) :
    letI := dualOps f
    (l.foldl (fun acc p => acc + g p) a).eps = a.eps + (l.map fun p => (g p).eps).sum := by
  induction l generalizing a with
  | nil => simp
  | cons x l ih => simp only [List.foldl_cons, ih, List.map_cons, List.sum_cons, d_add_eps]; ring

theorem wsum_flatMap (m : Nat → Rat) {β : Type} (l : List β) (g : β → List (Nat × Dual)) :
    wsum m (l.flatMap g) = (l.map fun p => wsum m (g p)).sum := by
  induction l with
  | nil => simp [wsum]
  | cons x l ih => simp only [List.flatMap_cons, wsum_append, ih, List.map_cons, List.sum_cons]

theorem sumTo_re (f : TransFns Rat) (n : Nat) (g : Nat → Dual) :
    letI := dualOps f
    (sumTo n g).re = rsum n (fun k => (g k).re) := by
  induction n with
  | zero => simp [sumTo, rsum]
  | succ k ih => simp only [sumTo, rsum, d_add_re, ih]

theorem lambda_cases (f : TransFns Rat) (i0 i1 : Nat) (l0 l1 os : Rat)
    (h : letI := ratOps f; (l0, l1, os) = lambdaCoefs i0 i1) :
    (i0 = i1 ∧ l0 = 1 ∧ l1 = 1 ∧ os = 1 / 2) ∨ (i0 ≠ i1 ∧ l0 = 2 ∧ l1 = 2 ∧ os = 1) := by
  simp only [lambdaCoefs] at h
  by_cases e : i0 = i1
  · simp only [e, if_true, rat_lit, Prod.mk.injEq] at h
    exact Or.inl ⟨e, h.1, h.2.1, h.2.2⟩
  · simp only [e, if_false, rat_lit, Prod.mk.injEq] at h
    exact Or.inr ⟨e, h.1, h.2.1, h.2.2⟩

/-- one parameter: `Σ_k m_k · ε(its additions to LGAMMA[k])`, including its share of `z·CSUM`, equals
`ε(2 · its addition to OSMOT)` — for an arbitrary dual `bigZ` -/
theorem param_gd (f : TransFns Rat) (neutral : Nat → Bool) (p : PParam Rat) (ht : p.tidy f neutral)
    (m d : Nat → Rat) (bigZ : Dual) (present : Nat → Bool) :
    letI := dualOps f
    wsum m (lnTermsConst p.toDual (fun k => Dual.mk (m k) (d k)) bigZ present)
        + bigZ.re * (csumOf p.toDual (fun k => Dual.mk (m k) (d k))).eps
      = 2 * (osConst p.toDual (fun k => Dual.mk (m k) (d k)) bigZ present).eps := by
  obtain ⟨ty, i0, i1, i2, pp, cden, l0, l1, l2, os, g, gp, ex, et, etp⟩ := p
  cases ty
  case b0 => simp [lnTermsConst, osConst, csumOf, PParam.toDual, wsum]; ring
  case b1 => simp [lnTermsConst, osConst, csumOf, PParam.toDual, wsum]
  case b2 => simp [lnTermsConst, osConst, csumOf, PParam.toDual, wsum]
  case c0 =>
    simp only [lnTermsConst, osConst, csumOf, PParam.toDual, wsum, d_mul_eps, d_mul_re, d_div_eps, d_div_re,
      d_const_re, d_const_eps, d_mk_re, d_mk_eps, mul_zero, sub_zero, add_zero]
    by_cases hc : cden = 0
    · subst hc; simp
    · field_simp
      ring
  case theta => simp [lnTermsConst, osConst, csumOf, PParam.toDual, wsum]; ring
  case lambda =>
    have hl := lambda_cases f i0 i1 l0 l1 os (ht.1 rfl)
    rcases hl with ⟨e, h0, h1, h2⟩ | ⟨e, h0, h1, h2⟩
    · subst e h0 h1 h2
      simp [lnTermsConst, osConst, csumOf, PParam.toDual, wsum]; ring
    · subst h0 h1 h2
      simp [lnTermsConst, osConst, csumOf, PParam.toDual, wsum]; ring
  case zeta =>
    cases hp : present i2 <;> simp [lnTermsConst, osConst, csumOf, PParam.toDual, wsum, hp]
    ring
  case psi =>
    cases hp : present i2 <;> simp [lnTermsConst, osConst, csumOf, PParam.toDual, wsum, hp]
    ring
  case etheta => simp [lnTermsConst, osConst, csumOf, PParam.toDual, wsum]
  case alphas => simp [lnTermsConst, osConst, csumOf, PParam.toDual, wsum]
  case eta =>
    cases hp : present i2 <;> simp [lnTermsConst, osConst, csumOf, PParam.toDual, wsum, hp]
    ring
  case mu =>
    obtain ⟨h0, h1, h2, h3⟩ := ht.2 rfl
    simp only at h0 h1 h2 h3
    subst h0 h1 h2 h3
    cases hp : present i2
    · simp [lnTermsConst, osConst, csumOf, PParam.toDual, wsum, hp]
    · by_cases e01 : i0 = i1
      · subst e01
        by_cases e02 : i0 = i2
        · subst e02
          cases h0 : neutral i0 <;>
            simp_all [lnTermsConst, osConst, csumOf, PParam.toDual, wsum, muLn, muOs, cnt] <;> ring
        · have e20 := Ne.symm e02
          cases h0 : neutral i0 <;> cases h2 : neutral i2 <;>
            simp_all [lnTermsConst, osConst, csumOf, PParam.toDual, wsum, muLn, muOs, cnt] <;> ring
      · have e10 := Ne.symm e01
        by_cases e02 : i0 = i2
        · subst e02
          cases h0 : neutral i0 <;> cases h1 : neutral i1 <;>
            simp_all [lnTermsConst, osConst, csumOf, PParam.toDual, wsum, muLn, muOs, cnt] <;> ring
        · have e20 := Ne.symm e02
          by_cases e12 : i1 = i2
          · subst e12
            cases h0 : neutral i0 <;> cases h1 : neutral i1 <;>
              simp_all [lnTermsConst, osConst, csumOf, PParam.toDual, wsum, muLn, muOs, cnt] <;> ring
          · have e21 := Ne.symm e12
            cases h0 : neutral i0 <;> cases h1 : neutral i1 <;> cases h2 : neutral i2 <;>
              simp_all [lnTermsConst, osConst, csumOf, PParam.toDual, wsum, muLn, muOs, cnt] <;> ring


theorem lnTermsConst_idx (n : Nat) (p : PParam Rat) (h : p.wf n) (mD : Nat → Dual) (bigZ : Dual) (present : Nat → Bool)
    (f : TransFns Rat) : letI := dualOps f
    ∀ t ∈ lnTermsConst p.toDual mD bigZ present, t.1 < n := by
  obtain ⟨h0, h1, h2⟩ := h
  obtain ⟨ty, i0, i1, i2, pp, cden, l0, l1, l2, os, g, gp, ex, et, etp⟩ := p
  intro t ht
  cases ty <;> simp only [lnTermsConst, PParam.toDual] at ht
  case b0 => simp at ht; rcases ht with rfl | rfl <;> assumption
  case b1 => simp at ht
  case b2 => simp at ht
  case c0 => simp at ht; rcases ht with rfl | rfl <;> assumption
  case theta => simp at ht; rcases ht with rfl | rfl <;> assumption
  case lambda => simp at ht; rcases ht with rfl | rfl <;> assumption
  case etheta => simp at ht
  case alphas => simp at ht
  all_goals
    have h2' : i2 < n := h2 rfl
    cases hp : present i2 <;> simp [hp] at ht
    rcases ht with rfl | rfl | rfl <;> assumption

theorem sum_params (f : TransFns Rat) (neutral : Nat → Bool) (ps : List (PParam Rat))
    (ht : ∀ p ∈ ps, p.tidy f neutral) (m d : Nat → Rat) (bigZ : Dual) (present : Nat → Bool) :
    letI := dualOps f
    (ps.map fun p => wsum m (lnTermsConst p.toDual (fun k => Dual.mk (m k) (d k)) bigZ present)).sum
      + bigZ.re * (ps.map fun p => (csumOf p.toDual (fun k => Dual.mk (m k) (d k))).eps).sum
      = 2 * (ps.map fun p => (osConst p.toDual (fun k => Dual.mk (m k) (d k)) bigZ present).eps).sum := by
  induction ps with
  | nil => simp
  | cons p ps ih =>
    have hp := param_gd f neutral p (ht p (by simp)) m d bigZ present
    have ih' := ih (fun q hq => ht q (by simp [hq]))
    simp only [List.map_cons, List.sum_cons] at *
    linarith

/-- **Gibbs–Duhem for the constant-coefficient virial part of `pitzer()`**, for every parameter list (β⁰, Cφ, θ, λ,
ψ, ζ, μ, η with the multipliers `pitzer_tidy` assigns; β¹, β², ᴱθ contribute nothing to this part), every number of
species, every composition `m`, every direction of change `d` and every presence pattern `IPRSNT`:

  `Σ_k m_k · d(ln γ_k) = d( (φ − 1) · Σ_k m_k ) = d(2 · OSMOT)`

where `d(·)` is the first-order variation along `d` (the ε-part of the model evaluated on the dual numbers
`m_k + d_k ε`), `ln γ_k = LGAMMA[k]` includes the `z_k · CSUM` term and `BIGZ = Σ m_k |z_k|` varies with `m`. -/
theorem virial_gibbs_duhem (f : TransFns Rat) (neutral : Nat → Bool) (n : Nat) (ps : List (PParam Rat))
    (hwf : ∀ p ∈ ps, p.wf n) (htidy : ∀ p ∈ ps, p.tidy f neutral) (m d zabs : Nat → Rat) (present : Nat → Bool) :
    letI := dualOps f
    rsum n (fun k => m k *
        (lgammaConst (ps.map PParam.toDual) (fun k => Dual.mk (m k) (d k)) (fun k => Dual.const (zabs k))
          (sumTo n fun k => Dual.mk (m k) (d k) * Dual.const (zabs k)) present k).eps)
      = (lit 2 * osmotConst (ps.map PParam.toDual) (fun k => Dual.mk (m k) (d k))
          (sumTo n fun k => Dual.mk (m k) (d k) * Dual.const (zabs k)) present).eps := by
  let _i : NumOps Dual := dualOps f
  generalize hZ : (sumTo n fun k => Dual.mk (m k) (d k) * Dual.const (zabs k)) = bigZ
  have hZre : bigZ.re = rsum n (fun k => m k * zabs k) := by
    rw [← hZ, sumTo_re]
    apply rsum_congr; intro k _; simp
  have hidx : ∀ t ∈ constTerms (ps.map PParam.toDual) (fun k => Dual.mk (m k) (d k)) bigZ present, t.1 < n := by
    intro t ht
    simp only [constTerms, List.mem_flatMap, List.mem_map] at ht
    obtain ⟨pD, ⟨p, hp, rfl⟩, hmem⟩ := ht
    exact lnTermsConst_idx n p (hwf p hp) _ bigZ present f t hmem
  have h1 := rsum_addTerms f n m _ (fun _ => (lit 0 : Dual)) hidx
  have hsplit : (fun k => m k * (lgammaConst (ps.map PParam.toDual) (fun k => Dual.mk (m k) (d k))
        (fun k => Dual.const (zabs k)) bigZ present k).eps)
      = fun k => m k * (addTerms (constTerms (ps.map PParam.toDual) (fun k => Dual.mk (m k) (d k)) bigZ present) k (lit 0)).eps
          + (m k * zabs k) * ((ps.map PParam.toDual).foldl (fun a p => a + csumOf p fun k => Dual.mk (m k) (d k)) (lit 0)).eps := by
    funext k
    simp only [lgammaConst, d_add_eps, d_mul_eps, d_const_re, d_const_eps]
    ring
  rw [hsplit, rsum_add, h1, rsum_mul_right n (fun k => m k * zabs k), ← hZre]
  simp only [constTerms, osmotConst]
  rw [wsum_flatMap, foldl_add_eps f]
  simp only [d_mul_eps, d_lit_re, d_lit_eps]
  rw [foldl_add_eps f]
  simp only [d_lit_eps, d_lit_re, d_mul_eps, List.map_map, Function.comp_def, mul_zero, zero_mul, add_zero, zero_add]
  have hs := sum_params f neutral ps htidy m d bigZ present
  have h0 : rsum n (fun _ => (0 : Rat)) = 0 := by
    have := rsum_mul_right n (fun _ => (0 : Rat)) 0
    simpa using this
  rw [h0]
  linarith


/-! ## water activity, osmotic coefficient, the g-functions -/

/-- **a_w from φ**: `pitzer()` and `sit()` set `AW = exp(−Σm · φ / 55.50837)` with `φ = COSMOT` and `Σm = OSUM` the sum
of all molalities in the species list — the definition of the osmotic coefficient with `M_w = 1/55.50837 kg/mol`. -/
theorem aw_from_phi (f : TransFns Rat) (x : PzIn Rat) (y : SitIn Rat) :
    letI := ratOps f
    (pitzer x).aw = f.exp (-((pitzer x).osum * (pitzer x).cosmot) / (5550837 / 100000)) ∧
    (pitzer x).osum = sumTo x.n x.m ∧ (pitzer x).cosmot = 1 + 2 * (pitzer x).osmot / (pitzer x).osum ∧
    (sit y).aw = f.exp (-((sit y).osum * (sit y).cosmot) / (5550837 / 100000)) ∧
    (sit y).osum = sumTo y.n y.m := by
  refine ⟨?_, rfl, rfl, ?_, rfl⟩
  · simp only [pitzer, pitzerP, rat_exp, rat_lit]; congr 1; ring
  · simp only [sit, rat_exp, rat_lit]; congr 1; ring

/-- `(φ − 1)·Σm = 2·OSMOT`: the quantity the Gibbs–Duhem identity is about (partial: needs `Σm ≠ 0`, otherwise the
code divides by zero) -/
theorem cosmot_partial (osmot osum : Rat) (h : osum ≠ 0) : ((1 + 2 * osmot / osum) - 1) * osum = 2 * osmot := by
  field_simp; ring

/-- the two g-functions of the β¹/β² terms satisfy `g(y) + g′(y) = exp(−y)` as coded (`G`, `GP`), whatever `exp`
is: this is the relation `Bᵠ = B + I·B′` between the γ-side and the φ-side of the β¹ term (partial: `y ≠ 0`; at
`y = 0` the code returns 0 for both) -/
theorem g_gp_exp_partial (f : TransFns Rat) (y : Rat) (hy : y ≠ 0) :
    letI := ratOps f
    G y + GP y = f.exp (-y) := by
  have hz : (letI := ratOps f; isZero y) = false := by
    simp only [isZero, rat_lit]
    rcases lt_or_gt_of_ne hy with h | h
    · have : ¬ (0 ≤ y) := not_le.mpr h
      simp [this]
    · have : ¬ (y ≤ 0) := not_le.mpr h
      simp [this]
  simp only [G, GP, hz, rat_lit, rat_exp]
  simp only [Bool.false_eq_true, if_false]
  field_simp
  ring

/-- the full statement fails at `y = 0`: both functions return 0 there, `exp 0` need not be 0 -/
example : letI := ratOps ⟨id, id, id, fun _ => 1, id, id, id, id, id, id⟩
    G (0 : Rat) + GP 0 ≠ (fun _ => (1 : Rat)) (-0) := by
  norm_num [G, GP, isZero]

/-- non-vacuity of `virial_gibbs_duhem`'s ingredients on a concrete instance: β⁰(0,1) = 1/10, Cφ(0,1) = 1/50 with
`2·sqrt|z0 z1| = 2`, ψ(0,1,2) = 1/100 at `m = (1, 2, 3)`, `|z| = (1, 1, 1)`, varying species 0 only -/
example : letI := dualOps ⟨id, id, id, id, id, id, id, id, id, id⟩
    let ps : List (PParam Dual) :=
      [ { type := .b0, i0 := 0, i1 := 1, i2 := 3, p := .const (1 / 10), c0den := .const 0, ln0 := .const 0, ln1 := .const 0,
          ln2 := .const 0, os := .const 0, g := .const 0, gp := .const 0, ex := .const 0, etheta := .const 0, ethetap := .const 0 },
        { type := .c0, i0 := 0, i1 := 1, i2 := 3, p := .const (1 / 50), c0den := .const 2, ln0 := .const 0, ln1 := .const 0,
          ln2 := .const 0, os := .const 0, g := .const 0, gp := .const 0, ex := .const 0, etheta := .const 0, ethetap := .const 0 },
        { type := .psi, i0 := 0, i1 := 1, i2 := 2, p := .const (1 / 100), c0den := .const 0, ln0 := .const 0, ln1 := .const 0,
          ln2 := .const 0, os := .const 0, g := .const 0, gp := .const 0, ex := .const 0, etheta := .const 0, ethetap := .const 0 } ]
    let m : Nat → Dual := fun k => if k = 0 then ⟨1, 1⟩ else if k = 1 then ⟨2, 0⟩ else ⟨3, 0⟩
    let bigZ : Dual := ⟨6, 1⟩
    (lit 2 * osmotConst ps m bigZ (fun _ => true)).eps = 4 / 5 ∧
    1 * (lgammaConst ps m (fun _ => .const 1) bigZ (fun _ => true) 0).eps
      + 2 * (lgammaConst ps m (fun _ => .const 1) bigZ (fun _ => true) 1).eps
      + 3 * (lgammaConst ps m (fun _ => .const 1) bigZ (fun _ => true) 2).eps = 4 / 5 := by
  refine ⟨?_, ?_⟩ <;>
    norm_num [osmotConst, osConst, lgammaConst, constTerms, lnTermsConst, csumOf, addTerms, Dual.const]


/-! ## Gibbs–Duhem for the whole `pitzer()` skeleton -/

section full
variable (f : TransFns Rat)

@[simp] theorem d_sqrt_re (x : Dual) : (@NumOps.sqrt Dual (dualOps f) x).re = f.sqrt x.re := rfl
@[simp] theorem d_sqrt_eps (x : Dual) : (@NumOps.sqrt Dual (dualOps f) x).eps = x.eps / (2 * f.sqrt x.re) := rfl
@[simp] theorem d_ln_re (x : Dual) : (@NumOps.ln Dual (dualOps f) x).re = f.ln x.re := rfl
@[simp] theorem d_ln_eps (x : Dual) : (@NumOps.ln Dual (dualOps f) x).eps = x.eps / x.re := rfl

/-- Debye–Hückel part: `Σ_k m_k z_k² · dF = 2 I · dF = d(2 · OSMOT₀)` for `F = fDH`, with `√I · √I = I`
(hypothesis on the uninterpreted `sqrt`) and the derivative rules of `sqrt`, `ln` carried by the dual numbers -/
theorem dh_gd (a0 I dI : Rat) (hs : f.sqrt I * f.sqrt I = I) (hs0 : f.sqrt I ≠ 0)
    (hb : 1 + 12 / 10 * f.sqrt I ≠ 0) :
    letI := dualOps f
    2 * I * (fDH (Dual.const a0) (sqrt (Dual.mk I dI)) (lit (12 / 10))).eps
      = 2 * (osmot0 (Dual.const a0) (Dual.mk I dI) (sqrt (Dual.mk I dI))).eps := by
  simp only [fDH, osmot0, d_mul_eps, d_mul_re, d_div_eps, d_div_re, d_add_eps, d_add_re, d_neg_re, d_neg_eps,
    d_const_re, d_const_eps, d_lit_re, d_lit_eps, d_sqrt_re, d_sqrt_eps, d_ln_re, d_ln_eps, d_mk_re, d_mk_eps]
  set s := f.sqrt I with hsdef
  have hI : I = s * s := hs.symm
  have hb2 : (10 : Rat) + 12 * s ≠ 0 := by
    intro h; apply hb; linarith
  have hb3 : (10 : Rat) + s * 12 ≠ 0 := by rw [mul_comm]; exact hb2
  have hb4 : (1 : Rat) + 12 / 10 * s ≠ 0 := hb
  rw [hI]
  field_simp
  ring

/-- first-order parts of the ionic-strength functions of one parameter -/
structure DData where
  dg : Rat
  dgp : Rat
  dex : Rat
  dE : Rat
  dEp : Rat

/-- a parameter over the dual numbers: constant coefficients, ionic-strength functions with first-order parts -/
def PParam.toDualI (p : PParam Rat) (q : DData) : PParam Dual :=
  { type := p.type, i0 := p.i0, i1 := p.i1, i2 := p.i2, p := .const p.p, c0den := .const p.c0den,
    ln0 := .const p.ln0, ln1 := .const p.ln1, ln2 := .const p.ln2, os := .const p.os, g := ⟨p.g, q.dg⟩,
    gp := ⟨p.gp, q.dgp⟩, ex := ⟨p.ex, q.dex⟩, etheta := ⟨p.etheta, q.dE⟩, ethetap := ⟨p.ethetap, q.dEp⟩ }

/-- the derivative relations the code relies on, as hypotheses on the numbers a parameter carries at ionic strength
`I` with variation `dI`: `d g(α√I) = GP(α√I)/I · dI` (the code's `GP(y)` is `y g′(y)/2`), `exp(−α√I) = G + GP` (proved
for the coded `G`, `GP` in `g_gp_exp_partial`) together with its variation, and `d(ᴱθ) = ᴱθ′ dI` (the code's
`etheta` / `ethetap` pair) -/
def IRel (I dI : Rat) (p : PParam Rat) (q : DData) : Prop :=
  q.dg = p.gp * dI / I ∧ p.ex = p.g + p.gp ∧ q.dex = q.dg + q.dgp ∧ q.dE = p.ethetap * dI

theorem toDualI_const (p : PParam Rat) (q : DData) (mD : Nat → Dual) (bigZ : Dual) (present : Nat → Bool) :
    letI := dualOps f
    lnTermsConst (p.toDualI q) mD bigZ present = lnTermsConst p.toDual mD bigZ present ∧
    osConst (p.toDualI q) mD bigZ present = osConst p.toDual mD bigZ present ∧
    csumOf (p.toDualI q) mD = csumOf p.toDual mD := by
  obtain ⟨ty, i0, i1, i2, pp, cden, l0, l1, l2, os, g, gp, ex, et, etp⟩ := p
  cases ty <;> exact ⟨rfl, rfl, rfl⟩

theorem isZero_const (a : Rat) : letI := dualOps f; isZero (Dual.const a) = true ↔ a = 0 := by
  simp only [isZero, Bool.and_eq_true]
  constructor
  · intro ⟨h1, h2⟩
    exact le_antisymm (of_decide_eq_true h1) (of_decide_eq_true h2)
  · intro h; subst h
    exact ⟨decide_eq_true (le_refl (0 : Rat)), decide_eq_true (le_refl (0 : Rat))⟩

/-- one parameter, ionic-strength-dependent part: `Σ_k m_k · ε(additions to LGAMMA[k])`, plus its share `2I · ε(F_var)`
of `Σ_k m_k z_k² F`, equals `ε(2 · its addition to OSMOT)` -/
theorem param_gd_I (p : PParam Rat) (q : DData) (I dI : Rat) (hI : I ≠ 0) (hr : IRel I dI p q)
    (m d : Nat → Rat) (ue : Bool) :
    letI := dualOps f
    wsum m (lnTermsI (p.toDualI q) (fun k => Dual.mk (m k) (d k)) ue)
        + 2 * I * (fVar (p.toDualI q) (fun k => Dual.mk (m k) (d k)) (Dual.mk I dI) ue).eps
      = 2 * (osI (p.toDualI q) (fun k => Dual.mk (m k) (d k)) (Dual.mk I dI) ue).eps := by
  let _i : NumOps Dual := dualOps f
  obtain ⟨h1, h2, h3, h4⟩ := hr
  obtain ⟨ty, i0, i1, i2, pp, cden, l0, l1, l2, os, g, gp, ex, et, etp⟩ := p
  obtain ⟨dg, dgp, dex, dE, dEp⟩ := q
  simp only at h1 h2 h3 h4
  cases ty
  case b1 =>
    by_cases hz : pp = 0
    · have : isZero (Dual.const pp) = true := (isZero_const f pp).mpr hz
      simp [lnTermsI, osI, fVar, PParam.toDualI, this, wsum]
    · have : isZero (Dual.const pp) = false := by
        rw [Bool.eq_false_iff]; intro h; exact hz ((isZero_const f pp).mp h)
      subst h1 h2 h3
      simp [lnTermsI, osI, fVar, PParam.toDualI, this, wsum]
      field_simp
      ring
  case b2 =>
    by_cases hz : pp = 0
    · have : isZero (Dual.const pp) = true := (isZero_const f pp).mpr hz
      simp [lnTermsI, osI, fVar, PParam.toDualI, this, wsum]
    · have : isZero (Dual.const pp) = false := by
        rw [Bool.eq_false_iff]; intro h; exact hz ((isZero_const f pp).mp h)
      subst h1 h2 h3
      simp [lnTermsI, osI, fVar, PParam.toDualI, this, wsum]
      field_simp
      ring
  case etheta =>
    subst h4
    cases ue <;> simp [lnTermsI, osI, fVar, PParam.toDualI, wsum]
    ring
  all_goals simp [lnTermsI, osI, fVar, PParam.toDualI, wsum]

theorem lnTermsI_idx (n : Nat) (p : PParam Rat) (q : DData) (h : p.wf n) (mD : Nat → Dual) (ue : Bool) :
    letI := dualOps f
    ∀ t ∈ lnTermsI (p.toDualI q) mD ue, t.1 < n := by
  let _i : NumOps Dual := dualOps f
  obtain ⟨h0, h1, _⟩ := h
  obtain ⟨ty, i0, i1, i2, pp, cden, l0, l1, l2, os, g, gp, ex, et, etp⟩ := p
  intro t ht
  cases ty <;> simp only [lnTermsI, PParam.toDualI] at ht
  case b1 =>
    cases hz : isZero (Dual.const pp) <;> simp [hz] at ht
    rcases ht with rfl | rfl <;> assumption
  case b2 =>
    cases hz : isZero (Dual.const pp) <;> simp [hz] at ht
    rcases ht with rfl | rfl <;> assumption
  case etheta =>
    cases ue <;> simp at ht
    rcases ht with rfl | rfl <;> assumption
  all_goals simp at ht

/-- the input of `pitzer()` over the dual numbers built from rational data: molalities `m_k + d_k ε`, ionic strength
`I + dI ε`, constant charges / `A0` / MacInnes parameters, parameters with their ionic-strength functions -/
def dualInput (n : Nat) (m d z : Nat → Rat) (I dI a0 mt : Rat) (icon : Bool) (ic : Nat) (ue : Bool)
    (mc0 mc1 mcc : Option Rat) (ps : List (PParam Rat × DData)) : PzIn Dual :=
  { n := n, m := fun k => Dual.mk (m k) (d k), z := fun k => Dual.const (z k), mu := Dual.mk I dI, a0 := Dual.const a0,
    minTotal := Dual.const mt, icon := icon, ic := ic, useEtheta := ue, mcb0 := mc0.map Dual.const,
    mcb1 := mc1.map Dual.const, mcc0 := mcc.map Dual.const, ps := ps.map fun pq => pq.1.toDualI pq.2 }

theorem sum_params_full (neutral : Nat → Bool) (ps : List (PParam Rat × DData)) (I dI : Rat) (hI : I ≠ 0)
    (ht : ∀ pq ∈ ps, pq.1.tidy f neutral) (hr : ∀ pq ∈ ps, IRel I dI pq.1 pq.2)
    (m d : Nat → Rat) (bigZ : Dual) (present : Nat → Bool) (ue : Bool) :
    letI := dualOps f
    (ps.map fun pq => wsum m (lnTermsConst (pq.1.toDualI pq.2) (fun k => Dual.mk (m k) (d k)) bigZ present
        ++ lnTermsI (pq.1.toDualI pq.2) (fun k => Dual.mk (m k) (d k)) ue)).sum
      + bigZ.re * (ps.map fun pq => (csumOf (pq.1.toDualI pq.2) (fun k => Dual.mk (m k) (d k))).eps).sum
      + 2 * I * (ps.map fun pq => (fVar (pq.1.toDualI pq.2) (fun k => Dual.mk (m k) (d k)) (Dual.mk I dI) ue).eps).sum
      = 2 * (ps.map fun pq => (osConst (pq.1.toDualI pq.2) (fun k => Dual.mk (m k) (d k)) bigZ present
            + osI (pq.1.toDualI pq.2) (fun k => Dual.mk (m k) (d k)) (Dual.mk I dI) ue).eps).sum := by
  let _i : NumOps Dual := dualOps f
  induction ps with
  | nil => simp
  | cons pq ps ih =>
    have h1 := param_gd f neutral pq.1 (ht pq (by simp)) m d bigZ present
    have h2 := param_gd_I f pq.1 pq.2 I dI hI (hr pq (by simp)) m d ue
    obtain ⟨e1, e2, e3⟩ := toDualI_const f pq.1 pq.2 (fun k => Dual.mk (m k) (d k)) bigZ present
    have ih' := ih (fun q hq => ht q (by simp [hq])) (fun q hq => hr q (by simp [hq]))
    simp only [List.map_cons, List.sum_cons, wsum_append, d_add_eps] at *
    rw [e1, e2, e3]
    linarith

/-- **Gibbs–Duhem for the whole `pitzer()` skeleton** (`patm_x ≤ 1`): Debye–Hückel `F`, β⁰, β¹·g, β²·g, Cφ, θ, ᴱθ, λ,
ψ, ζ, μ, η, the `z·CSUM` and `z²·F` terms and the MacInnes scaling, for every parameter list, composition `m`,
direction `d`, variation `dI` of the ionic strength and presence pattern:

  `Σ_k m_k · d(LGAMMA[k]) = d(2 · OSMOT)`      (`2·OSMOT = (COSMOT − 1)·OSUM`, see `aw_from_phi`)

Hypotheses, all explicit: `2I = Σ m_k z_k²` (the `mu_x` the code uses is the ionic strength of the composition),
electroneutrality when MacInnes scaling is on, `√I·√I = I`, the derivative rules of `sqrt`/`ln` (carried by the dual
numbers), and for every parameter the relations `IRel` between the numbers `g, g′, exp, ᴱθ, ᴱθ′` it carries. -/
theorem pitzer_gibbs_duhem (neutral : Nat → Bool) (n : Nat) (m d z : Nat → Rat) (I dI a0 mt : Rat) (icon : Bool) (ic : Nat)
    (ue : Bool) (mc0 mc1 mcc : Option Rat) (ps : List (PParam Rat × DData))
    (hwf : ∀ pq ∈ ps, pq.1.wf n) (htidy : ∀ pq ∈ ps, pq.1.tidy f neutral) (hrel : ∀ pq ∈ ps, IRel I dI pq.1 pq.2)
    (hI2 : 2 * I = rsum n (fun k => m k * (z k * z k)))
    (hneut : icon = true → rsum n (fun k => m k * z k) = 0)
    (hs : f.sqrt I * f.sqrt I = I) (hs0 : f.sqrt I ≠ 0) (hb : 1 + 12 / 10 * f.sqrt I ≠ 0) :
    letI := dualOps f
    rsum n (fun k => m k * ((pitzer (dualInput n m d z I dI a0 mt icon ic ue mc0 mc1 mcc ps)).lgamma k).eps)
      = (lit 2 * (pitzer (dualInput n m d z I dI a0 mt icon ic ue mc0 mc1 mcc ps)).osmot).eps := by
  let _i : NumOps Dual := dualOps f
  have hI : I ≠ 0 := by
    intro h
    have h2 : f.sqrt I * f.sqrt I = 0 := by rw [hs]; exact h
    rcases mul_eq_zero.mp h2 with h' | h' <;> exact hs0 h'
  set X := dualInput n m d z I dI a0 mt icon ic ue mc0 mc1 mcc ps with hX
  set bigZ := bigZOf X with hZ
  set pres := presentOf X with hP
  have habs : ∀ k, absv (X.z k) = Dual.const |z k| := by
    intro k
    simp only [hX, dualInput, absv]
    by_cases h : z k < 0
    · have : (Dual.const (z k) < (lit 0 : Dual)) := h
      rw [if_pos this, abs_of_neg h]; rfl
    · have : ¬ (Dual.const (z k) < (lit 0 : Dual)) := h
      rw [if_neg this, abs_of_nonneg (not_lt.mp h)]
  have hZre : bigZ.re = rsum n (fun k => m k * |z k|) := by
    rw [hZ]; simp only [bigZOf]
    rw [show X.n = n from rfl, sumTo_re]
    apply rsum_congr; intro k _
    rw [habs k]; simp [hX, dualInput]
  -- ε of lg1
  set F := fTotal X (fDH X.a0 (sqrt X.mu) (lit (12 / 10))) with hF
  set C := csumTotal X with hC
  set T := allTerms X.ps X.m bigZ pres X.useEtheta with hT
  have hlg1 : ∀ k, (lg1 X { active := false, b1 := lit (12 / 10), b2 := lit (12 / 10) } k).eps
      = (addTerms T k (lit 0)).eps + (z k * z k) * F.eps + |z k| * C.eps := by
    intro k
    simp only [lg1, Bool.false_eq_true, if_false]
    rw [habs k]
    by_cases h0 : z k = 0
    · have hz : isZero (Dual.const |z k|) = true := (isZero_const f _).mpr (by simp [h0])
      rw [if_pos hz]; simp only [h0, mul_zero, zero_mul, abs_zero, add_zero]; rfl
    · have hz : ¬ (isZero (Dual.const |z k|) = true) := fun h => h0 (abs_eq_zero.mp ((isZero_const f _).mp h))
      rw [if_neg hz]
      simp only [d_add_eps, d_mul_eps, d_mul_re, d_const_re, d_const_eps, mul_zero, zero_mul, add_zero]
      rw [abs_mul_abs_self, ← add_assoc]
  have hidx : ∀ t ∈ T, t.1 < n := by
    intro t ht
    simp only [hT, allTerms, hX, dualInput, List.mem_flatMap, List.mem_map, List.mem_append] at ht
    obtain ⟨pD, ⟨pq, hp, rfl⟩, hmem⟩ := ht
    rcases hmem with hm | hm
    · rw [(toDualI_const f pq.1 pq.2 _ _ _).1] at hm
      exact lnTermsConst_idx n pq.1 (hwf pq hp) _ _ _ f t hm
    · exact lnTermsI_idx f n pq.1 pq.2 (hwf pq hp) _ _ t hm
  have hsum := rsum_addTerms f n m T (fun _ => (lit 0 : Dual)) hidx
  have h0 : rsum n (fun _ => (0 : Rat)) = 0 := by
    have := rsum_mul_right n (fun _ => (0 : Rat)) 0
    simpa using this
  -- the left-hand side
  have hL : rsum n (fun k => m k * ((pitzer X).lgamma k).eps)
      = wsum m T + 2 * I * F.eps + bigZ.re * C.eps := by
    have e : (fun k => m k * ((pitzer X).lgamma k).eps)
        = fun k => (m k * (addTerms T k (lit 0)).eps + (m k * (z k * z k)) * F.eps + (m k * |z k|) * C.eps)
            + (m k * z k) * (if icon then (phimac X { active := false, b1 := lit (12 / 10), b2 := lit (12 / 10) }).eps else 0) := by
      funext k
      simp only [pitzer, pitzerP]
      have hic : X.icon = icon := rfl
      have hzk : X.z k = Dual.const (z k) := rfl
      rw [hic]
      cases icon
      · simp only [Bool.false_eq_true, if_false, hlg1 k]; ring
      · simp only [if_true, d_add_eps, d_mul_eps, hzk, d_const_re, d_const_eps, hlg1 k]; ring
    rw [e, rsum_add, rsum_add, rsum_add, hsum, rsum_mul_right n (fun k => m k * (z k * z k)),
      rsum_mul_right n (fun k => m k * |z k|), rsum_mul_right n (fun k => m k * z k), ← hI2, ← hZre]
    simp only [d_lit_eps, mul_zero, h0]
    cases icon
    · simp
    · simp [hneut rfl]
  rw [hL]
  -- expand the sums over the parameters
  have hTsum : wsum m T = (ps.map fun pq => wsum m (lnTermsConst (pq.1.toDualI pq.2) (fun k => Dual.mk (m k) (d k)) bigZ pres
        ++ lnTermsI (pq.1.toDualI pq.2) (fun k => Dual.mk (m k) (d k)) ue)).sum := by
    simp only [hT, allTerms, hX, dualInput]
    rw [wsum_flatMap, List.map_map]; rfl
  have hFeps : F.eps = (fDH (Dual.const a0) (sqrt (Dual.mk I dI)) (lit (12 / 10))).eps
      + (ps.map fun pq => (fVar (pq.1.toDualI pq.2) (fun k => Dual.mk (m k) (d k)) (Dual.mk I dI) ue).eps).sum := by
    simp only [hF, fTotal, hX, dualInput]
    rw [foldl_add_eps f, List.map_map]; rfl
  have hCeps : C.eps = (ps.map fun pq => (csumOf (pq.1.toDualI pq.2) (fun k => Dual.mk (m k) (d k))).eps).sum := by
    simp only [hC, csumTotal, hX, dualInput]
    rw [foldl_add_eps f, List.map_map]; simp [Function.comp_def]
  have hO : ((pitzer X).osmot).eps = (osmot0 (Dual.const a0) (Dual.mk I dI) (sqrt (Dual.mk I dI))).eps
      + (ps.map fun pq => (osConst (pq.1.toDualI pq.2) (fun k => Dual.mk (m k) (d k)) bigZ pres
            + osI (pq.1.toDualI pq.2) (fun k => Dual.mk (m k) (d k)) (Dual.mk I dI) ue).eps).sum := by
    simp only [pitzer, pitzerP, osmotTotal]
    rw [foldl_add_eps f]
    simp only [hX, dualInput, List.map_map]; rfl
  have hdh := dh_gd f a0 I dI hs hs0 hb
  have hps := sum_params_full f neutral ps I dI hI htidy hrel m d bigZ pres ue
  simp only [d_mul_eps, d_lit_re, d_lit_eps, zero_mul, add_zero]
  rw [hTsum, hFeps, hCeps, hO]
  linarith

end full

end PhreeqcVerif.Pitzer

/-! ## the source statements the models were written from (translator `tools/gen_pitzer.py`)

Each theorem says: the statements of the named function in the *current* source, as regenerated into
`Gen/GammaSrc.lean` on every run, are exactly the ones listed here (the ones the Lean model transcribes). Any edit of a
modelled statement makes the obligation fail; the check then runs its failing-input search. -/
namespace PhreeqcVerif.C16Src
open PhreeqcVerif.Gen.GammaSrc

/-- `pitzer()` — transcribed by `Pitzer.pitzerP`, `lg1`, `fDH`, `osmot0`, `gamclm`, `pcorrOf`, `lnTermsConst`, `lnTermsI`, `osConst`, `osI`, `fVar`, `csumOf` -/
theorem pitzerStmts_as_modelled : pitzerStmts = [
  "CONV=1.0/LOG_10",
  "XX=0.0",
  "OSUM=0.0",
  "IPRSNT[i]=FALSE",
  "M[i]=0.0",
  "M[i]=under(spec[i]->lm)",
  "if(M[i]>MIN_TOTAL)IPRSNT[i]=TRUE",
  "}}if(ICON==TRUE){IPRSNT[IC]=TRUE",
  "LGAMMA[i]=0.0",
  "XX=XX+M[i]*fabs(spec[i]->z)",
  "OSUM=OSUM+M[i]",
  "}BIGZ=XX",
  "DI=sqrt(I)",
  "B=1.2",
  "F=F1=F2=-A0*(DI/(1.0+B*DI)+2.0*log(1.0+B*DI)/B)",
  "if(patm_x>1.0){LDBLEpap=0.0",
  "pap=(7e-5+1.93e-9*pow(TK-250.0,2.0))*patm_x",
  "B1=B-(pap>0.2?0.2:pap)",
  "if(TK>263.0){pap=(9.65e-10*pow(TK-263.0,2.773))*pow(patm_x,0.623)",
  "}B2=B-(pap>0.2?0.2:pap)",
  "if(B1!=0)F1=-A0*(DI/(1.0+B1*DI)+2.0*log(1.0+B1*DI)/B1)",
  "if(B2!=0)F2=-A0*(DI/(1.0+B2*DI)+2.0*log(1.0+B2*DI)/B2)",
  "}XXX=2.0*DI",
  "XXX=(1.0-(1.0+XXX-XXX*XXX*0.5)*exp(-XXX))/(XXX*XXX)",
  "GAMCLM=F1",
  "if(mcb0!=NULL)GAMCLM+=I*2.0*mcb0->p",
  "if(mcb1!=NULL)GAMCLM+=I*2.0*mcb1->p*XXX",
  "if(mcc0!=NULL)GAMCLM+=1.5*mcc0->p*I*I",
  "CSUM=0.0",
  "OSMOT=-(A0)*pow(I,(LDBLE)1.5)/(1.0+B*DI)",
  "theta_params[i]->etheta=etheta",
  "theta_params[i]->ethetap=ethetap",
  "F_var=0",
  "switch(pitz_params[i]->type){caseTYPE_B0:LGAMMA[i0]+=M[i1]*2.0*param",
  "LGAMMA[i1]+=M[i0]*2.0*param",
  "OSMOT+=M[i0]*M[i1]*param",
  "caseTYPE_B1:if(param!=0.0){F_var=M[i0]*M[i1]*param*GP(l_alpha*DI)/I",
  "LGAMMA[i0]+=M[i1]*2.0*param*G(l_alpha*DI)",
  "LGAMMA[i1]+=M[i0]*2.0*param*G(l_alpha*DI)",
  "OSMOT+=M[i0]*M[i1]*param*exp(-l_alpha*DI)",
  "caseTYPE_B2:if(param!=0.0){F_var=M[i0]*M[i1]*param*GP(l_alpha*DI)/I",
  "LGAMMA[i0]+=M[i1]*2.0*param*G(l_alpha*DI)",
  "LGAMMA[i1]+=M[i0]*2.0*param*G(l_alpha*DI)",
  "OSMOT+=M[i0]*M[i1]*param*exp(-l_alpha*DI)",
  "caseTYPE_C0:CSUM+=M[i0]*M[i1]*pitz_params[i]->p/(2.0*sqrt(fabs(z0*z1)))",
  "LGAMMA[i0]+=M[i1]*BIGZ*param/(2.0*sqrt(fabs(z0*z1)))",
  "LGAMMA[i1]+=M[i0]*BIGZ*param/(2.0*sqrt(fabs(z0*z1)))",
  "OSMOT+=M[i0]*M[i1]*BIGZ*param/(2.0*sqrt(fabs(z0*z1)))",
  "caseTYPE_THETA:LGAMMA[i0]+=2.0*M[i1]*(param)",
  "LGAMMA[i1]+=2.0*M[i0]*(param)",
  "OSMOT+=M[i0]*M[i1]*param",
  "F_var=M[i0]*M[i1]*ethetap",
  "LGAMMA[i0]+=2.0*M[i1]*etheta",
  "LGAMMA[i1]+=2.0*M[i0]*etheta",
  "OSMOT+=M[i0]*M[i1]*(etheta+I*ethetap)",
  "LGAMMA[i0]+=M[i1]*M[i2]*param",
  "LGAMMA[i1]+=M[i0]*M[i2]*param",
  "LGAMMA[i2]+=M[i0]*M[i1]*param",
  "OSMOT+=M[i0]*M[i1]*M[i2]*param",
  "caseTYPE_LAMBDA:LGAMMA[i0]+=M[i1]*param*pitz_params[i]->ln_coef[0]",
  "LGAMMA[i1]+=M[i0]*param*pitz_params[i]->ln_coef[1]",
  "OSMOT+=M[i0]*M[i1]*param*pitz_params[i]->os_coef",
  "LGAMMA[i0]+=M[i1]*M[i2]*param",
  "LGAMMA[i1]+=M[i0]*M[i2]*param",
  "LGAMMA[i2]+=M[i0]*M[i1]*param",
  "OSMOT+=M[i0]*M[i1]*M[i2]*param",
  "LGAMMA[i0]+=M[i1]*M[i2]*param*pitz_params[i]->ln_coef[0]",
  "LGAMMA[i1]+=M[i0]*M[i2]*param*pitz_params[i]->ln_coef[1]",
  "LGAMMA[i2]+=M[i0]*M[i1]*param*pitz_params[i]->ln_coef[2]",
  "OSMOT+=M[i0]*M[i1]*M[i2]*param*pitz_params[i]->os_coef",
  "LGAMMA[i0]+=M[i1]*M[i2]*param",
  "LGAMMA[i1]+=M[i0]*M[i2]*param",
  "LGAMMA[i2]+=M[i0]*M[i1]*param",
  "OSMOT+=M[i0]*M[i1]*M[i2]*param",
  "}F+=F_var",
  "F1+=F_var",
  "F2+=F_var",
  "F_var=(z0==1?F1:(z0==2.0?F2:F))",
  "LGAMMA[i]+=z0*z0*F_var+z0*CSUM",
  "}if(ICON==TRUE){PHIMAC=LGAMMA[IC]-GAMCLM",
  "LGAMMA[i]=LGAMMA[i]+spec[i]->z*PHIMAC",
  "}}COSMOT=1.0+2.0*OSMOT/OSUM",
  "AW=exp(-OSUM*COSMOT/55.50837)",
  "spec[i]->lg_pitzer=LGAMMA[i]*CONV"
] := rfl

/-- `G` — `Pitzer.G` -/
theorem gStmts_as_modelled : gStmts = [
  "if(L_Y!=0.0){d=2.0e0*(1.0e0-(1.0e0+L_Y)*exp(-L_Y))/(L_Y*L_Y)"
] := rfl

/-- `GP` — `Pitzer.GP` -/
theorem gpStmts_as_modelled : gpStmts = [
  "if(L_Y!=0.0){d=-2.0e0*(1.0e0-(1.0e0+L_Y+L_Y*L_Y/2.0e0)*exp(-L_Y))/(L_Y*L_Y)"
] := rfl

/-- `ETHETAS` — the `etheta`/`ethetap` pair (`IRel`: `ethetap` is d(etheta)/dI) -/
theorem ethetasStmts_as_modelled : ethetasStmts = [
  "*etheta=0.0",
  "*ethetap=0.0",
  "constLDBLEXCON=6.0e0*A0*sqrt(I)",
  "constLDBLEXJK=XCON*ZZ",
  "constLDBLEXJJ=XCON*ZJ*ZJ",
  "constLDBLEXKK=XCON*ZK*ZK",
  "*etheta=ZZ*(JAY_XJK-JAY_XJJ/2.0e0-JAY_XKK/2.0e0)/(4.0e0*I)",
  "*ethetap=ZZ*(JPRIME_XJK-JPRIME_XJJ/2.0e0-JPRIME_XKK/2.0e0)/(8.0e0*I*I)-*etheta/I"
] := rfl

/-- `calc_pitz_param` — `Pitzer.calcParam` -/
theorem calcParamStmts_as_modelled : calcParamStmts = [
  "if(fabs(TK-TR)<0.001){param=pz_ptr->a[0]",
  "}else{param=(pz_ptr->a[0]+pz_ptr->a[1]*(1.e0/TK-1.e0/TR)+pz_ptr->a[2]*log(TK/TR)+pz_ptr->a[3]*(TK-TR)+pz_ptr->a[4]*(TK*TK-TR*TR))+pz_ptr->a[5]*(1.e0/(TK*TK)-1.e0/(TR*TR))"
] := rfl

/-- `pitzer_tidy` — `lambdaCoefs`, `muLn`, `muOs`, alpha defaults -/
theorem tidyStmts_as_modelled : tidyStmts = [
  "if(equal(z0,1.0,1e-8)||equal(z1,1.0,1e-8)){order=1",
  "}elseif(equal(z0,2.0,1e-8)&&equal(z1,2.0,1e-8)){order=2",
  "}else{order=3",
  "}if(pitz_params[i]->type==TYPE_B1){switch(order){case1:case3:pitz_params[i]->alpha=2.0",
  "case2:pitz_params[i]->alpha=1.4",
  "}}elseif(pitz_params[i]->type==TYPE_B2){switch(order){case1:pitz_params[i]->alpha=12.0",
  "case2:pitz_params[i]->alpha=12.0",
  "case3:pitz_params[i]->alpha=50.0",
  "pitz_params[j]->alpha=pitz_params[i]->a[0]",
  "pitz_params[j]->alpha=pitz_params[i]->a[1]",
  "}if(spec[pitz_params[i]->ispec[j]]->z<0){}}if(count_neut==3){if(i0==i1&&i1==i2){pitz_params[i]->os_coef=1",
  "}elseif(i0==i1||i1==i2||i0==i2){pitz_params[i]->os_coef=3",
  "}else{pitz_params[i]->os_coef=6",
  "}}if(i0==i1||i1==i2||i0==i2){pitz_params[i]->os_coef=3",
  "}else{pitz_params[i]->os_coef=6",
  "j++){if(spec[pitz_params[i]->ispec[j]]->z<0||spec[pitz_params[i]->ispec[j]]->z>0){if(count[0]>1||count[1]>1){pitz_params[i]->ln_coef[j]=3",
  "}else{pitz_params[i]->ln_coef[j]=6",
  "}if(count[j]==3){pitz_params[i]->ln_coef[j]=1",
  "}elseif(count[j]==2){pitz_params[i]->ln_coef[j]=3",
  "}elseif(count[j]==1){if(count[0]>1||count[1]>1){pitz_params[i]->ln_coef[j]=3",
  "}else{pitz_params[i]->ln_coef[j]=6",
  "if(i0==i1){pitz_params[i]->os_coef=0.5",
  "pitz_params[i]->ln_coef[0]=1",
  "pitz_params[i]->ln_coef[1]=1",
  "}else{pitz_params[i]->os_coef=1",
  "pitz_params[i]->ln_coef[0]=2",
  "pitz_params[i]->ln_coef[1]=2"
] := rfl

/-- `sit()` — `Pitzer.sit`, `sitTerms`, `sitOs` -/
theorem sitStmts_as_modelled : sitStmts = [
  "XI=0.0e0",
  "XX=0.0e0",
  "OSUM=0.0e0",
  "I=mu_x",
  "if(spec[i]->lm>log_min){sit_M[i]=under(spec[i]->lm)",
  "}else{sit_M[i]=0.0",
  "sit_LGAMMA[i]=0.0",
  "XX=XX+sit_M[i]*fabs(spec[i]->z)",
  "XI=XI+sit_M[i]*spec[i]->z*spec[i]->z",
  "OSUM=OSUM+sit_M[i]",
  "}I=XI/2.0e0",
  "I=mu_x",
  "DI=sqrt(I)",
  "AGAMMA=3*sit_A0",
  "A=AGAMMA/LOG_10",
  "B=1.5",
  "F=-A*(DI/(1.0e0+B*DI))",
  "T=1.0+B*DI",
  "OSMOT=-2.0*A/(B*B*B)*(T-2.0*log(T)-1.0/T)",
  "switch(sit_params[i]->type){caseTYPE_SIT_EPSILON:sit_LGAMMA[i0]+=sit_M[i1]*param",
  "sit_LGAMMA[i1]+=sit_M[i0]*param",
  "if(z0==0.0&&z1==0.0){OSMOT+=sit_M[i0]*sit_M[i1]*param/2.0",
  "}else{OSMOT+=sit_M[i0]*sit_M[i1]*param",
  "caseTYPE_SIT_EPSILON_MU:sit_LGAMMA[i0]+=sit_M[i1]*I*param",
  "sit_LGAMMA[i1]+=sit_M[i0]*I*param",
  "OSMOT+=sit_M[i0]*sit_M[i1]*param",
  "if(z0==0.0&&z1==0.0){OSMOT+=sit_M[i0]*sit_M[i1]*param*I/2.0",
  "}else{OSMOT+=sit_M[i0]*sit_M[i1]*param*I",
  "sit_LGAMMA[i]+=z0*z0*F",
  "}COSMOT=1.0e0+OSMOT*LOG_10/OSUM",
  "AW=exp(-OSUM*COSMOT/55.50837e0)",
  "spec[i]->lg_pitzer=sit_LGAMMA[i]"
] := rfl

/-- `calc_sit_param` — `Pitzer.calcSitParam` -/
theorem calcSitParamStmts_as_modelled : calcSitParamStmts = [
  "if(fabs(TK-TR)<0.01){param=pz_ptr->a[0]",
  "}else{param=(pz_ptr->a[0]+pz_ptr->a[1]*(1.e0/TK-1.e0/TR)+pz_ptr->a[2]*log(TK/TR)+pz_ptr->a[3]*(TK-TR)+pz_ptr->a[4]*(TK*TK-TR*TR))"
] := rfl

/-- `gammas()` aqueous branches — `Gamma.lgOf`, `davies`, `wateq`, `bdot`, `co2Poly`, `clampMu`, `searchGo`, `weight`, `blend` -/
theorem gammasStmts_as_modelled : gammasStmts = [
  "if(mu<=0)mu=1e-10",
  "a_llnl=b_llnl=bdot_llnl=log_g_co2=dln_g_co2=c2_llnl=0",
  "a=DH_A",
  "b=DH_B",
  "if(llnl_temp.size()>0){ifirst=0",
  "ilast=(int)llnl_temp.size()",
  "i++){if(tc_x>=llnl_temp[i])ifirst=i",
  "if(tc_x<=llnl_temp[i]){ilast=i",
  "}}if(ilast==ifirst){f=1",
  "}else{f=(tc_x-llnl_temp[ifirst])/(llnl_temp[ilast]-llnl_temp[ifirst])",
  "}a_llnl=(1-f)*llnl_adh[ifirst]+f*llnl_adh[ilast]",
  "b_llnl=(1-f)*llnl_bdh[ifirst]+f*llnl_bdh[ilast]",
  "bdot_llnl=(1-f)*llnl_bdot[ifirst]+f*llnl_bdot[ilast]",
  "log_g_co2=(llnl_co2_coefs[0]+llnl_co2_coefs[1]*tk_x+llnl_co2_coefs[2]/tk_x)*mu-(llnl_co2_coefs[3]+llnl_co2_coefs[4]*tk_x)*(mu/(mu+1))",
  "}muhalf=sqrt(mu)",
  "i++){switch(s_x[i]->gflag){case0:s_x[i]->lg=s_x[i]->dhb*mu",
  "case1:s_x[i]->lg=-s_x[i]->z*s_x[i]->z*a*(muhalf/(1.0+muhalf)-0.3*mu)",
  "case2:s_x[i]->lg=-a*muhalf*s_x[i]->z*s_x[i]->z/(1.0+s_x[i]->dha*b*muhalf)+s_x[i]->dhb*mu",
  "case3:s_x[i]->lg=0.0",
  "case5:s_x[i]->lg=0.0",
  "}else{s_x[i]->lg=0.0",
  "case7:if(llnl_temp.size()>0){if(s_x[i]->z==0){s_x[i]->lg=0.0",
  "}else{s_x[i]->lg=-a_llnl*muhalf*s_x[i]->z*s_x[i]->z/(1.0+s_x[i]->dha*b_llnl*muhalf)+bdot_llnl*mu",
  "case8:if(llnl_temp.size()>0){s_x[i]->lg=log_g_co2",
  "case9:s_x[i]->lg=log10(exp(s_h2o->la*LOG_10)*gfw_water)"
] := rfl

/-- `read_species` — `Gamma.defaultAssign`, `applyOpt` -/
theorem readSpeciesStmts_as_modelled : readSpeciesStmts = [
  "}s_ptr->gflag=2",
  "i=sscanf(next_char,SCANFORMATSCANFORMAT,&s_ptr->dha,&s_ptr->dhb)",
  "}s_ptr->gflag=7",
  "i=sscanf(next_char,SCANFORMAT,&s_ptr->dha)",
  "}s_ptr->gflag=8",
  "}s_ptr->gflag=9",
  "s_ptr->dha=0.0",
  "s_ptr->dhb=0.0",
  "if(equal(s_ptr->z,0.0,TOL)==TRUE){s_ptr->gflag=0",
  "s_ptr->dhb=0.1",
  "}else{s_ptr->gflag=1",
  "s_eminus->gflag=3",
  "s_h2o->gflag=3"
] := rfl

end PhreeqcVerif.C16Src

namespace PhreeqcVerif.Pitzer
open NumOps

def exF : TransFns Rat := ⟨id, id, id, id, id, id, id, id, id, id⟩
def exB1 : PParam Rat :=
  ⟨.b1, 0, 1, 2, 1 / 5, 2, 0, 0, 0, 0, 1 / 2, 1 / 4, 3 / 4, 0, 0⟩
def exEth : PParam Rat :=
  ⟨.etheta, 0, 1, 2, 1, 2, 0, 0, 0, 0, 0, 0, 0, 1 / 10, 1 / 20⟩
def exPs : List (PParam Rat × DData) :=
  [(exB1, { dg := 1 / 8, dgp := 1 / 3, dex := 11 / 24, dE := 0, dEp := 0 }),
   (exEth, { dg := 0, dgp := 0, dex := 0, dE := 1 / 40, dEp := 7 })]

/-- non-vacuity of `pitzer_gibbs_duhem`: its hypotheses hold together on a concrete instance (two ions `z = ±1`, `m = (1, 1)`,
`I = 1` with `sqrt 1 = 1`, a β¹ and an ᴱθ parameter with consistent derivative data, MacInnes scaling on) -/
example : letI := dualOps exF
    rsum 2 (fun k => (fun _ => (1 : Rat)) k *
        ((pitzer (dualInput 2 (fun _ => 1) (fun k => if k = 0 then 1 else 0) (fun k => if k = 0 then 1 else -1) 1 (1 / 2) (2 / 5) 0
          true 1 true (some (1 / 20)) none none exPs)).lgamma k).eps)
      = (lit 2 * (pitzer (dualInput 2 (fun _ => 1) (fun k => if k = 0 then 1 else 0) (fun k => if k = 0 then 1 else -1) 1 (1 / 2) (2 / 5) 0
          true 1 true (some (1 / 20)) none none exPs)).osmot).eps :=
  pitzer_gibbs_duhem exF (fun _ => false) 2 (fun _ => 1) (fun k => if k = 0 then 1 else 0) (fun k => if k = 0 then 1 else -1)
    1 (1 / 2) (2 / 5) 0 true 1 true (some (1 / 20)) none none exPs
    (by intro pq h; simp [exPs] at h; rcases h with rfl | rfl <;> simp [PParam.wf, exB1, exEth, uses3])
    (by intro pq h; simp [exPs] at h; rcases h with rfl | rfl <;> simp [PParam.tidy, exB1, exEth])
    (by intro pq h; simp [exPs] at h; rcases h with rfl | rfl <;> norm_num [IRel, exB1, exEth])
    (by norm_num [rsum]) (by intro _; norm_num [rsum]) (by simp [exF]) (by simp [exF]) (by norm_num [exF])

end PhreeqcVerif.Pitzer
