import PhreeqcVerif.Gen.ApiTable
/-!
Specification of the thin binding layers (C13), stated as decidable well-formedness predicates over the wrapper
tables that `tools/gen_api.py` regenerates from `src/IPhreeqcLib.cpp` and `src/IPhreeqc_interface_F.cpp`.

C binding (IPhreeqc.h): `F(id, a, b, …)` looks the instance up with `GetInstance(id)`, calls the C++ method of the
same name with the same arguments in the same order (`int` switches become `bool` by `!= 0`), translates
`VR_x` to `IPQ_x`, and for an id that is not live returns the documented invalid-instance result without
calling anything. Fortran binding: `FF(id*, …)` calls the C function `F` with every argument dereferenced, 1-based
line/component/ordinal indices shifted by exactly −1, strings blank-padded by `padfstring`, the row count
reported without the heading row and the column of `GetSelectedOutputValueF` shifted by −1.
Only `++` and `==` on strings are used so that `decide` evaluates the predicates in the kernel.
-/
namespace PhreeqcVerif.Api
open PhreeqcVerif.Gen.Api

def boolSetters : List String :=
  ["SetDumpFileOn", "SetDumpStringOn", "SetErrorFileOn", "SetErrorOn", "SetErrorStringOn", "SetLogFileOn",
   "SetLogStringOn", "SetOutputFileOn", "SetOutputStringOn", "SetSelectedOutputFileOn", "SetSelectedOutputStringOn"]

/-- functions documented to return a count, which is 0 for an invalid instance -/
def zeroOnBad : List String :=
  ["GetDumpStringLineCount", "GetLogStringLineCount", "GetOutputStringLineCount",
   "GetSelectedOutputStringLineCount"]

def codes : List String := ["OK", "OUTOFMEMORY", "BADVARTYPE", "INVALIDARG", "INVALIDROW", "INVALIDCOL"]

def expectedArgs (w : CW) : List String :=
  w.params.tail.map fun p => if boolSetters.contains w.name then p.2 ++ "!=0" else p.2

def badOk (w : CW) : Bool :=
  if w.ret == "const char*" then
    w.badIsStatic && (w.badText == "" || w.badText == w.name ++ ": Invalid instance id.\n")
  else if w.ret == "void" then w.bad == ""
  else if zeroOnBad.contains w.name then w.bad == "0"
  else w.bad == "IPQ_BADINSTANCE"

def transOk (w : CW) : Bool :=
  w.trans.all fun p => codes.any fun c => p.1 == "VR_" ++ c && p.2 == "IPQ_" ++ c

/-- a C wrapper has the documented forwarding shape -/
def wfC (w : CW) : Bool :=
  if w.name == "DestroyIPhreeqc" then
    w.calls == [] && w.lookups == [("DestroyIPhreeqc", "id")] && w.params == [("int", "id")]
  else
    w.params.head? == some ("int", "id") && w.calls == [(w.name, expectedArgs w)] &&
    w.lookups == [("GetInstance", "id")] && badOk w && transOk w

/-- Fortran functions whose `n` is a 1-based line / component / ordinal index -/
def shiftedF : List String :=
  ["GetComponentF", "GetDumpStringLineF", "GetErrorStringLineF", "GetLogStringLineF",
   "GetNthSelectedOutputUserNumberF", "GetOutputStringLineF", "GetSelectedOutputStringLineF",
   "GetWarningStringLineF"]

/-- Fortran functions that return a string through a blank-padded buffer + length pair (last two parameters) -/
def stringF : List String :=
  ["GetComponentF", "GetDumpFileNameF", "GetDumpStringLineF", "GetErrorFileNameF", "GetErrorStringLineF",
   "GetLogFileNameF", "GetLogStringLineF", "GetOutputFileNameF", "GetOutputStringLineF",
   "GetSelectedOutputFileNameF", "GetSelectedOutputStringLineF", "GetVersionStringF", "GetWarningStringLineF"]

def derefArg (fname : String) (p : String × String) : String :=
  if p.1 == "char*" then p.2
  else if p.2 == "n" && shiftedF.contains fname then "(*n)-1"
  else "*" ++ p.2

def inParams (w : FW) : List (String × String) :=
  if stringF.contains w.name then w.params.take (w.params.length - 2) else w.params

def join (xs : List String) : String := String.intercalate "," xs

def wfF (w : FW) : Bool :=
  if w.name == "GetSelectedOutputValueF" then
    w.calls == [("GetSelectedOutputValue", ["*id", "*row", "adjcol", "&v"])] && w.adjcol &&
    !w.rowsMinusHeading &&
    w.pads == [["svalue", "buffer", "svalue_length"], ["svalue", "buffer", "svalue_length"],
               ["svalue", "v.sVal", "svalue_length"]]
  else
    match w.calls with
    | [(callee, args)] =>
      callee ++ "F" == w.name && args == (inParams w).map (derefArg w.name) && !w.adjcol &&
      (w.rowsMinusHeading == (w.name == "GetSelectedOutputRowCountF")) &&
      (if stringF.contains w.name then
         match w.params.drop (w.params.length - 2) with
         | [buf, len] => w.pads == [[buf.2, "::" ++ callee ++ "(" ++ join args ++ ")", len.2]]
         | _ => false
       else w.pads == [])
    | _ => false

/-- every `bind(C)` target of the Fortran module exists in the C++ glue with the same number of arguments -/
def f90Ok : Bool :=
  f90Binds.all fun b => fWrappers.any fun w => w.name == b.1 && w.params.length == b.2

/-! ### `padfstring(dest, src, len)` on a buffer of `len` characters -/

/-- the buffer after the call and the reported length -/
def padfstring (src : List Char) (len : Nat) : List Char × Nat :=
  ((src.take len) ++ List.replicate (len - src.length) ' ', src.length)

end PhreeqcVerif.Api
