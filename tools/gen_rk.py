"""Translator (C12): the Runge-Kutta tableau, step-control constants and time bookkeeping of `Phreeqc::rk_kinetics` /
`Phreeqc::run_reactions` (src/phreeqcpp/kinetics.cpp) and the last-good-state hook of `CVStep` (src/phreeqcpp/cvode.cpp) as
exact rationals -> lean/PhreeqcVerif/Gen/RKTableau.lean.

The facts are read from the STRUCTURE of the code, not from its spelling.  Before anything is matched the text of a function is
normalised:
  * comments, preprocessor lines and casts are removed; file-level `static const T NAME = <number>` / `#define NAME <number>` /
    enumerators are replaced by their literal value;
  * a statement-level call of a private helper defined in the same file is replaced by the helper's body with the arguments
    substituted for the parameters (one level; the engine functions the model treats as parameters are never inlined);
  * reference/pointer aliases of the current kinetic component (`cxxKineticsComp *x = &(kinetics_ptr->Get_kinetics_comps()[j])`)
    and the locals of the functions are alpha-renamed to canonical names; each local is recognised by its ROLE (the variable
    tested in `while (. < kin_time)` is h_sum, the one added to it is h, ...), not by its name;
  * the body is parsed into a statement tree (blocks, if/else, loops, labels, simple statements) whose texts are canonical
    (no insignificant white space, braces normalised); guards whose body only reports/returns on a NULL test are dropped.
What is then read:
  * every local `LDBLE x = <constant expression>` (exact rationals; `dc_i = c_i - literal` keeps both operands);
  * every `Set_moles(<linear combination of rk_moles[..]>)` in source order (stage combinations, early-exit weights of
    -runge_kutta 1/2/3, 5th-order weights), the error expression, the nodes `rate_sim_time = rate_sim_time_start + h_sum + c*h`;
  * the step control as facts about blocks: a block must CONTAIN given statements, only the orders that data flow requires are
    demanded (`h_old = h` before `h` is changed, `h_sum += h` before the test `h_sum < kin_time`, ...), and no other statement of
    the block may write a tracked variable; initial values are "the last write before the loop on the straight-line path";
  * the CVODE restart loop: m_iter and sum_t are 0 on entry (last write before the loop, nothing in between writes them), tout is
    kin_time at the first CVode call, the assignments executed before the re-started call as a straight-line linear program, the
    hand-off of cvode_last_good_y, the `++m_iter >= bad_step_max` test; CVStep: which vector is tested and stored at the top of
    every attempt, before CVPredict.
Only a change of a tableau coefficient, control constant, error norm, restart bookkeeping or time accounting changes the generated
tables.  Fails closed (Shape -> protocol P) when a fact cannot be established."""
import re
from fractions import Fraction
from pathlib import Path

import vlib

SRC = "src/phreeqcpp/kinetics.cpp"


class Shape(RuntimeError):
    pass


# ===============================================================================================================
# text level
# ===============================================================================================================
def strip_comments(src):
    src = re.sub(r"/\*.*?\*/", lambda m: "\n" * m.group(0).count("\n"), src, flags=re.S)
    src = re.sub(r"//[^\n]*", "", src)
    return src


def strip_preprocessor(src):
    return re.sub(r"(?m)^[ \t]*#(?:[^\n\\]|\\.|\\\n)*$", "", src)


CAST = re.compile(r"\(\s*(?:LDBLE|size_t|double|int|long|realtype|void\s*\*|long\s+int)\s*\)")
WORD_TOK = re.compile(r'"(?:[^"\\]|\\.)*"|\'(?:[^\'\\]|\\.)*\'|\d+\.?\d*(?:[eE][-+]?\d+)?|\.\d+(?:[eE][-+]?\d+)?|[A-Za-z_]\w*|->|::|\+\+|--|[-+*/]=|[<>=!]=|&&|\|\||\S')


def canon(s):
    """canonical spelling: casts removed, tokens joined without white space except one blank between two word tokens"""
    s = CAST.sub("", s)
    out, prev = [], ""
    for t in WORD_TOK.findall(s):
        if prev and re.match(r"\w", prev[-1]) and re.match(r"\w", t[0]):
            out.append(" ")
        out.append(t)
        prev = t
    return norm_parens("".join(out))


def norm_parens(s):
    """remove parentheses that change nothing: ((x)) -> (x), (name) / (1.5) -> name / 1.5 (not after a name: calls), and the
    pair around a whole right-hand side `a = (x)`"""
    while True:
        stack, match = [], {}
        quote = None
        for i, ch in enumerate(s):
            if quote:
                if ch == quote and s[i - 1] != "\\":
                    quote = None
                continue
            if ch in "\"'":
                quote = ch
            elif ch == "(":
                stack.append(i)
            elif ch == ")" and stack:
                match[stack.pop()] = i
        drop = None
        for i in sorted(match):
            j = match[i]
            if i + 1 < len(s) and s[i + 1] == "(" and match.get(i + 1) == j - 1:
                drop = (i, j)
                break
            inner = s[i + 1:j]
            before = s[i - 1] if i else ""
            if re.fullmatch(r"[A-Za-z_]\w*|\d+\.?\d*(?:[eE][-+]?\d+)?", inner) and not re.match(r"[\w\])]", before or " "):
                drop = (i, j)
                break
            if j == len(s) - 1 and i >= 2 and s[i - 1] == "=" and s[i - 2] not in "=!<>" and re.fullmatch(r"[\w.\->\[\]]+(?:[-+*/])?", s[:i - 1]):
                drop = (i, j)
                break
        if drop is None:
            return s
        i, j = drop
        s = s[:i] + s[i + 1:j] + s[j + 1:]


def function_text(src, name):
    """(parameter text, body text without the outer braces) of the definition of `name`"""
    for m in re.finditer(r"(?m)^[ \t]*(?:[\w:\*&<> ]*?\b)?" + re.escape(name) + r"\s*\(", src):
        i = m.end()
        depth = 1
        while depth:
            depth += src[i] == "("
            depth -= src[i] == ")"
            i += 1
        params = src[m.end():i - 1]
        k = i
        while k < len(src) and src[k].isspace():
            k += 1
        if k < len(src) and src[k] == "{":
            depth, j = 1, k + 1
            while depth:
                depth += src[j] == "{"
                depth -= src[j] == "}"
                j += 1
            return params, src[k + 1:j - 1]
    raise Shape(f"gen_rk: definition of {name} not found")


def param_names(params):
    out = []
    for p in split_top(params):
        m = re.search(r"(\w+)\s*(?:\[\s*\])?\s*$", p.strip())
        out.append(m.group(1) if m else "")
    return out


def rename(text, table):
    """simultaneous word-wise renaming of identifiers (not after `.` or `->`)"""
    table = {k: v for k, v in table.items() if k != v}
    if not table:
        return text
    rx = re.compile(r"(?<![\w.>])(" + "|".join(re.escape(k) for k in sorted(table, key=len, reverse=True)) + r")\b")
    return rx.sub(lambda m: table[m.group(1)], text)


def file_constants(raw):
    """NAME -> Fraction for `static const T NAME = expr;`, `#define NAME expr`, `enum { A = 1, B }` with numeric values"""
    consts = {}
    nocom = strip_comments(raw)
    for m in re.finditer(r"(?m)^[ \t]*#[ \t]*define[ \t]+(\w+)[ \t]+([^\n]+?)[ \t]*$", nocom):
        try:
            v = parse_expr(m.group(2), consts)
            if v.is_const():
                consts[m.group(1)] = v.c
        except Shape:
            pass
    txt = strip_preprocessor(nocom)
    for m in re.finditer(r"\b(?:static\s+)?const\s+(?:static\s+)?[\w ]+?\b(\w+)\s*=\s*([^;{}]+);", txt):
        try:
            v = parse_expr(m.group(2), consts)
            if v.is_const():
                consts[m.group(1)] = v.c
        except Shape:
            pass
    for m in re.finditer(r"\benum\b[^{;]*\{([^}]*)\}", txt):
        nxt = Fraction(0)
        for part in m.group(1).split(","):
            part = part.strip()
            if not part:
                continue
            nm, _, rhs = part.partition("=")
            try:
                if rhs.strip():
                    nxt = parse_expr(rhs, consts).c
                consts[nm.strip()] = nxt
                nxt += 1
            except Shape:
                break
    return consts


def lit(v):
    v = Fraction(v)
    return f"({v.numerator}./{v.denominator}.)" if v.denominator != 1 else f"{v.numerator}."


def subst_constants(text, consts, local_names=()):
    table = {k: lit(v) for k, v in consts.items() if k not in local_names}
    return rename(text, table)


# engine functions the model treats as parameters (or that are irrelevant): never inlined
NO_INLINE = {"calc_kinetic_reaction", "calc_final_kinetic_reaction", "set_and_run_wrapper", "set_and_run", "saver", "set_transport",
             "set_advection", "set_reaction", "status", "error_msg", "warning_msg", "limit_rates", "store_get_equi_reactants",
             "free_cvode", "malloc_error", "rk_kinetics", "run_reactions", "output_msg", "log_msg", "sformatf", "step", "f", "Jac"}


def inline_helpers(body, src, depth=1):
    """replace `helper(args);` statements by the body of a helper defined in the same file (one level)"""
    if depth == 0:
        return body
    out, pos = [], 0
    for m in re.finditer(r"(?<=[;{}:])(\s*)(\w+)\s*\(", body):
        name = m.group(2)
        if m.start() < pos or name in NO_INLINE or name in ("if", "for", "while", "switch", "return", "sizeof", "delete", "fabs", "pow"):
            continue
        try:
            params, hbody = function_text(src, name)
        except Shape:
            continue
        if not re.search(r"(?m)^[ \t]*(?:[\w\*&<> ]+\s)?(?:Phreeqc\s*::\s*)?\n?[ \t]*" + re.escape(name) + r"\s*\(", src):
            continue
        args, end = balanced_arg(body, m.end())
        rest = body[end:]
        ms = re.match(r"\s*;", rest)
        if not ms:
            continue
        hb = re.sub(r"\breturn\s*;\s*$", "", hbody.rstrip())
        if re.search(r"\breturn\b|\bgoto\b", hb):
            continue            # not a straight helper: leave the call (the facts below then fail closed if it mattered)
        pn = param_names(params)
        av = [a.strip() for a in split_top(args)] if args.strip() else []
        if len(pn) != len(av):
            continue
        table = {p: (a if re.fullmatch(r"[\w.\->\[\]]+", a) else "(" + a + ")") for p, a in zip(pn, av) if p}
        out.append(body[pos:m.start()] + m.group(1) + "{" + rename(hb, table) + "}")
        pos = end + ms.end()
    out.append(body[pos:])
    return "".join(out)


# ---------------------------------------------------------------------------------------------------------------
# a tiny exact evaluator for C arithmetic: numbers, identifiers, + - * /, unary minus, parentheses, casts removed
# ---------------------------------------------------------------------------------------------------------------
TOK = re.compile(r"\s*(?:(\d+\.?\d*(?:[eE][-+]?\d+)?|\.\d+(?:[eE][-+]?\d+)?)|([A-Za-z_]\w*(?:\s*\[[^\]]*\])?)|(.))")


def num(text):
    text = text.rstrip("fFlL")
    m = re.fullmatch(r"(\d*)\.?(\d*)(?:[eE]([-+]?\d+))?", text)
    if not m:
        raise Shape(f"gen_rk: bad numeric literal {text!r}")
    ip, fp, ex = m.group(1) or "0", m.group(2) or "", int(m.group(3) or 0)
    v = Fraction(int(ip + fp), 10 ** len(fp))
    return v * Fraction(10) ** ex


class Lin:
    """linear form: const + sum coef*symbol (symbols are strings); products need one side constant"""

    def __init__(self, c=Fraction(0), t=None):
        self.c = Fraction(c)
        self.t = dict(t or {})

    def is_const(self):
        return not any(self.t.values())

    def __add__(self, o):
        t = dict(self.t)
        for k, v in o.t.items():
            t[k] = t.get(k, 0) + v
        return Lin(self.c + o.c, t)

    def __neg__(self):
        return Lin(-self.c, {k: -v for k, v in self.t.items()})

    def __sub__(self, o):
        return self + (-o)

    def __mul__(self, o):
        if self.is_const():
            return Lin(self.c * o.c, {k: self.c * v for k, v in o.t.items()})
        if o.is_const():
            return o * self
        raise Shape("gen_rk: non-linear product in an expression that must be linear")

    def __truediv__(self, o):
        if not o.is_const() or o.c == 0:
            raise Shape("gen_rk: division by a non-constant")
        return self * Lin(1 / o.c)


def parse_expr(text, env, symbols=()):
    """env: name -> Fraction (resolved); symbols: names kept symbolic (normalised without blanks)"""
    text = CAST.sub("", text)
    toks = []
    pos = 0
    while pos < len(text):
        m = TOK.match(text, pos)
        if not m or m.end() == pos:
            break
        pos = m.end()
        if m.group(1):
            toks.append(("n", m.group(1)))
        elif m.group(2):
            toks.append(("i", re.sub(r"\s+", "", m.group(2))))
        elif m.group(3).strip():
            toks.append(("o", m.group(3)))
    p = [0]

    def peek():
        return toks[p[0]] if p[0] < len(toks) else ("e", "")

    def eat():
        t = peek()
        p[0] += 1
        return t

    def atom():
        k, v = eat()
        if k == "n":
            return Lin(num(v))
        if k == "i":
            if v in env:
                return Lin(env[v])
            if v in symbols or symbols == "*":
                return Lin(0, {v: Fraction(1)})
            raise Shape(f"gen_rk: unknown identifier {v!r} in {text.strip()!r}")
        if (k, v) == ("o", "("):
            e = expr()
            if eat() != ("o", ")"):
                raise Shape(f"gen_rk: unbalanced parenthesis in {text.strip()!r}")
            return e
        if (k, v) == ("o", "-"):
            return -atom()
        if (k, v) == ("o", "+"):
            return atom()
        raise Shape(f"gen_rk: cannot parse {text.strip()!r} at {v!r}")

    def term():
        e = atom()
        while peek() in (("o", "*"), ("o", "/")):
            op = eat()[1]
            r = atom()
            e = e * r if op == "*" else e / r
        return e

    def expr():
        e = term()
        while peek() in (("o", "+"), ("o", "-")):
            op = eat()[1]
            r = term()
            e = e + r if op == "+" else e - r
        return e

    e = expr()
    if p[0] != len(toks):
        raise Shape(f"gen_rk: trailing tokens in {text.strip()!r}")
    return e


def split_top(s, sep=","):
    out, depth, cur = [], 0, ""
    for ch in s:
        if ch == sep and depth == 0:
            out.append(cur)
            cur = ""
        else:
            depth += ch in "(["
            depth -= ch in ")]"
            cur += ch
    out.append(cur)
    return out


def balanced_arg(body, start):
    """text of the parenthesised argument starting just after '(' at `start`"""
    depth, i = 1, start
    while depth:
        depth += body[i] == "("
        depth -= body[i] == ")"
        i += 1
    return body[start:i - 1], i



# ===============================================================================================================
# statement tree
# ===============================================================================================================
def scan(s, i, stop):
    depth, n = 0, len(s)
    while i < n:
        c = s[i]
        if c in "\"'":
            j = i + 1
            while j < n and s[j] != c:
                j += 2 if s[j] == "\\" else 1
            i = j + 1
            continue
        if depth == 0 and c in stop:
            return i
        if c in "([{":
            depth += 1
        elif c in ")]}":
            depth -= 1
        i += 1
    raise Shape("gen_rk: unbalanced text while parsing statements")


def skip_ws(s, i):
    while i < len(s) and s[i].isspace():
        i += 1
    return i


def parens(s, i):
    i = skip_ws(s, i)
    if i >= len(s) or s[i] != "(":
        raise Shape("gen_rk: '(' expected while parsing statements")
    j = scan(s, i + 1, ")")
    return s[i + 1:j], j + 1


KW = re.compile(r"(if|for|while|switch|do|else|case|default)\b")
LABEL = re.compile(r"([A-Za-z_]\w*)\s*:(?!:)")


def parse_stmt(s, i):
    """("block",[n]) ("if",cond,then,else|None) ("loop",kw,header,body) ("label",name) ("simple",text); canonical texts"""
    i = skip_ws(s, i)
    if s[i] == "{":
        out, i = [], i + 1
        while True:
            i = skip_ws(s, i)
            if i >= len(s):
                raise Shape("gen_rk: unbalanced braces")
            if s[i] == "}":
                return ("block", out), i + 1
            n, i = parse_stmt(s, i)
            if n is not None:
                out.append(n)
    m = KW.match(s, i)
    kw = m.group(1) if m else None
    if kw == "if":
        cond, i = parens(s, m.end())
        then, i = parse_stmt(s, i)
        j = skip_ws(s, i)
        els = None
        if re.match(r"else\b", s[j:j + 5]):
            els, i = parse_stmt(s, j + 4)
        return ("if", canon(cond), then, els), i
    if kw in ("for", "while", "switch"):
        hdr, i = parens(s, m.end())
        body, i = parse_stmt(s, i)
        return ("loop", kw, canon(hdr), body), i
    if kw == "do":
        body, i = parse_stmt(s, m.end())
        j = skip_ws(s, i)
        cond, i = parens(s, j + 5)
        return ("loop", "do", canon(cond), body), scan(s, i, ";") + 1
    if kw in ("case", "default"):
        j = scan(s, m.end(), ":")
        return ("label", canon(s[i:j])), j + 1
    ml = LABEL.match(s, i)
    if ml and ml.group(1) not in ("public", "private", "protected"):
        return ("label", ml.group(1)), ml.end()
    if s[i] == ";":
        return None, i + 1
    j = scan(s, i, ";")
    return ("simple", canon(s[i:j])), j + 1


def parse_body(text):
    node, _ = parse_stmt("{" + text + "}", 0)
    return node


def stmts(node):
    """direct statements of a block; nested plain blocks are flattened; a single statement counts as a one-element block"""
    if node is None:
        return []
    if node[0] != "block":
        return [node]
    out = []
    for n in node[1]:
        out += stmts(n) if n[0] == "block" else [n]
    return out


def walk(node):
    if node is None:
        return
    yield node
    k = node[0]
    if k == "block":
        for n in node[1]:
            yield from walk(n)
    elif k == "if":
        yield from walk(node[2])
        yield from walk(node[3])
    elif k == "loop":
        yield from walk(node[3])


def ser(node):
    """canonical serialisation with normalised braces"""
    if node is None:
        return ""
    k = node[0]
    if k == "block":
        return "".join(ser(n) for n in stmts(node))
    if k == "if":
        return "if(" + node[1] + "){" + ser(node[2]) + "}" + ("else{" + ser(node[3]) + "}" if node[3] is not None else "")
    if k == "loop":
        return node[1] + "(" + node[2] + "){" + ser(node[3]) + "}"
    if k == "label":
        return node[1] + ":"
    return node[1] + ";"


NULL_TEST = re.compile(r"(?:[\w.\->]+==NULL|NULL==[\w.\->]+|![\w.\->]+)")
GUARD_STMT = re.compile(r"(?:return\b.*|error_msg\(.*|warning_msg\(.*|malloc_error\(\)|[\w.\->]*(?:cvode_error|return_value)=\w+)")


def drop_null_guards(node):
    """remove `if (p == NULL) { report; return; }` (no else, body only reports / sets an error flag / returns)"""
    if node is None:
        return None
    k = node[0]
    if k == "block":
        out = []
        for n in node[1]:
            if n[0] == "if" and n[3] is None and NULL_TEST.fullmatch(n[1]):
                body = stmts(n[2])
                if body and all(b[0] == "simple" and GUARD_STMT.fullmatch(b[1]) for b in body) and any(b[1].startswith("return") for b in body):
                    continue
            out.append(drop_null_guards(n))
        return ("block", out)
    if k == "if":
        return ("if", node[1], drop_null_guards(node[2]), drop_null_guards(node[3]))
    if k == "loop":
        return ("loop", node[1], node[2], drop_null_guards(node[3]))
    return node


def writes_var(text, var):
    v = re.escape(var)
    return bool(re.search(r"(?<![\w.>])" + v + r"(?![\w(])\s*(?:=(?!=)|\+=|-=|\*=|/=|\+\+|--)", text) or
                re.search(r"(?:\+\+|--)" + v + r"\b", text) or re.search(r"&" + v + r"\b", text))


def node_writes(node, var):
    return writes_var(ser(node), var)


def assignments(text):
    """[(lhs, rhs)] of a simple statement `a = b = expr`, `a += e` (-> a = a + (e)), `a++`; [] when it is not an assignment.
    A leading declaration type is ignored."""
    t = text
    m = re.fullmatch(r"(?:[\w:\*&<> ]+?[ \*&])?([A-Za-z_][\w.\->\[\]]*)(\+\+|--)", t)
    if m:
        return [(m.group(1), f"{m.group(1)}{'+' if m.group(2) == '++' else '-'}1")]
    m = re.fullmatch(r"(\+\+|--)([A-Za-z_][\w.\->\[\]]*)", t)
    if m:
        return [(m.group(2), f"{m.group(2)}{'+' if m.group(1) == '++' else '-'}1")]
    m = re.fullmatch(r"(?:[\w:<> ]+?[ \*&]+)??([A-Za-z_][\w.\->\[\]]*)(=|\+=|-=|\*=|/=)(?!=)(.*)", t)
    if not m:
        return []
    lhs, op, rhs = m.group(1), m.group(2), m.group(3)
    if op != "=":
        return [(lhs, f"{lhs}{op[0]}({rhs})")]
    inner = assignments(rhs) if re.match(r"[A-Za-z_][\w.\->\[\]]*=(?!=)", rhs) else []
    if inner:
        return [(lhs, inner[-1][1])] + inner
    return [(lhs, rhs)]


def last_write(slist, idx, var, what):
    """rhs of the last write of `var` in slist[:idx] (straight-line statements); the writer must be a simple assignment"""
    for k in range(idx - 1, -1, -1):
        n = slist[k]
        if not node_writes(n, var):
            continue
        if n[0] == "simple":
            for lhs, rhs in assignments(n[1]):
                if lhs == var:
                    return rhs, k
        raise Shape(f"gen_rk: {what}: the last write of `{var}` before this point is not a plain assignment: {ser(n)[:80]}")
    raise Shape(f"gen_rk: {what}: `{var}` is never assigned before this point")


def const_of(text, what):
    e = parse_expr(text, {})
    if not e.is_const():
        raise Shape(f"gen_rk: {what}: {text!r} is not a constant")
    return e.c


def find_parent(root, pred):
    """(statement list, index) of the first node satisfying pred, searching the flattened statement lists"""
    def rec(node):
        if node is None:
            return None
        if node[0] == "block":
            sl = stmts(node)
            for k, n in enumerate(sl):
                if pred(n):
                    return sl, k
            for n in sl:
                r = rec(n)
                if r:
                    return r
        elif node[0] == "if":
            for ch in (node[2], node[3]):
                if ch is not None:
                    if ch[0] != "block" and pred(ch):
                        return [ch], 0
                    r = rec(ch)
                    if r:
                        return r
        elif node[0] == "loop":
            if node[3] is not None and node[3][0] != "block" and pred(node[3]):
                return [node[3]], 0
            return rec(node[3])
        return None
    r = rec(root)
    return r


def require_block(node, items, order, tracked, what):
    """the block `node` contains each of `items` (regex on the serialised statement) exactly once among its direct statements,
    index(a) < index(b) for (a, b) in order, and no OTHER direct statement writes a tracked variable.
    Returns the match objects."""
    sl = stmts(node)
    sers = [ser(n) for n in sl]
    found = {}
    for key, rx in items.items():
        hits = [(k, re.fullmatch(rx, s)) for k, s in enumerate(sers) if re.fullmatch(rx, s)]
        if len(hits) != 1:
            raise Shape(f"gen_rk: {what}: statement `{key}` found {len(hits)} times in the block")
        found[key] = hits[0]
    for a, b in order:
        if not found[a][0] < found[b][0]:
            raise Shape(f"gen_rk: {what}: `{a}` does not precede `{b}`")
    used = {v[0] for v in found.values()}
    for k, s in enumerate(sers):
        if k in used:
            continue
        for v in tracked:
            if writes_var(s, v):
                raise Shape(f"gen_rk: {what}: an additional statement writes `{v}`: {s[:80]}")
    return {k: v[1] for k, v in found.items()}



# ===============================================================================================================
# roles: alpha-renaming of locals to canonical names
# ===============================================================================================================
def one_name(names, what):
    names = set(n for n in names if n)
    if len(names) != 1:
        raise Shape(f"gen_rk: cannot identify the variable that plays the role `{what}` (candidates {sorted(names)})")
    return names.pop()


def apply_role(body, cur, canonical):
    if cur == canonical:
        return body
    if re.search(r"(?<![\w.>])" + re.escape(canonical) + r"\b", body):
        raise Shape(f"gen_rk: cannot rename `{cur}` to the canonical name `{canonical}`: the name is used for something else")
    return rename(body, {cur: canonical})


def roles_rk(params, body):
    pn = param_names(params)
    if len(pn) != 5:
        raise Shape(f"gen_rk: rk_kinetics has {len(pn)} parameters, expected 5")
    for cur, cn in zip(pn, ["i", "kin_time", "use_mix", "nsaver", "step_fraction"]):
        body = apply_role(body, cur, cn)

    def role(cn, pattern, group=1, all_same=False):
        nonlocal body
        cb = canon(body)
        ms = [m.group(group) if isinstance(group, int) else next((g for g in m.groups() if g), None) for m in re.finditer(pattern, cb)]
        if not ms:
            raise Shape(f"gen_rk: cannot identify the variable that plays the role `{cn}`")
        body = apply_role(body, one_name(ms if all_same else ms[:1], cn), cn)
    role("kinetics_ptr", r"(?<![\w.>])(\w+)=Utilities::Rxn_find\(Rxn_kinetics_map,i\);")
    role("n_reactions", r"(?<![\w.>])(\w+)=kinetics_ptr->Get_kinetics_comps\(\)\.size\(\);")
    role("h_sum", r"while\((\w+)<kin_time\)", all_same=True)
    role("h", r"(?<![\w.>])h_sum\+=(\w+);", all_same=True)
    role("h_old", r"\*=\(?h/(\w+)\)?;", all_same=True)
    role("moles_reduction", r"MOLES_TOO_LARGE:if\((\w+)>")
    role("safety", r"(?<![\w.>])h=(?:(\w+)\*h|h\*(\w+))/\(1\.?0*\+moles_reduction\)", group=None)
    role("moles_max", r"if\(moles_reduction\*(\w+)<fabs\(", all_same=True)
    role("l_error", r"if\((\w+)>(\w+)\)\{?\2=\1;", group=1)
    role("error_max", r"if\(l_error>(\w+)\)\{?\1=l_error;")
    role("step_bad", r"if\((\w+)>kinetics_ptr->Get_bad_step_max\(\)\)")
    role("step_ok", r"if\((\w+)==0\)\{?h=h\*safety/error_max;")
    role("k", r"(?<![\w.>])(\w+)=(?:\d+\*)?n_reactions;", all_same=True)
    # loop indices over the kinetic components, aliases of the current component
    cb = canon(body)
    idx = set(re.findall(r"for\(size_t (\w+)=0;\1<kinetics_ptr->Get_kinetics_comps\(\)\.size\(\);\1\+\+\)", cb))
    for x in idx:
        if x != "j":
            body = rename(body, {x: "j"})
    cb = canon(body)
    for x in set(re.findall(r"cxxKineticsComp\*&?(\w+)=&?\(?kinetics_ptr->Get_kinetics_comps\(\)\[j\]\)?;", cb)):
        if x != "kinetics_comp_ptr":
            body = rename(body, {x: "kinetics_comp_ptr"})
    # flags recognised on the tree
    tree = parse_body(body)
    lb = [re.fullmatch(r"(\w+)==TRUE", n[1]) for n in walk(tree) if n[0] == "if" and re.search(r"\*=\(?h/h_old\)?;", ser(n[2])) and re.fullmatch(r"(\w+)==TRUE", n[1])]
    body = apply_role(body, one_name([m.group(1) for m in lb][:1], "l_bad"), "l_bad")
    er = [n for n in walk(tree) if n[0] == "if" and n[1] == "kinetics_ptr->Get_rk()==6"]
    names = [re.fullmatch(r"(\w+)=FALSE;", ser(n[2])) for n in er]
    body = apply_role(body, one_name([m.group(1) for m in names if m][:1], "equal_rate"), "equal_rate")
    return body


def roles_run_reactions(params, body):
    pn = param_names(params)
    if len(pn) != 4:
        raise Shape(f"gen_rk: run_reactions has {len(pn)} parameters, expected 4")
    for cur, cn in zip(pn, ["i", "kin_time", "use_mix", "step_fraction"]):
        body = apply_role(body, cur, cn)

    def role(cn, pattern, group=1):
        nonlocal body
        ms = [m.group(group) for m in re.finditer(pattern, canon(body))]
        if not ms:
            raise Shape(f"gen_rk: run_reactions: cannot identify the variable that plays the role `{cn}`")
        body = apply_role(body, one_name(ms, cn), cn)
    m = re.search(r"(?<![\w.>])(\w+)=Utilities::Rxn_find\(Rxn_kinetics_map,i\);", canon(body))
    if not m:
        raise Shape("gen_rk: run_reactions: cannot identify the variable that plays the role `kinetics_ptr`")
    body = apply_role(body, m.group(1), "kinetics_ptr")
    role("flag", r"RESTART:while\((\w+)!=SUCCESS\)")
    call = r"(?<![\w.>])flag=CVode\(kinetics_cvode_mem,(\w+),kinetics_y,&(\w+),NORMAL\);"
    calls = list(re.finditer(call, canon(body)))
    if len(calls) != 2:
        raise Shape(f"gen_rk: run_reactions: {len(calls)} CVode calls, expected the first call and the re-started call")
    body = apply_role(body, calls[0].group(2), "t")
    calls = list(re.finditer(call, canon(body)))
    if calls[1].group(2) != "t":
        raise Shape("gen_rk: run_reactions: the two CVode calls do not report the reached time in the same variable")
    # the call that sits inside the restart loop hands over tout1, the other one tout
    tree = parse_body(body)
    loop = [n for n in walk(tree) if n[0] == "loop" and n[1] == "while" and n[2] == "flag!=SUCCESS"]
    if len(loop) != 1:
        raise Shape("gen_rk: run_reactions: restart loop `while (flag != SUCCESS)` not found")
    inner = re.findall(call, ser(loop[0]))
    if len(inner) != 1:
        raise Shape("gen_rk: run_reactions: the restart loop does not contain exactly one CVode call")
    outer = [c.group(1) for c in calls if c.group(1) != inner[0][0]]
    if len(outer) != 1:
        raise Shape("gen_rk: run_reactions: first and re-started CVode call use the same end-time variable")
    # rename simultaneously (the names may be swapped)
    body = rename(body, {inner[0][0]: "tout1", outer[0]: "tout"})
    role("m_iter", r"if\(\+\+(\w+)>=?kinetics_ptr->Get_bad_step_max\(\)\)")
    # the accumulator: the only other local assigned on the straight path of the loop body before the call
    tree = parse_body(body)
    loop = [n for n in walk(tree) if n[0] == "loop" and n[1] == "while" and n[2] == "flag!=SUCCESS"][0]
    cands = set()
    for n in stmts(loop[3]):
        if n[0] == "simple" and "CVode(" in n[1] and n[1].startswith("flag="):
            break
        if n[0] == "simple":
            for lhs, _ in assignments(n[1]):
                if re.fullmatch(r"\w+", lhs) and lhs not in ("tout", "tout1", "t", "flag", "cvode_last_good_time", "m_iter", "kinetics_cvode_mem"):
                    try:
                        parse_expr(_, {}, symbols="*")          # arithmetic on times only (not strings, pointers, calls)
                    except Shape:
                        continue
                    cands.add(lhs)
    body = apply_role(body, one_name(cands, "sum_t"), "sum_t")
    return body


# ===============================================================================================================
# rk_kinetics
# ===============================================================================================================
def stage_of(idx, kcur):
    idx = canon(idx).replace("(", "").replace(")", "").replace(" ", "")
    if idx == "j":
        return 0
    if idx in ("k+j", "j+k"):
        if kcur is None:
            raise Shape("gen_rk: rk_moles[k + j] used before k is set")
        return kcur
    m = re.fullmatch(r"(?:(\d+)\*)?n_reactions\+j|j\+(?:(\d+)\*)?n_reactions", idx)
    if m:
        return int(m.group(1) or m.group(2) or 1)
    raise Shape(f"gen_rk: unrecognised rk_moles index {idx!r}")


def local_constants(top):
    """local declarations `LDBLE a = <constant>, b = a - <constant>` of the function: values and, for differences of an earlier
    constant and a literal, both operands"""
    env, split = {}, {}
    for n in top:
        if n[0] != "simple" or not re.match(r"(?:const )?(?:LDBLE|double|realtype) ", n[1]):
            continue
        decl = re.sub(r"^(?:const )?(?:LDBLE|double|realtype) ", "", n[1])
        for part in split_top(decl):
            nm, eq, rhs = part.partition("=")
            nm = nm.strip()
            if not eq or not re.fullmatch(r"\w+", nm):
                continue
            try:
                v = parse_expr(rhs, env)
            except Shape:
                continue
            if not v.is_const():
                continue
            ms = re.fullmatch(r"(\w+)-([^-+]+)", rhs.strip())
            if ms and ms.group(1) in env:
                split[nm] = (env[ms.group(1)], parse_expr(ms.group(2), env).c)
            else:
                split[nm] = (v.c, Fraction(0))
            env[nm] = v.c
    return env, split


def additive_terms(text):
    """top-level terms of a sum with their signs"""
    terms, depth, cur, sign = [], 0, "", 1
    for ch in text:
        if ch in "+-" and depth == 0 and cur.strip() and cur.strip()[-1] not in "*/(eE":
            terms.append((sign, cur))
            cur, sign = "", (1 if ch == "+" else -1)
            continue
        depth += ch in "(["
        depth -= ch in ")]"
        cur += ch
    if cur.strip():
        terms.append((sign, cur))
    return terms


def extract_events(tree, env, split):
    text = ser(tree)
    events = []
    pat = re.compile(r"(?<![\w.>])k=(?:(\d+)\*)?n_reactions;|rk_moles\[([^\]]*)\]=kinetics_comp_ptr->Get_moles\(\);"
                     r"|kinetics_comp_ptr->Set_moles\(|(?<![\w.>])l_error=fabs\(|(?<![\w.>])rate_sim_time=rate_sim_time_start\+h_sum([^;]*);"
                     r"|rk_moles\[j\]\*=\(?h/h_old\)?;")
    kcur = None
    err_split = None
    for m in pat.finditer(text):
        txt = m.group(0)
        if re.match(r"k=", txt):
            kcur = int(m.group(1) or 1)
        elif txt.startswith("rk_moles") and "*=" in txt:
            events.append(("rescale",))
        elif txt.startswith("rk_moles"):
            events.append(("store", stage_of(m.group(2), kcur)))
        elif txt.startswith("rate_sim_time"):
            tail = m.group(3).strip()
            if tail == "":
                node = Fraction(0)
            else:
                e = parse_expr("0 " + tail, env, symbols=("h",))
                if e.c != 0 or set(e.t) - {"h"}:
                    raise Shape(f"gen_rk: unrecognised node expression {tail!r}")
                node = e.t.get("h", Fraction(0))
            events.append(("node", node))
        else:
            arg, _ = balanced_arg(text, m.end())
            if "rk_moles" not in arg and "Get_moles()" not in arg:
                continue            # Set_moles(0.), Set_moles(m_temp[i]) ...
            syms = {}

            def repl(mm):
                s = f"K{stage_of(mm.group(1), kcur)}"
                syms[s] = 1
                return s
            a2 = re.sub(r"rk_moles\[([^\]]*)\]", repl, arg)
            a2 = a2.replace("kinetics_comp_ptr->Get_moles()", "CUR")
            e = parse_expr(a2, env, symbols=tuple(syms) + ("CUR",))
            if e.c != 0:
                raise Shape(f"gen_rk: constant term in stage expression {arg.strip()!r}")
            if txt.startswith("l_error"):
                # operands of every weight: `w * K` with w a local constant that was initialised as `c - literal`
                err_split = {}
                for sign, term in additive_terms(a2):
                    mk = re.search(r"K(\d)", term)
                    if not mk:
                        raise Shape(f"gen_rk: term without a stage value in the error expression: {term!r}")
                    w = re.sub(r"\*?K\d\*?", "", term, count=1).strip()
                    st = int(mk.group(1))
                    if re.fullmatch(r"\w+", w) and w in split:
                        a, b = split[w]
                    else:
                        a, b = (parse_expr(w or "1", env).c, Fraction(0))
                    if st in err_split:
                        raise Shape("gen_rk: a stage value occurs twice in the error expression")
                    err_split[st] = (sign * a, sign * b)
                events.append(("err", {k: v for k, v in e.t.items() if v != 0}))
            else:
                events.append(("set", {k: v for k, v in e.t.items() if v != 0}))
    return events, err_split


def lin_to_row(t, n):
    bad = [k for k in t if not re.fullmatch(r"K\d", k) or int(k[1]) >= n]
    if bad:
        raise Shape(f"gen_rk: stage expression uses unexpected stage(s) {bad} (allowed < {n})")
    return [t.get(f"K{i}", Fraction(0)) for i in range(n)]


def shape_rk(events):
    """match the event sequence of rk_kinetics; returns the tableau"""
    kinds = [e[0] for e in events]
    sets = [e for e in events if e[0] == "set"]
    errs = [e for e in events if e[0] == "err"]
    nodes = [e[1] for e in events if e[0] == "node"]
    stores = [e[1] for e in events if e[0] == "store"]
    if len(errs) != 1:
        raise Shape("gen_rk: expected exactly one l_error = fabs(...) expression")
    if stores != [0, 1, 2, 3, 4, 5]:
        raise Shape(f"gen_rk: stage stores are {stores}, expected k1..k6 in order")
    if kinds.count("rescale") != 1:
        raise Shape("gen_rk: expected exactly one rk_moles[j] *= (h / h_old) statement")
    # nodes: first two are the time of k1 (before the loop and inside), then the end of the -runge_kutta 1 Euler step (the rate
    # "at the end of the step" is evaluated at start + h_sum + h), then k2..k6
    if len(nodes) != 8 or nodes[0] != 0 or nodes[1] != 0 or nodes[2] != 1:
        raise Shape(f"gen_rk: unexpected sequence of rate_sim_time assignments {nodes}")
    c = [Fraction(0)] + nodes[3:]
    if len(sets) != 11:
        raise Shape(f"gen_rk: expected 11 Set_moles(<combination>) statements, found {len(sets)}")
    s = [x[1] for x in sets]
    a21_bad, a21_cur, e1, a21_rk1, st3, e2, st4, e3, st5, st6, fin = s
    if set(a21_cur) != {"CUR"}:
        raise Shape("gen_rk: k2 reaction is not <k1> * const")
    a21 = a21_cur["CUR"]
    if a21_bad != {"K0": a21} or a21_rk1 != {"K0": a21}:
        raise Shape("gen_rk: the three definitions of the k2 reaction (normal, after a bad step, after rk=1) differ")
    A = [[], [a21], lin_to_row(st3, 2), lin_to_row(st4, 3), lin_to_row(st5, 4), lin_to_row(st6, 5)]
    return dict(A=A, c=c, b=lin_to_row(fin, 6), d=lin_to_row(errs[0][1], 6), e1=lin_to_row(e1, 1), e2=lin_to_row(e2, 2),
                e3=lin_to_row(e3, 3))


X = r"([^{};]+?)"            # an expression inside a canonical statement
TRACKED = ["h", "h_old", "h_sum", "step_ok", "step_bad", "l_bad", "moles_reduction", "moles_max", "safety", "equal_rate", "error_max"]


def is_one(text, what):
    if const_of(text, what) != 1:
        raise Shape(f"gen_rk: {what}: {text!r} is not 1")


def extract_control(tree):
    out = {}
    top = stmts(tree)
    wl = [k for k, n in enumerate(top) if n[0] == "loop" and n[1] == "while" and n[2] == "h_sum<kin_time"]
    if len(wl) != 1:
        raise Shape("gen_rk: `while (h_sum < kin_time)` is not a top-level statement of rk_kinetics")
    iw = wl[0]
    # ---- state on entry of the loop -----------------------------------------------------------------------------
    sd = [k for k, n in enumerate(top[:iw]) if n[0] == "if" and re.fullmatch(r"kinetics_ptr->Get_step_divide\(\)>" + X, n[1])]
    if len(sd) != 1:
        raise Shape("gen_rk: the -step_divide test before the loop is not recognised")
    isd = sd[0]
    nsd = top[isd]
    is_one(re.fullmatch(r"kinetics_ptr->Get_step_divide\(\)>" + X, nsd[1]).group(1), "-step_divide > 1")
    asg = [a for n in stmts(nsd[2]) if n[0] == "simple" for a in assignments(n[1])]
    want = {("h", "kin_time/kinetics_ptr->Get_step_divide()"), ("h_old", "kin_time/kinetics_ptr->Get_step_divide()"), ("equal_rate", "FALSE")}
    if set(asg) != want or any(n[0] != "simple" for n in stmts(nsd[2])):
        raise Shape(f"gen_rk: -step_divide > 1 branch is {ser(nsd[2])[:120]}")
    els = nsd[3]
    if els is None or els[0] != "if" or els[3] is not None or ser(els[2]) != "moles_max=kinetics_ptr->Get_step_divide();":
        raise Shape("gen_rk: -step_divide < 1 branch is not recognised")
    is_one(re.fullmatch(r"kinetics_ptr->Get_step_divide\(\)<" + X, els[1]).group(1), "-step_divide < 1")
    for v in ("h", "h_old"):
        if last_write(top, isd, v, "initial step")[0] != "kin_time":
            raise Shape(f"gen_rk: `{v}` is not kin_time before the -step_divide test")
    out["molesMax"] = const_of(last_write(top, isd, "moles_max", "initial moles_max")[0], "moles_max")
    out["safety"] = const_of(last_write(top, iw, "safety", "safety")[0], "safety")
    if sum(1 for n in walk(tree) if n[0] == "simple" and any(l == "safety" for l, _ in assignments(n[1]))) != 1:
        raise Shape("gen_rk: `safety` is assigned more than once")
    for v, val in (("h_sum", 0), ("moles_reduction", 1), ("step_ok", 0), ("step_bad", 0)):
        if const_of(last_write(top, iw, v, f"initial {v}")[0], v) != val:
            raise Shape(f"gen_rk: `{v}` is not {val} on entry of the loop")
    if last_write(top, iw, "l_bad", "initial l_bad")[0] != "FALSE":
        raise Shape("gen_rk: `l_bad` is not FALSE on entry of the loop")
    # rk normalisation and the initial equal_rate
    rkn = [k for k, n in enumerate(top[:isd]) if ser(n) == "if(kinetics_ptr->Get_rk()<1){kinetics_ptr->Set_rk(1);}else{if(kinetics_ptr->Get_rk()>3){kinetics_ptr->Set_rk(6);}}"]
    eqi = [k for k, n in enumerate(top[:isd]) if ser(n) == "if(kinetics_ptr->Get_rk()==6){equal_rate=FALSE;}else{equal_rate=TRUE;}"]
    if len(rkn) != 1 or len(eqi) != 1 or not rkn[0] < eqi[0]:
        raise Shape("gen_rk: normalisation of -runge_kutta to 1/2/3/6 and the initial equal_rate are not recognised")
    if any(node_writes(n, "equal_rate") for n in top[eqi[0] + 1:isd]):
        raise Shape("gen_rk: equal_rate is changed between its initialisation and the -step_divide test")
    # ---- loop body ------------------------------------------------------------------------------------------------
    W = stmts(top[iw][3])
    lab = [k for k, n in enumerate(W) if n == ("label", "MOLES_TOO_LARGE")]
    bs = [k for k, n in enumerate(W) if n[0] == "if" and n[1] == "step_bad>kinetics_ptr->Get_bad_step_max()"]
    if len(lab) != 1 or len(bs) != 1 or not bs[0] < lab[0] or "error_msg(" not in ser(W[bs[0]][2]):
        raise Shape("gen_rk: the -bad_step_max test at the top of the loop / the label MOLES_TOO_LARGE are not recognised")
    if any(node_writes(n, v) for n in W[:lab[0]] for v in TRACKED):
        raise Shape("gen_rk: a step-control variable is written before the label MOLES_TOO_LARGE")
    mtl = W[lab[0] + 1]
    mc = re.fullmatch(r"moles_reduction>" + X, mtl[1]) if mtl[0] == "if" else None
    if not mc or mtl[3] is not None:
        raise Shape("gen_rk: `if (moles_reduction > 1.0)` does not follow the label MOLES_TOO_LARGE")
    is_one(mc.group(1), "moles_reduction > 1")
    g = require_block(mtl[2], {"h_old=h": r"h_old=h;", "h=": r"h=safety\*h/\(" + X + r"\+moles_reduction\);",
                               "moles_reduction=1": r"moles_reduction=" + X + ";", "equal_rate": r"equal_rate=FALSE;", "l_bad": r"l_bad=TRUE;"},
                      [("h_old=h", "h="), ("h=", "moles_reduction=1")], TRACKED, "MOLES_TOO_LARGE reduction")
    is_one(g["h="].group(1), "1 + moles_reduction")
    is_one(g["moles_reduction=1"].group(1), "moles_reduction reset")
    # error norm
    e0 = [k for k, n in enumerate(W) if n[0] == "simple" and re.fullmatch(r"error_max=" + X, n[1])]
    if len(e0) != 1 or const_of(re.fullmatch(r"error_max=" + X, W[e0[0]][1]).group(1), "error_max") != 0:
        raise Shape("gen_rk: `error_max = 0` before the error loop is not recognised")
    el = [k for k in range(e0[0] + 1, len(W)) if W[k][0] == "loop" and "l_error=fabs(" in ser(W[k])]
    gate = [k for k, n in enumerate(W) if n[0] == "if" and re.fullmatch(r"error_max>" + X, n[1]) and "step_bad++" in ser(n[2])]
    if len(el) != 1 or len(gate) != 1 or not el[0] < gate[0]:
        raise Shape("gen_rk: error loop / error gate are not recognised")
    if any(node_writes(n, "error_max") for n in W[e0[0] + 1:el[0]] + W[el[0] + 1:gate[0]]):
        raise Shape("gen_rk: error_max is written between its reset, the error loop and the gate")
    require_block(W[el[0]][3], {"l_error=": r"l_error=fabs\(.*\);", "/tol": r"l_error/=kinetics_comp_ptr->Get_tol\(\);",
                                "max": r"if\(l_error>error_max\)\{error_max=l_error;\}"},
                  [("l_error=", "/tol"), ("/tol", "max")], ["l_error", "error_max"], "error norm")
    ng = W[gate[0]]
    is_one(re.fullmatch(r"error_max>" + X, ng[1]).group(1), "error_max > 1")
    g = require_block(ng[2], {"h_old=h": r"h_old=h;", "shrink": r"if\(step_ok==0\)\{h=h\*safety/error_max;\}else\{h=h\*safety\*pow\(error_max," + X + r"\);\}",
                              "l_bad": r"l_bad=TRUE;", "step_bad": r"step_bad\+\+;"}, [("h_old=h", "shrink")], TRACKED, "rejected step")
    out["shrinkExp"] = const_of(g["shrink"].group(1), "shrink exponent")
    if ng[3] is None:
        raise Shape("gen_rk: the error gate has no accept branch")
    g = require_block(ng[3], {"h_sum+=h": r"h_sum\+=h;", "step_ok": r"step_ok\+\+;",
                              "next": r"if\(h_sum<kin_time\)\{if\(error_max>" + X + r"\)\{h=h\*safety\*pow\(error_max," + X + r"\);\}else\{h\*=" + X +
                                      r";\}if\(h>\(?kin_time-h_sum\)?\)\{h=\(?kin_time-h_sum\)?;\}\}"},
                      [("h_sum+=h", "next")], ["h", "h_old", "h_sum", "step_ok", "step_bad", "l_bad", "moles_max", "safety", "error_max"], "accepted step")
    out["growThreshold"] = const_of(g["next"].group(1), "growth threshold")
    out["growExp"] = const_of(g["next"].group(2), "growth exponent")
    out["growFactor"] = const_of(g["next"].group(3), "growth factor")
    # nothing after the gate in the loop body changes the controller
    if any(node_writes(n, v) for n in W[gate[0] + 1:] for v in TRACKED):
        raise Shape("gen_rk: a step-control variable is written after the error gate")
    # ---- facts that hold wherever they occur ---------------------------------------------------------------------------
    mb = set()
    for n in walk(tree):
        if n[0] == "if" and "==MASS_BALANCE" in n[1]:
            a = dict(x for s in stmts(n[2]) if s[0] == "simple" for x in assignments(s[1]))
            if "moles_reduction" not in a or "goto MOLES_TOO_LARGE;" not in ser(n[2]):
                raise Shape("gen_rk: a MASS_BALANCE branch does not set moles_reduction and go to MOLES_TOO_LARGE")
            mb.add(const_of(a["moles_reduction"], "MASS_BALANCE reduction"))
    if len(mb) != 1:
        raise Shape(f"gen_rk: MASS_BALANCE reductions {sorted(mb)}")
    out["mbReduction"] = mb.pop()
    tiny = set()
    for n in walk(tree):
        m = re.fullmatch(r"kinetics_comp_ptr->Get_m\(\)<" + X, n[1]) if n[0] == "if" else None
        if m:
            if not re.fullmatch(r"kinetics_comp_ptr->Set_m\(0\.?0*\);", ser(n[2])) or n[3] is not None:
                raise Shape("gen_rk: floor of the amounts is not `Set_m(0)`")
            tiny.add(const_of(m.group(1), "floor of the amounts"))
    if len(tiny) != 1:
        raise Shape(f"gen_rk: floors of the amounts {sorted(tiny)}")
    out["tinyM"] = tiny.pop()
    text = ser(tree)
    if text.count("kinetics_comp_ptr->Set_m(m_temp[j]-kinetics_comp_ptr->Get_moles());") < 9:
        raise Shape("gen_rk: stage amounts `m_temp[j] - moles` not found for every stage")
    upd = "if(moles_reduction*moles_max<fabs(kinetics_comp_ptr->Get_moles())){moles_reduction=fabs(kinetics_comp_ptr->Get_moles())/moles_max;}"
    if text.count(upd) != 5:
        raise Shape(f"gen_rk: moles_reduction update found {text.count(upd)} times, expected after k1..k5")
    return out


def extract_clamp(src, consts):
    """calc_final_kinetic_reaction: moles > m_temp[i] -> moles = m_temp[i], m = 0"""
    params, body = function_text(src, "calc_final_kinetic_reaction")
    tree = drop_null_guards(parse_body(subst_constants(body, consts)))
    for n in walk(tree):
        m = re.fullmatch(r"(\w+)->Get_moles\(\)>m_temp\[(\w+)\]", n[1]) if n[0] == "if" else None
        if m and n[3] is None:
            x, i = m.groups()
            if sorted(ser(s) for s in stmts(n[2])) == sorted([f"{x}->Set_moles(m_temp[{i}]);", f"{x}->Set_m(0);"]):
                return
    raise Shape("gen_rk: clamp of the reaction to the available moles not found in calc_final_kinetic_reaction")


# ===============================================================================================================
# run_reactions: CVODE restart loop
# ===============================================================================================================
VARS = ["tout", "sum_t", "cvode_last_good_time", "tout1", "t"]


def extract_restart(src, consts):
    params, body = function_text(src, "run_reactions")
    body = roles_run_reactions(params, inline_helpers(subst_constants(body, consts), src))
    tree = drop_null_guards(parse_body(body))
    is_loop = lambda n: n[0] == "loop" and n[1] == "while" and n[2] == "flag!=SUCCESS"
    found = find_parent(tree, is_loop)
    if not found:
        raise Shape("gen_rk: CVODE restart loop not found")
    sl, il = found
    if il == 0 or sl[il - 1] != ("label", "RESTART"):
        raise Shape("gen_rk: the restart loop is not the statement labelled RESTART")
    # state on entry: counters are zero, tout is the kinetic time step at the first call
    for v in ("m_iter", "sum_t"):
        if const_of(last_write(sl, il, v, f"{v} on entry of the restart loop")[0], v) != 0:
            raise Shape(f"gen_rk: `{v}` is not 0 on entry of the restart loop")
    first = [k for k, n in enumerate(sl[:il]) if n[0] == "simple" and n[1] == "flag=CVode(kinetics_cvode_mem,tout,kinetics_y,&t,NORMAL)"]
    if len(first) != 1:
        raise Shape("gen_rk: the first CVode call is not a straight-line statement before the restart loop")
    if last_write(sl, first[0], "tout", "tout at the first CVode call")[0] != "kin_time":
        raise Shape("gen_rk: `tout` is not kin_time at the first CVode call")
    if any(node_writes(n, "tout") for n in sl[first[0] + 1:il + 1]):
        raise Shape("gen_rk: `tout` is changed after the first CVode call")
    # loop body up to the re-started call
    B = stmts(sl[il][3])
    call = [k for k, n in enumerate(B) if n[0] == "simple" and re.fullmatch(r"flag=CVode\(kinetics_cvode_mem,(\w+),kinetics_y,&t,NORMAL\)", n[1])]
    if len(call) != 1:
        raise Shape("gen_rk: the re-started CVode call is not a straight-line statement of the restart loop")
    arg = re.fullmatch(r"flag=CVode\(kinetics_cvode_mem,(\w+),kinetics_y,&t,NORMAL\)", B[call[0]][1]).group(1)
    prog, handoff, miter = [], 0, None
    for n in B[:call[0]]:
        if n[0] == "simple":
            if re.fullmatch(r"N_VScale\(" + X + r",cvode_last_good_y,kinetics_y\)", n[1]):
                is_one(re.fullmatch(r"N_VScale\(" + X + r",cvode_last_good_y,kinetics_y\)", n[1]).group(1), "hand-off scale")
                handoff += 1
                continue
            for lhs, rhs in assignments(n[1]):
                if lhs in VARS:
                    e = parse_expr(rhs, {}, symbols=tuple(VARS))
                    prog.append((lhs, [e.t.get(v, Fraction(0)) for v in VARS], e.c))
        else:
            mm = re.fullmatch(r"\+\+m_iter(>=|>)kinetics_ptr->Get_bad_step_max\(\)", n[1]) if n[0] == "if" else None
            if mm and "error_msg(" in ser(n[2]):
                miter = mm.group(1)
                continue
            for v in VARS + ["kinetics_y"]:
                if node_writes(n, v) and v != "t" or (v == "t" and writes_var(ser(n), "t")):
                    raise Shape(f"gen_rk: `{v}` is written inside a nested statement of the restart loop: {ser(n)[:80]}")
    if handoff != 1:
        raise Shape("gen_rk: the re-started call does not continue from cvode_last_good_y (exactly once)")
    if miter is None:
        raise Shape("gen_rk: `if (++m_iter >= bad_step_max)` not recognised in the CVODE restart loop")
    if not prog:
        raise Shape("gen_rk: no time bookkeeping statements found in the restart loop")
    return dict(prog=prog, call_arg=arg, miter=miter)


# ===============================================================================================================
# cvode.cpp: CVStep
# ===============================================================================================================
def extract_cvstep(repo):
    """which vector is tested and stored as cvode_last_good_y at the top of every attempt, before CVPredict"""
    raw = (repo / "src/phreeqcpp/cvode.cpp").read_text()
    src = strip_comments(raw)
    src = re.sub(r"#\s*ifdef DEBUG_CVODE.*?#\s*endif", "", src, flags=re.S)
    src = strip_preprocessor(src)
    m = re.search(r"(?m)^CVStep\s*\(\s*CVodeMem\s+cv_mem\s*\)\s*\{", src)
    if not m:
        raise Shape("gen_rk: CVStep not found in cvode.cpp")
    depth, j = 1, m.end()
    while depth:
        depth += src[j] == "{"
        depth -= src[j] == "}"
        j += 1
    body = src[m.end():j - 1]
    body = re.sub(r"\bloop\b", "for(;;)", body)
    body = re.sub(r"\bCVMEM\b", "", body)
    tree = drop_null_guards(parse_body(body))
    loops = [n for n in stmts(tree) if n[0] == "loop" and n[1] == "for" and n[2] == ";;"]
    if len(loops) != 1:
        raise Shape("gen_rk: the attempt loop of CVStep is not recognised")
    L = stmts(loops[0][3])
    ip = [k for k, n in enumerate(L) if n == ("simple", "CVPredict(cv_mem)")]
    if len(ip) != 1:
        raise Shape("gen_rk: CVPredict is not a straight-line statement of the attempt loop")
    pre = {"type": "block"}
    g = require_block(("block", L[:ip[0]]),
                      {"test on": r"cvode_test=TRUE;", "f": r"f\(N,tn," + X + r",ftemp,f_data\);", "test off": r"cvode_test=FALSE;",
                       "hook": r"if\(cvode_error==TRUE\)\{predict_fail=true;\}else\{(.*)\}"},
                      [("test on", "f"), ("f", "test off"), ("test off", "hook")],
                      ["cvode_last_good_time", "cvode_last_good_y", "cvode_prev_good_time", "cvode_prev_good_y", "tn"], "CVStep hook")
    hook_if = [n for n in L[:ip[0]] if n[0] == "if" and n[1] == "cvode_error==TRUE"][0]
    h = require_block(hook_if[3], {"prev time": r"cvode_prev_good_time=cvode_last_good_time;",
                                   "prev y": r"N_VScale\(" + X + r",cvode_last_good_y,cvode_prev_good_y\);",
                                   "time": r"cvode_last_good_time=tn;", "y": r"N_VScale\(" + X + "," + X + r",cvode_last_good_y\);"},
                      [("prev time", "time"), ("prev y", "y")],
                      ["cvode_last_good_time", "cvode_last_good_y", "cvode_prev_good_time", "cvode_prev_good_y", "tn"], "CVStep hook (state is usable)")
    is_one(h["y"].group(1), "hook scale")
    code = {"zn[0]": 0, "y": 1}
    tv, sv = g["f"].group(1), h["y"].group(2)
    if tv not in code or sv not in code:
        raise Shape(f"gen_rk: CVStep hook tests {tv!r} and stores {sv!r}")
    return {"test": code[tv], "save": code[sv]}


# ---------------------------------------------------------------------------------------------------------------
def q(x):
    x = Fraction(x)
    if x.denominator == 1:
        return f"({x.numerator} : Rat)"
    return f"(({x.numerator} : Rat) / {x.denominator})"


def qlist(xs):
    return "[" + ", ".join(q(x) for x in xs) + "]"


def render(tab, ctl, rst, repo_rel):
    L = []
    L.append("/-! GENERATED by tools/gen_rk.py from " + repo_rel + " — do not edit.")
    L.append("Facts read from the structure of rk_kinetics, calc_final_kinetic_reaction, run_reactions and (cvode.cpp) CVStep. -/")
    L.append("namespace PhreeqcVerif.Gen.RKTableau")
    L.append("")
    L.append("/-- stage combinations: row i = coefficients of k1..k_i in the reaction used to evaluate k_{i+1} -/")
    L.append("def A : List (List Rat) := [" + ", ".join(qlist(r) for r in tab["A"]) + "]")
    L.append("/-- nodes: `rate_sim_time = rate_sim_time_start + h_sum + c_i * h` at the evaluation of k_i -/")
    L.append("def c : List Rat := " + qlist(tab["c"]))
    L.append("/-- weights of the accepted result `Set_moles(c1*k1 + c3*k3 + c4*k4 + c6*k6)` -/")
    L.append("def b : List Rat := " + qlist(tab["b"]))
    L.append("/-- weights of the error expression `l_error = fabs(dc1*k1 + dc3*k3 + dc4*k4 + dc5*k5 + dc6*k6)` -/")
    L.append("def d : List Rat := " + qlist(tab["d"]))
    L.append("/-- operands of the initialisers `dc_i = c_i - <literal>`: d = dMin - dSub (the doubles are rounded differences) -/")
    L.append("def dMin : List Rat := " + qlist(tab["dmin"]))
    L.append("def dSub : List Rat := " + qlist(tab["dsub"]))
    L.append("/-- early-exit weights of -runge_kutta 1, 2, 3 -/")
    L.append("def e1 : List Rat := " + qlist(tab["e1"]))
    L.append("def e2 : List Rat := " + qlist(tab["e2"]))
    L.append("def e3 : List Rat := " + qlist(tab["e3"]))
    L.append("")
    for k in ("safety", "molesMax", "shrinkExp", "growExp", "growThreshold", "growFactor", "mbReduction", "tinyM"):
        L.append(f"def {k} : Rat := {q(ctl[k])}")
    L.append("")
    L.append("/-- CVODE restart loop of run_reactions: straight-line assignments executed before each re-started CVode call.")
    L.append("variables: 0 tout, 1 sum_t, 2 cvode_last_good_time, 3 tout1, 4 t; an entry is (lhs, coefficients, constant) -/")
    L.append("def restartProg : List (Nat × List Rat × Rat) := [")
    rows = []
    for lhs, coefs, const in rst["prog"]:
        rows.append(f"  ({VARS.index(lhs)}, {qlist(coefs)}, {q(const)})   -- {lhs} = ...")
    # commas between rows but comments at end of line: put comma before the comment
    for i, r in enumerate(rows):
        code, _, cm = r.partition("   -- ")
        L.append(code + ("," if i + 1 < len(rows) else "") + "   -- " + cm)
    L.append("]")
    L.append(f"/-- variable passed as end time to the re-started CVode call -/")
    L.append(f"def restartCallArg : Nat := {VARS.index(rst['call_arg'])}")
    L.append("/-- `if (++m_iter >= bad_step_max)` (true) or `>` (false): when the restart loop gives up -/")
    L.append(f"def restartStopsAtGe : Bool := {'true' if rst['miter'] == '>=' else 'false'}")
    L.append("/-- cvode.cpp CVStep, top of every attempt: vector handed to the f test / stored as cvode_last_good_y (0 = zn[0], 1 = y) -/")
    L.append(f"def hookTestVec : Nat := {rst['hook']['test']}")
    L.append(f"def hookSaveVec : Nat := {rst['hook']['save']}")
    L.append("")
    L.append("end PhreeqcVerif.Gen.RKTableau")
    return "\n".join(L) + "\n"


def extract(repo=None):
    repo = Path(repo or vlib.REPO)
    raw = (repo / SRC).read_text()
    consts = file_constants(raw)
    src = strip_preprocessor(strip_comments(raw))
    params, body = function_text(src, "rk_kinetics")
    body = roles_rk(params, inline_helpers(subst_constants(body, consts), src))
    tree = drop_null_guards(parse_body(body))
    env, split = local_constants(stmts(tree))
    events, err_split = extract_events(tree, env, split)
    tab = shape_rk(events)
    # a coefficient that is assigned again after its initialiser would invalidate the reading
    text = ser(tree)
    for nm in env:
        if len(re.findall(r"(?<![\w.>])" + re.escape(nm) + r"(?:=(?!=)|\+=|-=|\*=|/=|\+\+|--)", text)) != 1:
            raise Shape(f"gen_rk: local constant {nm} is assigned after its initialiser")
    dmin, dsub = [], []
    for i in range(6):
        a, b2 = (err_split or {}).get(i, (Fraction(0), Fraction(0)))
        if a - b2 != tab["d"][i]:
            raise Shape(f"gen_rk: error weight of stage {i + 1} is not what its initialiser says")
        dmin.append(a)
        dsub.append(b2)
    tab["dmin"], tab["dsub"] = dmin, dsub
    ctl = extract_control(tree)
    extract_clamp(src, consts)
    rst = extract_restart(src, consts)
    rst["hook"] = extract_cvstep(repo)
    return tab, ctl, rst


def generate(ctx=None):
    out = vlib.LEAN / "PhreeqcVerif" / "Gen" / "RKTableau.lean"
    tab, ctl, rst = extract()
    text = render(tab, ctl, rst, SRC)
    if not out.exists() or out.read_text() != text:
        out.write_text(text)
    return {"source": SRC, "stages": len(tab["A"]), "b": [str(x) for x in tab["b"]], "d": [str(x) for x in tab["d"]],
            "c": [str(x) for x in tab["c"]], "control": {k: str(v) for k, v in ctl.items()},
            "restart_prog": [(l, [str(x) for x in cs], str(c)) for l, cs, c in rst["prog"]],
            "restart_call_arg": rst["call_arg"], "restart_stops_at": "++m_iter " + rst["miter"] + " bad_step_max",
            "cvstep_hook": rst["hook"]}


if __name__ == "__main__":
    import json
    print(json.dumps(generate(), indent=1))
