import PhreeqcVerif.Model.Util
import PhreeqcVerif.Model.Inverse
/-! `pmodel inverse`: line-protocol driver of the inverse-modelling model (see tools/props/c18.py).

Input lines (doubles as 16 hex digits of the bit pattern, converted to `Rat` exactly):
  problem                                   start a new problem
  opts <tol> <mineral_water> <water_unc> <carbon> <ialk> <icarb|-1> <range>
  soln <water> <phunc> <dalkdph> <dalkdc> <T_0> … <T_ne-1>
  master <name> <coef> <isH+> <isH2O>        one line per master species of the database
  elt <name> <isE> <isAlkM> <alkName> <zalk> <unc_0> …
  phase <constr> <force> <alk> (<secondary master name> <primary master name> <tokcoef>)*   raw reaction tokens of rxn_s
  redox <coef> <alk> <salk> (<secondary> <primary> <tokcoef>)*                              raw tokens of rxn_primary
  sat <t> <mask> X <x…>                      → SAT line (satB, zeroOutsideB)
  matrix                                    → ROW lines (sparse, dense column index) and a DELTA line
  check <t> X <x…> MIN <…> MAX <…>          → CHECK line (checkModel and the failing clauses)
  search <nph> <nsol> <minimal> <range> <forced> <feas:nz>*   → SEARCH line
  unc ROWS (<master> <primary>)* DFLT <hex>* (ENT e|r <id> <k> <hex>*k)*   → UNC line (propagateUnc per row)
-/
namespace Driver.Inverse
open PhreeqcVerif PhreeqcVerif.Util PhreeqcVerif.Inverse

/-- exact value of an IEEE double (inf / nan → 0) -/
def ratOfBits (u : UInt64) : Rat :=
  let n := u.toNat
  let sign : Int := if n >>> 63 = 1 then -1 else 1
  let ex := (n >>> 52) % 2048
  let man : Nat := n % (2 ^ 52)
  if ex = 2047 then 0
  else if ex = 0 then mkRat (sign * Int.ofNat man) (2 ^ 1074)
  else
    let m : Int := sign * Int.ofNat (2 ^ 52 + man)
    if ex ≥ 1075 then ((m * Int.ofNat (2 ^ (ex - 1075)) : Int) : Rat) else mkRat m (2 ^ (1075 - ex))

def ratOfHex (s : String) : Rat := match unhex64 s with | some u => ratOfBits u | none => 0

def ratToFloat (r : Rat) : Float :=
  let n := r.num.natAbs
  let d := r.den
  let l := max n.log2 d.log2
  let sh := if l > 900 then l - 900 else 0
  let n' := n >>> sh
  let d' := d >>> sh
  let v := if d' = 0 then 0.0 else n'.toFloat / d'.toFloat
  if r.num < 0 then -v else v

def hexOfRat (r : Rat) : String := hexOfFloat (ratToFloat r)

def natOf (s : String) : Nat := s.toNat?.getD 0
def intOf (s : String) : Int := s.toInt?.getD 0

structure PState where
  p : Problem := default
  ptoks : List (Int × Bool × Rat × List (String × String × Rat)) := []   -- phases as read (constr, force, alk, raw tokens), reversed
  rtoks : List (Rat × Rat × Rat × List (String × String × Rat)) := []    -- redox as read, reversed
  names : List String := []                                              -- element-row names
  masters : List MasterInfo := []

def rawTokens : List String → List (String × String × Rat)
  | a :: b :: c :: rest => ((unhexStr a).getD "", (unhexStr b).getD "", ratOfHex c) :: rawTokens rest
  | _ => []

/-- finish the problem: phases / redox need `ne` and `iAlk` -/
def PState.problem (s : PState) : Problem :=
  let p := s.p
  let ne := p.elts.length
  { p with
    rowNames := s.names
    phases := s.ptoks.reverse.map fun (c, f, alk, toks) =>
      Phase.ofTokens ne p.iAlk (toks.map fun (sec, prim, cf) =>
        let r := resolveToken s.names s.masters sec prim; (r.1, cf, r.2)) alk c f
    redox := s.rtoks.reverse.map fun (coef, alk, salk, toks) =>
      Redox.ofTokens ne p.iAlk (toks.map fun (sec, prim, cf) => ((resolveToken s.names s.masters sec prim).1, cf)) coef alk salk }

def showRow (p : Problem) (r : Row) : String :=
  let kind := match r.kind with | .opt => "opt" | .eq => "eq" | .le => "le"
  let n := p.ncol
  let dense : Array Rat := r.coeffs.foldl (fun a vc =>
    let c := p.colIndex vc.1
    if c < a.size then a.set! c (a.getD c 0 + vc.2) else a) (Array.replicate n 0)
  let cells := (List.range n).filterMap fun c => let v : Rat := dense.getD c 0
    if v = 0 then none else some s!"{c}:{hexOfRat v}"
  s!"ROW {kind} {hexOfRat r.rhs} " ++ " ".intercalate cells

def modelOf (p : Problem) (x mn mx : Array Rat) : Model :=
  let a : Var → Rat := fun v => x.getD (p.colIndex v) 0
  let an : Var → Rat := fun v => mn.getD (p.colIndex v) 0
  let ax : Var → Rat := fun v => mx.getD (p.colIndex v) 0
  decode a an ax

/-- clauses of `Admissible` that fail, with the worst residual -/
def diagnose (p : Problem) (t : Rat) (m : Model) : List String :=
  let mb := (List.range p.ne).filter fun e => decide (absR (p.mbRes m e) > t)
  let up := (List.range p.ns).flatMap fun q => (List.range p.ne).filterMap fun e =>
    if p.active q e && decide (m.eps e q > p.bound q e * m.alpha q + t) then some s!"epsUp:{q}:{e}" else none
  let low := (List.range p.ns).flatMap fun q => (List.range p.ne).filterMap fun e =>
    if p.active q e && (if p.T q e = 0 then decide (m.eps e q < -t) else decide (-(m.eps e q) > p.lowBound q e * m.alpha q + t))
    then some s!"epsLow:{q}:{e}" else none
  let al := (List.range (p.ns - 1)).filterMap fun q => if decide (m.alpha q < -t) then some s!"alpha:{q}" else none
  let fin := if decide (absR (m.alpha (p.ns - 1) - 1) > t) then ["alphaFinal"] else []
  let ph := (List.range p.np).filterMap fun i =>
    let c := (p.phases.getD i default).constr
    if (c > 0 && decide (m.x i < -t)) || (c < 0 && decide (m.x i > t)) then some s!"sign:{i}" else none
  let rg := if p.range then
      ((List.range p.ns).filterMap fun q =>
        if decide (m.alpha q < m.minA q - t) || decide (m.alpha q > m.maxA q + t) then some s!"rangeA:{q}" else none) ++
      ((List.range p.np).filterMap fun i =>
        if decide (m.x i < m.minX i - t) || decide (m.x i > m.maxX i + t) then some s!"rangeX:{i}" else none)
    else []
  let isoMb := (List.range p.nIso).filterMap fun n =>
    if decide (absR ((p.isoRow n).eval m.assign) > t) then some s!"isoMb:{n}" else none
  let isoB := if p.nIso > 0 && isoMb.isEmpty && !p.checkIso t m then ["isoBound"] else []
  mb.map (fun e => s!"mb:{e}") ++ up ++ low ++ al ++ fin ++ ph ++ rg ++ isoMb ++ isoB

def maxAbs (l : List Rat) : Rat := l.foldl (fun a b => if absR b > a then absR b else a) 0

def handle (s : PState) (line : String) : PState × List String :=
  match words line with
  | ["problem"] => ({}, [])
  | ["opts", tol, mw, wu, carbon, ialk, icarb, range] =>
    ({ s with p := { s.p with tol := ratOfHex tol, mineralWater := mw != "0", waterUnc := ratOfHex wu, carbon := carbon != "0",
                              iAlk := natOf ialk, iCarb := if intOf icarb < 0 then none else some (natOf icarb),
                              range := range != "0" } }, [])
  | "soln" :: w :: pu :: dp :: dc :: ts =>
    ({ s with p := { s.p with solns := s.p.solns ++ [{ totals := ts.map ratOfHex, water := ratOfHex w, phUnc := ratOfHex pu,
                                                        dalkDph := ratOfHex dp, dalkDc := ratOfHex dc }] } }, [])
  | ["master", nm, coef, isH, isW] =>
    ({ s with masters := s.masters ++ [{ name := (unhexStr nm).getD "", coef := ratOfHex coef, isH := isH != "0", isH2O := isW != "0" }] }, [])
  | "elt" :: nm :: isE :: isA :: an :: z :: us =>
    let el : Elt := { isE := isE != "0", isAlkM := isA != "0", alkName := an != "0", zalk := ratOfHex z, unc := us.map ratOfHex }
    ({ s with names := s.names ++ [(unhexStr nm).getD ""], p := { s.p with elts := s.p.elts ++ [el] } }, [])
  | ["isoelt", nm, pr, num, ho] =>
    ({ s with p := { s.p with isos := s.p.isos ++ [{ name := (unhexStr nm).getD "", prim := (unhexStr pr).getD "", number := ratOfHex num, isHO := ho != "0" }] } }, [])
  | ["isounk", ms, num] =>
    ({ s with p := { s.p with isoUnk := s.p.isoUnk ++ [{ master := (unhexStr ms).getD "", number := ratOfHex num }] } }, [])
  | ["soliso", q, ms, pr, num, tot, ratio, xu] =>
    let si : SolIso := { master := (unhexStr ms).getD "", prim := (unhexStr pr).getD "", number := ratOfHex num, total := ratOfHex tot,
                         ratio := ratOfHex ratio, xunc := ratOfHex xu }
    let qi := natOf q
    let cur := s.p.solIso ++ List.replicate (qi + 1 - s.p.solIso.length) []
    ({ s with p := { s.p with solIso := cur.set qi (cur.getD qi [] ++ [si]) } }, [])
  | ["phiso", i, nm, pr, num, ratio, coef, unc] =>
    let pi : PhIso := { name := (unhexStr nm).getD "", prim := (unhexStr pr).getD "", number := ratOfHex num, ratio := ratOfHex ratio,
                        coef := ratOfHex coef, unc := ratOfHex unc }
    let ii := natOf i
    let cur := s.p.phIso ++ List.replicate (ii + 1 - s.p.phIso.length) []
    ({ s with p := { s.p with phIso := cur.set ii (cur.getD ii [] ++ [pi]) } }, [])
  | "phase" :: c :: f :: alk :: toks => ({ s with ptoks := (intOf c, f != "0", ratOfHex alk, rawTokens toks) :: s.ptoks }, [])
  | "redox" :: coef :: alk :: salk :: toks =>
    ({ s with rtoks := (ratOfHex coef, ratOfHex alk, ratOfHex salk, rawTokens toks) :: s.rtoks }, [])
  | ["matrix"] =>
    let p := s.problem
    let rows := p.setupMatrix.map (showRow p)
    let delta := "DELTA " ++ " ".intercalate (p.vars.map fun v => toString (p.signOf v))
    (s, rows ++ [delta, s!"DIMS ns {p.ns} ne {p.ne} np {p.np} nr {p.nr} ncol {p.ncol} nopt {p.countOptimize} neq {p.eqRows.length} nle {p.leRows.length}"])
  | "check" :: t :: rest =>
    let p := s.problem
    let n := p.ncol
    let vals := rest.filter (fun w => w != "X" && w != "MIN" && w != "MAX") |>.map ratOfHex
    let x := (vals.take n).toArray
    let mn := ((vals.drop n).take n).toArray
    let mx := ((vals.drop (2 * n)).take n).toArray
    let m := modelOf p x mn mx
    let tt := ratOfHex t
    let ok := p.checkModel tt m && (p.nIso == 0 || p.checkIso tt m)
    let bad := diagnose p tt m
    let worstMb := maxAbs ((List.range p.ne).map (p.mbRes m))
    let worstCh := maxAbs ((List.range p.ns).map (p.chargeRes m))
    (s, [s!"CHECK {if ok then "ok" else "fail"} mb {hexOfRat worstMb} charge {hexOfRat worstCh} water {hexOfRat (absR (p.waterRes m))} " ++
         " ".intercalate bad])
  | "search" :: nph :: nsol :: minimal :: range :: forced :: table =>
    let tab : Array (Bool × Nat) := (table.map fun w =>
      match w.splitOn ":" with
      | [f, nz] => (f != "0", natOf nz)
      | _ => (false, 0)).toArray
    let c : SearchCfg := { nph := natOf nph, nsol := natOf nsol, minimal := minimal != "0", range := range != "0", forced := natOf forced }
    let fin := 2 ^ (c.nbits - 1)
    -- the table is indexed by the mask without the final-solution bit; masks without that bit are infeasible
    let o : Oracle := fun mask => if mask.testBit (c.nbits - 1) then tab.getD (mask % fin) (false, 0) else (false, 0)
    let st := search o c
    let sh (l : List Nat) := " ".intercalate (l.map toString)
    (s, [s!"SEARCH reported {sh st.reported} | good {sh st.good} | minimal {sh st.minimal} | nbad {st.bad.length} calls {st.calls}"])
  | "sat" :: t :: mask :: rest =>
    let p := s.problem
    let x := ((rest.filter (· != "X")).map ratOfHex).toArray
    let a : Var → Rat := fun v => x.getD (p.colIndex v) 0
    let tt := ratOfHex t
    (s, [s!"SAT {if p.satB tt a then 1 else 0} {if p.zeroOutsideB tt (natOf mask) a then 1 else 0}"])
  | "unc" :: rest =>
    -- unc ROWS <m> <p> … DFLT <hex> … ENT e|r <id> <k> <hex>*k …
    let rec rowsOf : List String → List RowId × List String
      | "DFLT" :: t => ([], t)
      | m :: p :: t => let (r, t') := rowsOf t; (⟨natOf m, natOf p⟩ :: r, t')
      | t => ([], t)
    let (rows, afterRows) := rowsOf (rest.drop 1)
    let dflt := (afterRows.takeWhile (· != "ENT")).map ratOfHex
    let rec entsOf (fuel : Nat) : List String → List BalEntry
      | "ENT" :: kind :: id :: k :: t =>
        match fuel with
        | 0 => []
        | f + 1 =>
          let n := natOf k
          ⟨if kind == "e" then .element (natOf id) else .row (natOf id), (t.take n).map ratOfHex⟩ :: entsOf f (t.drop n)
      | _ => []
    let ents := entsOf rest.length (afterRows.dropWhile (· != "ENT"))
    let u := propagateUnc rows dflt ents
    (s, ["UNC " ++ " ".intercalate ((List.range rows.length).map fun i => ",".intercalate ((u i).map hexOfRat))])
  | [] => (s, [])
  | _ => (s, ["bad-line " ++ line])

def run : IO Unit := do
  let stdin ← IO.getStdin
  let stdout ← IO.getStdout
  let lines ← readLines stdin
  let mut s : PState := {}
  for l in lines do
    let (s', out) := handle s l
    s := s'
    for o in out do stdout.putStrLn o
  stdout.flush

end Driver.Inverse
