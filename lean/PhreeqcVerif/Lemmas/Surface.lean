import PhreeqcVerif.Model.Surface
/-! Helper lemmas for `Properties/C20.lean` (core Lean only). -/
namespace PhreeqcVerif.Surface
open NumOps

/-- whatever the solver step does and however many iterations it takes: if `model()` returns a state, then
`residuals` reported CONVERGED in exactly that state and `check_residuals` found no error -/
theorem runModel_sound {α : Type} [NumOps α] [∀ a b : α, Decidable (a < b)] [∀ a b : α, Decidable (a ≤ b)]
    (step : State α → State α) (n : Nat) (s s' : State α)
    (h : runModel step n s = some s') : converged s' = true ∧ checkOk s' = true := by
  induction n generalizing s with
  | zero =>
    simp only [runModel] at h
    split at h
    · rename_i hc; cases h; simpa using hc
    · cases h
  | succ n ih =>
    simp only [runModel] at h
    split at h
    · rename_i hc
      split at h
      · rename_i hk; cases h; exact ⟨hc, hk⟩
      · cases h
    · exact ih _ h

/-- every surface row of the returned state passes the test of `residuals` and of `check_residuals` -/
theorem gate_rows {α : Type} [NumOps α] [∀ a b : α, Decidable (a < b)] [∀ a b : α, Decidable (a ≤ b)]
    (step : State α → State α) (n : Nat) (s s' : State α)
    (h : runModel step n s = some s') : ∀ r ∈ s'.rows, r.fails s'.env = false ∧ r.checkError s'.env = false := by
  have ⟨hc, hk⟩ := runModel_sound step n s s' h
  intro r hr
  simp only [converged, Bool.and_eq_true, List.all_eq_true, Bool.not_eq_true'] at hc
  simp only [checkOk, List.all_eq_true, Bool.not_eq_true'] at hk
  exact ⟨hc.2 r hr, hk r hr⟩


theorem foldl_tok_shift (toks : List (Tok Rat)) (a b : Rat) :
    toks.foldl (fun acc t => acc + t.la * t.coef) (a + b) = toks.foldl (fun acc t => acc + t.la * t.coef) a + b := by
  induction toks generalizing a with
  | nil => rfl
  | cons t ts ih =>
    simp only [List.foldl_cons]
    have : a + b + t.la * t.coef = (a + t.la * t.coef) + b := by grind
    rw [this, ih]


theorem halfReduced_mono (f : TransFns Rat) (tk p q : Rat) (htk : 0 < tk) (h : p < q) :
    letI := ratOps f
    halfReduced tk p < halfReduced tk q := by
  simp only [halfReduced, F_KJ_V_EQ, R_KJ_DEG_MOL, NumOps.lit, NumOps.ofRat, id_eq]
  have hd : (0 : Rat) < 2 * (83147 / 10000000) * tk := by
    have : (0 : Rat) < 2 * (83147 / 10000000) := by decide +kernel
    exact Rat.mul_pos this htk
  have hn : (964935 / 10000 : Rat) * p < 964935 / 10000 * q := by
    have : (0 : Rat) < 964935 / 10000 := by decide +kernel
    exact Rat.mul_lt_mul_of_pos_left h this
  rw [Rat.div_def, Rat.div_def]
  exact Rat.mul_lt_mul_of_pos_right hn (Rat.inv_pos.mpr hd)


/-- the sum `calc_psi_avg` accumulates, written as a specification: charge (eq) of the groups that take part
(charged, and not an excluded co-ion) inside the Donnan volume at reduced potential `p` -/
def donnanCharge (sq ratio : Rat) (onlyCount : Bool) (ex : Rat → Rat) : List (Rat × Rat) → Rat → Rat
  | [], _ => 0
  | g :: rest, p =>
    (if (g.1 ≤ 0 ∧ 0 ≤ g.1) ∨ (onlyCount = true ∧ 0 < sq * g.1) then 0 else g.2 * (ex (-g.1 * p) * ratio))
      + donnanCharge sq ratio onlyCount ex rest p

theorem donnanFd_fst_acc (f : TransFns Rat) (sq ratio : Rat) (oc : Bool) (groups : List (Rat × Rat)) (p a b : Rat) :
    letI := ratOps f
    (groups.foldl (fun (acc : Rat × Rat) (g : Rat × Rat) =>
      let z := g.1
      let co := sq * z
      if (z ≤ NumOps.lit 0 ∧ NumOps.lit 0 ≤ z) ∨ (oc = true ∧ NumOps.lit 0 < co) then acc
      else
        let temp := NumOps.exp (-z * p) * ratio
        (acc.1 + g.2 * temp, acc.2 - z * g.2 * temp)) (a, b)).1 = a + donnanCharge sq ratio oc f.exp groups p := by
  induction groups generalizing a b with
  | nil => simp only [List.foldl_nil, donnanCharge]; grind
  | cons g rest ih =>
    simp only [List.foldl_cons, donnanCharge, NumOps.lit, NumOps.ofRat, id_eq, NumOps.exp]
    by_cases h : (g.1 ≤ 0 ∧ 0 ≤ g.1) ∨ (oc = true ∧ 0 < sq * g.1)
    · simp only [h, if_true]
      have := ih a b
      simp only [NumOps.lit, NumOps.ofRat, id_eq, NumOps.exp] at this
      rw [this]; grind
    · simp only [h, if_false]
      have := ih (a + g.2 * ((ratOps f).fns.exp (-g.1 * p) * ratio)) (b - g.1 * g.2 * ((ratOps f).fns.exp (-g.1 * p) * ratio))
      simp only [NumOps.lit, NumOps.ofRat, id_eq, NumOps.exp] at this
      rw [this]
      have e : (ratOps f).fns.exp (-g.1 * p) = f.exp (-g.1 * p) := rfl
      rw [e]; grind


/-- history of a surface whose sites are related to a kinetic reactant: a calculation starts from the stored site total
`s` and reactant amount `m`; the reactant goes to `m'`, the engine adds `-prop·(m - m')` sites to the reaction, and the
species of the completed calculation sum to `s'` within `tolS` (the site-balance gate) of that defined number -/
def followsSteps (prop tolS : Rat) : Rat → Rat → List (Rat × Rat) → Prop
  | _, _, [] => True
  | s, m, st :: rest =>
    (-tolS ≤ st.2 - (s - prop * (m - st.1)) ∧ st.2 - (s - prop * (m - st.1)) ≤ tolS) ∧ followsSteps prop tolS st.2 st.1 rest

/-- the (reactant, sites) pair after the history -/
def finalOf : Rat → Rat → List (Rat × Rat) → Rat × Rat
  | s, m, [] => (m, s)
  | _, _, st :: rest => finalOf st.2 st.1 rest


end PhreeqcVerif.Surface
