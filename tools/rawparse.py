"""Independent parser of DUMP RAW text (the `*_RAW` blocks written by dump_raw) — no code shared with /repo.

API (all values stay the exact decimal / name strings of the text; nothing is converted to float):

    parse(text)  -> list of entities, in text order. An entity is a dict
        {"keyword": "SOLUTION_RAW", "number": 1, "description": "...", "opts": [opt, ...]}
      and an opt (one `-key ...` line with everything that belongs to it) is a dict
        {"key": "component",            # as written, without the dash
         "args": ["X"],                 # tokens after the key on the same line (a trailing `# comment` removed)
         "rows": [["Ca", "0.001"], …],  # following lines that do not start with a dash (name/value pairs, number lists)
         "opts": [opt, …]}              # nested block: following `-key` lines that are indented deeper than this one
      MIX_RAW has key-less data lines: they are returned as one opt with key "" and the lines in "rows".
    flat(entity) -> dict path -> value string, e.g. {"temp": "25", "totals/Ca": "0.001", "component[X]/la": "-0.2",
                    "steps": "0.001 0.002"}; nested blocks are addressed as key[first arg]. Repeated scalar keys
                    (`-g_map`) get a running index: g_map#0, g_map#1.
    entity_id(entity) -> ("SOLUTION_RAW", 1)
    others(text) -> lines outside RAW blocks (e.g. "USE mix none"), stripped.

Nesting is recovered from indentation only (the writers indent sub-dumps deeper than their header line); lines whose
first non-blank character is `#` are comments.  The parser knows no key names.
"""
import re

HEADER = re.compile(r"^([A-Z][A-Z_]*_RAW)\s+(-?\d+)\s?(.*)$")


def _indent(line):
    return len(line) - len(line.lstrip(" \t"))


def parse(text):
    ents = []
    cur = None
    stack = []          # [(indent, opt)] chain of open option lines
    for raw in text.splitlines():
        line = raw.rstrip()
        if not line.strip():
            continue
        s = line.strip()
        if s.startswith("#"):
            continue
        m = HEADER.match(line) if _indent(line) == 0 else None
        if m:
            cur = {"keyword": m.group(1), "number": int(m.group(2)), "description": m.group(3).strip(), "opts": []}
            ents.append(cur)
            stack = []
            continue
        if cur is None or (_indent(line) == 0 and not s.startswith("-")):
            cur = None          # text outside RAW blocks (USE …, END, keywords)
            continue
        d = _indent(line)
        toks = s.split("#", 1)[0].split()
        if re.match(r"^-[A-Za-z]", s):
            opt = {"key": toks[0][1:], "args": toks[1:], "rows": [], "opts": []}
            while stack and stack[-1][0] >= d:
                stack.pop()
            (stack[-1][1]["opts"] if stack else cur["opts"]).append(opt)
            stack.append((d, opt))
        else:
            if stack:
                # a data line belongs to the innermost open option that is not deeper than the line
                while len(stack) > 1 and stack[-1][0] >= d:
                    stack.pop()
                stack[-1][1]["rows"].append(toks)
            else:
                if not cur["opts"] or cur["opts"][-1]["key"] != "":
                    cur["opts"].append({"key": "", "args": [], "rows": [], "opts": []})
                cur["opts"][-1]["rows"].append(toks)
    return ents


def others(text):
    out, inside = [], False
    for raw in text.splitlines():
        if not raw.strip():
            continue
        if _indent(raw) == 0:
            inside = bool(HEADER.match(raw))
            if not inside:
                out.append(raw.strip())
        elif not inside:
            out.append(raw.strip())
    return out


def entity_id(e):
    return (e["keyword"], e["number"])


def _flat_opts(opts, prefix, out):
    seen = {}
    for o in opts:
        name = o["key"] if o["key"] else "_"
        if o["opts"]:
            p = f"{prefix}{name}[{' '.join(o['args'])}]"
            n = seen.get(p, 0)
            seen[p] = n + 1
            if n:
                p += f"#{n}"
            _flat_opts(o["opts"], p + "/", out)
            for r in o["rows"]:
                out[p + "/" + r[0]] = " ".join(r[1:])
            continue
        p = prefix + name
        n = seen.get(p, 0)
        seen[p] = n + 1
        if n or sum(1 for x in opts if x["key"] == o["key"]) > 1:
            p += f"#{n}"
        named = o["rows"] and all(len(r) == 2 and not re.match(r"^[-+.\d]", r[0]) for r in o["rows"])
        if named:
            out[p] = " ".join(o["args"])
            for r in o["rows"]:
                out[p + "/" + r[0]] = r[1]
        else:
            out[p] = " ".join(o["args"] + [t for r in o["rows"] for t in r])
    return out


def flat(entity):
    return _flat_opts(entity["opts"], "", {})


if __name__ == "__main__":
    import json
    import sys
    for e in parse(sys.stdin.read()):
        print(entity_id(e), json.dumps(flat(e), indent=1))
