"""C07 — loading a database returns the instance to the fresh state.

Proof obligations (Properties/C07.lean): wrapper state machine theorems for ALL histories (`load_resets_wrapper`,
`load_then_calls_eq_fresh`, … under `EngineReset`), and `decide` obligations over the member tables regenerated from the
clang AST of /repo on every run (`readers_state_reset`, `every_member_accounted`, `io_flags_reset`, wrapper member classes).
Tie: translator gen_members.py + correspondence on the real code: history on instance A, then LoadDatabase, then a probe
battery, against a new instance B given only the survivors (global switches, user-set file names), same load, same probes.
Compared: every string/table/file channel (black box), every data member of IPhreeqc (wrapper model: reset / survives as the
model says) and a generated member-by-member dump of class Phreeqc (white box: the dynamic half of `EngineReset`)."""
import concurrent.futures
import re
import shutil
import tempfile
from pathlib import Path

import gen_members
import vlib
from gens import history as H
from vlib import shrink_list


def unhx(h):
    return "" if h == "-" else bytes.fromhex(h).decode(errors="replace")


BANNER = re.compile(r"-+\nEnd of Run after [-0-9.eE+]+ Seconds\.?\n-+")


def mask_text(t):
    return BANNER.sub("End of Run after X Seconds.", t)


def run_ops(ctx, exe, ops, timeout=150):
    work = vlib.BUILD / "c07_work"
    work.mkdir(exist_ok=True)
    d = tempfile.mkdtemp(dir=work)
    try:
        import subprocess
        r = subprocess.run([str(exe)], input="\n".join(ops) + "\n", capture_output=True, text=True, cwd=d, timeout=timeout)
        return r.returncode, r.stdout.splitlines(), r.stderr[-400:]
    except Exception as e:                                # timeout
        return -999, [], str(e)[:200]
    finally:
        shutil.rmtree(d, ignore_errors=True)


def after_mark(lines, mark):
    try:
        i = lines.index("M " + mark)
    except ValueError:
        return None
    return lines[i + 1:]


def canon_p(line):
    """canonical form of a black-box line; None = not compared (ids, file names)"""
    w = line.split(" ")
    ch = w[2] if len(w) > 2 else ""
    if ch in ("names", "id"):
        return None
    if re.match(r"sel\d+$", ch):
        return " ".join(x for x in w if not x.startswith("name="))
    if ch in ("out", "log", "outfile", "logfile") and len(w) > 3:
        return " ".join(w[:3] + [mask_text(unhx(x)) if len(x) > 1 else x for x in w[3:]])
    return line


def describe(a, b):
    """short human-readable description of the first difference of two lines"""
    wa, wb = a.split(" "), b.split(" ")
    head = " ".join(wa[:3])
    for x, y in zip(wa[3:], wb[3:]):
        if x != y:
            try:
                X, Y = mask_text(unhx(x)).splitlines(), mask_text(unhx(y)).splitlines()
                k = next((i for i, (p, q) in enumerate(zip(X, Y)) if p != q), min(len(X), len(Y)))
                return f"{head}: line {k}: history {X[k:k + 1]} vs fresh {Y[k:k + 1]}"
            except Exception:
                return f"{head}: history {x[:80]} vs fresh {y[:80]}"
    return f"{head}: history {a[:120]} vs fresh {b[:120]}"


# deep tables whose content may legitimately differ (none known)
DEEP_TOLERATED = set()


class Policy:
    def __init__(self, a):
        pol = a["pol"]
        self.tolerated = {n for k in ("scratch", "healed", "fileNames") for n, _ in pol[k]}
        self.wclass = dict(pol["wrapperClass"])
        self.not_dumped = set()

    def member_tolerated(self, path):
        return path in self.tolerated or path.split(".")[0] in self.tolerated or path in ("dump_info.file_name",)


def normalize_history(ctx, exe, ops):
    """the property quantifies over (successful calls | setters)* (failing call)?: cut the history after its first failing call"""
    rc, out, _ = run_ops(ctx, exe, ["new"] + ops, timeout=120)
    res = [l for l in out if l.startswith("R ")][1:]
    keep = []
    for k, op in enumerate(ops):
        keep.append(op)
        if k < len(res):
            w = res[k].split()
            if w[1] in ("run", "runf", "acc", "load", "loads") and w[-1] != "0":
                return keep, True
        else:
            return keep, True             # the process died in this call
    return keep, False


def compare_case(ctx, exe, pol, case):
    """run history+load+probes on A and survivors+load+probes on B; returns dict(kind, details…) or None"""
    if not case.get("normalized"):
        case["ops"], case["ends_failing"] = normalize_history(ctx, exe, case["ops"])
        case["normalized"] = True
    hist = case["ops"]
    post = ["cleanfiles", "mark L", case["load_op"], "wstate w0", "state s0"] + case["post"]
    opsA = ([f"spawn {case['spawn']}"] if case.get("spawn") else []) + ["new"] + hist + ["wstate wpre"] + post
    opsB = ["new"] + H.survivor_ops(hist) + ["wstate wpre"] + post
    rcA, A, errA = run_ops(ctx, exe, opsA)
    rcB, B, errB = run_ops(ctx, exe, opsB)
    res = dict(black=[], white=[], wrapper=[], info={})
    if rcB != 0:
        # the probe battery itself crashes or hangs on a new instance with this database: nothing to compare (C08's subject)
        return dict(kind="probe-crash-on-fresh-instance", **res)
    if rcA != 0:
        # a crash of the history process before the load is outside C07 (C08); after the load it is a difference
        done_load = any(l.startswith("R load") or l.startswith("R loads") for l in (after_mark(A, "L") or []))
        if not done_load:
            return dict(kind="history-crash", what=f"history process ended with {rcA} before the load", **res)
        res["black"].append(f"history process ended with {rcA} after the load ({errA.strip()[-120:]}); fresh instance completed")
        return dict(kind="diff", **res)
    pa, pb = after_mark(A, "L"), after_mark(B, "L")
    if pa is None or pb is None:
        return dict(kind="infrastructure", what="marker missing", **res)
    la = next((l for l in pa if l.startswith("R load")), "")
    lb = next((l for l in pb if l.startswith("R load")), "")
    res["info"]["load"] = (la, lb)
    if la.split()[-1:] != ["0"]:
        if lb.split()[-1:] == ["0"]:
            res["black"].append(f"LoadDatabase returned {la.split()[-1]} after the history but 0 on a fresh instance")
            return dict(kind="diff", **res)
        return dict(kind="load-failed", **res)           # premise "returns 0" not met on either: not judged
    # wrapper members: before-load values of A for the survivors
    wpre = {l.split(" ")[2]: l for l in A if l.startswith("W wpre ")}
    wa0 = {l.split(" ")[2]: l for l in pa if l.startswith("W w0 ")}
    wb0 = {l.split(" ")[2]: l for l in pb if l.startswith("W w0 ")}
    for f, cls in pol.wclass.items():
        if f not in wa0 or f not in wb0:
            continue
        va, vb, vp = wa0[f].split(" ")[3:], wb0[f].split(" ")[3:], wpre.get(f, "").split(" ")[3:]
        if cls in ("unload", "percall", "const"):
            if cls == "percall" or f in ("OutputString", "LogString"):
                va, vb = [mask_text(unhx(x)) if len(x) > 8 else x for x in va], [mask_text(unhx(x)) if len(x) > 8 else x for x in vb]
            if va != vb:
                res["wrapper"].append(f"{f} ({cls}): after load {str(va)[:100]} vs fresh {str(vb)[:100]}")
        elif cls in ("switch", "id", "name"):
            if va != vp:
                res["wrapper"].append(f"{f} (survivor {cls}): {str(vp)[:80]} before the load, {str(va)[:80]} after")
            if cls == "switch" and va != vb:
                res["wrapper"].append(f"{f} (switch): history {va} vs fresh {vb}")
    # line-by-line comparison of everything after the load
    n = min(len(pa), len(pb))
    if len(pa) != len(pb):
        res["black"].append(f"number of result lines differs: {len(pa)} vs {len(pb)}")
    tol = {}
    for x, y in zip(pa[:n], pb[:n]):
        if x == y:
            continue
        t = x[:1]
        if t == "P":
            cx, cy = canon_p(x), canon_p(y)
            if cx != cy:
                res["black"].append(describe(x, y))
        elif t == "R":
            res["black"].append(f"result code: history `{x}` vs fresh `{y}`")
        elif t == "D":
            tab = x.split(" ")[2]
            if tab in DEEP_TOLERATED:
                tol["deep:" + tab] = tol.get("deep:" + tab, 0) + 1
            else:
                res["white"].append(f"{x.split(' ')[1]} deep:{tab}: table reachable from the engine differs (history {' '.join(x.split(' ')[3:5])} vs fresh {' '.join(y.split(' ')[3:5])})")
        elif t == "E":
            path = x.split(" ")[2]
            if pol.member_tolerated(path):
                tol[path] = tol.get(path, 0) + 1
            else:
                res["white"].append(f"{x.split(' ')[1]} {path}: history {' '.join(x.split(' ')[3:])[:60]} vs fresh {' '.join(y.split(' ')[3:])[:60]}")
    res["info"]["tolerated"] = tol
    if res["black"] or res["white"] or res["wrapper"]:
        return dict(kind="diff", **res)
    return dict(kind="same", **res)


def make_case(rng, full=False):
    h = H.gen_history(rng)
    first = h.get("last_input") if rng.random() < 0.35 else None      # same input right before and right after the load
    if first:
        h["tags"].append("same-input-after-load")
    h["post"] = H.probe_ops(h["db_after"], rng, full, first=first)
    return h


# histories aimed at one area each (always run): the replays of the defects found while building the check and the
# areas the property's rationale names
def targeted_cases():
    db = "load " + H.hx(str(H.DBDIR / "phreeqc.dat"))
    bad = "EQUILIBRIUM_PHASES 9\n Nophase 0 1\nEND\n"
    T = []

    def add(name, hist, post_runs, load_db="phreeqc.dat", pre_sw=()):
        post = ["sw outstr 1", "sw logstr 1", "sw dumpstr 1", "sw selstr 1"] + list(pre_sw)
        for k, t in enumerate(post_runs):
            post += ["run " + H.hx(t), f"probe p{k}", f"state s{k}"]
        T.append(dict(name=name, ops=[db] + hist, load_op="load " + H.hx(str(H.DBDIR / load_db)), db_after=load_db, post=post, spawn=0,
                      tags=["targeted:" + name]))
    add("logfile", ["run " + H.hx("KNOBS\n -logfile true\nSOLUTION 1\nEND\n")], ["SOLUTION 1\n pH 7\n Na 1\n Cl 1\nEND\n"])
    add("copy-after-abort", ["run " + H.hx("COPY solution 1 7\n" + bad)], ["SOLUTION 1\n Na 1\nCOPY solution 1 3\nEND\nDUMP\n -all\nEND\n"])
    add("mix-after-abort", ["run " + H.hx("SOLUTION_MIX 5\n 1 1.0\n" + bad)], ["SOLUTION 2\n Na 1\nEND\nDUMP\n -all\nEND\n"])
    add("gas-binary", ["run " + H.hx("GAS_BINARY_PARAMETERS\n H2O(g) CO2(g) 0.9\nSOLUTION 1\nEND\n")], [H.P_GAS])
    add("stagnant", ["run " + H.hx("SOLUTION 0-3\n Na 1\n Cl 1\nEND\nTRANSPORT\n -cells 2\n -shifts 1\n -stagnant 1 1e-5 0.3 0.1\nEND\n")],
        ["SOLUTION 0-4\n Na 1\n Cl 1\nEND\nSELECTED_OUTPUT\n -totals Na\nTRANSPORT\n -cells 2\n -shifts 2\nEND\n"])
    add("dump-selection", ["run " + H.hx("SOLUTION 1\nDUMP\n -solution 1\n" + bad)], ["SOLUTION 1\n Na 1\nSOLUTION 2\n Cl 1\nEND\n"])
    add("print-selected-output", ["run " + H.hx("PRINT\n -selected_output false\n -dump false\n -echo_input false\nSOLUTION 1\nEND\n")],
        [H.P_BASIC, "SOLUTION 1\n Na 1\nDUMP\n -all\nEND\n"], pre_sw=("sw dumpfile 1", "sw selfile 1"))
    add("delete-run-cells-after-abort", ["run " + H.hx("DELETE\n -solution 1\n -exchange 1\nRUN_CELLS\n -cells 1\n -time_step 10\n -start_time 3\n" + bad)],
        ["SOLUTION 1\n Na 1\nEXCHANGE 1\n X 0.1\n -equilibrate 1\nEND\nRUN_CELLS\n -cells 1\nEND\nDUMP\n -all\nEND\n"])
    add("run-cells-after-abort", ["sw outstr 1", "run " + H.hx("RUN_CELLS\n -cells 1\n -time_step 10\n" + bad)], ["SOLUTION 1\n Na 1\nEND\n"])
    add("spread-after-abort", ["run " + H.hx("SOLUTION_SPREAD\n Na\tCl\n 3\t4\n 5\t6\n" + bad)], ["SOLUTION 1\n Na 1\nEND\nDUMP\n -all\nEND\n"])
    add("rates-cache", ["run " + H.hx("RATES\n Aaa\n -start\n 10 SAVE 1e-3 * TIME\n -end\n Zzz\n -start\n 10 SAVE 2e-3 * TIME\n -end\nSOLUTION 1\nKINETICS 1\n Zzz\n -formula NaCl 1\n -steps 1\nEND\n"),
                        "run " + H.hx("KINETICS 2\n Nosuchrate\n -formula NaCl 1\n -steps 1\nSOLUTION 2\nEND\n")],
        ["SOLUTION 1\n Na 1\nKINETICS 1\n Calcite\n -steps 1\n -m0 1\n Zzz\n -formula NaCl 1\nEND\n", H.P_KIN])
    add("basic-storage", ["run " + H.hx("SOLUTION 1\nUSER_PRINT\n 10 PUT(5, 1)\n 20 PUT(6, 5)\n 30 PUT(7, 2, 3)\nEND\n")], [H.P_BASIC])
    add("knobs", ["run " + H.hx("KNOBS\n -iterations 3\n -step_size 2\n -pe_step_size 1.5\n -convergence_tolerance 1e-3\nSOLUTION 1\nEND\n")],
        [H.P_NOSEL, H.P_REACT])
    return T


def finding_key(member):
    for k, ms in gen_members.FINDING_KEYS.items():
        if member in ms or member.split(".")[0] in ms:
            return k
    return "unreset-" + member.split(".")[0]


def judge(ctx, exe, pol, case, res, stats, uncov=()):
    """turn a comparison result into the violation protocol; returns True when a violation with input was recorded"""
    kind = res["kind"]
    stats[kind] = stats.get(kind, 0) + 1
    for m, c in res.get("info", {}).get("tolerated", {}).items():
        stats.setdefault("tolerated_members", {})[m] = stats.setdefault("tolerated_members", {}).get(m, 0) + c
    if kind == "infrastructure":
        raise RuntimeError("C07 harness problem: " + res.get("what", ""))
    if kind != "diff":
        return False
    replay = dict(ops=case["ops"], load_op=case["load_op"], db_after=case["db_after"], post=case["post"], spawn=case.get("spawn", 0))
    if res["black"] or res["wrapper"]:
        # shrink the history, then the probe runs
        def still(sub):
            c2 = dict(case, ops=sub)
            r2 = compare_case(ctx, exe, pol, c2)
            return r2["kind"] == "diff" and bool(r2["black"] or r2["wrapper"])
        small = shrink_list(case["ops"], still, max_iter=60) if len(case["ops"]) > 1 else case["ops"]
        c2 = dict(case, ops=small)
        r2 = compare_case(ctx, exe, pol, c2)
        if r2["kind"] == "diff" and (r2["black"] or r2["wrapper"]):
            case, res = c2, r2
            replay["ops"] = small
        replay["history_text"] = [unhx(o.split(" ", 1)[1]) if o.split(" ")[0] in ("run", "acc") else o for o in replay["ops"]]
        replay["differences"] = (res["black"] + res["wrapper"])[:8]
        replay["members_not_reset"] = res["white"][:12]
        what = ("after LoadDatabase returned 0 the instance with a history differs from a fresh instance: "
                + "; ".join((res["black"] + res["wrapper"])[:3]))
        # a difference carried by a member the static obligation already names as not reset is one finding per member group
        stale = [m for m in uncov if any(w.split(" ")[1].split(":")[0] == m for w in res["white"])]
        if stale:
            before = len(ctx.violations)
            ctx.finding(finding_key(stale[0]), what + f" [member not reset: {stale[0]}]", replay)
            return len(ctx.violations) > before
        ctx.violation(what, replay)
        return True
    # only engine members differ: correspondence (EngineReset, white box) broken, no observable difference on this case
    stats.setdefault("whitebox_only", []).append(dict(replay=replay, members=res["white"][:12]))
    return False


def run(ctx):
    info, a = gen_members.generate(ctx)
    ctx.cov["translator"] = {k: v for k, v in info.items() if k != "not_dumped"}
    ok = ctx.prove(["PhreeqcVerif.Properties.C07"])
    ctx.build_lib()
    exe = ctx.build_harness("ph_reset", extra=("-I", str(vlib.BUILD / "c07gen")))
    pol = Policy(a)
    n = ctx.n(100, 2500)
    if not ok:
        n = max(n, 300)
    thorough = ctx.tier == "thorough" or not ok
    cases = (targeted_cases() + H.fail_class_cases(ctx.rng, None if thorough else 1) + H.cross_db_cases(ctx.rng, None if thorough else 30)
             + [make_case(ctx.rng, full=(thorough and i % 4 == 0)) for i in range(n)])
    stats, hist_tags, evals, nontrivial = {}, {}, 0, set()
    found = False
    with concurrent.futures.ThreadPoolExecutor(max_workers=max(2, vlib.NCPU - 2)) as ex:
        futs = [(c, ex.submit(compare_case, ctx, exe, pol, c)) for c in cases]
        for c, f in futs:
            res = f.result()
            evals += 1
            for t in c.get("tags", []):
                key = t.split(":")[0] + ":" + t.split(":")[1] if ":" in t else t
                hist_tags[key] = hist_tags.get(key, 0) + 1
            if res["kind"] in ("same", "diff"):
                nontrivial.add((tuple(c["ops"]), c["load_op"]))
                if c.get("ends_failing"):
                    stats["histories_ending_in_a_failing_call"] = stats.get("histories_ending_in_a_failing_call", 0) + 1
            if evals <= 2 or (len(ctx.cov["samples"]) < 3 and any(t.startswith("fail:") for t in c.get("tags", []))):
                ctx.sample({"tags": c.get("tags", [])[:8], "db_after": c["db_after"], "result": res["kind"],
                            "history_calls": len(c["ops"]), "load": res.get("info", {}).get("load")})
            if not found:
                found = judge(ctx, exe, pol, c, res, stats, info["uncovered_readers"] + info["unaccounted"])
            else:
                stats[res["kind"]] = stats.get(res["kind"], 0) + 1
    wb = stats.pop("whitebox_only", [])
    ctx.cov["evaluations"] = evals
    ctx.cov["distinct_nontrivial"] = len(nontrivial)
    ctx.cov["outcomes"] = {k: v for k, v in stats.items() if k != "tolerated_members"}
    ctx.cov["tolerated_member_differences"] = stats.get("tolerated_members", {})
    ctx.cov["history_distribution"] = dict(sorted(hist_tags.items()))
    ctx.cov["whitebox_only_cases"] = len(wb)
    ctx.cov["rule"] = ("history = 1..6 calls on a random shipped database (load/LoadDatabaseString, 1-3 input blocks out of "
                       f"{len(H.BLOCKS)} that leave non-default state in every area, RunString or AccumulateLine+RunAccumulated), random setter "
                       f"calls, then with p=0.7 one of {len(H.FAILS)} failing calls (input error, undefined entity, unknown phase, convergence failure, "
                       "BASIC error, aborted transport/advection/kinetics); then LoadDatabase/LoadDatabaseString of a random database and a probe "
                       "battery of 10-14 runs; instance B: new instance + the survivors + same load + same probes. Compared after the load: all "
                       "result codes, all string/table/file channels (banner masked, file names not compared), every IPhreeqc member by its "
                       "class in ResetPolicy.wrapperClass, every dumped Phreeqc member not listed as scratch/healed/file name. "
                       "non-trivial = distinct histories whose load returned 0 on both instances.")
    if wb and not ctx.violations:
        # correspondence of EngineReset broken without an observable difference on the cases tried
        ctx.violation("engine members claimed reset differ after LoadDatabase (no observable difference found): " + "; ".join(wb[0]["members"][:4]),
                      dict(wb[0]["replay"], members_not_reset=wb[0]["members"], cases=len(wb)), found_input=False)
    if not ok and not ctx.violations:
        ctx.violation("proof obligation of C07 no longer checks and no failing history was found",
                      {"broken": ctx.proof_broken, "uncovered_readers": info["uncovered_readers"], "unaccounted": info["unaccounted"]},
                      found_input=False)


def replay(ctx, data):
    info, a = gen_members.generate(ctx)
    ctx.build_lib()
    exe = ctx.build_harness("ph_reset", extra=("-I", str(vlib.BUILD / "c07gen")))
    if "ops" not in data:
        return run(ctx)
    pol = Policy(a)
    case = dict(ops=data["ops"], load_op=data["load_op"], db_after=data.get("db_after", ""), post=data["post"], spawn=data.get("spawn", 0))
    res = compare_case(ctx, exe, pol, case)
    print("replay:", res["kind"], (res["black"] + res["wrapper"] + res["white"])[:6])
    if res["kind"] == "diff":
        ctx.violation("replayed history still differs from a fresh instance after the load: " + "; ".join((res["black"] + res["wrapper"] + res["white"])[:3]),
                      dict(data, differences=(res["black"] + res["wrapper"] + res["white"])[:8]))


MANIFEST = dict(
    technique="Lean 4: state-machine theorems over all call histories for the IPhreeqc wrapper (unload/load/test_db) with the engine reset only up to an indistinguishability relation; decide over member / pointer / policy-evidence tables regenerated from the clang AST; differential correspondence history+load vs fresh+load on the real code (black box, wrapper members, white-box member dump, deep table hashes)",
    text="Theorems (Properties/C07.lean, 31): load_resets_wrapper, load_result_eq_fresh, load_then_calls_eq_fresh, load_depends_on_survivors_only, load_keeps_id_and_switches, load_keeps_names, unload_resets under EngineReset; load_resets_wrapper_upto, load_then_calls_eq_fresh_upto, calls_preserve_relation under the weaker Respects/EngineResetUpTo R (simulation proof over every call of the API); c07_member_engine: for every engine whose state is a valuation of the numbered members, whose unload is the reset path as extracted from the source and whose operations cannot see the members reviewed as dead, observations after a successful load equal those of a fresh instance (joins the generated tables to the wrapper theorems through live_members_reset); witnesses load_failure_keeps_output_string, engine_reset_needed. Obligations over Gen/Members.lean (593 members + 112 field paths; sets from init/initialize/clean_up/UnLoadDatabase/read_input prologue and the functions reachable from read_input): readers_state_reset, every_member_accounted, live_members_reset, pointer_members_reset (60 pointer members reassigned; owning pointers released; released pointers reassigned), healed_reasons_hold and scratch_writers_exist (each reviewed reason names a code shape -- unconditional top-level reset, writer function -- that the AST must still show), io_flags_reset, reset_mask_ok, dead_mask_ok, policy_ids_ok, translator_clean, wrapper_* (4). Correspondence: targeted regressions, every failing-call class x LoadDatabase/LoadDatabaseString, ordered pairs of the 17 loadable shipped databases with mass-unit follow-ups at 0-100 C, seeded random histories; compared: all channels, IPhreeqc members by model class, ~680 engine member paths, FNV hashes of 24 tables reachable from the engine (elements, master, species incl. working values, phases, logk, pitzer/sit/theta parameters, aphi, rates and BASIC line pointers, user punch/print, selected-output objects, calculate_values, isotopes, gfw_map, save_values, cell_data).",
    note="Trusted: gen_members.py (clang-14 JSON AST walk: reset-form = assignment / .clear() / element assignment in a loop; retries a killed clang, fails closed into translatorErrors/unknownResetCallees), the reviewed lists of Model/ResetPolicy.lean (scratch, healed, fileNames, ioHealed, freedElsewhere, wrapperClass -- each reason now tied to a code shape), harness/ph_reset.cpp, the comparison in props/c07.py. Respects (dead members are not read before written) is assumption + exploration, not a proof about C++ semantics. Input-given file names (SELECTED_OUTPUT -file, DUMP -file, TRANSPORT -dump_file) are treated as user-set file names and not generated. Concrete_PHR.dat / Concrete_PZ.dat do not load (input errors) and are not used.",
)
