// C14 correspondence harness: a history of RunString calls on one IPhreeqc instance. After every call the reaction
// store is observed through the public interface only:
//   R <errors> <hex error string>          result of the call
//   U <hex>                                dump string produced by the call itself (DUMP blocks inside the input)
//   D <hex>                                dump string of a following, otherwise empty, run "DUMP; -all"
//   F <errors> <hex error string>          result of that observing run (pending requests of a stopped call run here)
//   C <n> <name>...                        GetComponentCount / GetComponent
// ops:  new <hex database path> | run <hex input> | peek <kind> <n>  (friend access: does the engine map hold key n?)
#include "friend.hpp"
#include "hx.hpp"
#include "IPhreeqc.hpp"
#include <memory>

static const char* DUMPALL = "DUMP\n-all\nEND\n";

int main(){
  std::unique_ptr<IPhreeqc> p;
  std::string line;
  while(std::getline(std::cin,line)){
    auto w = hx::words(line); if(w.empty()) continue;
    const std::string& op = w[0];
    if(op=="new"){
      p.reset(new IPhreeqc());
      p->SetOutputFileOn(false); p->SetErrorFileOn(false); p->SetLogFileOn(false); p->SetSelectedOutputFileOn(false);
      p->SetDumpFileOn(false); p->SetDumpStringOn(true); p->SetErrorStringOn(true); p->SetErrorOn(true);
      int e = p->LoadDatabase(hx::unhex(w[1]).c_str());
      std::cout<<"N "<<e<<"\n";
    } else if(op=="run" && p){
      std::string in = hx::unhex(w[1]);
      int e = p->RunString(in.c_str());
      std::string err = p->GetErrorString();
      std::cout<<"R "<<e<<" "<<hx::hex(err)<<"\n";
      std::string u = p->GetDumpString();
      std::cout<<"U "<<hx::hex(u)<<"\n";
      int e2 = p->RunString(DUMPALL);
      std::string d = p->GetDumpString();
      std::cout<<"D "<<hx::hex(d)<<"\n";
      std::cout<<"F "<<e2<<" "<<hx::hex(e2 ? std::string(p->GetErrorString()) : std::string())<<"\n";
      size_t n = p->GetComponentCount();
      std::cout<<"C "<<n;
      for(size_t i=0;i<n;i++) std::cout<<" "<<p->GetComponent((int)i);
      std::cout<<"\n";
    } else std::cout<<"bad-op\n";
    std::cout.flush();
  }
  return 0;
}
