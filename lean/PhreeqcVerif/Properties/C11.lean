import PhreeqcVerif.Lemmas.Transport
/-! # C11 — transport only moves dissolved mass: conservation, exact shifts, bounded mixing

Theorems about the executable model `Model/Transport.lean` of `init_mix` (non-multicomponent branch), the sub-mix of
`transport()` + `add_mix`, the advective copy loop and their iteration over shifts. Every statement is for **all**
column set-ups (any number of cells, lengths, dispersivities, diffusion coefficient, time step, flow direction, boundary
condition pair, `correct_disp`), all initial columns and any number of shifts and sub-mixes.

* `weights_convex`, `bounded_mixing`, `concentration_range` — full strength.
* `closed_inventory_constant` — the property's conservation clause (diffusion only, closed ends, equal lengths).
* `advective_shift_exact_forward/back`, `pure_advection_nmix_zero`, `pure_advection_step`, `advection_keyword_exact`.
* `flux_inventory_balance`, `flux_inventory_balance_back` — with flow and flux boundaries the inventory changes by
  inflow − outflow, for any dispersivities. (On the tree before /repo commit 02a99847 this was false of the code: a
  stale local `dav` in `init_mix`, DESIGN §6 item 7, lost 2/15 of a tracer in one step; `stale_dav_regression` keeps
  the witness.)

The tie to the C++ is in `tools/props/c11.py` (mixing factors read mid-run from `Dispersion_mix_map`, end-to-end runs). -/
namespace PhreeqcVerif.Transport


theorem rawMix_max_nonneg (s : Setup) : 0 ≤ (rawMix s).2 := by
  show 0 ≤ lastMax s _ (firstMax s _ (loopMax _))
  exact le_trans (le_trans (foldl_updMax_ge _ 0).1 (firstMax_ge _ _ _)) (lastMax_ge _ _ _)

/-- **weights_convex** — for every physically meaningful column set-up (any number of cells, any lengths,
dispersivities — zero ones included —, diffusion coefficient, time step, flow direction, boundary
condition pair, `correct_disp`) every entry of `Dispersion_mix_map` computed by `init_mix` is a convex combination:
the three weights are non-negative, at most one, sum to one, and the self weight exceeds 1/3. -/
theorem weights_convex (s : Setup) (hs : s.Valid) :
    ∀ w ∈ (initMix s).weights, w.Convex ∧ 1 / 3 < w.s ∧ w.l ≤ 1 ∧ w.r ≤ 1 ∧ w.s ≤ 1 := by
  intro w hw
  simp only [initMix] at hw
  by_cases h0 : (rawMix s).2 = 0
  · simp [nmixOf, h0, weightsWith] at hw
  · have hpos : 0 < (rawMix s).2 := lt_of_le_of_ne (rawMix_max_nonneg s) (Ne.symm h0)
    exact weightsWith_convex (rawMix_bnd hs) (nmixOf_gt s hpos) (nmixOf_pos s hpos) w hw

/-- `init_mix` stores one triple per cell (when there is anything to mix) -/
theorem weights_length (s : Setup) (h : (initMix s).nmix ≠ 0) : (initMix s).weights.length = s.n := by
  simp only [initMix] at h ⊢
  rw [weightsWith_length _ h]
  show (lastFix s (firstFix s (cellLoop s none s.cells 0))).length = s.cells.length
  have h1 : ∀ ps : List (Rat × Rat), (lastFix s ps).length = ps.length := by
    intro ps; unfold lastFix; split
    · split
      · exact modLast_length _ _
      · rfl
    · rfl
  have h2 : ∀ ps : List (Rat × Rat), (firstFix s ps).length = ps.length := by
    intro ps; unfold firstFix; split
    · split
      · cases ps <;> simp [modHead]
      · rfl
    · rfl
  rw [h1, h2, cellLoop_length]

/-- one transport step keeps every value inside `[lo, hi]` -/
theorem transportStep_within (s : Setup) (hs : s.Valid) {lo hi : Rat} {c : Col Rat} (hc : c.Within lo hi) :
    (transportStep s c).Within lo hi :=
  transportStepWith_within (fun w hw => (weights_convex s hs w hw).1) _ _ _ hc

/-- **bounded_mixing** (max/min principle) — with a single diffusion coefficient, for every column set-up, every
number of shifts and sub-mixes: if the initial column and the two boundary solutions lie in `[lo, hi]`, so does every
cell after every transport step. -/
theorem bounded_mixing (s : Setup) (hs : s.Valid) (shifts : Nat) {lo hi : Rat} {c : Col Rat} (hc : c.Within lo hi) :
    ∀ c' ∈ transportRun s shifts c, c'.Within lo hi :=
  runWith_within (fun _ h => transportStep_within s hs h) shifts c hc

/-- **concentration_range** — the range clause of the property for *concentrations* in cells of different water
content: `add_mix` mixes the amount of a solute and the mass of water with the same fractions, so if in every cell and
boundary solution of the initial column `lo·water ≤ amount ≤ hi·water` (concentration in `[lo, hi]`), the same holds in
every cell after every transport step — for every set-up, any number of shifts and sub-mixes. (That the water mass after
speciation equals the mixed water mass up to ~1e-9 is observed on the real outputs, not proved.) -/
theorem concentration_range (s : Setup) (hs : s.Valid) (shifts : Nat) {lo hi : Rat} {n w : Col Rat}
    (h : Col.RelW lo hi n w) :
    List.Forall₂ (Col.RelW lo hi) (transportRun s shifts n) (transportRun s shifts w) :=
  runWith_rel (fun _ _ h => transportStepWith_rel (fun w hw => (weights_convex s hs w hw).1) _ _ _ h) shifts n w h

/-- equal cell lengths, no flow, no constant-concentration boundary: the stored weights are symmetric -/
theorem initMix_sym (s : Setup) (hf : s.flow = Flow.none) (h1 : s.bconFirst ≠ 1) (h2 : s.bconLast ≠ 1)
    {L : Rat} (hL : ∀ c ∈ s.cells, c.len = L) (hk : (initMix s).nmix ≠ 0) : SymFrom 0 (initMix s).weights := by
  simp only [initMix] at hk ⊢
  have e : (rawMix s).1 = cellLoop s none s.cells 0 := by
    show lastFix s (firstFix s (cellLoop s none s.cells 0)) = _
    simp [lastFix, firstFix, h1, h2]
  rw [e]
  have : SymP 0 (cellLoop s none s.cells 0) := by
    cases hc : s.cells with
    | nil => simp [cellLoop, SymP]
    | cons c rest =>
      rw [hc] at hL
      exact cellLoop_sym hf rest c none 0 (hL c (by simp)) (fun x h => hL x (by simp [h])) (by intro p h; cases h)
  simpa using weightsWith_sym hk _ 0 this

/-- one diffusion-only step of a closed equal-length column keeps the inventory -/
theorem transportStep_sum (s : Setup) (hf : s.flow = Flow.none) (h1 : s.bconFirst ≠ 1) (h2 : s.bconLast ≠ 1)
    {L : Rat} (hL : ∀ c ∈ s.cells, c.len = L) {c : Col Rat} (hn : c.cells.length = s.n) :
    (transportStep s c).sum = c.sum ∧ (transportStep s c).cells.length = s.n := by
  unfold transportStep transportStepWith
  simp only [hf, shift]
  by_cases hk : (initMix s).nmix = 0
  · have hp : preMixes s 0 = 0 := by simp [preMixes]
    simp [hk, iter, hn, hp]
  · have hs := initMix_sym s hf h1 h2 hL hk
    have hl : c.cells.length = (initMix s).weights.length := by rw [weights_length s hk, hn]
    obtain ⟨a1, b1⟩ := iter_mixStep_sum hs (preMixes s (initMix s).nmix) c hl
    obtain ⟨a2, b2⟩ := iter_mixStep_sum hs ((initMix s).nmix - preMixes s (initMix s).nmix) _ (by rw [b1]; exact hl)
    exact ⟨by rw [a2, a1], by rw [b2, b1, hn]⟩

/-- **closed_inventory_constant** — diffusion only, no constant-concentration boundary (closed; a flux boundary
without flow is coded identically), equal cell lengths; any number of cells, any diffusion coefficient and time step
(hence any number of sub-mixes), any number of shifts: the column inventory after every shift equals the initial one. -/
theorem closed_inventory_constant (s : Setup) (hf : s.flow = Flow.none) (h1 : s.bconFirst ≠ 1) (h2 : s.bconLast ≠ 1)
    {L : Rat} (hL : ∀ c ∈ s.cells, c.len = L) (shifts : Nat) {c : Col Rat} (hn : c.cells.length = s.n) :
    ∀ c' ∈ transportRun s shifts c, c'.sum = c.sum := by
  unfold transportRun
  induction shifts generalizing c with
  | zero => intro c' h; simp [runWith] at h
  | succ k ih =>
    intro c' h
    obtain ⟨a, b⟩ := transportStep_sum s hf h1 h2 hL hn
    simp only [runWith, List.mem_cons] at h
    rcases h with rfl | h
    · exact a
    · rw [ih b c' h, a]

/-! ### advective shift -/

/-- **advective_shift_exact** (forward) — after the copy loop cell `i+1` (list index `i`) holds the previous content
of cell `i` (index `i` of `first :: cells`): cell 1 receives the inflow solution 0, the boundary solutions are unchanged. -/
theorem advective_shift_exact_forward (c : Col Rat) :
    (shiftF c).cells.length = c.cells.length ∧ (shiftF c).first = c.first ∧ (shiftF c).last = c.last ∧
    ∀ i, i < c.cells.length → (shiftF c).cells[i]? = (c.first :: c.cells)[i]? := by
  refine ⟨by simp [shiftF], rfl, rfl, ?_⟩
  intro i hi
  simp only [shiftF]
  rw [List.getElem?_dropLast]
  simp [hi]

/-- **advective_shift_exact** (backward) — cell `i` receives the previous content of cell `i+1`, cell `n` the
solution `n+1`. -/
theorem advective_shift_exact_back (c : Col Rat) :
    (shiftB c).cells.length = c.cells.length ∧ (shiftB c).first = c.first ∧ (shiftB c).last = c.last ∧
    ∀ i, i < c.cells.length → (shiftB c).cells[i]? = (c.cells ++ [c.last])[i + 1]? := by
  refine ⟨?_, rfl, rfl, ?_⟩
  · simp only [shiftB]; cases c.cells <;> simp
  · intro i hi
    simp only [shiftB]
    cases hc : c.cells with
    | nil => simp [hc] at hi
    | cons x t => simp

/-- pure advection: all dispersivities zero and no diffusion (`D = 0` or `Δt = 0`) ⇒ `init_mix` returns 0 sub-mixes -/
theorem pure_advection_nmix_zero (s : Setup) (hd : ∀ c ∈ s.cells, c.disp = 0) (h0 : s.diffc = 0 ∨ s.timest = 0) :
    (initMix s).nmix = 0 := by
  have hD : diffcHere s = 0 := by rcases h0 with h | h <;> simp [diffcHere, h]
  simp [initMix, nmixOf, rawMix_zero hd hD]

/-- **pure_advection_step** — with pure advection a transport step *is* the advective copy, for every column -/
theorem pure_advection_step (s : Setup) (hd : ∀ c ∈ s.cells, c.disp = 0) (h0 : s.diffc = 0 ∨ s.timest = 0) (c : Col Rat) :
    transportStep s c = shift s.flow c := by
  have hk := pure_advection_nmix_zero s hd h0
  simp [transportStep, transportStepWith, hk, preMixes, iter]


/-! ### flow with flux boundaries: inventory balance -/

/-- flow, no constant-concentration boundary, equal lengths (any dispersivities, zero ones included): the stored
weights are symmetric, `m1[i] = m[i+1]` -/
theorem initMix_sym_flow (s : Setup) (hm : s.moving = true) (h1 : s.bconFirst ≠ 1) (h2 : s.bconLast ≠ 1)
    {L : Rat} (hL : ∀ c ∈ s.cells, c.len = L) (hk : (initMix s).nmix ≠ 0) : SymFrom 0 (initMix s).weights := by
  simp only [initMix] at hk ⊢
  have e : (rawMix s).1 = cellLoop s none s.cells 0 := by
    show lastFix s (firstFix s (cellLoop s none s.cells 0)) = _
    simp [lastFix, firstFix, h1, h2]
  rw [e]
  have : SymP 0 (cellLoop s none s.cells 0) := by
    cases hc : s.cells with
    | nil => simp [cellLoop, SymP]
    | cons c rest =>
      rw [hc] at hL
      exact cellLoop_sym_flow hm rest c none 0 (hL c (by simp)) (fun x h => hL x (by simp [h])) (by intro p h; cases h)
  simpa using weightsWith_sym hk _ 0 this

/-- sub-mixes with flow and flux boundaries at both ends keep the inventory -/
theorem flow_mixes_keep_sum (s : Setup) (hm : s.moving = true) (h1 : s.bconFirst = 3) (h2 : s.bconLast = 3)
    {L : Rat} (hL : ∀ c ∈ s.cells, c.len = L) (k : Nat) {c : Col Rat} (hn : c.cells.length = s.n) :
    (iter (mixStep (initMix s).weights) k c).sum = c.sum := by
  by_cases hk : (initMix s).nmix = 0
  · have : (initMix s).weights = [] := by simp [initMix] at hk ⊢; simp [hk, weightsWith]
    rw [this]
    induction k generalizing c with
    | zero => rfl
    | succ k ih =>
      have e : mixStep ([] : List (W Rat)) c = c := by cases c with | mk f cs l => cases cs <;> simp [mixStep, mixGo]
      rw [iter, e]; exact ih hn
  · have hs := initMix_sym_flow s hm (by omega) (by omega) hL hk
    exact (iter_mixStep_sum hs k c (by rw [weights_length s hk, hn])).1

/-- **flux_inventory_balance** (forward flow) — flux boundaries at both ends, equal cell lengths; any dispersivities
(zero ones included), diffusion coefficient, time step, number of sub-mixes, any column: after a transport step
`inventory + (content of the last cell before the step) = old inventory + inflow solution` — dissolved mass is moved,
never created or lost. (Before /repo commit 02a99847 this needed the hypothesis "no zero dispersivity": the stale local
`dav` of `init_mix` made `m1[i] ≠ m[i+1]`; see `stale_dav_regression`.) -/
theorem flux_inventory_balance (s : Setup) (hf : s.flow = Flow.forward) (h1 : s.bconFirst = 3) (h2 : s.bconLast = 3)
    {L : Rat} (hL : ∀ c ∈ s.cells, c.len = L) {c : Col Rat} (hn : c.cells.length = s.n) :
    (transportStep s c).sum + (c.first :: c.cells).getLast (List.cons_ne_nil _ _) = c.sum + c.first := by
  have hm : s.moving = true := by simp [Setup.moving, hf]
  have hb : bC s = false := by simp [bC, hm, h1, h2]
  have hshift : (shiftF c).sum + (c.first :: c.cells).getLast (List.cons_ne_nil _ _) = c.sum + c.first := by
    have := dropLast_sum_add_getLast (c.first :: c.cells) (List.cons_ne_nil _ _)
    simp only [Col.sum, shiftF, List.sum_cons] at this ⊢
    linarith
  unfold transportStep transportStepWith
  simp only [hf, shift, preMixes, hb, Bool.false_eq_true, if_false, iter, Nat.sub_zero]
  rw [flow_mixes_keep_sum s hm h1 h2 hL _ (by simpa [shiftF] using hn)]
  exact hshift

/-- **flux_inventory_balance** (backward flow): `inventory + (content of cell 1 before the step) = old inventory +
solution n+1` -/
theorem flux_inventory_balance_back (s : Setup) (hf : s.flow = Flow.back) (h1 : s.bconFirst = 3) (h2 : s.bconLast = 3)
    {L : Rat} (hL : ∀ c ∈ s.cells, c.len = L) {c : Col Rat} (hn : c.cells.length = s.n) (hpos : c.cells ≠ []) :
    (transportStep s c).sum + c.cells.head hpos = c.sum + c.last := by
  have hm : s.moving = true := by simp [Setup.moving, hf]
  have hb : bC s = false := by simp [bC, hm, h1, h2]
  have hlen : (shiftB c).cells.length = s.n := by
    rw [← hn]; simp only [shiftB]; cases c.cells <;> simp
  have hshift : (shiftB c).sum + c.cells.head hpos = c.sum + c.last := by
    obtain ⟨f, cs, l⟩ := c
    cases cs with
    | nil => exact absurd rfl hpos
    | cons x t => simp [Col.sum, shiftB]; ring
  unfold transportStep transportStepWith
  simp only [hf, shift, preMixes, hb, Bool.false_eq_true, if_false, iter, Nat.sub_zero]
  rw [flow_mixes_keep_sum s hm h1 h2 hL _ hlen]
  exact hshift

/-- regression input of the finding "stale `dav`" (three cells of length 1, dispersivities 0.1, 0.1, 0): with the
reset of `dav` the factors are symmetric (`m1[2] = m[3] = 1/5`; the unrepaired code gave `m[3] = 1/15`) … -/
theorem stale_dav_regression :
    (rawMix { cells := [⟨1, 1/10⟩, ⟨1, 1/10⟩, ⟨1, 0⟩], flow := .forward, bconFirst := 3, bconLast := 3,
              correctDisp := false, diffc := 0, timest := 0 }).1 = [(0, 1/10), (1/10, 1/5), (1/5, 0)] := by
  decide +kernel

/-- … and the tracer placed in cell 1 is still all there after one step (the unrepaired code kept 13/15 of it). -/
theorem stale_dav_regression_inventory :
    (transportStep { cells := [⟨1, 1/10⟩, ⟨1, 1/10⟩, ⟨1, 0⟩], flow := .forward, bconFirst := 3, bconLast := 3,
                     correctDisp := false, diffc := 0, timest := 0 } { first := 0, cells := [1, 0, 0], last := 0 }).sum = 1 := by
  decide +kernel

/-- the ADVECTION keyword: every step is the exact copy of the upstream neighbour -/
theorem advection_keyword_exact (c : Col Rat) (k : Nat) :
    advectionRun (k + 1) c = shiftF c :: advectionRun k (shiftF c) := rfl

/-! ### non-vacuity: concrete, non-trivial instances -/

/-- a 3-cell column, unequal lengths, mixed dispersivities, forward flow, constant/flux boundaries -/
def exSetup : Setup :=
  { cells := [⟨1, 1/10⟩, ⟨1/2, 0⟩, ⟨2, 3/10⟩], flow := .forward, bconFirst := 1, bconLast := 3,
    correctDisp := true, diffc := 1/1000, timest := 100 }

example : exSetup.Valid := by
  refine ⟨?_, by decide +kernel, by decide +kernel⟩
  intro c hc
  simp only [exSetup, List.mem_cons, List.mem_nil_iff, or_false] at hc
  rcases hc with rfl | rfl | rfl <;> exact ⟨by decide +kernel, by decide +kernel⟩

example : (initMix exSetup).nmix = 2 := by decide +kernel
example : (initMix exSetup).weights.length = 3 := by decide +kernel
-- the weights are not trivial (all three entries of the middle cell are strictly positive)
example : ((initMix exSetup).weights.map fun w => decide (0 < w.l ∧ 0 < w.s ∧ 0 < w.r)) = [true, true, false] := by decide +kernel

/-- closed, equal lengths, diffusion only: 4 cells, `nmix = 4`, tracer 1 in the first cell -/
def exClosed : Setup :=
  { cells := [⟨1/2, 0⟩, ⟨1/2, 0⟩, ⟨1/2, 0⟩, ⟨1/2, 0⟩], flow := .none, bconFirst := 2, bconLast := 2,
    correctDisp := false, diffc := 1/100, timest := 25 }

example : (initMix exClosed).nmix = 4 := by decide +kernel
example : (transportRun exClosed 2 { first := 5, cells := [1, 0, 0, 0], last := 7 }).map Col.sum = [1, 1] := by decide +kernel
-- … and the column really changes
example : ((transportRun exClosed 1 { first := 5, cells := [1, 0, 0, 0], last := 7 }).map Col.cells) ≠ [[1, 0, 0, 0]] := by
  decide +kernel
-- unequal lengths are *not* conservative in this scheme (the engine warns "Unequal cell-lengths may give mass-balance error")
example : (transportRun { exClosed with cells := [⟨1/2, 0⟩, ⟨1, 0⟩, ⟨1/2, 0⟩, ⟨1/2, 0⟩] } 1
    { first := 5, cells := [1, 0, 0, 0], last := 7 }).map Col.sum ≠ [1] := by decide +kernel

-- concentration range: amounts 1,0,4 mol in 1, 2, 2 kg water (concentrations 1, 0, 2 ∈ [0,2]); boundaries 0 and 2
example : Col.RelW 0 2 { first := 0, cells := [1, 0, 4], last := 4 } { first := 1, cells := [1, 2, 2], last := 2 } := by
  have r : ∀ a b : Rat, (0 * b ≤ a ∧ a ≤ 2 * b) → Rel 0 2 a b := fun _ _ h => h
  refine ⟨r _ _ (by decide +kernel), ?_, r _ _ (by decide +kernel)⟩
  exact List.Forall₂.cons (r _ _ (by decide +kernel)) (List.Forall₂.cons (r _ _ (by decide +kernel))
    (List.Forall₂.cons (r _ _ (by decide +kernel)) List.Forall₂.nil))

example : (shiftF { first := 9, cells := [1, 2, 3], last := 7 } : Col Rat).cells = [9, 1, 2] := by decide +kernel
example : (shiftB { first := 9, cells := [1, 2, 3], last := 7 } : Col Rat).cells = [2, 3, 7] := by decide +kernel

/-! ### stagnant layer (`-stagnant 1 exch_f th_m th_im`) -/

/-- **stagnant_exchange_conserves** — the mobile/immobile exchange fractions that `transport()` stores in `Rxn_mix_map`
move mass between the two cells without creating or losing any, for every exchange factor, time step (every value of
the exponential), whenever the two water masses are in the ratio of the porosities. -/
theorem stagnant_exchange_conserves (f thM thIm wm wim : Rat) (hM : thM ≠ 0) (hwm : wm ≠ 0) (hwi : wim ≠ 0)
    (hr : wim * thM = wm * thIm) (m i : Rat) :
    let w := stagWeights f thM thIm wm wim
    (w.mSelf * m + w.mFromIm * i) + (w.imFromM * m + w.imSelf * i) = m + i := by
  intro w
  obtain ⟨h1, h2⟩ := stagWeights_conserving f thM thIm wm wim hM hwm hwi hr
  have e1 : w.mSelf = 1 - w.imFromM := by show (stagWeights f thM thIm wm wim).mSelf = _; linarith
  have e2 : w.imSelf = 1 - w.mFromIm := by show (stagWeights f thM thIm wm wim).imSelf = _; linarith
  rw [e1, e2]; ring

/-- if the water masses are *not* in the ratio of the porosities the exchange is not conservative (the reason why
the generator sets the immobile water to `th_im/th_m` kg): th_m = 0.3, th_im = 0.1, both waters 1 kg, f = 1/2 -/
example : let w := stagWeights (1/2 : Rat) (3/10) (1/10) 1 1
    (w.mSelf * 1 + w.mFromIm * 0) + (w.imFromM * 1 + w.imSelf * 0) ≠ 1 + 0 := by decide +kernel

/-- **closed_inventory_constant_stagnant** — diffusion only, no constant boundary, equal lengths, a stagnant layer whose
exchange fractions are conserving (`stagWeights_conserving`): the inventory of mobile + immobile cells is the same
after every shift, for any number of sub-mixes and shifts. -/
theorem closed_inventory_constant_stagnant (s : Setup) (hf : s.flow = Flow.none) (h1 : s.bconFirst ≠ 1) (h2 : s.bconLast ≠ 1)
    {L : Rat} (hL : ∀ c ∈ s.cells, c.len = L) {sw : List (Option (StagW Rat))} (hsw : ∀ w, some w ∈ sw → w.Conserving)
    (shifts : Nat) {c : SCol Rat} (hn : c.mob.cells.length = s.n) :
    ∀ c' ∈ transportStagRun s sw shifts c, c'.sum = c.sum := by
  have step : ∀ c : SCol Rat, c.mob.cells.length = s.n →
      (transportStagStepWith (initMix s).weights sw (initMix s).nmix (preMixes s (initMix s).nmix) s.flow c).sum = c.sum ∧
      (transportStagStepWith (initMix s).weights sw (initMix s).nmix (preMixes s (initMix s).nmix) s.flow c).mob.cells.length = s.n := by
    intro c hn
    unfold transportStagStepWith
    simp only [hf, shift, ne_eq, not_true_eq_false, and_false, if_false]
    by_cases hk : (initMix s).nmix = 0
    · have hp : preMixes s 0 = 0 := by simp [preMixes]
      simp [hk, hp, iterS, hn]
    · have hs := initMix_sym s hf h1 h2 hL hk
      have hl : c.mob.cells.length = (initMix s).weights.length := by rw [weights_length s hk, hn]
      obtain ⟨a1, b1⟩ := iterS_mixStagStep_sum hs hsw (preMixes s (initMix s).nmix) c hl
      obtain ⟨a2, b2⟩ := iterS_mixStagStep_sum hs hsw ((initMix s).nmix - preMixes s (initMix s).nmix) _ (by rw [b1]; exact hl)
      exact ⟨by rw [a2, a1], by rw [b2, b1, hn]⟩
  unfold transportStagRun
  simp only
  induction shifts generalizing c with
  | zero => intro c' h; simp [runWithS] at h
  | succ k ih =>
    intro c' h
    obtain ⟨a, b⟩ := step c hn
    simp only [runWithS, List.mem_cons] at h
    rcases h with rfl | h
    · exact a
    · rw [ih b c' h, a]

/-- **concentration_range_stagnant** — the range clause with a stagnant layer: non-negative exchange fractions
(`stagWeights_nonneg`: `0 ≤ f ≤ 1`, positive porosities and water masses) keep every mobile and immobile concentration
within the range of the initial mobile + immobile column and the boundary solutions. -/
theorem concentration_range_stagnant (s : Setup) (hs : s.Valid) {sw : List (Option (StagW Rat))}
    (hsw : ∀ w, some w ∈ sw → w.Nonneg) (shifts : Nat) {lo hi : Rat} {n w : SCol Rat} (h : SCol.RelW lo hi n w) :
    List.Forall₂ (SCol.RelW lo hi) (transportStagRun s sw shifts n) (transportStagRun s sw shifts w) :=
  runWithS_rel (fun _ _ hh => transportStagStepWith_rel (fun w hw => (weights_convex s hs w hw).1) hsw _ _ _ hh) shifts n w h

-- non-vacuity: th_m = 0.2, th_im = 0.1, water 1 kg / 0.5 kg, f = 1/3: conserving, non-negative, and the pair really exchanges
example : (stagWeights (1/3 : Rat) (1/5) (1/10) 1 (1/2)).Conserving := by
  unfold StagW.Conserving; decide +kernel
example : (stagWeights (1/3 : Rat) (1/5) (1/10) 1 (1/2)).Nonneg := by
  unfold StagW.Nonneg; decide +kernel
example : (transportStagRun exClosed [some (stagWeights (1/3 : Rat) (1/5) (1/10) 1 (1/2)), none, none, none] 2
    { mob := { first := 5, cells := [1, 0, 0, 0], last := 7 }, imm := [3, 0, 0, 0] }).map SCol.sum = [4, 4] := by decide +kernel
example : ((transportStagRun exClosed [some (stagWeights (1/3 : Rat) (1/5) (1/10) 1 (1/2)), none, none, none] 1
    { mob := { first := 5, cells := [1, 0, 0, 0], last := 7 }, imm := [3, 0, 0, 0] }).map SCol.imm) ≠ [[3, 0, 0, 0]] := by decide +kernel

/-! ### constant-concentration boundaries: the exchange with the boundary solutions is accounted for -/

/-- **constant_boundary_mix_balance** — diffusion only, equal cell lengths, *any* boundary-condition pair: one sub-mix
changes the column inventory exactly by the exchange with the two boundary solutions,
`m[1]/nmix · (c₀ − c₁) + m1[n]/nmix · (c_{n+1} − c_n)`, where `m[1]`, `m1[n]` (`aEnd`, `bEnd`) are the boundary factors
of `init_mix` (zero unless the boundary is constant). With closed/flux ends this is `closed_inventory_constant`. -/
theorem constant_boundary_mix_balance (s : Setup) (hf : s.flow = Flow.none) {L : Rat} (hL : ∀ c ∈ s.cells, c.len = L)
    (hk : (initMix s).nmix ≠ 0) {c : Col Rat} (x : Rat) (xs : List Rat) (hc : c.cells = x :: xs) (hn : c.cells.length = s.n) :
    (mixStep (initMix s).weights c).sum =
      c.sum + aEnd s / ((initMix s).nmix : Rat) * (c.first - x)
            + bEnd s / ((initMix s).nmix : Rat) * (c.last - (x :: xs).getLast (List.cons_ne_nil _ _)) := by
  have hne : s.cells ≠ [] := by
    intro h
    have : s.n = 0 := by simp [Setup.n, h]
    rw [this, hc] at hn
    simp at hn
  have hs : SymEnds (bEnd s / ((initMix s).nmix : Rat)) (aEnd s / ((initMix s).nmix : Rat)) (initMix s).weights := by
    have := weightsWith_symE hk (bEnd s) _ _ (rawMix_symE s hf hL hne)
    simpa [initMix] using this
  exact mixStep_sum_ends hs x xs hc (by rw [weights_length s hk, hn])

-- non-vacuity: constant boundary at the first end (solution 0 = 5), closed at the other: the inventory grows by exactly
-- the boundary exchange
example : aEnd { exClosed with bconFirst := 1 } = 2 ∧ bEnd { exClosed with bconFirst := 1 } = 0 := by decide +kernel
example : (initMix { exClosed with bconFirst := 1 }).nmix = 5 := by decide +kernel
example : (mixStep (initMix { exClosed with bconFirst := 1 }).weights { first := 5, cells := [1, 0, 0, 0], last := 7 }).sum
    = 1 + 2 / 5 * (5 - 1) := by decide +kernel

end PhreeqcVerif.Transport
