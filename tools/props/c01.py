"""C01 — speciation results satisfy the database's equilibrium and balance equations.

Proof obligations: Properties/C01.lean (kCalc linear in the log K vector, reference-temperature and 1 atm facts, ΔH unit
conversion, rewriting of mass-action equations preserves the database equation and the element/charge balance for every
substitution sequence, speciate satisfies mass action, the convergence gate is sound for EVERY step function, escape
clauses of the per-unknown tests, read-out identities) on the executable models Model/Thermo.lean + Model/Speciation.lean.
Tie: harness/ph_speciate.cpp dumps the engine's speciation state at every punch (friend access) plus the public read-outs;
`pmodel speciate` recomputes from the database text parsed independently by tools/dbparse.py:
 (a) rewritten stoichiometry, (b) log K vector and lk(T), (c) DATABASE mass-action residual of every species (<= 1e-9),
 (d) element totals / charge balance / ionic strength / alkalinity (1e-7 relative), (e) read-out identities, (f) the
 converged verdict; k_calc is also called directly on random vectors. The engine's reading of every database is compared
 with the independent parser's (species, reactions, log K options, named expressions, phases)."""
import concurrent.futures
import json
import math
import os
import re
import struct
import time
from pathlib import Path

import dbparse
import gen_speciation
import vlib
from gens import speciate as gens
from vlib import shrink_list

MANIFEST = dict(
    technique="Lean 4 proof on an executable model (layers F+L) + translator of source constants/code shapes + in-process differential correspondence with an independent database parser",
    text=("Theorems (73; all inputs, Rat with uninterpreted log10/ln/sqrt/exp10): kCalc_addScaled/linear/smul, kCalc_pressure_off, "
          "kCalc_reference, vant_hoff, dhToKJ_*; source_constants, kCalc_source, dhToKJ_source, alk_lookup_order (the models use exactly "
          "the constants, the k_calc shape and the calc_alk lookup order that tools/gen_speciation.py reads from the source on every run); "
          "named expressions: nz_iff, selectExpr_idem, kCalc_selectExpr_analytic/plain, kCalc_addOther (any sign, zero), kCalc_combineLogK, "
          "kCalc_combineNamed; rewriting: evalBody_* algebra, residual_substOne/pivot/solveFor, rewrite_residual_eq, rewrite_mass_action_iff, "
          "rewrite_mass_action_kCalc, rewrite_only_masters, rewrite_preserves_balance, satIndex_rewrite; speciate_mass_action/residual; "
          "gate: iterate_sound, gate_sound (every step/again function), converged_mb/alk/cb/mu, checkResiduals_mb/cb/mu; alkalinity: "
          "lastLine_spec, masterAlk_valence_precedence, masterAlk_element_line; underMoles_zero/mid/cap; sums: sumBy/total/chargeBalance/"
          "valenceTotal_append, valence_totals_add_up; readouts_consistent; non-vacuity examples (carbonate network, O2/H2O couple, minteq Fe "
          "lines with the negation witness of the wrong lookup order, Fe valence totals, gate runs). "
          "Obligations over generated data: per dumped state the database mass-action residual of every species <= 1e-9, stored moles = "
          "under(lm)*water, element and valence-state totals / charge balance / ionic strength / alkalinity at 1e-7, SI/SR/LK_PHASE/"
          "LK_SPECIES/LK_NAMED/LA/LM/LG/MOL/ACT/GAMMA/TOT and the GetSelectedOutputValue cells. Correspondence: rewritten stoichiometry, "
          "log K vectors and lk(T) (sums of coef x database vector that may cancel: tie tolerance 1e-11 resp. 1e-12 relative to the SCALE "
          "of what is summed - largest entry of that kind in the effective database x size of the combination - never to the net value; "
          "the 1e-9 oracle on lk is unchanged), lm (molalities() re-applied), electron equations of redox couples (derived by the model, tied to pe_x), "
          "gate verdict, k_calc on random vectors, dbparse vs the engine's tables (species, phases, resolved named-expression chains) for "
          "shipped and generated databases."),
    note=("Trusted: Lean kernel, tools/dbparse.py and tools/gen_speciation.py (regex extraction, fails closed: recognised=false breaks "
          "source_constants), the harness, the tolerance logic here. Partial: Newton convergence, floating-point rounding, the pressure "
          "term above 1 atm (scope is 1 atm) and the activity-coefficient model (gammas are taken as reported; C16 owns them) are not "
          "proved; valence totals of elements with -mole_balance species (polysulfides, isotopologues) and non-master species written with "
          "e- under a non-default couple are counted, not judged; exchange/surface species themselves are outside C01 (the aqueous species "
          "of such systems are judged)."),
)

STALE_KEY = "stale-molalities-after-revise-guesses"
STALE_REPLAY = "SOLUTION 1\n temp 5\n" + gens.TAIL
ISO_KEY = "isotope-initial-solution-total-is-major-isotope"
ISO_REPLAY = "SOLUTION 1\n D 0\n" + gens.TAIL
QUICK_DBS = ["phreeqc.dat", "wateq4f.dat", "minteq.v4.dat", "minteq.dat"]
PITZER_SIT = {"pitzer.dat", "sit.dat", "frezchem.dat", "ColdChem.dat", "Concrete_PZ.dat"}
TOL_LOG = 1e-9
TOL_REL = 1e-7


def dbfile(dbname):
    """shipped database name or absolute path of a generated one"""
    return str(dbname) if str(dbname).startswith("/") else str(vlib.REPO / "database" / dbname)


def unhexd(h):
    return struct.unpack(">d", bytes.fromhex(h))[0]


def hexd(x):
    return struct.pack(">d", float(x)).hex()


# ------------------------------------------------------------------------------------------ model driver
def snapshot_pmodel(ctx):
    """private copy of the pmodel executable (other checks relink it concurrently); taken under the lake lock"""
    import os
    import shutil
    dst = vlib.BUILD / f"pmodel_c01_{os.getpid()}"
    for _ in range(60):
        try:
            with vlib.Lock("lake"):
                shutil.copy2(ctx.pmodel_path(), dst)
            ctx._pm = dst
            return dst
        except OSError:
            time.sleep(3)
    raise RuntimeError("pmodel executable not available")


def pmodel(ctx, text, timeout=1800):
    exe = getattr(ctx, "_pm", None) or ctx.pmodel_path()
    r = vlib.sh([str(exe), "speciate"], input=text, timeout=timeout)
    if r.returncode:
        raise RuntimeError(f"pmodel speciate failed: {r.stderr[-2000:]}")
    return r.stdout.splitlines()


def drop_snapshot(ctx):
    pm = getattr(ctx, "_pm", None)
    if pm is not None and Path(pm).exists():
        Path(pm).unlink()


# ------------------------------------------------------------------------------------------ harness output
def parse_rxn(parts):
    """'rx n tok coef …' and 'k v…' sections of a dump line (already split on ' | ')"""
    toks, k = [], []
    for sec in parts:
        w = sec.split()
        if w[0] == "rx":
            n = int(w[1])
            toks = [(w[2 + 2 * i], unhexd(w[3 + 2 * i])) for i in range(n)]
        elif w[0] == "k":
            k = [unhexd(x) for x in w[1:]]
    return toks, k


def parse_harness(out):
    runs, cur, dump = [], None, None
    for line in out.splitlines():
        if line.startswith("dump "):
            w = line.split()
            dump = {"idx": int(w[2]), "state": int(w[3].split("=")[1]), "u": [], "m": [], "mi": [], "pex": {}, "s": [], "p": [], "r": {},
                    "rt": {}, "rp": {}, "rk": {}, "rkp": {}, "x": {}, "rn": {}}
            if cur is None:
                cur = {"dumps": [], "sel": [], "rc": None, "err": ""}
            cur["dumps"].append(dump)
            continue
        if dump is not None:
            if line == "enddump":
                dump = None
                continue
            parts = line.split(" | ")
            w = parts[0].split()
            t = w[0]
            if t == "g":
                keys = ["tk", "patm", "mu", "W", "cb", "talk", "toth", "toto", "ph", "pe", "ah2o", "tol", "min_total", "tco2",
                        "tcarbon", "ln10"]
                for kx, v in zip(keys, w[1:17]):
                    dump[kx] = unhexd(v)
                dump["iterations"], dump["pitzer"], dump["sit"], dump["water_switch"], dump["ph_is_cb"] = map(int, w[17:22])
                dump["default_pe"] = w[22] if len(w) > 22 else "pe"
            elif t == "u":
                dump["u"].append({"type": int(w[1]), "desc": w[2], "moles": unhexd(w[3]), "f": unhexd(w[4]), "sum": unhexd(w[5]),
                                  "resid": unhexd(w[6]), "m0": w[7], "masters": w[9:]})
            elif t == "m":
                dump["m"].append({"elt": w[1], "s": w[2], "in": int(w[3]), "total": unhexd(w[4]), "pe": w[5], "prim": w[6],
                                  "m0": w[7], "primary": int(w[8]), "total_primary": unhexd(w[9])})
            elif t == "mi":
                dump["mi"].append({"name": w[1], "elt": w[2], "minor": int(w[3]), "moles": unhexd(w[4])})
            elif t == "pe":
                dump["pex"][w[1]] = parse_rxn(parts[1:])
            elif t == "s":
                toks, k = parse_rxn(parts[1:])
                dump["s"].append({"name": w[1], "type": int(w[2]), "z": unhexd(w[3]), "lm": unhexd(w[4]), "lg": unhexd(w[5]),
                                  "la": unhexd(w[6]), "lk": unhexd(w[7]), "moles": unhexd(w[8]), "alk": unhexd(w[9]),
                                  "gflag": int(w[10]), "rx": toks, "k": k,
                                  "h": unhexd(w[12]) if len(w) > 13 else None, "o": unhexd(w[13]) if len(w) > 13 else None})
            elif t == "p":
                toks, k = parse_rxn(parts[1:])
                dump["p"].append({"name": w[1], "lk": unhexd(w[2]), "rx": toks, "k": k})
            elif t == "v":
                dump["verdict"] = int(w[1])
                dump["resid2"] = [unhexd(x) for x in w[2:]]
            elif t == "l2":
                dump["lm2"] = [unhexd(x) for x in w[1:]]
            elif t == "r":
                dump["r"][w[1]] = [unhexd(x) for x in w[2:8]]
            elif t == "rt":
                dump["rt"][w[1]] = unhexd(w[2])
            elif t == "rp":
                dump["rp"][w[1]] = [unhexd(x) for x in w[2:5]]
            elif t == "rk":
                dump["rk"][w[1]] = unhexd(w[2])
            elif t == "rn":
                dump["rn"][w[1]] = unhexd(w[2])
            elif t == "x":
                dump["x"][w[1]] = unhexd(w[2])
            elif t == "rkp":
                dump["rkp"][w[1]] = unhexd(w[2])
            continue
        if line.startswith("run "):
            if cur is None:
                cur = {"dumps": [], "sel": [], "rc": None, "err": ""}
            cur["rc"] = int(line.split()[2].split("=")[1])
        elif line.startswith("E ") and cur is not None:
            h = line[2:]
            cur["err"] = "" if h == "-" else bytes.fromhex(h).decode("latin-1", "replace")
        elif line.startswith("sel ") and cur is not None:
            cur["sel"].append(line.split()[2:])
        elif line == "endrun":
            runs.append(cur)
            cur = None
    return runs


def run_batch(exe, dbpath, texts, timeout=900, resets=()):
    """one harness process; a fresh instance (LoadDatabase) before text 0 and before every index in `resets`"""
    ops = []
    for k, t in enumerate(texts):
        if k == 0 or k in resets:
            ops.append(f"db {dbpath}")
        ops.append("run " + t.encode("latin-1", "replace").hex())
    r = vlib.sh([str(exe)], input="\n".join(ops) + "\n", timeout=timeout)
    runs = parse_harness(r.stdout)
    return runs, r.returncode, r.stderr[-500:]


# ------------------------------------------------------------------------------------------ definitions made by run inputs
DEF_KEYS = {"solution_species", "phases", "named_expressions", "named_log_k", "named_analytical_expression",
            "named_analytical_expressions", "solution_master_species", "exchange_species", "exchange_master_species",
            "surface_species", "surface_master_species"}


def extract_defs(text):
    """the database-type blocks (SOLUTION_SPECIES, PHASES, NAMED_EXPRESSIONS, …_MASTER_SPECIES …) of a run input, as text; they
    stay defined in the instance for every later run, a later definition of a name replacing the earlier one as a whole"""
    out, cur = [], None
    for ln in text.replace(";", "\n").split("\n"):
        w = ln.split("#", 1)[0].split()
        if w and w[0].lower() in dbparse.KEYWORDS:
            cur = w[0].lower()
        if cur in DEF_KEYS:
            out.append(ln)
    return "\n".join(out) + ("\n" if out else "")


def effective_db(base_text, defs):
    """the database an instance holds after reading `defs` (concatenated definition blocks) on top of the database text"""
    cut = re.search(r"(?im)^\s*END\s*$", base_text)
    head = base_text[:cut.start()] if cut else base_text
    return dbparse.parse(head + "\n" + defs + "\nEND\n", is_text=True)


# ------------------------------------------------------------------------------------------ model input
def case_lines(d, cid):
    L = [f"case {cid}"]
    L.append("g " + " ".join(hexd(d[k]) for k in ("tk", "patm", "mu", "W", "tol", "min_total")) +
             f" {d['water_switch']} {d['ph_is_cb']}")
    for m in d["m"]:
        if m["in"] == 1 and m["elt"] != "Alkalinity":      # the Alkalinity entry is not the species' own master
            L.append(f"use {m['s']}")
    seen = set()
    for m in d["m"]:
        if m["in"] == 2 and m["s"] not in seen:
            seen.add(m["s"])
            L.append(f"rw {m['s']} {m['m0']} {m['prim']} {m['pe']}")
    for name, (toks, k) in d["pex"].items():
        if name.lower() == "pe":
            continue
        body = toks[1:]
        L.append(f"pe {name} {len(body)} " + " ".join(f"{n} {hexd(c)}" for n, c in body))
        L.append(f"pk {name} " + " ".join(hexd(x) for x in k[:9]))
    for s in d["s"]:
        if s["type"] in (5, 6):          # exchange / surface species: outside C01 (aqueous mass action)
            continue
        L.append(f"sp {s['name']} {hexd(s['lm'])} {hexd(s['lg'])} {hexd(s['la'])} {hexd(s['moles'])}")
    for n, v in d["x"].items():
        L.append(f"xs {n} {hexd(v)}")
    for p in d["p"]:
        L.append(f"ph {p['name']}")
    omoles = 0.0
    for u in d["u"]:
        if u["type"] == 17:
            omoles = u["moles"]
    for u in d["u"]:
        aux = 2 * omoles if u["type"] == 16 else 0.0
        L.append(f"u {u['type']} {hexd(u['moles'])} {hexd(u['f'])} {hexd(u['resid'])} {hexd(aux)}")
    L.append("endcase")
    return L


def parse_model(lines):
    cases, cur = {}, None
    for line in lines:
        w = line.split()
        if not w:
            continue
        if w[0] == "case":
            cur = {"rx": {}, "lk": {}, "lm": {}, "res": {}, "alk": {}, "tot": {}, "si": {}, "bad": [], "mol": {}, "vtot": {}, "nk": {}}
            cases[w[1]] = cur
        elif cur is None:
            continue
        elif w[0] == "rx":
            if len(w) == 3:
                cur["rx"][w[1]] = w[2]
            else:
                n = int(w[2])
                body = [(w[3 + 2 * i], unhexd(w[4 + 2 * i])) for i in range(n)]
                k = [unhexd(x) for x in w[4 + 2 * n:]]
                cur["rx"][w[1]] = (body, k)
        elif w[0] == "pex":
            if len(w) == 3:
                cur.setdefault("pex", {})[w[1]] = w[2]
            else:
                n = int(w[2])
                cur.setdefault("pex", {})[w[1]] = ([(w[3 + 2 * i], unhexd(w[4 + 2 * i])) for i in range(n)],
                                                   [unhexd(x) for x in w[4 + 2 * n:]])
        elif w[0] == "lk":
            cur["lk"][w[1]] = (unhexd(w[2]), unhexd(w[3]))
        elif w[0] == "lm":
            cur["lm"][w[1]] = unhexd(w[2])
        elif w[0] == "mol":
            cur["mol"][w[1]] = unhexd(w[2])
        elif w[0] == "vtot":
            cur["vtot"][w[1]] = unhexd(w[2])
        elif w[0] == "nk":
            cur["nk"][w[1]] = unhexd(w[2])
        elif w[0] == "res":
            cur["res"][w[1]] = ("missing", w[3]) if w[2] == "missing" else unhexd(w[2])
        elif w[0] == "alk":
            cur["alk"][w[1]] = unhexd(w[2])
        elif w[0] == "tot":
            cur["tot"][w[1]] = unhexd(w[2])
        elif w[0] in ("cb", "mus", "mu", "talk", "pH"):
            cur[w[0]] = unhexd(w[1])
        elif w[0] == "si":
            cur["si"][w[1]] = (w[2], w[3] if len(w) > 3 else "") if w[2] in ("missing", "unknown-phase") else \
                (unhexd(w[2]), unhexd(w[3]), unhexd(w[4]) if len(w) > 4 else unhexd(w[3]))
        elif w[0] == "gate":
            cur["gate"] = (w[1] == "1", w[2] == "1")
        elif w[0] == "bad-line":
            cur["bad"].append(line)
    return cases


# ------------------------------------------------------------------------------------------ judging
def close(a, b, rel, floor=0.0):
    if a == b:
        return True
    if math.isnan(a) or math.isnan(b):
        return False
    return abs(a - b) <= rel * max(abs(a), abs(b)) + floor


def judge(d, mc, stats, mb={}, phase_adds=frozenset(), e_species=None, kmax=None):
    """returns (oracle_failures, tie_failures); each a list of (kind, name, detail)"""
    orc, tie = [], []
    W = d["W"]
    one_atm = d["patm"] <= 1.0
    alt_pe = any(m["in"] == 2 and m["pe"].lower() != "pe" for m in d["m"]) or d.get("default_pe", "pe").lower() != "pe"
    in_use = {m["s"] for m in d["m"] if m["in"] == 1 and m["elt"] != "Alkalinity"}
    # scale of what is summed into a log K vector: the rewritten vector is Σ coef·(vector of a database entry); its entries can
    # cancel to ~0, so ties on such sums are judged relative to the largest entry of that kind in the (effective) database
    # (kmax, includes resolved named expressions times the largest -add_logk coefficient) times the size of the combination,
    # never relative to the net value
    kmax = list(kmax) if kmax else [0.0] * 8
    T_ = d["tk"]
    tfac = [1.0, 1.0, 1.0, T_, 1.0 / T_, 3.0, 1.0 / T_ ** 2, T_ ** 2]
    smap = {s["name"]: s for s in d["s"]}
    # molalities() re-applied by the harness to the accepted state: lm2. "stale" = the stored lm is not what the
    # assignment gives for the final activities and activity coefficients
    lm2 = d.get("lm2", [])
    fresh = {}
    aqs = [s for s in d["s"] if not (s["type"] == 3)]
    for s_, v in zip(aqs, lm2):
        fresh[s_["name"]] = v
    stale = any(s_["type"] <= 1 and abs(fresh.get(s_["name"], s_["lm"]) - s_["lm"]) > 1e-11 for s_ in aqs)
    switched = any(m["in"] == 2 and m["m0"] != m["prim"] for m in d["m"])
    # fingerprint of "revise_guesses() ran last": its final statements are `mu_x = mu_unknown->f * 0.5 / mass_water_aq_x;
    # gammas(mu_x);` so the ionic-strength residual W*mu - f/2 is zero to rounding (a Newton step leaves ~1e-9..1e-13 relative).
    # Three paths lead there: model() iteration 0, a basis switch, and molalities() reporting an overflow inside the loop.
    mu_assigned = False
    for u in d["u"]:
        if u["type"] == 14:
            mu_assigned = abs(d["W"] * d["mu"] - 0.5 * u["f"]) <= 4e-16 * abs(d["W"] * d["mu"])
    if stale:
        stats["stale_old_rule" if (d["iterations"] <= 0 or switched) else "stale_not_old_rule"] += 1
        stats["stale_fingerprint" if mu_assigned else "stale_no_fingerprint"] += 1
    excused = stale and mu_assigned
    if stale:
        stats["stale_states"] += 1
    found = []
    iso_found = []
    if mc.get("bad"):
        tie.append(("driver", "bad-line", mc["bad"][:2]))
    for m in d["m"]:
        if m["in"] == 2:
            stats["rewritten_valence_masters"] += 1
            if m["m0"] != m["prim"]:
                stats["rewritten_relative_to_switched_basis"] += 1
    if alt_pe:
        stats["states_with_redox_couple"] += 1
    for name, (toks, k) in d["pex"].items():
        if name.lower() == "pe":
            continue
        mp = mc.get("pex", {}).get(name)
        # the engine falls back to pe when a couple cannot be written ("Analytical data missing"): then e- = e-
        code = {}
        for nm, c in toks[1:]:
            code[nm] = code.get(nm, 0.0) + c
        if list(code) == ["e-"]:
            continue
        stats["couples"] += 1
        if mp is None or isinstance(mp, str):
            tie.append(("couple", name, f"model could not derive the electron equation: {mp}"))
            continue
        mod = {}
        for nm, c in mp[0]:
            mod[nm] = mod.get(nm, 0.0) + c
        if set(code) != set(mod) or any(abs(code[x] - mod[x]) > 1e-9 * max(1, abs(code[x])) for x in code):
            tie.append(("couple", name, f"electron equation: engine {code}, model {mod}"))
        elif any(abs(a - b) > 1e-11 * max(abs(a), abs(b), km, 1e-3) * (4 + sum(abs(c) for c in code.values()))
                 for a, b, km in zip(k[:8], mp[1][:8], kmax)):
            tie.append(("couple", name, f"log K vector: engine {k[:8]}, model {mp[1][:8]}"))
    for s in d["s"]:
        n = s["name"]
        if s["type"] > 1:          # H2O, e-: activities are unknowns, no molality assignment
            continue
        la = s["la"] if n in in_use else s["lm"] + s["lg"]
        # (a) rewritten stoichiometry, (b) log K vector and lk(T)
        rx = mc["rx"].get(n)
        if rx is None or isinstance(rx, str):
            tie.append(("rx", n, f"model could not rewrite: {rx}"))
        else:
            body, k = rx
            code = {}
            for nm, c in s["rx"][1:]:
                code[nm] = code.get(nm, 0.0) + c
            mod = {}
            for nm, c in body:
                mod[nm] = mod.get(nm, 0.0) + c
            names = set(code) | set(mod)
            for nm in names:
                a, b = code.get(nm, 0.0), mod.get(nm, 0.0)
                if abs(a - b) > 1e-9 * max(1.0, abs(a)):
                    tie.append(("rx", n, f"coefficient of {nm}: engine {a!r}, model {b!r}"))
                    break
            stats["rx"] += 1
            if len(code) > 1 or (len(code) == 1 and n not in code):
                stats["rx_nontrivial"] += 1
            comb = 1 + len(code) + sum(abs(c) for c in code.values())
            for i in range(8):
                scale = max(abs(s["k"][i]), abs(k[i]), kmax[i], 1e-3)
                if abs(s["k"][i] - k[i]) > 1e-11 * scale * comb:
                    tie.append(("kvec", n, f"logk[{i}]: engine {s['k'][i]!r}, model {k[i]!r}"))
                    break
            lkx, lkdb = mc["lk"][n]
            if one_atm:
                mag = sum(max(abs(k[j]), abs(s["k"][j]), kmax[j]) * tfac[j] for j in range(8)) * comb
                if abs(lkx - s["lk"]) > 1e-12 * (1 + mag) + 1e-13:
                    tie.append(("lk", n, f"lk(T): engine {s['lk']!r}, model {lkx!r} at T={d['tk']}"))
                if abs(lkx - s["lk"]) > TOL_LOG:
                    orc.append(("lk", n, f"log K at {d['tk']} K: engine {s['lk']!r}, database text gives {lkx!r}"))
                rk = d["rk"].get(n)
                if rk is not None and abs(rk - lkdb) > 1e-12 * (1 + abs(lkdb) + sum(kmax[j] * tfac[j] for j in range(8))) * 100 + 1e-12:
                    (orc if abs(rk - lkdb) > TOL_LOG else tie).append(("lk_species", n, f"LK_SPECIES {rk!r}, database text {lkdb!r}"))
                lm = mc["lm"][n]
                if abs(lm - fresh.get(n, s["lm"])) > TOL_LOG:
                    tie.append(("lm", n, f"lm: engine molalities() gives {fresh.get(n)!r} (stored {s['lm']!r}), model {lm!r}"))
                mm = mc["mol"].get(n)
                if mm is not None and not stale and not close(mm, s["moles"], 1e-8, 1e-300):
                    orc.append(("moles", n, f"stored moles {s['moles']!r}, under(lm)*water from the database equation {mm!r}"))
                stats["lk"] += 1
                if any(k[i] != 0.0 for i in range(2, 8)):
                    stats["lk_analytic"] += 1
                elif k[1] != 0.0:
                    stats["lk_vanthoff"] += 1
        # (c) database mass-action residual
        res = mc["res"].get(n)
        if res is not None and n not in in_use and one_atm:
            if isinstance(res, tuple):
                stats["res_missing"] += 1
            else:
                stats["res"] += 1
                stats["seen"].add(n)
                if not stale:
                    stats["res_max"] = max(stats["res_max"], abs(res))
                if not abs(res) <= TOL_LOG:
                    if alt_pe and (e_species is None or n in e_species):
                        # a non-master species written with e- while a non-default couple supplies the electron activity
                        stats["res_altpe_skipped"] += 1
                        stats["altpe_names"].add(f"{n}:{res:.3g}")
                    elif excused:
                        found.append(("mass-action", n, f"database mass-action residual {res!r} log units; stored lm {s['lm']!r}, molalities() on the accepted state gives {fresh.get(n)!r} (iterations={d['iterations']}, basis switched={switched})"))
                    else:
                        orc.append(("mass-action", n, f"database mass-action residual {res!r} log units (T={d['tk']} K, la={la!r}, iterations={d['iterations']})"))
        # (e) read-outs of the species
        r = d["r"].get(n)
        if r is not None:
            rla, rlm, rlg, rmol, ract, rg = r
            if n not in in_use and abs(rla - (rlm + rlg)) > 1e-12 * (1 + abs(rla)):
                orc.append(("readout", n, f"LA {rla!r} != LM {rlm!r} + LG {rlg!r}"))
            if n in in_use and n != "H+" and False:
                pass
            if not close(rmol, s["moles"] / W, 1e-12):
                orc.append(("readout", n, f"MOL {rmol!r} != moles/water {s['moles'] / W!r}"))
            if rlm > -40 and rlm <= 3 and not close(rmol, 10 ** rlm, 1e-9):
                orc.append(("readout", n, f"MOL {rmol!r} != 10^LM {10 ** rlm!r}"))
            if -300 < rla < 300 and not close(ract, 10 ** rla, 1e-9):
                orc.append(("readout", n, f"ACT {ract!r} != 10^LA {10 ** rla!r}"))
            if -300 < rlg < 300 and not close(rg, 10 ** rlg, 1e-9):
                orc.append(("readout", n, f"GAMMA {rg!r} != 10^LG {10 ** rlg!r}"))
            stats["readouts"] += 4
        if abs(s["alk"] - mc["alk"].get(n, float("nan"))) > 1e-9 * (1 + abs(s["alk"])):
            tie.append(("alk", n, f"alkalinity per mole: engine {s['alk']!r}, model {mc['alk'].get(n)!r}"))
    # (d) sums
    aq = [s for s in d["s"] if s["type"] <= 3]
    ions = sum(abs(s["z"] * s["moles"]) for s in aq)
    floor = 1e-12 * ions + 1e-300
    if not close(mc["cb"], d["cb"], TOL_REL, floor):
        orc.append(("sum", "charge balance", f"reported {d['cb']!r}, sum of z*moles {mc['cb']!r}"))
    if "charge" in d["rt"] and not close(d["rt"]["charge"] * W, d["cb"], 1e-12, floor):
        orc.append(("readout", "TOT(charge)", f"{d['rt']['charge']!r} * water != cb {d['cb']!r}"))
    if not d["pitzer"] and not d["sit"] and not close(mc["mu"], d["mu"], TOL_REL):
        orc.append(("sum", "ionic strength", f"reported {d['mu']!r}, 0.5*sum z^2 m {mc['mu']!r}"))
    alk_terms = sum(abs(s["alk"] * s["moles"]) for s in aq)
    if not close(mc["talk"], d["talk"], TOL_REL, 1e-12 * alk_terms + 1e-300):
        orc.append(("sum", "alkalinity", f"reported {d['talk']!r}, sum alk*moles {mc['talk']!r}"))
    stats["sums"] += 3
    for e, t in d["rt"].items():
        if e in ("water", "charge") or "(" in e or e in ("E", "Alkalinity"):
            continue
        mt = mc["tot"].get(e)
        if mt is None:
            if t != 0.0:
                orc.append(("sum", e, f"TOT({e}) = {t!r} but no species of the model contains the element"))
            continue
        stats["sums"] += 1
        terms = sum(abs(s["moles"]) for s in aq if s["name"] != "H2O") if e not in ("H", "O") else abs(mt)
        if not close(mt, t * W, TOL_REL, 1e-12 * terms + 1e-300):
            # ISOTOPES databases: add_isotopes() runs between sum_species() and the punch of an INITIAL solution and
            # overwrites total_h_x / total_o_x with the moles of the major isotope; the minor isotopes (D, T, [18O]) it
            # sets aside are kept in master_isotope[].moles
            aside = sum(x["moles"] for x in d["mi"] if x["minor"] and x["elt"] == e)
            if e in ("H", "O") and d["state"] == 1 and aside > 0 and close(mt, t * W + aside, TOL_REL):
                iso_found.append(("sum", e, f"TOT({e})*water = {t * W!r} is the major isotope only; species sum {mt!r} = that + "
                                            f"{aside!r} mol set aside for the minor isotopes given in the SOLUTION"))
            else:
                orc.append(("sum", e, f"TOT({e})*water = {t * W!r}, sum over species {mt!r}"))
    # totals per valence state (TOT("Fe(2)"), -totals Fe(2)): recomputed from the secondary-form reactions
    skip_bases = set()
    for s_ in aq:
        if s_["name"] in mb:           # -mole_balance overrides the element list of the species (polysulfides, isotopologues)
            skip_bases |= mb[s_["name"]]
    if True:
        for e, mt in mc["vtot"].items():
            base = e.split("(")[0]
            if base in ("H", "O", "E") or e not in d["rt"]:
                continue
            if base in skip_bases:
                stats["valence_totals_skipped_mole_balance"] += 1
                continue
            t = d["rt"][e]
            stats["valence_totals"] += 1
            terms = sum(abs(s_["moles"]) for s_ in aq if s_["name"] != "H2O")
            if not close(mt, t * W, TOL_REL, 1e-12 * terms + 1e-300):
                orc.append(("valence-total", e, f"TOT({e})*water = {t * W!r}, sum over species of the valence state {mt!r}"))
    # LK_NAMED
    if one_atm:
        for nm, v in d["rn"].items():
            if nm == "xconstantx":      # the engine's internal carrier of -add_constant, not a name of the database text
                continue
            mv = mc["nk"].get(nm)
            if mv is None:
                if nm != "xconstantx":
                    tie.append(("lk_named", nm, "named expression unknown to the model"))
                continue
            stats["lk_named"] += 1
            if abs(v - mv) > TOL_LOG:
                orc.append(("lk_named", nm, f"LK_NAMED {v!r}, database text gives {mv!r} at {d['tk']} K"))
    # (e) pH, SI
    hp = smap.get("H+")
    if hp is not None:
        if abs(d["ph"] + hp["la"]) > 1e-12 or abs(mc["pH"] - d["ph"]) > 1e-12:
            orc.append(("readout", "pH", f"pH {d['ph']!r} vs -la(H+) {-hp['la']!r}"))
        stats["readouts"] += 1
    for p in d["p"]:
        n = p["name"]
        ms = mc["si"].get(n)
        rp = d["rp"].get(n)
        if ms is None or rp is None or isinstance(ms[0], str):
            stats["si_skipped"] += 1
            continue
        si_m, lk_m, lk_twice = ms
        si, iap, sr = rp
        ncoef = sum(abs(c) for _, c in p["rx"][1:]) + 1
        if abs(si - (iap - p["lk"])) > 1e-12 * (1 + abs(iap) + abs(p["lk"])):
            orc.append(("readout", n, f"SI {si!r} != log IAP {iap!r} - log K {p['lk']!r}"))
        if -300 < si < 300 and not close(sr, 10 ** si, 1e-9):
            orc.append(("readout", n, f"SR {sr!r} != 10^SI {10 ** si!r}"))
        if one_atm and not alt_pe:
            if abs(si - si_m) > TOL_LOG * ncoef * 4 and excused:
                found.append(("SI", n, f"SI engine {si!r}, from database reaction and reported (stale) activities {si_m!r}"))
            elif abs(si - si_m) > TOL_LOG * ncoef * 4:
                orc.append(("SI", n, f"SI engine {si!r}, from database reaction and reported activities {si_m!r}"))
            rkp = d["rkp"].get(n)
            if rkp is not None and abs(rkp - lk_m) > TOL_LOG:
                orc.append(("lk-phase", n, f"LK_PHASE {rkp!r}, database text {lk_m!r}"))
        stats["si"] += 1
    # (f) gate
    conv_code = d.get("verdict") == 2
    g = mc.get("gate")
    if g is not None:
        stats["gate"] += 1
        if g[0] != conv_code:
            tie.append(("gate", "converged", f"engine residuals() verdict {d.get('verdict')}, model converged={g[0]}"))
        if not g[0] or not g[1]:
            # the calculation completed without error although the tests the gate theorem speaks about do not hold
            (orc if not conv_code else tie).append(("gate", "completed-unconverged", f"model converged={g[0]} checkResiduals={g[1]}, engine verdict {d.get('verdict')}"))
    if found:
        stats["stale_states_excused"] += 1
        d["finding"] = found
    if iso_found:
        stats["isotope_initial_totals"] += 1
        d["iso_finding"] = iso_found
    return orc, tie


def judge_selected_output(run, stats):
    """GetSelectedOutputValue cells (-pH -pe -temperature -alkalinity -ionic_strength -charge_balance -water) of row r
    against the state dumped at punch r; returns oracle failures"""
    out = []
    rows = run["sel"]
    if len(rows) != len(run["dumps"]) + 1:
        return out
    heads = []
    for c in rows[0]:
        heads.append(bytes.fromhex(c[1:]).decode("latin-1") if c.startswith("S") and c != "S-" else "")
    for d, row in zip(run["dumps"], rows[1:]):
        cell = {}
        for h, c in zip(heads, row):
            if c.startswith("D"):
                cell[h] = unhexd(c[1:])
        W = d["W"]
        ions = sum(abs(s["z"] * s["moles"]) for s in d["s"])
        want = {"pH": (d["ph"], 1e-12, 1e-12), "pe": (d["pe"], 1e-12, 1e-12), "temp(C)": (d["tk"] - 273.15, 1e-9, 1e-9),
                "mu": (d["mu"], 1e-12, 0.0), "mass_H2O": (W, 1e-12, 0.0), "charge(eq)": (d["cb"], 1e-9, 1e-12 * ions + 1e-300),
                "Alk(eq/kgw)": (d["talk"] / W, 1e-9, 1e-300)}
        for h, (v, rel, floor) in want.items():
            if h in cell:
                stats["readouts"] += 1
                if not close(cell[h], v, rel, floor):
                    out.append((d["idx"], ("selected-output", h, f"GetSelectedOutputValue gives {cell[h]!r}, state has {v!r}")))
    return out


def new_stats():
    return {k: 0 for k in ("rx", "rx_nontrivial", "lk", "lk_analytic", "lk_vanthoff", "res", "res_missing", "res_altpe_skipped",
                           "readouts", "sums", "si", "si_skipped", "gate", "dumps", "runs", "runs_error", "runs_nodump",
                           "above_1atm", "rewritten_valence_masters", "rewritten_relative_to_switched_basis",
                           "states_with_redox_couple", "stale_states", "stale_states_excused", "couples", "isotope_initial_totals",
                           "oracle_failures", "valence_totals", "valence_totals_skipped_mole_balance", "lk_named",
                           "corpus_cases", "stale_old_rule", "stale_not_old_rule", "stale_fingerprint",
                           "stale_no_fingerprint", "runs_with_definitions", "runs_after_failed_definition",
                           "states_under_redefinition")} | {"res_max": 0.0, "seen": set(), "altpe_names": set()}


def resolve_named(db):
    """NAMED_EXPRESSIONS with their -add_logk chains resolved the way tidy does (own expression selected, every entry of the
    referenced expressions added, recursion depth 15) -> {lower name: 8-vector or None when circular/unknown}"""
    out = {}

    def go(key, depth):
        if key in out:
            return out[key]
        nd = db.named.get(key)
        if nd is None or depth > 15:
            return None
        v = list(nd.logk.vector())
        for nm, c in nd.add_logk:
            w = go(nm.lower(), depth + 1)
            if w is None:
                out[key] = None
                return None
            v = [a + c * b for a, b in zip(v, w)]
        out[key] = v
        return v

    for k in db.named:
        go(k, 0)
    return out


# ------------------------------------------------------------------------------------------ database tie
def compare_db(ctx, exe, dbname, db):
    """engine's reading of the database vs the independent parser's; returns list of differences"""
    r = vlib.sh([str(exe)], input=f"db {dbfile(dbname)}\ndbdump\n", timeout=300)
    diffs = []
    es, ep, en, em = {}, {}, {}, []
    for line in r.stdout.splitlines():
        parts = line.split(" | ")
        w = parts[0].split()
        if not w:
            continue
        if w[0] == "S":
            toks, k = parse_rxn(parts[1:])
            add = parts[2].split() if len(parts) > 2 else []
            es[w[1]] = {"type": int(w[2]), "z": unhexd(w[3]), "rx": toks, "k": k}
            for sec in parts[1:]:
                ww = sec.split()
                if ww[0] == "add":
                    es[w[1]]["add"] = [(ww[2 + 2 * i], unhexd(ww[3 + 2 * i])) for i in range(int(ww[1]))]
                if ww[0] == "el":
                    es[w[1]]["el"] = {ww[1 + 2 * i]: unhexd(ww[2 + 2 * i]) for i in range((len(ww) - 1) // 2)}
        elif w[0] == "P":
            toks, k = parse_rxn(parts[1:])
            if w[2] == "4":
                ep[w[1]] = {"rx": toks, "k": k}
        elif w[0] == "N":
            en[w[1]] = [unhexd(x) for x in w[2:]]
        elif w[0] == "M":
            em.append((w[1], w[2], unhexd(w[3]), int(w[4])))
    first = r.stdout.split("\n", 1)[0].split()
    if not es or first[:1] != ["db"] or first[1:2] != ["0"]:
        return ["engine could not load the database: " + r.stdout[:300]], 0
    n = 0
    allsp = {}
    allsp.update(db.species)
    for nm, sp in allsp.items():
        e = es.get(nm)
        if e is None:
            diffs.append(f"species {nm} missing in engine")
            continue
        n += 1
        if e["type"] > 3:
            continue
        if abs(e["z"] - sp.z) > 1e-12:
            diffs.append(f"species {nm}: charge engine {e['z']} parser {sp.z}")
        code = {}
        for t, c in e["rx"][1:]:
            code[t] = code.get(t, 0.0) + c
        mine = {}
        for t, c in sp.rxn:
            mine[t] = mine.get(t, 0.0) + c
        if set(code) != set(mine) or any(abs(code[t] - mine[t]) > 1e-12 for t in code):
            diffs.append(f"species {nm}: reaction engine {code} parser {mine}")
        # engine's rxn.logk = selected expression + add_logk; compare own expression when no add_logk
        if not sp.add_logk:
            v = sp.logk.vector()
            if any(abs(a - b) > 1e-12 * max(1, abs(a)) for a, b in zip(e["k"][:8], v)):
                diffs.append(f"species {nm}: log K vector engine {e['k'][:8]} parser {v}")
        if [(a.lower(), b) for a, b in e.get("add", [])] != [(a.lower(), b) for a, b in sp.add_logk]:
            diffs.append(f"species {nm}: add_logk engine {e.get('add')} parser {sp.add_logk}")
        el = {k: v for k, v in e.get("el", {}).items()}
        mine_el = {k: v for k, v in sp.elements.items()}
        if set(el) != set(mine_el) or any(abs(el[k] - mine_el[k]) > 1e-12 for k in el):
            diffs.append(f"species {nm}: elements engine {el} parser {mine_el}")
    aq_engine = [nm for nm, e in es.items() if e["type"] <= 3 and len(e["rx"]) > 0]
    for nm in aq_engine:
        if nm not in db.species:
            diffs.append(f"engine species {nm} unknown to the parser")
    for nm, ph in db.phases.items():
        e = ep.get(nm)
        if e is None:
            diffs.append(f"phase {nm} missing in engine")
            continue
        n += 1
        code = {}
        for t, c in e["rx"][1:]:
            code[t] = code.get(t, 0.0) + c
        mine = {}
        for t, c in ph.rxn:
            mine[t] = mine.get(t, 0.0) + c
        if set(code) != set(mine) or any(abs(code[t] - mine[t]) > 1e-12 for t in code):
            diffs.append(f"phase {nm}: reaction engine {code} parser {mine}")
        if not ph.add_logk:
            v = ph.logk.vector()
            if any(abs(a - b) > 1e-12 * max(1, abs(a)) for a, b in zip(e["k"][:8], v)):
                diffs.append(f"phase {nm}: log K vector engine {e['k'][:8]} parser {v}")
    for nm in ep:
        if nm not in db.phases:
            diffs.append(f"engine phase {nm} unknown to the parser")
    # named expressions: the engine's table holds them after select_log_k_expression + add_logks (chains resolved)
    res = resolve_named(db)
    for nm, v in res.items():
        e = en.get(nm)
        if e is None:
            diffs.append(f"named expression {nm} missing in engine")
            continue
        n += 1
        if v is None:
            continue
        if any(abs(a - b) > 1e-11 * max(1, abs(a), abs(b)) for a, b in zip(e[:8], v)):
            diffs.append(f"named expression {nm}: engine {e[:8]} parser {v}")
    mine_m = [(m.element, m.species, m.alk, 1 if m.primary else 0) for m in db.masters]
    eng_m = [(a, b, c, d) for a, b, c, d in em if es.get(b, {"type": 9})["type"] <= 3]
    if sorted(mine_m) != sorted(eng_m):
        diffs.append(f"master species differ: only engine {sorted(set(eng_m) - set(mine_m))[:5]} only parser {sorted(set(mine_m) - set(eng_m))[:5]}")
    return diffs, n


# ------------------------------------------------------------------------------------------ k_calc direct
def kcalc_direct(ctx, exe, n):
    rng = ctx.rng
    ops = [f"db {vlib.REPO}/database/phreeqc.dat"]
    mlines = []
    for _ in range(n):
        T = rng.choice([298.15, 273.15, 373.15, rng.uniform(273.15, 373.15), rng.uniform(250, 650)])
        P = rng.choice([101325.0, 101325.0, rng.uniform(1e4, 1e8), 101325.0 * rng.uniform(0.5, 2)])
        v = [rng.uniform(-50, 50) if rng.random() < 0.7 else 0.0, rng.uniform(-300, 300) if rng.random() < 0.7 else 0.0]
        mags = [1e3, 1, 1e5, 1e3, 1e7, 1e-3]
        v += [rng.uniform(-m, m) if rng.random() < 0.5 else 0.0 for m in mags]
        v += [rng.uniform(-100, 100) if rng.random() < 0.5 else 0.0]
        args = f"{hexd(T)} {hexd(P)} " + " ".join(hexd(x) for x in v)
        ops.append("kcalc " + args)
        mlines.append("kcalc " + args)
    r = vlib.sh([str(exe)], input="\n".join(ops) + "\n", timeout=120)
    impl = [unhexd(l.split()[1]) for l in r.stdout.splitlines() if l.startswith("kcalc ")]
    model = [unhexd(l.split()[1]) for l in pmodel(ctx, "\n".join(mlines) + "\n") if l.startswith("kcalc ")]
    bad = []
    if len(impl) != n or len(model) != n:
        return [("count", len(impl), len(model))], 0
    for i, (a, b) in enumerate(zip(impl, model)):
        if not close(a, b, 1e-13, 1e-13):
            bad.append((mlines[i], a, b))
    return bad, n


# ------------------------------------------------------------------------------------------ one database
def check_runs(ctx, exe, dbname, db, dblines, texts, stats, resets=()):
    """runs texts on the engine and the model; returns list of (text_index, dump_index, orc, tie, found, extra).
    `resets`: indices before which a fresh instance is created. Definition blocks in an input (SOLUTION_SPECIES, PHASES, …) change
    the database the model uses for that run and all later runs of the same instance."""
    runs, hrc, herr = run_batch(exe, dbfile(dbname), texts, resets=resets)
    findings = []
    if hrc != 0 or len(runs) != len(texts):
        # a crash of the harness process: find the run that killed it
        return [("crash", len(runs), hrc, herr)], runs
    mlines = list(dblines)

    def aux(dbo):
        km = [0.0] * 8
        cmax = 1.0
        for o in list(dbo.species.values()) + list(dbo.phases.values()):
            for j, v in enumerate(o.logk.vector()):
                km[j] = max(km[j], abs(v))
            for _nm, c in o.add_logk:
                cmax = max(cmax, abs(c))
        for v in resolve_named(dbo).values():
            if v:
                for j in range(8):
                    km[j] = max(km[j], abs(v[j]) * cmax)
        return ({n: set(sp.elements) for n, sp in dbo.species.items() if sp.mole_balance},
                frozenset(n for n, ph in dbo.phases.items() if ph.add_logk),
                frozenset(n for n, sp in dbo.species.items() if any(t == "e-" for t, _ in sp.rxn)), km)
    base_aux = aux(db)
    cur_aux, cur_defs, emitted_defs, poisoned = base_aux, "", "", False
    base_text = None
    index = []
    for i, run in enumerate(runs):
        stats["runs"] += 1
        if i == 0 or i in resets:
            cur_defs, poisoned = "", False
        dtext = extract_defs(texts[i])
        if dtext:
            cur_defs += dtext
            stats["runs_with_definitions"] += 1
        if run["rc"] != 0:
            stats["runs_error"] += 1
            if dtext:
                poisoned = True          # what the instance kept of a failed definition run is not specified: later runs not judged
            continue
        if poisoned:
            stats["runs_after_failed_definition"] += 1
            continue
        if not run["dumps"]:
            stats["runs_nodump"] += 1
        if run["dumps"] and cur_defs != emitted_defs:
            if cur_defs:
                if base_text is None:
                    base_text = Path(dbfile(dbname)).read_text(encoding="latin-1")
                edb = effective_db(base_text, cur_defs)
                if edb.problems:
                    stats["runs_after_failed_definition"] += 1
                    continue
                mlines += dbparse.to_lines(edb, "redefined")
                cur_aux = aux(edb)
            else:
                mlines += list(dblines)
                cur_aux = base_aux
            emitted_defs = cur_defs
            if cur_defs:
                stats["states_under_redefinition"] += len(run["dumps"])
        for d in run["dumps"]:
            if d.get("patm", 1.0) > 1.0:
                stats["above_1atm"] += 1
            cid = f"{i}.{d['idx']}"
            mlines += case_lines(d, cid)
            index.append((i, d, cid, cur_aux))
    for i, run in enumerate(runs):
        if run["rc"] == 0:
            for di, o in judge_selected_output(run, stats):
                findings.append((i, di, [o], [], [], []))
    if not index:
        return findings, runs
    out = pmodel(ctx, "\n".join(mlines) + "\n")
    cases = parse_model(out)
    for i, d, cid, (mb, phase_adds, e_species, kmax) in index:
        mc = cases.get(cid)
        stats["dumps"] += 1
        if mc is None or "gate" not in mc:
            findings.append((i, d["idx"], [], [("driver", "no-output", cid)], [], []))
            continue
        orc, tie = judge(d, mc, stats, mb, phase_adds, e_species, kmax)
        extra = []
        if d.get("iso_finding"):
            extra.append((ISO_KEY, "ISOTOPES database: add_isotopes() replaces total H / total O by the major-isotope moles before "
                          "the initial solution is punched", d["iso_finding"]))
        if orc or tie or d.get("finding") or extra:
            findings.append((i, d["idx"], orc, tie, d.get("finding") or [], extra))
    return findings, runs


def run_db(ctx, exe, dbname, nruns, seed_rng, stats, cov, sweep=False, focus=None):
    db = dbparse.parse(dbfile(dbname))
    dblines = dbparse.to_lines(db, Path(dbname).name)
    texts, metas = [], []
    for _ in range(nruns):
        t, m = gens.gen_run(seed_rng, db, focus=focus)
        texts.append(t)
        metas.append(m)
    if sweep:
        sw = gens.gen_sweep(db) + ([STALE_REPLAY] if dbname == "phreeqc.dat" else []) + ([ISO_REPLAY] if dbname == "iso.dat" else [])
        texts += sw
        cov["kinds"]["element-sweep"] = cov["kinds"].get("element-sweep", 0) + len(sw)
    for m in metas:
        cov["kinds"][m["kind"]] = cov["kinds"].get(m["kind"], 0) + 1
        for f in set(m["features"]):
            cov["features"][f] = cov["features"].get(f, 0) + 1
        cov["n_elements"][str(len(m["elements"]))] = cov["n_elements"].get(str(len(m["elements"])), 0) + 1
        cov["temp_bins"][str(int(m["temp"] // 20) * 20)] = cov["temp_bins"].get(str(int(m["temp"] // 20) * 20), 0) + 1
        cov["ph_bins"][str(int(m["pH"] // 2) * 2)] = cov["ph_bins"].get(str(int(m["pH"] // 2) * 2), 0) + 1
        cov["units"][m["units"]] = cov["units"].get(m["units"], 0) + 1
        for c in m.get("molal", []):
            b = str(int(math.floor(math.log10(c))))
            cov["log_molal_bins"][b] = cov["log_molal_bins"].get(b, 0) + 1
    # chunks across processes
    chunk = max(1, math.ceil(len(texts) / vlib.NCPU))
    jobs = [(k, texts[k:k + chunk]) for k in range(0, len(texts), chunk)]
    results = []
    with concurrent.futures.ThreadPoolExecutor(max_workers=vlib.NCPU) as ex:
        futs = {ex.submit(check_runs, ctx, exe, dbname, db, dblines, tx, st): (k, tx, st)
                for k, tx in jobs for st in [new_stats()]}
        for fu in concurrent.futures.as_completed(futs):
            k, tx, st = futs[fu]
            findings, runs = fu.result()
            for key, v in st.items():
                if key in ("seen", "altpe_names"):
                    stats[key] |= v
                else:
                    stats[key] = max(stats[key], v) if key == "res_max" else stats[key] + v
            results.append((k, tx, findings))
    return db, dblines, results


def _first_times(ctx, key, limit=3):
    """a finding is routed at most `limit` times per run (an unlisted key would otherwise write one replay per state)"""
    seen = getattr(ctx, "_finding_calls", None)
    if seen is None:
        seen = ctx._finding_calls = {}
    seen[key] = seen.get(key, 0) + 1
    return seen[key] <= limit


def handle_findings(ctx, exe, dbname, db, dblines, results, db_text=None, starts=None):
    n_or, n_tie = 0, 0
    for k, tx, findings in sorted(results, key=lambda x: x[0]):
        for f in findings:
            if f[0] == "crash":
                ctx.violation(f"harness process died (rc={f[2]}) after {f[1]} runs on {dbname}: {f[3]}",
                              {"db": dbname, "inputs": tx[f[1]:f[1] + 1], "kind": "crash"})
                n_or += 1
                continue
            i, di, orc, tie, found, extra = f
            text = tx[i]
            for key, what, items in extra:
                if _first_times(ctx, key):
                    canon = {ISO_KEY: ISO_REPLAY if dbname == "iso.dat" else None}.get(key)
                    ctx.finding(key, f"{what}: {Path(dbname).name}: {items[0][1]}: {items[0][2]}",
                                {"db": dbname, "db_text": db_text, "input": canon or text, "dump": di,
                                 "failures": [list(map(str, x)) for x in items[:4]]})
            if found and _first_times(ctx, STALE_KEY):
                ctx.finding(STALE_KEY,
                            "model() accepted a state whose molalities were computed before the last gammas() call (end of "
                            "revise_guesses): " + f"{dbname}: {found[0][1]}: {found[0][2]}",
                            {"db": dbname, "input": STALE_REPLAY if dbname == "phreeqc.dat" else text, "dump": di,
                             "failures": [list(map(str, x)) for x in found[:6]]})
            if orc:
                n_or += 1
                kinds = getattr(ctx, "_orc_kinds", None)
                if kinds is None:
                    kinds = ctx._orc_kinds = {}
                kk = (dbname, orc[0][0])
                kinds[kk] = kinds.get(kk, 0) + 1
                if kinds[kk] <= 2 and sum(1 for v in kinds.values() if v) <= 12:
                    rep = {"db": dbname, "db_text": db_text, "dump": di, "failures": [list(map(str, x)) for x in orc[:6]],
                           "ties": [list(map(str, x)) for x in tie[:6]]}
                    if starts:
                        # a history of calls on one instance: the replay is the history up to the failing call
                        st = max(x for x in starts if x <= i)
                        rep["inputs"] = tx[st:i + 1]
                        rep["input"] = tx[i]
                    else:
                        rep["input"] = shrink_input(ctx, exe, dbname, db, dblines, text, orc[0][0])
                    ctx.violation(f"{Path(dbname).name}: {orc[0][0]} {orc[0][1]}: {orc[0][2]}", rep)
            elif tie:
                n_tie += 1
                tb = {"db": dbname, "db_text": db_text, "input": text, "dump": di, "ties": [list(map(str, x)) for x in tie[:6]]}
                if starts:
                    tb["inputs"] = tx[max(x for x in starts if x <= i):i + 1]
                ctx.tie_breaks.append(tb)
    return n_or, n_tie


def shrink_input(ctx, exe, dbname, db, dblines, text, kind):
    """drop lines of the input while the same kind of oracle failure remains"""
    lines = text.splitlines()

    def fails(sub):
        st = new_stats()
        try:
            findings, _ = check_runs(ctx, exe, dbname, db, dblines, ["\n".join(sub) + "\n"], st)
        except Exception:
            return False
        return any(f[0] != "crash" and any(o[0] == kind for o in f[2]) for f in findings)


    try:
        if not fails(lines):
            return text
        small = shrink_list(lines, fails, max_iter=60)
        return "\n".join(small) + "\n"
    except Exception:
        return text



def run_histories(ctx, exe, n, hdb, hlines, nh, stats, cov, db_text=None):
    """redefinition histories on one database: entries defined again by run inputs (all blocks together, or each block alone in
    its own call, or a NAMED_EXPRESSIONS block alone); later calls of the same instance must follow the LAST definition as a whole"""
    tot_or = tot_tie = 0
    texts, starts = [], []
    for _ in range(nh):
        tx, hm = gens.gen_redefinition_history(ctx.rng, hdb)
        starts.append(len(texts))
        texts += tx
        cov["kinds"][hm["kind"]] = cov["kinds"].get(hm["kind"], 0) + 1
        for f in set(hm["features"]):
            cov["features"][f] = cov["features"].get(f, 0) + 1
    per = max(1, math.ceil(len(starts) / vlib.NCPU))
    jobs = []
    for k in range(0, len(starts), per):
        a0 = starts[k]
        a1 = starts[k + per] if k + per < len(starts) else len(texts)
        jobs.append((a0, texts[a0:a1], [x - a0 for x in starts[k:k + per]]))
    with concurrent.futures.ThreadPoolExecutor(max_workers=vlib.NCPU) as ex:
        futs = {ex.submit(check_runs, ctx, exe, n, hdb, hlines, tx, st, frozenset(rs)): (a0, tx, rs, st)
                for a0, tx, rs in jobs for st in [new_stats()]}
        for fu in concurrent.futures.as_completed(futs):
            a0, tx, rs, st = futs[fu]
            findings, _ = fu.result()
            for key, v in st.items():
                if key in ("seen", "altpe_names"):
                    stats[key] |= v
                else:
                    stats[key] = max(stats[key], v) if key == "res_max" else stats[key] + v
            a, b = handle_findings(ctx, exe, n, hdb, hlines, [(a0, tx, findings)], db_text=db_text, starts=rs)
            tot_or += a
            tot_tie += b
    return tot_or, tot_tie


# ------------------------------------------------------------------------------------------ entry points
def databases(ctx):
    names = sorted(p.name for p in (vlib.REPO / "database").glob("*.dat"))
    if ctx.tier != "thorough":
        return [n for n in QUICK_DBS if n in names], {}
    usable, excluded = [], {}
    for n in names:
        if n in PITZER_SIT:
            excluded[n] = "specific-interaction (PITZER/SIT) database: outside the ion-association scope"
            continue
        db = dbparse.parse(str(vlib.REPO / "database" / n))
        if db.has_pitzer or db.has_sit:
            excluded[n] = "PITZER/SIT block"
        elif not db.masters or not db.species:
            excluded[n] = "no SOLUTION_MASTER_SPECIES/SOLUTION_SPECIES of its own (not loadable stand-alone)"
        elif db.problems:
            excluded[n] = "parser problems: " + "; ".join(db.problems[:3])
        else:
            usable.append(n)
    return usable, excluded


def run(ctx):
    gen_speciation.generate(ctx)          # translator first: constants and code shapes of the speciation path → Gen/SpeciationSrc.lean
    ok = ctx.prove(["PhreeqcVerif.Properties.C01"])
    ctx.build_lib()
    exe = ctx.build_harness("ph_speciate")
    snapshot_pmodel(ctx)
    try:
        _run(ctx, ok, exe)
    finally:
        drop_snapshot(ctx)


def _run(ctx, ok, exe):
    ctx.tie_breaks = []
    stats = new_stats()
    cov = {k: {} for k in ("kinds", "features", "n_elements", "temp_bins", "ph_bins", "units", "log_molal_bins")}
    dbs, excluded = databases(ctx)
    thorough = ctx.tier == "thorough" or not ok
    nruns = 4000 if thorough else 500
    # 1. k_calc directly
    bad, nk = kcalc_direct(ctx, exe, 2000 if thorough else 300)
    if bad:
        ctx.violation(f"k_calc differs from the formula of the model: {bad[0]}", {"kind": "kcalc", "cases": [list(map(str, b)) for b in bad[:5]]})
    # 2. database tables: engine vs independent parser
    dbdiffs = {}
    ndb_items = 0
    for n in dbs:
        db = dbparse.parse(str(vlib.REPO / "database" / n))
        diffs, cnt = compare_db(ctx, exe, n, db)
        ndb_items += cnt
        if diffs:
            dbdiffs[n] = diffs[:10]
    if dbdiffs:
        n0 = sorted(dbdiffs)[0]
        ctx.violation(f"the engine's reading of {n0} differs from the database text: {dbdiffs[n0][0]}",
                      {"kind": "dbtable", "diffs": dbdiffs}, found_input=False)
    # 3. speciation runs
    tot_or = tot_tie = 0
    per_db = {}
    # corpus: minimised past departures (known findings and repaired defects), always replayed first
    for cf in sorted((vlib.ROOT / "corpus" / "C01").glob("*.json")):
        data = json.loads(cf.read_text())
        dbname = data["db"]
        if data.get("db_text"):
            (vlib.BUILD / "c01_synth").mkdir(exist_ok=True)
            dbname = str(vlib.BUILD / "c01_synth" / ("corpus_" + cf.stem + ".dat"))
            Path(dbname).write_text(data["db_text"], encoding="latin-1")
        cdb = dbparse.parse(dbfile(dbname))
        clines = dbparse.to_lines(cdb, cf.stem)
        cst = new_stats()
        ctexts = data.get("inputs") or [data["input"]]
        findings, _ = check_runs(ctx, exe, dbname, cdb, clines, ctexts, cst)
        a, b = handle_findings(ctx, exe, dbname, cdb, clines, [(0, ctexts, findings)], db_text=data.get("db_text"),
                               starts=[0] if len(ctexts) > 1 else None)
        stats["states_under_redefinition"] += cst["states_under_redefinition"]
        tot_or += a
        tot_tie += b
        stats["corpus_cases"] += 1
        stats["dumps"] += cst["dumps"]
        stats["res"] += cst["res"]
    for n in dbs:
        t0 = time.time()
        before = dict(stats)
        stats["seen"] = set()
        db, dblines, results = run_db(ctx, exe, n, nruns, ctx.rng, stats, cov, sweep=True)
        a, b = handle_findings(ctx, exe, n, db, dblines, results)
        tot_or += a
        tot_tie += b
        per_db[n] = {"runs": stats["runs"] - before["runs"], "dumps": stats["dumps"] - before["dumps"],
                     "errors": stats["runs_error"] - before["runs_error"], "species_checked": stats["res"] - before["res"],
                     "distinct_species_checked": len(stats["seen"]), "species_in_database": len(db.species),
                     "wall_s": round(time.time() - t0, 1)}
        ctx.log(n, per_db[n])
        if stats["dumps"] and len(ctx.cov["samples"]) < 3:
            for k, tx, findings in results[:1]:
                ctx.sample({"db": n, "input": tx[0][:400]})
    stats["oracle_failures"] = tot_or
    if tot_or and not ctx.violations:
        ctx.violation(f"{tot_or} oracle failures were counted but none recorded", {"kinds": {f"{a}:{b}": c for (a, b), c in getattr(ctx, "_orc_kinds", {}).items()}}, found_input=False)
    # 3b. redefinition histories: database entries defined again (with fewer options) by a run input; later calls of the same
    #     instance must follow the text of the LAST definition as a whole
    nh = 150 if thorough else 30
    for n in dbs[:4] if not thorough else dbs:
        hdb = dbparse.parse(dbfile(n))
        if not hdb.species or n == "minimum.dat":
            continue
        a, b = run_histories(ctx, exe, n, hdb, dbparse.to_lines(hdb, n), nh, stats, cov)
        tot_or += a
        tot_tie += b
    ctx.log("redefinition histories:", {"states_under_redefinition": stats["states_under_redefinition"],
                                        "runs_with_definitions": stats["runs_with_definitions"],
                                        "runs_after_failed_definition": stats["runs_after_failed_definition"]})
    # 4. synthetic databases: phreeqc.dat + generated NAMED_EXPRESSIONS / SOLUTION_SPECIES / PHASES using every option spelling
    base = (vlib.REPO / "database" / "phreeqc.dat").read_text(encoding="latin-1")
    base_db = dbparse.parse(base, is_text=True)
    sdir = vlib.BUILD / "c01_synth"
    sdir.mkdir(exist_ok=True)
    synth_cov = {}
    for k in range(6 if thorough else 2):
        text, smeta = gens.gen_synth_db(ctx.rng, base, base_db)
        path = sdir / f"synth_{ctx.tier}_{ctx.seed}_{k}_{os.getpid()}.dat"
        path.write_text(text, encoding="latin-1")
        for f in smeta["features"]:
            synth_cov[f] = synth_cov.get(f, 0) + 1
        sdb = dbparse.parse(str(path))
        diffs, cnt = compare_db(ctx, exe, str(path), sdb)
        ndb_items += cnt
        if sdb.problems or diffs:
            ctx.violation(f"generated database {path.name}: the engine's reading differs from the text: {(sdb.problems + diffs)[0]}",
                          {"kind": "dbtable-synth", "db_text": text, "diffs": (sdb.problems + diffs)[:10]}, found_input=False)
            if sdb.problems or any(x.startswith("engine could not load") for x in diffs):
                continue
        before = dict(stats)
        stats["seen"] = set()
        focus = smeta["species"]
        db, dblines, results = run_db(ctx, exe, str(path), 300 if thorough else 100, ctx.rng, stats, cov, sweep=False,
                                      focus=[x for x in ("Na", "K", "Li", "Ca", "Mg", "Ba", "Sr", "Mn", "Zn", "Cd", "Cu", "Al",
                                                         "Cl", "Br", "F", "N", "S") if x])
        a, b = handle_findings(ctx, exe, str(path), db, dblines, results, db_text=text)
        tot_or += a
        tot_tie += b
        a, b = run_histories(ctx, exe, str(path), db, dblines, 60 if thorough else 25, stats, cov, db_text=text)
        tot_or += a
        tot_tie += b
        per_db[path.name] = {"runs": stats["runs"] - before["runs"], "dumps": stats["dumps"] - before["dumps"],
                             "errors": stats["runs_error"] - before["runs_error"], "species_checked": stats["res"] - before["res"],
                             "synthetic_species_checked": len(stats["seen"] & set(focus)), "synthetic_species": len(focus)}
        ctx.log(path.name, per_db[path.name])
    for f in sdir.glob(f"synth_{ctx.tier}_{ctx.seed}_*_{os.getpid()}.dat"):
        f.unlink()
    cov["synthetic_db_features"] = synth_cov
    stats["oracle_failures"] = tot_or
    if ctx.tie_breaks and not ctx.violations:
        tb = ctx.tie_breaks[0]
        ctx.violation(f"model and engine disagree ({tb['ties'][0]}) while every direct oracle holds", dict(tb, kind="tie"),
                      found_input=False)
    if not ok and not ctx.violations:
        ctx.violation("obligation of Properties/C01.lean no longer checks", {"broken": ctx.proof_broken}, found_input=False)
    ctx.cov.update(cov)
    ctx.cov["databases"] = per_db
    ctx.cov["databases_excluded"] = excluded
    stats.pop("seen", None)
    stats["altpe_names"] = sorted(stats["altpe_names"])[:40]
    ctx.cov["counters"] = stats
    ctx.cov["kcalc_direct_calls"] = nk
    ctx.cov["database_items_compared_with_engine"] = ndb_items
    ctx.cov["evaluations"] = stats["res"] + stats["rx"] + stats["sums"] + stats["readouts"] + stats["si"] + stats["gate"] + nk
    ctx.cov["distinct_nontrivial"] = stats["res"]
    ctx.cov["not_judged"] = {"runs_with_error_or_no_convergence": stats["runs_error"], "states_above_1atm": stats["above_1atm"],
                             "species_with_reactant_outside_model": stats["res_missing"],
                             "species_under_non_default_redox_couple": stats["res_altpe_skipped"]}
    ctx.cov["rule"] = ("per database (shipped + generated synthetic ones): random SOLUTION (1-8 elements of the database, log-uniform molality, "
                       "pH 2-12, pe, 0-100 C, unit spellings, charge/phase adjustment, valence states, redox couples on the solution or on one "
                       "element) optionally followed by REACTION / MIX / REACTION_TEMPERATURE / EXCHANGE / SURFACE / EQUILIBRIUM_PHASES / "
                       "ADVECTION / TRANSPORT / a redefinition in a later simulation; plus a deterministic element sweep (every element at 4 "
                       "temperature-pH-pe corners) and the corpus; every punch of a run that returned 0 is one dumped state; non-trivial = one "
                       "species whose database mass-action residual was evaluated from the independently parsed text (masters in use excluded)")
    ctx.cov["max_mass_action_residual_seen"] = stats["res_max"]


def replay(ctx, data):
    ctx.build_lib()
    exe = ctx.build_harness("ph_speciate")
    gen_speciation.generate(ctx)
    ctx.prove(["PhreeqcVerif.Properties.C01"])
    snapshot_pmodel(ctx)
    try:
        _replay(ctx, data, exe)
    finally:
        drop_snapshot(ctx)


def _replay(ctx, data, exe):
    ctx.tie_breaks = []
    kind = data.get("kind")
    if kind == "kcalc":
        bad, _ = kcalc_direct(ctx, exe, 300)
        if bad:
            ctx.violation(f"k_calc differs from the formula of the model: {bad[0]}", {"kind": "kcalc"})
        return
    if kind == "dbtable":
        for n in data.get("diffs", {}):
            db = dbparse.parse(str(vlib.REPO / "database" / n))
            diffs, _ = compare_db(ctx, exe, n, db)
            if diffs:
                ctx.violation(f"the engine's reading of {n} differs from the database text: {diffs[0]}",
                              {"kind": "dbtable", "diffs": {n: diffs[:10]}}, found_input=False)
        return
    dbname = data["db"]
    if data.get("db_text"):
        (vlib.BUILD / "c01_synth").mkdir(exist_ok=True)
        dbname = str(vlib.BUILD / "c01_synth" / "replay.dat")
        Path(dbname).write_text(data["db_text"], encoding="latin-1")
    db = dbparse.parse(dbfile(dbname))
    dblines = dbparse.to_lines(db, Path(dbname).name)
    texts = data.get("inputs") or [data["input"]]
    stats = new_stats()
    findings, runs = check_runs(ctx, exe, dbname, db, dblines, texts, stats)
    handle_findings(ctx, exe, dbname, db, dblines, [(0, texts, findings)])
    if ctx.tie_breaks and not ctx.violations:
        ctx.violation(f"model and engine disagree: {ctx.tie_breaks[0]['ties'][0]}", dict(ctx.tie_breaks[0], kind="tie"), found_input=False)
    ctx.cov["evaluations"] = stats["res"] + stats["rx"]
    ctx.cov["distinct_nontrivial"] = stats["res"]
    stats.pop("seen", None)
    stats["altpe_names"] = sorted(stats["altpe_names"])[:40]
    ctx.cov["counters"] = stats
