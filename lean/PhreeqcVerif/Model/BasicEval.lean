import PhreeqcVerif.Model.BasicExpr
/-! Interpreter state and expression evaluation of the BASIC model (C17): `valrec` values, `varrec` variables
(scalar cell, array cells, the sticky `val` pointer), `findvar` with implicit dimensioning, and the value of every
expression form as `PBasic::factor … expr` compute it (arithmetic quirks modelled, not judged). -/
namespace PhreeqcVerif.Basic

inductive Val (α : Type) where
  | num (x : α)
  | str (s : String)
deriving Repr, Inhabited

/-- `varrec`: `rv`/`sv` is the scalar cell, `arr`/`sarr` the array cells (`dims = []` ⇔ not dimensioned),
`ptr` is where `val`/`sval` points: `none` = scalar cell, `some k` = array cell `k` -/
structure Var (α : Type) where
  dims : List Nat := []
  ptr : Option Nat := none
  rv : α
  arr : Array α := #[]
  sv : String := ""
  sarr : Array String := #[]

inductive LoopKind where
  | for_ | while_ | gosub
deriving DecidableEq, Repr

/-- `looprec` -/
structure Loop (α : Type) where
  kind : LoopKind
  homeline : Option Nat
  hometok : List (Tok α)
  var : String := ""
  /-- FOR: the cell of the loop variable the statement designated (`none` = scalar cell, `some k` = array cell `k`);
  kept in the record (af19d591) because `findvar` re-points the variable's own pointer at every reference -/
  cell : Option Nat := none
  max : α
  step : α

/-- `linerec` -/
structure Line (α : Type) where
  num : Nat
  toks : List (Tok α)

structure St (α : Type) where
  lines : List (Line α) := []
  vars : List (String × Var α) := []
  loops : List (Loop α) := []
  dataline : Option Nat := none
  datatok : List (Tok α) := []
  /-- PUNCH items in call order -/
  punch : Array (Val α) := #[]
  /-- `output_msg` payloads of PRINT in call order -/
  prints : Array String := #[]
  /-- `rate_moles` (NaN at the start of a RATES / CALCULATE_VALUES evaluation = `none`) -/
  save : Option α := none
  punchTab : Bool := true
  skipPunch : Bool := false
  outNewline : Bool := true
  putN : List (String × α) := []
  putS : List (String × String) := []
  warnings : Nat := 0
  /-- a C conversion with undefined behaviour happened ((long) of NaN / out-of-range), or a NaN was formatted as
  text (printf shows its sign bit, the model has a single NaN): differences of such a run are not judged -/
  ub : Bool := false
  /-- high precision of the current selected output (numtostr) -/
  hp : Bool := false

section Eval
variable {α : Type} [BNum α]

def isStrName (n : String) : Bool := n.toList.getLast? == some '$'

def newVar : Var α := { rv := BNum.zero }

def St.getVar (s : St α) (n : String) : Var α :=
  match s.vars.find? (fun p => p.1 == n) with
  | some p => p.2
  | none => newVar

def St.setVar (s : St α) (n : String) (v : Var α) : St α :=
  if s.vars.any (fun p => p.1 == n) then
    { s with vars := s.vars.map fun p => if p.1 == n then (n, v) else p }
  else { s with vars := (n, v) :: s.vars }

def Var.numVal (v : Var α) : α := match v.ptr with
  | none => v.rv
  | some k => v.arr.getD k BNum.zero
def Var.strVal (v : Var α) : String := match v.ptr with
  | none => v.sv
  | some k => v.sarr.getD k ""
def Var.setNum (v : Var α) (x : α) : Var α := match v.ptr with
  | none => { v with rv := x }
  | some k => { v with arr := v.arr.setIfInBounds k x }
def Var.setStr (v : Var α) (x : String) : Var α := match v.ptr with
  | none => { v with sv := x }
  | some k => { v with sarr := v.sarr.setIfInBounds k x }

/-- store through an address taken *before* the right-hand side was evaluated (`*v->val = realexpr(LINK)` as compiled:
the pointer is loaded first); `val`/`sval` itself stays where the evaluation left it -/
def Var.setNumAt (v : Var α) (target : Option Nat) (x : α) : Var α :=
  { ({ v with ptr := target }.setNum x) with ptr := v.ptr }
def Var.setStrAt (v : Var α) (target : Option Nat) (x : String) : Var α :=
  { ({ v with ptr := target }.setStr x) with ptr := v.ptr }

/-- the content of a designated cell, wherever `val` currently points -/
def Var.numAt (v : Var α) (cell : Option Nat) : α := ({ v with ptr := cell } : Var α).numVal

/-- `clearvar` -/
def Var.clear (_v : Var α) : Var α := newVar

abbrev M (α : Type) (β : Type) := St α → Except Err (β × St α)

/-- the largest array the model allocates (the C code is limited only by `malloc`) -/
def maxCells : Nat := 2000000
/-- the longest string the model builds -/
def maxStr : Nat := 4000000

/-- x86-64 result of a `(long)` conversion that C leaves undefined -/
def longIndefinite : Int := -9223372036854775808

/-- `(long) x`; an unrepresentable value sets the `ub` mark -/
def toLongM (x : α) : M α Int := fun s =>
  match BNum.toLong x with
  | some i => .ok (i, s)
  | none => .ok (longIndefinite, { s with ub := true })

/-- `(long) floor(x + 0.5)` (`intexpr`, `intfactor`) -/
def roundM (x : α) : M α Int :=
  toLongM (BNum.fn1 .floor (BNum.add x (BNum.ofDec 5 (-1))))

def wrapInt32 (i : Int) : Int := (i.toInt32).toInt

def i64 (f : Int64 → Int64 → Int64) (a b : Int) : Int := (f a.toInt64 b.toInt64).toInt

/-- C `strcmp` on byte strings: sign of the comparison -/
def strcmpC : List Char → List Char → Ordering
  | [], [] => .eq
  | [], _ :: _ => .lt
  | _ :: _, [] => .gt
  | a :: as, b :: bs => if a.toNat < b.toNat then .lt else if a.toNat > b.toNat then .gt else strcmpC as bs

/-- C `strstr(h, n)`: 0-based index of the first occurrence -/
def strstrC (h n : List Char) : Option Nat :=
  let rec go (fuel : Nat) (h : List Char) (i : Nat) : Option Nat :=
    match fuel with
    | 0 => none
    | f + 1 => if n.isPrefixOf h then some i else match h with
      | [] => none
      | _ :: t => go f t (i + 1)
  go (h.length + 1) h 0

def relHolds (op : BinOp) (o : Option Ordering) : Bool := match o, op with
  | some .eq, .eq | some .eq, .ge | some .eq, .le => true
  | some .lt, .lt | some .lt, .le | some .lt, .ne => true
  | some .gt, .gt | some .gt, .ge | some .gt, .ne => true
  | _, _ => false

/-- C comparison of two doubles: `none` when unordered (NaN) — then every relation, `<>` included, is false -/
def numOrd (a b : α) : Option Ordering :=
  if BNum.eq a b then some .eq else if BNum.lt a b then some .lt else if BNum.lt b a then some .gt else none

def chrOfLong (i : Int) : String :=
  let b := (i % 256).toNat
  if b = 0 then "" else String.ofList [Char.ofNat b]

def keyOf (is : List Int) : String := String.join (is.map fun i => toString i ++ ",")

def lookupD {β : Type} (l : List (String × β)) (k : String) (d : β) : β :=
  match l.find? (fun p => p.1 == k) with
  | some p => p.2
  | none => d

def insertKV {β : Type} (l : List (String × β)) (k : String) (v : β) : List (String × β) :=
  if l.any (fun p => p.1 == k) then l.map fun p => if p.1 == k then (k, v) else p else (k, v) :: l

def needNum : Val α → Except Err α
  | .num x => .ok x
  | .str _ => .error .typeMismatch
def needStr : Val α → Except Err String
  | .str s => .ok s
  | .num _ => .error .typeMismatch

/-- value of a binary operator on two evaluated operands (`upexpr` … `expr`) -/
def applyBin (op : BinOp) (a b : Val α) : M α (Val α) := fun s =>
  match op with
  | .up =>
    (match a, b with
     | .num x, .num y =>
       if BNum.ge x BNum.zero then
         (if BNum.gt x BNum.zero then .ok (.num (BNum.fn1 .exp (BNum.mul y (BNum.fn1 .ln x))), s)
          else .ok (.num x, s))                                     -- 0 ^ y = 0
       else
         match toLongM y s with
         | .error e => .error e
         | .ok (ly, s1) =>
           if !(BNum.eq y (BNum.ofInt ly)) then .error .typeMismatch  -- negative base, fractional power
           else
             let v := BNum.fn1 .exp (BNum.mul y (BNum.fn1 .ln (BNum.neg x)))
             .ok (.num (if ly % 2 != 0 then BNum.neg v else v), s1)
     | _, _ => .error .typeMismatch)
  | .times =>
    (match a, b with
     | .num x, .num y => .ok (.num (BNum.mul x y), s)
     | _, _ => .error .typeMismatch)
  | .div =>
    (match a, b with
     | .num x, .num y =>
       if BNum.ne0 y then .ok (.num (BNum.div x y), s)
       else .ok (.num BNum.zero, { s with warnings := s.warnings + 1 })   -- "Zero divide … Value set to zero."
     | _, _ => .error .typeMismatch)
  | .mod_ =>
    (match a, b with
     | .num x, .num y =>
       if BNum.ne0 x then
         let ax := BNum.fn1 .abs x
         .ok (.num (BNum.mul (BNum.div ax x) (BNum.fmod (BNum.add ax (BNum.ofDec 1 (-14))) y)), s)
       else .ok (.num BNum.zero, s)
     | _, _ => .error .typeMismatch)
  | .plus =>
    (match a, b with
     | .num x, .num y => .ok (.num (BNum.add x y), s)
     | .str x, .str y =>
       -- the C code is limited only by `malloc`; the model stops at `maxStr` characters (not judged)
       if x.length + y.length > maxStr then .error .resource else .ok (.str (x ++ y), s)
     | _, _ => .error .typeMismatch)
  | .minus =>
    (match a, b with
     | .num x, .num y => .ok (.num (BNum.sub x y), s)
     | _, _ => .error .typeMismatch)
  | .eq | .lt | .gt | .le | .ge | .ne =>
    (match a, b with
     | .num x, .num y => .ok (.num (BNum.ofBool (relHolds op (numOrd x y))), s)
     | .str x, .str y => .ok (.num (BNum.ofBool (relHolds op (some (strcmpC x.toList y.toList)))), s)
     | _, _ => .error .typeMismatch)
  | .and_ | .or_ | .xor_ =>
    (match a, b with
     | .num x, .num y =>
       match toLongM x s with
       | .error e => .error e
       | .ok (lx, s1) =>
         match toLongM y s1 with
         | .error e => .error e
         | .ok (ly, s2) =>
           let r := match op with
             | .and_ => i64 (· &&& ·) lx ly
             | .or_ => i64 (· ||| ·) lx ly
             | _ => i64 (· ^^^ ·) lx ly
           .ok (.num (BNum.ofInt r), s2)
     | _, _ => .error .typeMismatch)

/-- numeric one-argument functions on an evaluated factor -/
def applyUn (hook : String → M α (Val α)) (f : UnFn) (v : Val α) : M α (Val α) := fun s =>
  let numFn (g : α → α) : Except Err (Val α × St α) := match v with
    | .num x => .ok (.num (g x), s)
    | .str _ => .error .typeMismatch
  match f with
  | .neg => numFn BNum.neg
  | .pos => numFn id
  | .sqr => numFn fun x => BNum.mul x x
  | .sqrt => numFn (BNum.fn1 .sqrt)
  | .ceil => numFn (BNum.fn1 .ceil)
  | .floor => numFn (BNum.fn1 .floor)
  | .log10 => numFn (BNum.fn1 .log10)
  | .sin => numFn (BNum.fn1 .sin)
  | .cos => numFn (BNum.fn1 .cos)
  | .tan => numFn fun x => BNum.div (BNum.fn1 .sin x) (BNum.fn1 .cos x)
  | .arctan => numFn (BNum.fn1 .atan)
  | .log => numFn (BNum.fn1 .ln)
  | .exp => numFn (BNum.fn1 .exp)
  | .abs => numFn (BNum.fn1 .abs)
  | .sgn => numFn fun x => BNum.sub (BNum.ofBool (BNum.gt x BNum.zero)) (BNum.ofBool (BNum.lt x BNum.zero))
  | .not_ =>
    (match v with
     | .num x => match roundM x s with
       | .error e => .error e
       | .ok (i, s1) => .ok (.num (BNum.ofInt (-i - 1)), s1)       -- ~i
     | .str _ => .error .typeMismatch)
  | .str_ =>
    (match v with
     -- printf shows the sign bit of a NaN ("-nan"); the model has one NaN: such a text is not judged
     | .num x => .ok (.str (BNum.fmt s.hp x), if BNum.isNaN x then { s with ub := true } else s)
     | .str _ => .error .typeMismatch)
  | .chr_ =>
    (match v with
     | .num x => match roundM x s with
       | .error e => .error e
       | .ok (i, s1) => .ok (.str (chrOfLong i), s1)
     | .str _ => .error .typeMismatch)
  | .asc =>
    (match v with
     | .str t => match t.toList with
       | [] => .ok (.num BNum.zero, s)
       | c :: _ => .ok (.num (BNum.ofInt (if c.toNat ≥ 128 then Int.ofNat c.toNat - 256 else Int.ofNat c.toNat)), s)
     | .num _ => .error .typeMismatch)
  | .len =>
    (match v with
     | .str t => .ok (.num (BNum.ofInt (Int.ofNat t.length)), s)
     | .num _ => .error .typeMismatch)
  | .val =>
    (match v with
     | .str t => hook t s
     | .num _ => .error .typeMismatch)

def trimStr (f : TrimFn) (t : String) : String :=
  let cs := t.toList
  match f with
  | .ltrim => String.ofList (cs.dropWhile isSpaceC)
  | .rtrim => String.ofList ((cs.reverse.dropWhile isSpaceC).reverse)
  | .trim => String.ofList (((cs.reverse.dropWhile isSpaceC).reverse).dropWhile isSpaceC)

def midStr (t : String) (i : Int) (j : Option Int) : String :=
  let cs := t.toList
  let i := if i < 1 then 1 else i
  let start := (i - 1).toNat
  if start ≥ cs.length then "" else
  let rest := cs.drop start
  match j with
  | none => String.ofList rest
  | some j => if j < 0 then String.ofList rest else String.ofList (rest.take j.toNat)

def padStr (t : String) (i : Int) : String :=
  if i > Int.ofNat t.length then t ++ String.ofList (List.replicate (i.toNat - t.length) ' ') else t

/-- `k = k*dim + j` over all dimensions, with the bound test of `findvar` -/
def cellIndexAcc : Nat → List Nat → List Int → Option Nat
  | k, [], [] => some k
  | k, d :: ds, j :: js =>
    if j < 0 ∨ j ≥ Int.ofNat d then none else cellIndexAcc (k * d + j.toNat) ds js
  | _, _, _ => none

/-- first part of `findvar`: a subscripted reference to a variable without dimensions dimensions it
implicitly with 11 cells per subscript (at most `maxdims = 4`) -/
def autoDim (name : String) (n : Nat) : M α Unit := fun s =>
  let v := s.getVar name
  if n = 0 then
    (if v.dims.isEmpty then .ok ((), s.setVar name v) else .error .badSubscript)
  else if v.dims.isEmpty then
    if n > 4 then .error .badSubscript
    else
      let cells := 11 ^ n
      let v' : Var α := { v with
        dims := List.replicate n 11
        arr := Array.replicate (if isStrName name then 0 else cells) BNum.zero
        sarr := Array.replicate (if isStrName name then cells else 0) "" }
      .ok ((), s.setVar name v')
  else .ok ((), s)

/-- second part of `findvar`: bound test, row-major cell, `val`/`sval` left pointing at the cell -/
def resolveCell (name : String) (is : List Int) : M α Unit := fun s =>
  if is.isEmpty then .ok ((), s) else
  let v1 := s.getVar name
  if is.length != v1.dims.length then
    -- too few: `require(tokcomma)`; too many: `require(tokrp)`
    .error (.syntax "subscript count")
  else
    match cellIndexAcc 0 v1.dims is with
    | none => .error .badSubscript
    | some k => .ok ((), s.setVar name { v1 with ptr := some k })

mutual
/-- value of an expression; `hook` evaluates the text given to `VAL` -/
def eval (hook : String → M α (Val α)) : Expr α → M α (Val α)
  | .num x => fun s => .ok (.num x, s)
  | .str t => fun s => .ok (.str t, s)
  | .var name subs => fun s =>
    match autoDim name subs.length s with
    | .error e => .error e
    | .ok (_, s0) =>
      match evalSubs hook subs (s0.getVar name).dims 0 s0 with
      | .error e => .error e
      | .ok (k, s1) =>
        let s2 := if subs.isNil then s1 else s1.setVar name { s1.getVar name with ptr := some k }
        let v := s2.getVar name
        if isStrName name then .ok (.str v.strVal, s2) else .ok (.num v.numVal, s2)
  | .un f e => fun s =>
    match eval hook e s with
    | .error e => .error e
    | .ok (v, s1) => applyUn hook f v s1
  | .eol => fun s => .ok (.str "\n", s)
  | .eolNotab => fun s => .ok (.str "\n", { s with punchTab := false })
  | .noNewline => fun s => .ok (.str "", { s with outNewline := false, skipPunch := true })
  | .get a => fun s =>
    match evalInts hook a s with
    | .error e => .error e
    | .ok (is, s1) => .ok (.num (lookupD s1.putN (keyOf is) BNum.zero), s1)
  | .getS a => fun s =>
    match evalInts hook a s with
    | .error e => .error e
    | .ok (is, s1) => .ok (.str (lookupD s1.putS (keyOf is) "unknown"), s1)
  | .instr a b => fun s =>
    match eval hook a s with
    | .error e => .error e
    | .ok (va, s1) =>
      match needStr va with
      | .error e => .error e
      | .ok sa =>
        match eval hook b s1 with
        | .error e => .error e
        | .ok (vb, s2) =>
          match needStr vb with
          | .error e => .error e
          | .ok sb =>
            match strstrC sa.toList sb.toList with
            | none => .ok (.num BNum.zero, s2)
            | some i => .ok (.num (BNum.ofInt (Int.ofNat i + 1)), s2)
  | .trimf f a => fun s =>
    match eval hook a s with
    | .error e => .error e
    | .ok (va, s1) =>
      match needStr va with
      | .error e => .error e
      | .ok sa => .ok (.str (trimStr f sa), s1)
  | .pad a n => fun s =>
    match eval hook a s with
    | .error e => .error e
    | .ok (va, s1) =>
      match needStr va with
      | .error e => .error e
      | .ok sa =>
        match evalInt hook n s1 with
        | .error e => .error e
        | .ok (i, s2) => if i > Int.ofNat maxStr then .error .resource else .ok (.str (padStr sa i), s2)
  | .mid2 t i => fun s =>
    match eval hook t s with
    | .error e => .error e
    | .ok (vt, s1) =>
      match needStr vt with
      | .error e => .error e
      | .ok st =>
        match evalInt hook i s1 with
        | .error e => .error e
        | .ok (ii, s2) => .ok (.str (midStr st ii none), s2)
  | .mid3 t i j => fun s =>
    match eval hook t s with
    | .error e => .error e
    | .ok (vt, s1) =>
      match needStr vt with
      | .error e => .error e
      | .ok st =>
        match evalInt hook i s1 with
        | .error e => .error e
        | .ok (ii, s2) =>
          match evalInt hook j s2 with
          | .error e => .error e
          | .ok (jj, s3) => .ok (.str (midStr st ii (some jj)), s3)
  | .fmt isE x w p => fun s =>
    match eval hook x s with
    | .error e => .error e
    | .ok (vx, s1) =>
      match needNum vx with
      | .error e => .error e
      | .ok nx =>
        match evalCInt hook w s1 with
        | .error e => .error e
        | .ok (wi, s2) =>
          match evalCInt hook p s2 with
          | .error e => .error e
          | .ok (pi, s3) =>
            if pi > 4000 ∨ wi.natAbs > maxStr then .error .resource else
            let cap : Nat := (if wi < 256 then 256 else wi.toNat) - 1
            .ok (.str (BNum.fmtC isE wi pi cap nx), if BNum.isNaN nx then { s3 with ub := true } else s3)
  | .bin op a b => fun s =>
    match eval hook a s with
    | .error e => .error e
    | .ok (va, s1) =>
      match eval hook b s1 with
      | .error e => .error e
      | .ok (vb, s2) => applyBin op va vb s2

/-- `intexpr` -/
def evalInt (hook : String → M α (Val α)) : Expr α → M α Int
  | e => fun s =>
    match eval hook e s with
    | .error e => .error e
    | .ok (v, s1) =>
      match needNum v with
      | .error e => .error e
      | .ok x => roundM x s1

/-- `(int) realexpr`: truncation toward zero; outside the `int` range the conversion is undefined in C -/
def evalCInt (hook : String → M α (Val α)) : Expr α → M α Int
  | e => fun s =>
    match eval hook e s with
    | .error e => .error e
    | .ok (v, s1) =>
      match needNum v with
      | .error e => .error e
      | .ok x =>
        match toLongM x s1 with
        | .error e => .error e
        | .ok (i, s2) =>
          if i < -2147483648 ∨ i > 2147483647 then .ok (wrapInt32 i, { s2 with ub := true }) else .ok (i, s2)

/-- the subscript loop of `findvar`: for each dimension `intexpr`, bound test, `k = k*dim + j`; too few subscripts
fail at `require(tokcomma)`, too many at `require(tokrp)` (syntax errors) — in the order the C code meets them.
`none`: no subscripts at all (plain variable). -/
def evalSubs (hook : String → M α (Val α)) : Args α → List Nat → Nat → M α Nat
  | .nil, dims, k => fun s =>
    if dims.isEmpty then .ok (k, s) else .error (.syntax "missing ,")
  | .cons e r, dims, k => fun s =>
    match dims with
    | [] => .error (.syntax "missing )")
    | d :: ds =>
      match evalInt hook e s with
      | .error e => .error e
      | .ok (j, s1) =>
        if j < 0 ∨ j ≥ Int.ofNat d then .error .badSubscript
        else evalSubs hook r ds (k * d + j.toNat) s1

def evalInts (hook : String → M α (Val α)) : Args α → M α (List Int)
  | .nil => fun s => .ok ([], s)
  | .cons e r => fun s =>
    match evalInt hook e s with
    | .error e => .error e
    | .ok (i, s1) =>
      match evalInts hook r s1 with
      | .error e => .error e
      | .ok (is, s2) => .ok (i :: is, s2)

end

/-- `findvar` -/
def findVar (hook : String → M α (Val α)) (name : String) (subs : Args α) : M α Unit := fun s =>
  match autoDim name subs.length s with
  | .error e => .error e
  | .ok (_, s0) =>
    match evalSubs hook subs (s0.getVar name).dims 0 s0 with
    | .error e => .error e
    | .ok (k, s1) => .ok ((), if subs.isNil then s1 else s1.setVar name { s1.getVar name with ptr := some k })

end Eval

end PhreeqcVerif.Basic
