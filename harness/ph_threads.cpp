// C06 harness: run a list of jobs (database, input text) through the C API on fresh instances, sequentially, from N threads,
// or nested (one instance's run interrupted by another instance's complete life on the SAME thread), and print one canonical
// result line per job. No randomness here: the job list and the assignment of jobs to threads come from the caller.
//   ph_threads <nthreads> <coexist> <churn> [hold]   stdin: lines "J <db-path-hex> <input-hex> [flags]"
//   nthreads >= 1: job k runs on thread k % nthreads (1 = sequential reference);
//   nthreads == 0: NESTED mode: jobs come in pairs (2i, 2i+1); job 2i runs with a BASIC callback that, on its <hold>-th
//                  invocation (default 2), runs job 2i+1 from creation to destruction on the same thread, then returns;
//   coexist = number of idle instances created first (shifts the ids);
//   churn = number of extra create/destroy pairs each thread performs between its jobs;
//   hold (nthreads >= 1) = number of finished instances each thread keeps alive (destroyed late: overlapping lifetimes).
//   flags: "defaults" = keep the id-derived default file names, switch every file sink on (cwd must be a scratch directory),
//          report the names ("F" line) and hash the files written;  "loadonly" = only LoadDatabase;
//          "dbstring" = the job's database field is hex TEXT loaded with LoadDatabaseString.
// Every job registers a BASIC callback (returns x1 + 2*x2; CALLBACK(...) in an input is therefore deterministic).
// Output: "R <job> <id> <rc> <h-output> <h-selected> <h-error> <h-warning> <h-dump> <h-components> <nrows> <unbalanced-unlocks>"
//         "F <job> <id> <out> <err> <log> <dump> <sel:n=name,...> <files: name=hash,...>"   (flag defaults)
//         "IDS <all ids handed out, in per-thread order>", "LOCKBAL <unlocks of qsort_lock without lock> <same for map_lock>",
//         optional "T <job> <channel> <hex text>" when PH_TEXT=1.
// Lock-balance monitor (link with -Wl,--wrap=pthread_mutex_lock -Wl,--wrap=pthread_mutex_unlock -DLOCKMON): counts, per
// thread, every pthread_mutex_unlock of qsort_lock / map_lock that the same thread did not precede by a lock.
#include "hx.hpp"
#include "IPhreeqc.h"
#include <thread>
#include <mutex>
#include <atomic>
#include <fstream>
#include <algorithm>
#include <map>
#include <pthread.h>
#include <dirent.h>

extern pthread_mutex_t qsort_lock, map_lock;
static std::atomic<int> unbal_q(0), unbal_m(0);
static thread_local int bal_q = 0, bal_m = 0, my_unbal = 0;
#ifdef LOCKMON
extern "C" int __real_pthread_mutex_lock(pthread_mutex_t*);
extern "C" int __real_pthread_mutex_unlock(pthread_mutex_t*);
extern "C" int __wrap_pthread_mutex_lock(pthread_mutex_t* m){
  int r = __real_pthread_mutex_lock(m);
  if(m==&qsort_lock) bal_q++; else if(m==&map_lock) bal_m++;
  return r; }
extern "C" int __wrap_pthread_mutex_unlock(pthread_mutex_t* m){
  if(m==&qsort_lock){ if(bal_q<=0){ unbal_q++; my_unbal++; } else bal_q--; }
  else if(m==&map_lock){ if(bal_m<=0){ unbal_m++; my_unbal++; } else bal_m--; }
  return __real_pthread_mutex_unlock(m); }
#endif

struct Job { std::string db, input, flags; bool has(const char* f) const { return flags.find(f)!=std::string::npos; } };
struct Res { int id=-1, rc=-1, rows=0, unbal=0; std::string out, sel, err, warn, dump, comp, names; };

static uint64_t fnv(const std::string& s){ uint64_t h=1469598103934665603ULL; for(unsigned char c: s){ h^=c; h*=1099511628211ULL; } return h; }
static std::string h16(uint64_t u){ char b[17]; snprintf(b,17,"%016llx",(unsigned long long)u); return b; }

// the only run-dependent text the property exempts: the elapsed-time banner
static std::string mask(const char* t){
  std::string s = t ? t : ""; std::string o; std::istringstream is(s); std::string line;
  while(std::getline(is,line)){ if(line.find("Seconds")!=std::string::npos || line.find("seconds")!=std::string::npos) line="<time>";
    if(line.size()>=10 && line.find_first_not_of('-')==std::string::npos) line="<rule>";   // the banner's rule is as long as the time text
    o+=line; o+="\n"; }
  return o;
}
static std::string slurp(const std::string& p){ std::ifstream f(p.c_str(), std::ios::binary); std::ostringstream o; o<<f.rdbuf(); return o.str(); }

struct Nest { const Job* inner; Res* out; int count; int at; };
static Res run_job(const Job& j, Nest* nest);
static double basic_cb(double x1, double x2, const char* str, void* cookie){
  Nest* n = (Nest*)cookie;
  if(n && n->inner){ n->count++; if(n->count==n->at){ *n->out = run_job(*n->inner, 0); } }
  return x1 + 2*x2;
}

static Res run_job(const Job& j, Nest* nest){
  Res r; int ub0 = my_unbal; int id = CreateIPhreeqc(); r.id = id;
  if(id < 0) return r;
  static Nest none = {0,0,0,0};
  bool defaults = j.has("defaults");
  if(!defaults){
    // user-set names so that no id-derived default file name can appear in any text
    SetOutputFileName(id,"o.out"); SetErrorFileName(id,"e.out"); SetLogFileName(id,"l.out"); SetDumpFileName(id,"d.out");
    SetOutputFileOn(id,0); SetErrorFileOn(id,0); SetLogFileOn(id,0); SetDumpFileOn(id,0); SetSelectedOutputFileOn(id,0);
  } else {
    SetOutputFileOn(id,1); SetErrorFileOn(id,1); SetLogFileOn(id,1); SetDumpFileOn(id,1);
  }
  SetOutputStringOn(id,1); SetErrorStringOn(id,1); SetDumpStringOn(id,1);
  int rc = j.has("dbstring") ? LoadDatabaseString(id, j.db.c_str()) : LoadDatabase(id, j.db.c_str());
  if(rc==0 && !j.has("loadonly")){
    SetSelectedOutputStringOn(id,1);
    if(defaults){ const int nums[] = {1,2,3,7,40};      // the file switch is per user number
      for(int u: nums){ SetCurrentSelectedOutputUserNumber(id,u); SetSelectedOutputFileOn(id,1); SetSelectedOutputStringOn(id,1); }
      SetCurrentSelectedOutputUserNumber(id,1); }
    SetBasicCallback(id, basic_cb, nest ? (void*)nest : (void*)&none);   // after the load: LoadDatabase forgets the callback
    rc = RunString(id, j.input.c_str());
  } else if(rc!=0) rc += 1000;
  r.rc = rc;
  r.out = mask(GetOutputString(id)); r.err = mask(GetErrorString(id)); r.warn = mask(GetWarningString(id));
  r.dump = mask(GetDumpString(id));
  int n = GetSelectedOutputCount(id);
  std::string selnames;
  for(int k=0;k<n;k++){
    int u = GetNthSelectedOutputUserNumber(id,k); SetCurrentSelectedOutputUserNumber(id,u);
    r.sel += "#"+std::to_string(u)+"\n";
    selnames += (k?",":"") + std::to_string(u) + "=" + hx::hex(GetSelectedOutputFileName(id));
    int rows=GetSelectedOutputRowCount(id), cols=GetSelectedOutputColumnCount(id); r.rows += rows;
    for(int a=0;a<rows;a++){ for(int b=0;b<cols;b++){ VAR v; VarInit(&v); GetSelectedOutputValue(id,a,b,&v);
        if(v.type==TT_DOUBLE) r.sel += "D"+hx::hexd(v.dVal); else if(v.type==TT_LONG) r.sel += "L"+std::to_string(v.lVal);
        else if(v.type==TT_STRING) r.sel += "S"+std::string(v.sVal); else if(v.type==TT_EMPTY) r.sel += "E"; else r.sel += "X";
        r.sel += ";"; VarClear(&v); } r.sel += "\n"; }
    r.sel += mask(GetSelectedOutputString(id));
  }
  int nc = GetComponentCount(id); for(int k=0;k<nc;k++){ r.comp += GetComponent(id,k); r.comp += ","; }
  if(defaults){
    std::string nm[4] = { GetOutputFileName(id), GetErrorFileName(id), GetLogFileName(id), GetDumpFileName(id) };
    r.names = hx::hex(nm[0])+" "+hx::hex(nm[1])+" "+hx::hex(nm[2])+" "+hx::hex(nm[3])+" "+(selnames.empty()?"-":selnames);
  }
  DestroyIPhreeqc(id);            // closes the files
  if(defaults){
    // every regular file in the scratch directory whose name carries ".<id>." (files of other jobs carry other ids)
    std::vector<std::string> fs; DIR* d = opendir("."); if(d){ while(dirent* e = readdir(d)){ std::string f=e->d_name;
      if(f.find("."+std::to_string(id)+".")!=std::string::npos) fs.push_back(f); } closedir(d); }
    std::sort(fs.begin(), fs.end()); std::string fl;
    for(auto& f: fs){ fl += (fl.empty()?"":",") + hx::hex(f) + "=" + h16(fnv(mask(slurp(f).c_str()))); }
    r.names += " " + (fl.empty()?std::string("-"):fl);
  }
  r.unbal = my_unbal - ub0;
  return r;
}

int main(int argc, char** argv){
  int nthreads = argc>1 ? atoi(argv[1]) : 1, coexist = argc>2 ? atoi(argv[2]) : 0, churn = argc>3 ? atoi(argv[3]) : 0;
  int hold = argc>4 ? atoi(argv[4]) : (nthreads==0 ? 2 : 0);
  bool text = getenv("PH_TEXT") != 0;
  std::vector<Job> jobs; std::string line;
  while(std::getline(std::cin,line)){ auto w=hx::words(line); if(w.size()>=3 && w[0]=="J") jobs.push_back({hx::unhex(w[1]),hx::unhex(w[2]), w.size()>3?w[3]:""}); }
  std::vector<int> idle; for(int i=0;i<coexist;i++) idle.push_back(CreateIPhreeqc());
  std::vector<Res> res(jobs.size());
  std::vector<std::vector<int> > ids(std::max(1,nthreads));
  auto worker = [&](int t){
    std::vector<int> kept;
    for(size_t k=t;k<jobs.size();k+=nthreads){
      for(int c=0;c<churn;c++){ int a=CreateIPhreeqc(); ids[t].push_back(a); GetOutputFileOn(a); int b=CreateIPhreeqc(); ids[t].push_back(b);
        DestroyIPhreeqc(a); GetErrorOn(b); DestroyIPhreeqc(b); DestroyIPhreeqc(a); }
      if(hold>0){ // overlapping lifetimes: an instance with a loaded database stays alive while the next jobs run
        int a=CreateIPhreeqc(); ids[t].push_back(a); if(!jobs[k].has("dbstring")) LoadDatabase(a, jobs[k].db.c_str()); kept.push_back(a);
        if((int)kept.size()>hold){ DestroyIPhreeqc(kept.front()); kept.erase(kept.begin()); } }
      res[k] = run_job(jobs[k], 0); ids[t].push_back(res[k].id);
    }
    for(int a: kept) DestroyIPhreeqc(a);
  };
  if(nthreads==0){
    for(size_t k=0;k+1<jobs.size();k+=2){ Nest n = { &jobs[k+1], &res[k+1], 0, hold };
      res[k] = run_job(jobs[k], &n); ids[0].push_back(res[k].id); ids[0].push_back(res[k+1].id);
      if(res[k+1].id<0) std::cout<<"NOTNESTED "<<k<<"\n"; }
  }
  else if(nthreads==1) worker(0);
  else { std::vector<std::thread> th; for(int t=0;t<nthreads;t++) th.emplace_back(worker,t); for(auto& x: th) x.join(); }
  for(size_t k=0;k<jobs.size();k++){ const Res& r=res[k];
    std::cout<<"R "<<k<<" "<<r.id<<" "<<r.rc<<" "<<h16(fnv(r.out))<<" "<<h16(fnv(r.sel))<<" "<<h16(fnv(r.err))<<" "<<h16(fnv(r.warn))<<" "
             <<h16(fnv(r.dump))<<" "<<h16(fnv(r.comp))<<" "<<r.rows<<" "<<r.unbal<<"\n";
    if(!r.names.empty()) std::cout<<"F "<<k<<" "<<r.id<<" "<<r.names<<"\n";
    if(text){ std::cout<<"T "<<k<<" out "<<hx::hex(r.out)<<"\nT "<<k<<" sel "<<hx::hex(r.sel)<<"\nT "<<k<<" err "<<hx::hex(r.err)<<"\nT "<<k<<" warn "<<hx::hex(r.warn)
             <<"\nT "<<k<<" dump "<<hx::hex(r.dump)<<"\nT "<<k<<" comp "<<hx::hex(r.comp)<<"\n"; }
  }
  std::cout<<"IDS"; for(int x: idle) std::cout<<" "<<x; for(auto& v: ids) for(int x: v) std::cout<<" "<<x; std::cout<<"\n";
  std::cout<<"LOCKBAL "<<unbal_q.load()<<" "<<unbal_m.load()<<"\n";
  for(int x: idle) DestroyIPhreeqc(x);
  return 0;
}
