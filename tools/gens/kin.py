"""Seeded generators for C12 (kinetics): closed-form rate families, integrator settings, step divisions.

All randomness comes from the `rng` passed in (= ctx.rng).  A *problem* is a rate family with parameters that has a
closed-form solution; a *config* is how it is integrated (integrator, tolerance, step list, incremental).  The
property says the amounts at time T agree with the closed form within 100 x tol for every config of the same problem.
"""
import math

TRACER_DB = """SOLUTION_MASTER_SPECIES
 Xa Xa 0 1 1
 Xb Xb 0 1 1
 Xc Xc 0 1 1
SOLUTION_SPECIES
 Xa = Xa
  log_k 0
 Xb = Xb
  log_k 0
 Xc = Xc
  log_k 0
"""


def fmt(x):
    """shortest decimal text that strtod reads back as exactly x"""
    return repr(float(x))


# ----------------------------------------------------------------------------------------------------------------
# problems (closed-form families)
# ----------------------------------------------------------------------------------------------------------------
class Problem:
    """kind: zero | first | chainsol (A -> Xb(aq) -> C) | chainkin (A -> B -> C, all kinetic, coupled through KIN())"""

    def __init__(self, kind, p):
        self.kind = kind
        self.p = p

    def to_json(self):
        return {"kind": self.kind, "p": self.p}

    @staticmethod
    def from_json(d):
        return Problem(d["kind"], d["p"])

    # -- RATES + KINETICS component text ------------------------------------------------------------------------
    def rates(self, trace=False):
        p = self.p
        # one event per evaluation and only for the clock reactant A (the check counts evaluations and follows A's amount)
        cbk = lambda name: (f" 25 dummy = CALLBACK(TOTAL_TIME, M, \"{name}\")\n" if trace and name == "A" else "")
        if self.kind == "zero":
            return ("RATES\n A\n -start\n 10 rate = PARM(1)\n 20 moles = rate * TIME\n" + cbk("A") + " 30 SAVE moles\n -end\n")
        if self.kind == "first":
            return ("RATES\n A\n -start\n 10 rate = PARM(1) * M\n 20 moles = rate * TIME\n" + cbk("A") + " 30 SAVE moles\n -end\n")
        if self.kind == "tquad":
            return ("RATES\n A\n -start\n 10 rate = PARM(1) * TOTAL_TIME\n 20 moles = rate * TIME\n" + cbk("A") + " 30 SAVE moles\n -end\n")
        if self.kind == "chainsol":
            return ("RATES\n A\n -start\n 10 rate = PARM(1) * M\n 20 moles = rate * TIME\n" + cbk("A") + " 30 SAVE moles\n -end\n"
                    " C\n -start\n 10 rate = -PARM(1) * TOT(\"Xb\") * TOT(\"water\")\n 20 moles = rate * TIME\n" + cbk("C") +
                    " 30 SAVE moles\n -end\n")
        if self.kind == "chainkin":
            return ("RATES\n A\n -start\n 10 rate = PARM(1) * M\n 20 moles = rate * TIME\n" + cbk("A") + " 30 SAVE moles\n -end\n"
                    " B\n -start\n 10 rate = PARM(2) * M - PARM(1) * KIN(\"A\")\n 20 moles = rate * TIME\n" + cbk("B") +
                    " 30 SAVE moles\n -end\n"
                    " C\n -start\n 10 rate = -PARM(1) * KIN(\"B\")\n 20 moles = rate * TIME\n" + cbk("C") + " 30 SAVE moles\n -end\n")
        raise ValueError(self.kind)

    def comps(self, tol):
        """list of (name, formula, m, parms) ; every component gets the same -tol"""
        p = self.p
        if self.kind in ("zero", "first"):
            return [("A", "Xa 1", p["m0"], [p["k"]])]
        if self.kind == "tquad":
            return [("A", "Xa 1", p["m0"], [p["a"]])]
        if self.kind == "chainsol":
            # A --k1--> Xb(aq) --k2--> C   (A releases Xb; C takes Xb out of solution)
            return [("A", "Xb 1", p["a0"], [p["k1"]]), ("C", "Xb 1", p["c0"], [p["k2"]])]
        if self.kind == "chainkin":
            # all three are kinetic reactants with inert, distinct formulas; the coupling is through KIN()
            return [("A", "Xa 1", p["a0"], [p["k1"]]), ("B", "Xb 1", p["b0"], [p["k1"], p["k2"]]),
                    ("C", "Xc 1", p["c0"], [p["k2"]])]
        raise ValueError(self.kind)

    def solution_extra(self):
        """initial tracer content of the solution (mol/kgw, 1 kg water) so that nothing can go negative"""
        p = self.p
        if self.kind == "zero":
            return {"Xa": p.get("xa0", 0.0), "Xb": 0.0, "Xc": 0.0}
        if self.kind in ("first", "tquad"):
            return {"Xa": 0.0, "Xb": 0.0, "Xc": 0.0}
        if self.kind == "chainsol":
            return {"Xa": 0.0, "Xb": p["x0"], "Xc": 0.0}
        if self.kind == "chainkin":
            # B and C may grow: they take Xb / Xc out of solution
            return {"Xa": 0.0, "Xb": p["a0"] + p["b0"] + 1e-3, "Xc": p["a0"] + p["b0"] + 1e-3}
        raise ValueError(self.kind)

    # -- closed form ----------------------------------------------------------------------------------------------
    def exact(self, t):
        """dict name -> amount of the kinetic reactants at time t (and 'sol:<elt>' -> moles in solution)"""
        p = self.p
        if self.kind == "zero":
            m = p["m0"] - p["k"] * t
            return {"A": max(m, 0.0)}
        if self.kind == "first":
            return {"A": p["m0"] * math.exp(-p["k"] * t)}
        if self.kind == "tquad":
            return {"A": p["m0"] - p["a"] * t * t / 2}
        if self.kind in ("chainsol", "chainkin"):
            k1, k2 = p["k1"], p["k2"]
            a0 = p["a0"]
            b0 = p["x0"] if self.kind == "chainsol" else p["b0"]
            c0 = p["c0"]
            a = a0 * math.exp(-k1 * t)
            # (e^{-k1 t} - e^{-k2 t}) / (k2 - k1) evaluated without cancellation
            d = (k2 - k1) * t
            if abs(d) < 1e-6:
                phi = t * math.exp(-k1 * t) * (1 - d / 2 + d * d / 6)
            else:
                phi = -math.exp(-k1 * t) * math.expm1(-d) / (k2 - k1)
            b = b0 * math.exp(-k2 * t) + a0 * k1 * phi
            c = c0 + (a0 - a) + (b0 - b)
            if self.kind == "chainsol":
                return {"A": a, "C": c, "sol:Xb": b}
            return {"A": a, "B": b, "C": c}
        raise ValueError(self.kind)

    def contraction_ok(self):
        return True


def gen_problem(rng, T):
    """a closed-form problem whose time scales are commensurate with T"""
    kind = rng.choice(["zero", "first", "first", "chainsol", "chainkin", "tquad"])
    m0 = 10 ** rng.uniform(-4, -1)
    if kind == "tquad":
        # zero order in the amounts, coefficient linear in time: m(t) = m0 - a t^2 / 2 (Runge-Kutta only, see gen_closed)
        return Problem(kind, {"m0": m0, "a": rng.choice([0.2, 1.0, 1.6]) * m0 / (T * T)})
    if kind == "zero":
        # k*T from 0.05 m0 to 1.6 m0 (beyond 1: the reactant is exhausted inside the interval); sometimes negative (growth)
        r = rng.choice([0.05, 0.3, 0.7, 0.95, 1.2, 1.6, -0.5])
        p = {"m0": m0, "k": r * m0 / T, "xa0": 0.0 if r > 0 else 2 * m0}
    elif kind == "first":
        p = {"m0": m0, "k": rng.choice([0.1, 0.5, 1.0, 2.0, 5.0, 8.0]) * rng.uniform(0.8, 1.25) / T}
    else:
        k1 = rng.choice([0.3, 1.0, 3.0, 6.0]) * rng.uniform(0.8, 1.25) / T
        k2 = rng.choice([0.2, 1.0, 2.5, 7.0]) * rng.uniform(0.8, 1.25) / T
        if rng.random() < 0.1:
            k2 = k1            # degenerate (repeated eigenvalue) case of the closed form
        p = {"a0": m0, "k1": k1, "k2": k2, "c0": rng.choice([0.0, m0 * 0.5])}
        if kind == "chainsol":
            p["x0"] = rng.choice([0.0, m0 * 0.3, m0])
        else:
            p["b0"] = rng.choice([0.0, m0 * 0.3, m0])
    return Problem(kind, p)


# ----------------------------------------------------------------------------------------------------------------
# configs (how T is integrated)
# ----------------------------------------------------------------------------------------------------------------
def gen_division(rng, T):
    """a way of dividing T: ("list", [cumulative times]) or ("equal", n)"""
    r = rng.random()
    if r < 0.25:
        return ("equal", 1)
    if r < 0.5:
        return ("equal", rng.choice([2, 3, 4, 5, 8]))
    n = rng.choice([1, 2, 3, 4, 6])
    cuts = sorted(rng.uniform(0.05, 0.95) for _ in range(n - 1))
    return ("list", [c * T for c in cuts] + [T])


def gen_integrator(rng):
    r = rng.random()
    if r < 0.5:
        cv = {"cvode": True, "cvode_steps": rng.choice([5, 8, 10, 15, 20, 30, 50, 100, 100, 500]),
              "cvode_order": rng.choice([1, 2, 3, 4, 5, 5]), "bad_step_max": rng.choice([200, 500, 1000])}
        return cv
    return {"cvode": False, "rk": rng.choice([1, 2, 3, 6, 6]), "step_divide": rng.choice([1, 1, 1, 2, 10, 100, 0.01, 0.001]),
            "bad_step_max": rng.choice([200, 500, 1000])}


def gen_config(rng, T, tol):
    return {"T": T, "tol": tol, "division": gen_division(rng, T), "incremental": rng.random() < 0.5,
            "integ": gen_integrator(rng)}


def steps_line(cfg):
    """-steps text so that the LAST reaction step ends at T for both incremental and cumulative bookkeeping"""
    kind, d = cfg["division"]
    if kind == "equal":
        return f"-steps {fmt(cfg['T'])} in {d} steps" if d > 1 else f"-steps {fmt(cfg['T'])}"
    if cfg["incremental"]:
        inc = [d[0]] + [d[i] - d[i - 1] for i in range(1, len(d))]
        return "-steps " + " ".join(fmt(x) for x in inc)
    return "-steps " + " ".join(fmt(x) for x in d)


def nsteps(cfg):
    kind, d = cfg["division"]
    return d if kind == "equal" else len(d)


PUNCH_HEAD = "step total_time kin_time sim_time"


def build_input(prob, cfg, trace=False, extra_solution=""):
    """complete input text for one (problem, config)"""
    comps = prob.comps(cfg["tol"])
    sol = prob.solution_extra()
    names = [c[0] for c in comps]
    txt = [TRACER_DB, "SOLUTION 1\n pH 7 charge\n Na 1\n Cl 1\n -units mol/kgw\n"]
    for e, v in sol.items():
        if v > 0:
            txt.append(f" {e} {fmt(v)}\n")
    txt.append(" -water 1\n" + extra_solution)
    txt.append(prob.rates(trace))
    txt.append("KINETICS 1\n")
    for name, formula, m, parms in comps:
        txt.append(f" {name}\n  -formula {formula}\n  -m {fmt(m)}\n  -m0 {fmt(m)}\n  -parms {' '.join(fmt(x) for x in parms)}\n"
                   f"  -tol {fmt(cfg['tol'])}\n")
    txt.append(" " + steps_line(cfg) + "\n")
    ig = cfg["integ"]
    if ig["cvode"]:
        txt.append(f" -cvode true\n -cvode_steps {ig['cvode_steps']}\n -cvode_order {ig['cvode_order']}\n")
    else:
        txt.append(f" -runge_kutta {ig['rk']}\n -step_divide {fmt(ig['step_divide'])}\n")
    txt.append(f" -bad_step_max {ig['bad_step_max']}\n")
    txt.append(f"INCREMENTAL_REACTIONS {'true' if cfg['incremental'] else 'false'}\n")
    heads = PUNCH_HEAD.split() + [f"m_{n}" for n in names] + [f"d_{n}" for n in names] + ["Xa", "Xb", "Xc", "water"]
    items = ["STEP_NO", "TOTAL_TIME", "KIN_TIME", "SIM_TIME"] + [f'KIN("{n}")' for n in names] + \
            [f'KIN_DELTA("{n}")' for n in names] + ['TOTMOLE("Xa")', 'TOTMOLE("Xb")', 'TOTMOLE("Xc")', 'TOT("water")']
    txt.append("SELECTED_OUTPUT 1\n -reset false\nUSER_PUNCH 1\n -headings " + " ".join(heads) + "\n 10 PUNCH " +
               ", ".join(items) + "\nEND\n")
    return "".join(txt)


# ----------------------------------------------------------------------------------------------------------------
# correspondence family: rates polynomial in TOTAL_TIME and M (every stage value is determined by the model's inputs)
# ----------------------------------------------------------------------------------------------------------------
POLY_NAMES = ["R1", "R2", "R3"]
POLY_FORMULA = ["Xa 1", "Xb 1", "Xc 1"]


def gen_poly(rng):
    """spec of one single-reaction-step RK run: dict(T, rk, step_divide, bad_step_max, comps=[dict(m, tol, p[6])])"""
    n = rng.choice([1, 1, 2, 3])
    T = 10 ** rng.uniform(0, 4)
    scale = rng.choice([1.0, 1.0, 1.0, 1e-3, 1e-7])       # small rates reach the early exits of -runge_kutta 1/2/3
    comps = []
    for j in range(n):
        m = 10 ** rng.uniform(-3, 0.3)
        tol = 10 ** rng.uniform(-9, -5)
        k = rng.choice([0.0, 0.1, 1.0, 5.0, 20.0]) * rng.uniform(0.5, 1.5) / T
        if rng.random() < 0.2:
            k = -min(k, 1.0 / T)
        p1 = m / T * rng.uniform(-0.3, 2.0) * rng.choice([0.0, 0.01, 1.0])
        p = [p1 * scale, p1 / T * rng.uniform(-1, 1) * scale, p1 / T / T * rng.uniform(-1, 1) * scale * rng.choice([0, 1]),
             k * scale, k / T * rng.uniform(-1, 1) * scale * rng.choice([0, 1]),
             rng.uniform(-0.5, 0.5) / T * rng.choice([0.0, 0.0, 1.0]) * scale]
        comps.append({"m": m, "tol": tol, "p": p})
    return {"T": T, "rk": rng.choice([1, 2, 3, 6, 6, 6, 0, 4, 9]), "step_divide": rng.choice([1, 1, 1, 2, 7.5, 100, 0.05, 0.003]),
            "bad_step_max": rng.choice([500, 500, 5, 50]), "comps": comps}


def poly_input(spec):
    n = len(spec["comps"])
    txt = [TRACER_DB, "SOLUTION 1\n pH 7 charge\n Na 1\n Cl 1\n -units mol/kgw\n Xa 5\n Xb 5\n Xc 5\n -water 1\nRATES\n"]
    for j in range(n):
        other = POLY_NAMES[(j + 1) % n]
        nm = POLY_NAMES[j]
        txt.append(f" {nm}\n -start\n 10 t = TOTAL_TIME\n"
                   f" 20 rate = PARM(1) + PARM(2)*t + PARM(3)*t*t + PARM(4)*M + PARM(5)*M*t + PARM(6)*KIN(\"{other}\")\n"
                   f" 30 moles = rate * TIME\n 40 d = CALLBACK(t, M, \"{nm}\")\n 50 d = CALLBACK(TIME, moles, \"{nm}_\")\n"
                   f" 60 SAVE moles\n -end\n")
    txt.append("KINETICS 1\n")
    for j, c in enumerate(spec["comps"]):
        txt.append(f" {POLY_NAMES[j]}\n  -formula {POLY_FORMULA[j]}\n  -m {fmt(c['m'])}\n  -m0 {fmt(c['m'])}\n"
                   f"  -parms {' '.join(fmt(x) for x in c['p'])}\n  -tol {fmt(c['tol'])}\n")
    txt.append(f" -steps {fmt(spec['T'])}\n -runge_kutta {spec['rk']}\n -step_divide {fmt(spec['step_divide'])}\n"
               f" -bad_step_max {spec['bad_step_max']}\n")
    heads = ["step"] + [f"m_{POLY_NAMES[j]}" for j in range(n)]
    items = ["STEP_NO"] + [f'KIN("{POLY_NAMES[j]}")' for j in range(n)]
    txt.append("SELECTED_OUTPUT 1\n -reset false\nUSER_PUNCH 1\n -headings " + " ".join(heads) + "\n 10 PUNCH " +
               ", ".join(items) + "\nEND\n")
    return "".join(txt)


# ----------------------------------------------------------------------------------------------------------------
# kinetics inside ADVECTION / TRANSPORT time steps
# ----------------------------------------------------------------------------------------------------------------
def gen_flow(rng):
    """a solid kinetic reactant (rate depends on its own amount and on TOTAL_TIME only) in every cell of a column; whatever the
    flow does to the solution, after n shifts of -time_step dt each cell holds the closed-form amount at n*dt"""
    mode = rng.choice(["advection", "transport", "transport"])
    cells = rng.choice([1, 2, 3, 4])
    shifts = rng.choice([1, 2, 3, 5])
    dt = 10 ** rng.uniform(0, 4)
    T = dt * shifts
    m0 = 10 ** rng.uniform(-4, -2)
    kind = rng.choice(["zero", "first", "first", "tquad"])
    if kind == "zero":
        p = {"m0": m0, "k": rng.choice([0.1, 0.5, 0.9]) * m0 / T}
    elif kind == "first":
        p = {"m0": m0, "k": rng.choice([0.2, 1.0, 3.0]) * rng.uniform(0.8, 1.25) / T}
    else:
        p = {"m0": m0, "a": rng.choice([0.3, 1.0, 1.6]) * m0 / (T * T)}       # rate = a * TOTAL_TIME
    integ = gen_integrator(rng)
    if kind == "tquad":
        integ = {"cvode": False, "rk": rng.choice([1, 2, 3, 6]), "step_divide": rng.choice([1, 1, 3, 0.01]), "bad_step_max": 500}
    cfg = {"mode": mode, "cells": cells, "shifts": shifts, "dt": dt, "tol": 10 ** rng.uniform(-10, -7), "integ": integ,
           "kind": kind, "p": p}
    if mode == "transport":
        cfg["flow"] = rng.choice(["forward", "forward", "back", "diffusion_only"])
        cfg["disp"] = rng.choice([0.0, 0.05, 0.3, 1.0])
        cfg["bc"] = rng.choice(["flux flux", "constant closed", "closed closed", "flux constant"])
        cfg["diffc"] = rng.choice([0.0, 1e-9, 3e-9])
        cfg["stagnant"] = rng.random() < 0.2
    return cfg


def flow_exact(cfg, t):
    p = cfg["p"]
    if cfg["kind"] == "zero":
        return max(p["m0"] - p["k"] * t, 0.0)
    if cfg["kind"] == "first":
        return p["m0"] * math.exp(-p["k"] * t)
    return p["m0"] - p["a"] * t * t / 2


def flow_input(cfg):
    p = cfg["p"]
    rate = {"zero": "PARM(1)", "first": "PARM(1) * M", "tquad": "PARM(1) * TOTAL_TIME"}[cfg["kind"]]
    parm = p.get("k", p.get("a"))
    n = cfg["cells"]
    stag = cfg.get("stagnant", False)
    last = n
    txt = [TRACER_DB, f"SOLUTION 0-{2 * n + 1 if stag else n + 1}\n pH 7 charge\n Na 1\n Cl 1\n -units mol/kgw\n -water 1\n",
           "RATES\n A\n -start\n 10 rate = " + rate + "\n 20 moles = rate * TIME\n 25 dummy = CALLBACK(TOTAL_TIME, M, \"A\")\n 30 SAVE moles\n -end\n",
           f"KINETICS 1-{last}\n A\n  -formula Xa 1\n  -m {fmt(p['m0'])}\n  -m0 {fmt(p['m0'])}\n  -parms {fmt(parm)}\n  -tol {fmt(cfg['tol'])}\n"]
    ig = cfg["integ"]
    if ig["cvode"]:
        txt.append(f" -cvode true\n -cvode_steps {ig['cvode_steps']}\n -cvode_order {ig['cvode_order']}\n")
    else:
        txt.append(f" -runge_kutta {ig['rk']}\n -step_divide {fmt(ig['step_divide'])}\n")
    txt.append(f" -bad_step_max {ig['bad_step_max']}\n")
    txt.append("SELECTED_OUTPUT 1\n -reset false\nUSER_PUNCH 1\n -headings cell total_time m_A Xa\n"
               " 10 PUNCH CELL_NO, TOTAL_TIME, KIN(\"A\"), TOTMOLE(\"Xa\")\n"
               "USE solution none\nEND\n")       # no batch reaction with KINETICS 1 before the column calculation (it would be kept)
    if cfg["mode"] == "advection":
        txt.append(f"ADVECTION\n -cells {n}\n -shifts {cfg['shifts']}\n -time_step {fmt(cfg['dt'])}\n -punch_cells 1-{n}\n"
                   f" -punch_frequency 1\n -print_frequency 1000\nEND\n")
    else:
        txt.append(f"TRANSPORT\n -cells {n}\n -shifts {cfg['shifts']}\n -time_step {fmt(cfg['dt'])}\n -lengths {n}*1\n"
                   f" -dispersivities {n}*{fmt(cfg['disp'])}\n -flow_direction {cfg['flow']}\n -boundary_conditions {cfg['bc']}\n"
                   f" -diffusion_coefficient {fmt(cfg['diffc'])}\n -punch_cells 1-{n}\n -punch_frequency 1\n -print_frequency 1000\n")
        if stag:
            txt.append(" -stagnant 1 6.8e-6 0.3 0.1\n")
        txt.append("END\n")
    return "".join(txt)
