import PhreeqcVerif.Model.Util
import PhreeqcVerif.Model.RK
import PhreeqcVerif.Model.KinTime
import PhreeqcVerif.Gen.RKTableau
/-! `pmodel rk`: executes the Float instance of the rk_kinetics model and of Current_step on an op list.

ops:  curstep <incr 0|1> <reaction_step> <count> <equal 0|1> <n> <hex64>*n          -> C <hex64>
      rk <hex t0> <hex kinTime> <hex stepDivide> <rk> <badStepMax> <n> (<hex m> <hex tol> <hex p1..p6>)*n
         rate of reactant j:  ((((p1 + p2*t) + p3*t*t) + p4*M) + p5*M*t) + p6*M_other,  moles = rate * TIME
         (M_other = amount of the next reactant, cyclically)                          -> S .. / M .. / E .. lines / "." -/
namespace Driver.RK
open PhreeqcVerif PhreeqcVerif.Util PhreeqcVerif.RK

def floatParams : Params Float := paramsOf (fun q => (NumOps.lit q : Float)) 1e-25

/-- the rate family of the correspondence runs (same association of operations as the BASIC program) -/
def rateF (ps : List (List Float)) (t : Float) (m : List Float) (h : Float) : List Float :=
  (List.range ps.length).map fun j =>
    let p := ps.getD j []
    let g (i : Nat) := p.getD i 0.0
    let mj := m.getD j 0.0
    let mo := m.getD ((j + 1) % ps.length) 0.0
    let rate := g 0 + g 1 * t + g 2 * t * t + g 3 * mj + g 4 * mj * t + g 5 * mo
    rate * h

def statusStr : Status → String
  | .done => "done" | .earlyExit => "exit" | .badSteps => "badsteps" | .fuel => "fuel"

def hexs (l : List Float) : String := " ".intercalate (l.map hexOfFloat)

def parseFloats (ws : List String) : Option (List Float) := ws.mapM floatOfHex

def chunks (k : Nat) : Nat → List Float → List (List Float)
  | 0, _ => []
  | n + 1, l => l.take k :: chunks k n (l.drop k)

def doRk (ws : List String) : List String :=
  match ws with
  | t0 :: kt :: sd :: rk :: bsm :: n :: rest =>
    match floatOfHex t0, floatOfHex kt, floatOfHex sd, rk.toNat?, bsm.toNat?, n.toNat?, parseFloats rest with
    | some t0, some kt, some sd, some rk, some bsm, some n, some vals =>
      if vals.length != 8 * n then ["bad-op"] else
      let cs := chunks 8 n vals
      let m := cs.map (·.getD 0 0.0)
      let tol := cs.map (·.getD 1 0.0)
      let ps := cs.map (·.drop 2)
      let (st, ct, ch) := rkKinetics floatParams Float.pow (rateF ps) t0 kt sd rk tol m bsm 100000
      let head := s!"S {statusStr st} {ct.stepOk} {ct.stepBad} {ch.rk} {hexOfFloat ct.hSum}"
      let ml := "M " ++ hexs ch.m
      let hl := "A " ++ hexs ct.accH.reverse
      -- very long runs are reported without their evaluations (the check counts them, it does not compare them)
      if ch.log.length > 10000 then [s!"S long {ct.stepOk} {ct.stepBad} {ch.rk} {hexOfFloat ct.hSum}", ml, "."] else
      let ev := ch.log.reverse.map fun e =>
        s!"E {hexOfFloat e.t} {hexOfFloat e.h} {hexs e.m} | {hexs e.moles}"
      [head, ml, hl] ++ ev ++ ["."]
    | _, _, _, _, _, _, _ => ["bad-op"]
  | _ => ["bad-op"]

def doCurstep (ws : List String) : List String :=
  match ws with
  | incr :: rs :: count :: eq :: n :: rest =>
    match rs.toNat?, count.toNat?, n.toNat?, parseFloats rest with
    | some rs, some count, some n, some steps =>
      if steps.length != n then ["bad-op"] else
      let v := KinTime.currentStep (α := Float) Float.ofNat steps count (eq == "1") (incr == "1") rs
      [s!"C {hexOfFloat v}"]
    | _, _, _, _ => ["bad-op"]
  | _ => ["bad-op"]

def run : IO Unit := do
  let stdin ← IO.getStdin
  let lines ← readLines stdin
  let out ← IO.getStdout
  for line in lines do
    let res := match words line with
      | "rk" :: ws => doRk ws
      | "curstep" :: ws => doCurstep ws
      | [] => []
      | _ => ["bad-op"]
    for r in res do out.putStrLn r

end Driver.RK
