import PhreeqcVerif.Model.Util
import PhreeqcVerif.Model.Formula
import PhreeqcVerif.Model.NameDouble
/-! `pmodel formula`: line-protocol driver of the formula-parser model.

```
f <hex formula>     → F <ok 0|1> <hex unread rest> <hex name>:<num>/<den> …      (entries in reading order)
c <hex formula>     → C <ok 0|1> <hex name>:<num>/<den> …                         (combined, key order: elt_list_combine)
```
-/
namespace Driver.Formula
open PhreeqcVerif PhreeqcVerif.Util PhreeqcVerif.Formula

def ratStr (q : Rat) : String := s!"{q.num}/{q.den}"

def entries (l : List (String × Rat)) : String :=
  String.join (l.map fun p => s!" {hexStr p.1}:{ratStr p.2}")

def handle (line : String) : String :=
  match words line with
  | ["f", h] =>
    match unhexStr h with
    | none => "F bad"
    | some s =>
      match elts (s.length + 1) 1 s.toList 0 with
      | none => "F 0 -"
      | some (l, r, _) => s!"F 1 {hexStr (String.ofList r)}{entries l}"
  | ["c", h] =>
    match unhexStr h with
    | none => "C bad"
    | some s =>
      match parseFormula s with
      | none => "C 0"
      | some l => s!"C 1{entries (NameDouble.ofList l)}"
  | _ => "?"

def run : IO Unit := do
  let stdin ← IO.getStdin
  let lines ← readLines stdin
  let out ← IO.getStdout
  for l in lines do
    if l.trimAscii.toString ≠ "" then out.putStrLn (handle l)

end Driver.Formula
