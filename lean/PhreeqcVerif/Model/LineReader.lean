import PhreeqcVerif.Gen.Keywords
/-!
C04 — byte-level model of the input reader, exactly as coded in src/phreeqcpp/common/PHRQ_io.cpp
(`getc`, `get_logical_line`, `get_line`, `check_key`), common/Parser.cxx (`copy_token`), PhreeqcKeywords/Keywords.cpp
(`Keyword_search`, table regenerated into `Gen/Keywords.lean`) and of the grouping of lines into simulations done by
`Phreeqc::read_input` (read.cpp).  Total on all byte strings.

Layers (each is what one C++ routine does; nothing else carries state between calls than the stream position):
* `decode`          the stream of `PHRQ_io::getc()` results: CR LF is delivered as LF, a lone CR stays 13;
* `step`            one iteration of the character loops of `get_logical_line` (outer loop / `#` loop / `\` loop);
* `scan`            one call of `get_logical_line` (`m_line_save`, rest of the stream, "stopped on EOF");
* `linesFrom`       the fused iteration "call `get_logical_line` until LT_EOF" (`scan_iterates` links the two);
* `classify`        `get_line` on one logical line: comment cut, LT_EMPTY, `check_key`, LT_OPTION, include directive;
* `sims`            `read_input`: lines up to and including the next END/EOF keyword line form one simulation.

Quirks reproduced (see `step`, `flushLine`): `;` and `#` lose their meaning directly after `\`; a `\` followed only by
blanks up to the newline joins the next physical line and drops the blanks; a comment that runs into the end of the
input without newline gets its last character doubled (unless that character is `;`); the include directive is
recognised on every non-empty line; `readLinesFS` follows it through a file system (`push_istream` of the named file, `pop_istream`
at its end), `readLines` only reports the name in `CLine.incl`.
-/
namespace PhreeqcVerif.LineReader
open PhreeqcVerif.Gen.Keywords

abbrev Bytes := List UInt8

/-- C locale `isspace` on a byte (bytes ≥ 128 are not blank) -/
def isSpace (c : UInt8) : Bool := c == 32 || (9 ≤ c && c ≤ 13)
/-- C locale `isalpha` -/
def isAlpha (c : UInt8) : Bool := (65 ≤ c && c ≤ 90) || (97 ≤ c && c ≤ 122)
/-- C locale `tolower` -/
def toLower (c : UInt8) : UInt8 := if 65 ≤ c && c ≤ 90 then c + 32 else c

/-! ### `PHRQ_io::getc` -/

/-- stream of `getc()` results; `pend` = a CR has been read and is waiting for the `peek()` -/
def decodeAux : Bool → Bytes → Bytes
  | pend, [] => if pend then [c_cr] else []
  | pend, c :: r =>
    if pend then
      if c = c_nl then c_nl :: decodeAux false r              -- CR LF → LF
      else if c = c_cr then c_cr :: decodeAux true r          -- CR CR…: the first CR is delivered
      else c_cr :: c :: decodeAux false r
    else if c = c_cr then decodeAux true r
    else c :: decodeAux false r

def decode (s : Bytes) : Bytes := decodeAux false s

/-- is a CR pending after the bytes `s`? -/
def pendAfter : Bool → Bytes → Bool
  | pend, [] => pend
  | _, c :: r => pendAfter (c = c_cr) r

/-! ### `PHRQ_io::get_logical_line` -/

inductive Mode where
  | outer                 -- the `while ((j = getc()) != EOF)` loop
  | comment               -- the `do … while` loop after `#`
  | bslash (pos : Nat)    -- the inner loop after `\`; `pos` = index of the last `\`
deriving DecidableEq, Repr

/-- reader state inside one call: loop and `m_line_save` -/
structure RS where
  mode : Mode
  save : Bytes
deriving DecidableEq, Repr

def RS.init : RS := ⟨.outer, []⟩

/-- one character: `(some line, st')` = the call returns `line` (LT_OK) and the next call starts in `st'`;
    `(none, st')` = the loops continue in `st'` -/
def step (st : RS) (c : UInt8) : Option Bytes × RS :=
  match st.mode with
  | .outer =>
    if c = c_hash then (none, ⟨.comment, st.save ++ [c]⟩)            -- first pass of the do-loop appends '#'
    else if c = c_semi ∨ c = c_nl then (some st.save, RS.init)      -- `break`
    else if c = c_bslash then (none, ⟨.bslash st.save.length, st.save ++ [c]⟩)
    else (none, ⟨.outer, st.save ++ [c]⟩)
  | .comment =>
    if c = c_nl then (some st.save, RS.init)                        -- leaves the do-loop, then `if (c == '\n') break`
    else (none, ⟨.comment, st.save ++ [c]⟩)                         -- `;` and `\` are ordinary inside a comment
  | .bslash pos =>
    if c = c_bslash then (none, ⟨.bslash st.save.length, st.save ++ [c]⟩)
    else if c = c_nl then (none, ⟨.outer, st.save.take pos⟩)         -- continuation: drop `\` and the blanks after it
    else if isSpace c then (none, ⟨.bslash pos, st.save ++ [c]⟩)
    else (none, ⟨.outer, st.save ++ [c]⟩)                           -- `\x`: both kept, `x` is not interpreted

/-- `m_line_save` when `getc()` returns EOF in state `st` -/
def flushLine (st : RS) : Bytes :=
  match st.mode with
  | .comment =>
    -- after the do-loop `c` still holds the last comment character: `;` breaks, anything else is appended again
    match st.save.getLast? with
    | some l => if l = c_semi then st.save else st.save ++ [l]
    | none => st.save
  | _ => st.save

/-- result of one `get_logical_line` call -/
structure LL where
  line : Bytes
  rest : Bytes
  eof : Bool          -- `j == EOF` when the call returned
deriving DecidableEq, Repr

/-- LT_EOF ⇔ `eof ∧ line = []` -/
def LL.isEOF (r : LL) : Bool := r.eof && r.line.isEmpty

def scanFrom : RS → Bytes → LL
  | st, [] => ⟨flushLine st, [], true⟩
  | st, c :: r =>
    match (step st c).1 with
    | some l => ⟨l, r, false⟩
    | none => scanFrom (step st c).2 r

/-- one call of `get_logical_line` on the (decoded) stream -/
def scan (s : Bytes) : LL := scanFrom RS.init s

/-- all logical lines: the fused form of "call `get_logical_line` until it returns LT_EOF" -/
def linesFrom : RS → Bytes → List Bytes
  | st, [] => let l := flushLine st; if l.isEmpty then [] else [l]
  | st, c :: r =>
    match (step st c).1 with
    | some l => l :: linesFrom (step st c).2 r
    | none => linesFrom (step st c).2 r

/-- the caller's loop with a call budget: `none` = budget exhausted before LT_EOF (never with `fuel > |s|`, see
    `lineReader_total`) -/
def iterLines : Nat → Bytes → Option (List Bytes)
  | 0, _ => none
  | n + 1, s =>
    let r := scan s
    if r.isEOF then some [] else (iterLines n r.rest).map (r.line :: ·)

/-- reader state after consuming all of `s` -/
def endState (st : RS) (s : Bytes) : RS := s.foldl (fun st c => (step st c).2) st

/-- logical lines of a raw byte string -/
def logicalLines (s : Bytes) : List Bytes := linesFrom RS.init (decode s)

/-- a prefix after which the reader is between two logical lines (no pending CR, no open line) -/
def closed (s : Bytes) : Bool := !pendAfter false s && endState RS.init (decode s) == RS.init

/-! ### `PHRQ_io::get_line`: classification of one logical line -/

/-- `CParser::copy_token`: skip blanks, take the run of non-blanks; returns (token, rest) -/
def copyToken (s : Bytes) : Bytes × Bytes :=
  let s1 := s.dropWhile isSpace
  (s1.takeWhile (fun c => !isSpace c), s1.dropWhile (fun c => !isSpace c))

def lower (s : Bytes) : Bytes := s.map toLower

/-- `Keywords::Keyword_search` (exact match) -/
def keywordSearch (tok : Bytes) : Nat :=
  match tableBytes.find? (fun p => p.1 == tok) with
  | some p => p.2
  | none => keyNone

def trim (s : Bytes) : Bytes := ((s.dropWhile isSpace).reverse.dropWhile isSpace).reverse

inductive LType where
  | ok | keyword (k : Nat) | option
deriving DecidableEq, Repr

/-- a non-empty line as `get_line` hands it to the engine -/
structure CLine where
  ltype : LType
  line : Bytes              -- `m_line` (comment removed)
  save : Bytes              -- `m_line_save`
  nextKeyword : Nat         -- `m_next_keyword`
  incl : Option Bytes       -- include directive with a non-empty file name
deriving DecidableEq, Repr

def includePrefix1 : Bytes := [105, 110, 99, 108, 117, 100, 101, 36]                       -- "include$"
def includePrefix2 : Bytes := [105, 110, 99, 108, 117, 100, 101, 95, 102, 105, 108, 101]   -- "include_file"

/-- `none` = LT_EMPTY (the caller reads the next logical line) -/
def classify (save : Bytes) : Option CLine :=
  let line := save.takeWhile (· ≠ c_hash)
  if line.all isSpace then none else
  let (tok, rest) := copyToken line
  let low := lower tok
  let k := keywordSearch low
  let lt : LType :=
    if k ≠ keyNone then .keyword k
    else match tok with
      | a :: b :: _ => if a = c_dash ∧ isAlpha b then .option else .ok
      | _ => .ok
  let fname := trim rest
  let incl := if (includePrefix1.isPrefixOf low || includePrefix2.isPrefixOf low) && !fname.isEmpty then some fname else none
  some ⟨lt, line, save, k, incl⟩

/-- every line `get_line` returns before LT_EOF -/
def readLines (s : Bytes) : List CLine := (logicalLines s).filterMap classify

/-! ### `Phreeqc::read_input`: simulations -/

def CLine.isKey (l : CLine) : Bool := match l.ltype with | .keyword _ => true | _ => false
def CLine.isEnd (l : CLine) : Bool := l.ltype == .keyword keyEnd

/-- `cur` = lines of the simulation being read.  At the end of the input the open lines form a simulation only when
    they contain a keyword line (otherwise `read_input` returns EOF from its first loop). -/
def simsAux : List CLine → List CLine → List (List CLine)
  | cur, [] => if cur.any CLine.isKey then [cur] else []
  | cur, l :: r => if l.isEnd then (cur ++ [l]) :: simsAux [] r else simsAux (cur ++ [l]) r

def sims (ls : List CLine) : List (List CLine) := simsAux [] ls

/-- lines of the simulation that is still open after `ls` -/
def openAfter : List CLine → List CLine → List CLine
  | cur, [] => cur
  | cur, l :: r => if l.isEnd then openAfter [] r else openAfter (cur ++ [l]) r

/-- the simulations of an input text -/
def simulations (s : Bytes) : List (List CLine) := sims (readLines s)

/-- `s` can be cut after itself: the reader is between lines and no simulation is open -/
def endBoundary (s : Bytes) : Bool := closed s && (openAfter [] (readLines s)).isEmpty

/-! ### user number of a keyword line (`read_number_description`, the error-free cases) -/

def isDigit (c : UInt8) : Bool := 48 ≤ c && c ≤ 57

/-- second token of the line: leading decimal digits (`sscanf "%d"`), 1 when it does not start with a digit;
    `none` for a token starting with `-` (ranges / negative numbers are not predicted) -/
def userNumber (line : Bytes) : Option Nat :=
  let (_, rest) := copyToken line
  let (tok, _) := copyToken rest
  match tok with
  | [] => some 1
  | c :: _ =>
    if isDigit c then some ((tok.takeWhile isDigit).foldl (fun n d => 10 * n + (d.toNat - 48)) 0)
    else if c = c_dash then none
    else some 1

/-- user numbers of the keyword lines with keyword `k` in one simulation -/
def keywordNumbers (k : Nat) (sim : List CLine) : List (Option Nat) :=
  (sim.filter fun l => l.ltype == .keyword k).map fun l => userNumber l.line

/-! ### include directives: the stream stack of `get_line`

`get_line` opens the named file, pushes it in front of the current stream and keeps reading from it; at its LT_EOF the stream
is popped and reading continues behind the directive.  Each stream has its own position and its own `getc` state, so the
lines returned are: the lines before the directive, all lines of the file (recursively), the lines after it.  A file that
cannot be opened raises an error (`missing`).  The real code has no depth limit (a file that includes itself is read until
the process runs out of file handles); the model carries a depth budget and reports `tooDeep` when it is used up. -/

inductive Item where
  | line (l : CLine)
  | missing (name : Bytes)        -- "Could not open include file …", error_msg(…, OT_STOP)
  | tooDeep (name : Bytes)        -- depth budget of the model exhausted (not a behaviour of the code)
deriving DecidableEq, Repr

/-- `fs name` = content of the file the directive names -/
def readLinesFS (fs : Bytes → Option Bytes) : Nat → Bytes → List Item
  | 0, s => (readLines s).map fun l => match l.incl with | some f => .tooDeep f | none => .line l
  | d + 1, s => (readLines s).flatMap fun l =>
      match l.incl with
      | some f => (match fs f with | some c => readLinesFS fs d c | none => [.missing f])
      | none => [.line l]

def Item.line? : Item → Option CLine
  | .line l => some l
  | _ => none

/-- every directive was followed to a readable file within the budget -/
def resolved (items : List Item) : Bool := items.all fun i => i.line?.isSome

/-- the lines the engine gets, include files spliced in -/
def linesFS (fs : Bytes → Option Bytes) (d : Nat) (s : Bytes) : List CLine := (readLinesFS fs d s).filterMap Item.line?

def simulationsFS (fs : Bytes → Option Bytes) (d : Nat) (s : Bytes) : List (List CLine) := sims (linesFS fs d s)

/-- END boundary of the top-level text when include files are followed -/
def endBoundaryFS (fs : Bytes → Option Bytes) (d : Nat) (s : Bytes) : Bool :=
  closed s && (openAfter [] (linesFS fs d s)).isEmpty

end PhreeqcVerif.LineReader
