import Driver.SelOut
import Driver.Route
import Driver.Api
def main (args : List String) : IO UInt32 := do
  match args with
  | ["selout"] => Driver.SelOut.run; return 0
  | ["route"] => Driver.Route.run; return 0
  | ["api"] => Driver.Api.run; return 0
  | _ => IO.eprintln s!"pmodel: unknown sub-command {args}"; return 2
