"""Trace correspondence shared by C05 / C09 / C08 / C04: run real API call scripts through harness/ph_trace
(TraceIPhreeqc records the PHRQ_io event stream), replay the events through the Lean routing model
(`pmodel route`) and compare every externally visible view; evaluate the direct oracles of the properties
on the implementation's own views."""
import os
import shutil
import tempfile

import vlib
from gens import inputs as gi

DB = str(vlib.REPO / "database" / "phreeqc.dat")


def hx(s):
    if isinstance(s, str):
        s = s.encode()
    return s.hex() if s else "-"


def unhx(h):
    return b"" if h == "-" else bytes.fromhex(h)


class Call:
    """one run call: events + result"""
    def __init__(self):
        self.events = []
        self.ret = None
        self.ierr = None
        self.exception = None


def parse_output(lines):
    """split harness output into per-op records"""
    recs = []
    cur_ev = []
    views = {}
    for ln in lines:
        if ln.startswith("EV "):
            cur_ev.append(ln)
        elif ln.startswith("V "):
            parts = ln.split(" ")
            tag = parts[1]
            if tag in ("sel", "selstr", "sellines", "selfile", "tab"):
                views.setdefault(tag, {})[int(parts[2])] = parts[3:]
            else:
                views[tag] = parts[2:]
        elif ln.startswith("R "):
            parts = ln.split(" ")
            recs.append({"op": parts[1], "args": parts[2:], "events": cur_ev, "views": views})
            cur_ev = []
            views = {}
        elif ln.startswith("EVN"):
            pass
    return recs


def run_script(ctx, exe, script_lines, workdir=None, timeout=300, env=None):
    own = workdir is None
    wd = workdir or tempfile.mkdtemp(prefix="vtrace_", dir=str(vlib.BUILD))
    try:
        r = vlib.sh([str(exe)], input="\n".join(script_lines) + "\n", cwd=wd, timeout=timeout, env=env)
        return r.returncode, r.stdout.splitlines(), r.stderr
    finally:
        if own:
            shutil.rmtree(wd, ignore_errors=True)


def model_views(ctx, cfg, events, per_user=False):
    """cfg: dict out=(str,file) log=(str,file) err=(str,file) strsw={n:b} filesw={n:b} cur=n"""
    lines = [f"cfg out {int(cfg['out'][0])} {int(cfg['out'][1])}",
             f"cfg log {int(cfg['log'][0])} {int(cfg['log'][1])}",
             f"cfg err {int(cfg['err'][0])} {int(cfg['err'][1])}",
             "cfg strsw " + " ".join(f"{k}={int(v)}" for k, v in cfg["strsw"].items()),
             "cfg filesw " + " ".join(f"{k}={int(v)}" for k, v in cfg["filesw"].items()),
             f"cfg cur {cfg['cur']}", f"cfg peruser {int(per_user)}"] + events + ["end"]
    out = ctx.pmodel("route", "\n".join(lines) + "\n")
    pv = {}
    for ln in out:
        parts = ln.split(" ")
        tag = parts[1]
        if tag in ("selstr", "sellines", "selfile", "tab"):
            pv.setdefault(tag, {})[int(parts[2])] = parts[3:]
        else:
            pv[tag] = parts[2:]
    return pv


NOTSET = {"outstr": b"GetOutputString: OutputStringOn not set.\n", "logstr": b"GetLogString: LogStringOn not set.\n",
          "dumpstr": b"GetDumpString: DumpStringOn not set.\n", "errstr": b"GetErrorString: ErrorStringOn not set.\n",
          "selstr": b"GetSelectedOutputString: SelectedOutputStringOn not set.\n"}


def compare_call(cfg, views, pv, check_sel=True):
    """model-vs-implementation differences for one call. Returns list of (what, impl, model)."""
    d = []

    def cmp_stream(name, on_str, on_file):
        istr = views[name + "str"]
        if on_str:
            if istr[1] != pv[name + "str"][0]:
                d.append((name + "str", istr[1][:200], pv[name + "str"][0][:200]))
        else:
            if unhx(istr[1]) != NOTSET[name + "str"]:
                d.append((name + "str-disabled", istr[1][:200], "not-set message"))
        il = views[name + "lines"]
        if il != pv[name + "lines"]:
            d.append((name + "lines", " ".join(il)[:200], " ".join(pv[name + "lines"])[:200]))
        f = views[name + "file"]
        if on_file:
            if f[2] != pv[name + "file"][0]:
                d.append((name + "file", f[2][:200], pv[name + "file"][0][:200]))

    cmp_stream("out", cfg["out"][0], cfg["out"][1])
    cmp_stream("log", cfg["log"][0], cfg["log"][1])
    # error stream
    if cfg["err"][0]:
        if views["errstr"][1] != pv["errstr"][0]:
            d.append(("errstr", views["errstr"][1][:200], pv["errstr"][0][:200]))
        if views["errlines"] != pv["errlines"]:
            d.append(("errlines", " ".join(views["errlines"])[:200], " ".join(pv["errlines"])[:200]))
    if cfg["err"][1] and views["errfile"][2] != pv["errfile"][0]:
        d.append(("errfile", views["errfile"][2][:200], pv["errfile"][0][:200]))
    if views["warnstr"][1] != pv["warnstr"][0]:
        d.append(("warnstr", views["warnstr"][1][:200], pv["warnstr"][0][:200]))
    if views["warnlines"] != pv["warnlines"]:
        d.append(("warnlines", " ".join(views["warnlines"])[:200], " ".join(pv["warnlines"])[:200]))
    if check_sel:
        for n, tab in views.get("tab", {}).items():
            mt = pv.get("tab", {}).get(n)
            if mt is None:
                # no punch event for this user number: empty table expected
                if tab[0] not in ("none",) and not tab[0].startswith("rows=0"):
                    d.append((f"tab {n}", " ".join(tab)[:200], "no events"))
                continue
            if tab != mt:
                d.append((f"tab {n}", " ".join(tab)[:300], " ".join(mt)[:300]))
            sl = views["sellines"][n]
            if sl != pv["sellines"][n]:
                d.append((f"sellines {n}", " ".join(sl)[:200], " ".join(pv["sellines"][n])[:200]))
            fv = views["selfile"][n]
            if cfg["filesw"].get(n, False) and fv[2] != "!" and fv[2] != pv["selfile"][n][0]:
                d.append((f"selfile {n}", fv[2][:200], pv["selfile"][n][0][:200]))
            # string as seen through the API with current = n (the accessor's own gate is the raw map entry)
            if n in cfg["strsw"]:
                if views["selstr"][n][0] != pv["selstr"][n][0]:
                    d.append((f"selstr {n}", views["selstr"][n][0][:200], pv["selstr"][n][0][:200]))
    return d


def lines_of(b):
    """std::getline semantics"""
    if not b:
        return []
    parts = b.split(b"\n")
    if parts[-1] == b"":
        parts.pop()
    return parts


def direct_oracle(cfg, views):
    """C05/C09 property statement evaluated on the implementation's own views (per-user-number semantics).
    Returns list of (key, text): key identifies the call site / rule for the known-findings file."""
    bad = []

    def stream(name, on_str, on_file, fkey):
        s = unhx(views[name + "str"][1]) if on_str else None
        lines = [unhx(x) for x in views[name + "lines"][1:1 + int(views[name + "lines"][0])]]
        edges = views[name + "lines"][-3:]
        if any(e != "-" for e in edges):
            bad.append((name + "-line-accessor-edge", f"{name}: line accessor outside 0..count-1 returned non-empty"))
        f = views[name + "file"]
        if on_str and lines != lines_of(s):
            bad.append((name + "-lines", f"{name}: line accessors differ from the lines of the string"))
        if not on_str and lines:
            bad.append((name + "-disabled-lines", f"{name}: disabled string sink has {len(lines)} lines"))
        if on_str and on_file and f[2] != "!" and unhx(f[2]) != s:
            bad.append((name + "-file-ne-string", f"{name}: file and string differ"))

    stream("out", cfg["out"][0], cfg["out"][1], "out")
    stream("log", cfg["log"][0], cfg["log"][1], "log")
    # error: every line of the error string appears in the error file, in order
    if cfg["err"][0] and cfg["err"][1] and views["errfile"][2] != "!":
        es = lines_of(unhx(views["errstr"][1]))
        ef = lines_of(unhx(views["errfile"][2]))
        i = 0
        for ln in ef:
            if i < len(es) and ln == es[i]:
                i += 1
        if i < len(es):
            bad.append(("err-file-missing-line", "error string line not in error file: %r" % es[i][:80]))
    el = [unhx(x) for x in views["errlines"][1:1 + int(views["errlines"][0])]]
    if cfg["err"][0] and el != lines_of(unhx(views["errstr"][1])):
        bad.append(("err-lines", "error line accessors differ from the error string"))
    # selected output per user number
    for n, tab in views.get("tab", {}).items():
        sw = cfg["strsw"].get(n, False)
        fo = cfg["filesw"].get(n, False)
        meta = dict(x.split("=") for x in views["sel"][n])
        nlines = int(views["sellines"][n][0])
        lines = [unhx(x) for x in views["sellines"][n][1:1 + nlines]]
        if any(e != "-" for e in views["sellines"][n][-3:]):
            bad.append(("sel-line-accessor-edge", f"sel {n}: accessor outside range returned non-empty"))
        sraw = unhx(views["selstr"][n][0])
        rows = int(meta["rows"])
        if n in cfg["strsw"]:
            s = sraw
            if sw:
                if lines != lines_of(s):
                    bad.append(("sel-lines-ne-string", f"sel {n}: line accessors differ from the string"))
                if rows and len(lines_of(s)) != rows:
                    bad.append(("sel-string-rows", f"sel {n}: string has {len(lines_of(s))} lines, table {rows} rows"))
            else:
                if s or lines:
                    bad.append(("sel-disabled-string-received", f"sel {n}: disabled string sink received content"))
        else:
            if lines:
                bad.append(("sel-disabled-string-received", f"sel {n}: string switch never set, yet {len(lines)} lines"))
        f = views["selfile"][n]
        if fo and f[2] != "!":
            fl = lines_of(unhx(f[2]))
            if rows and len(fl) != rows:
                bad.append(("sel-file-rows", f"sel {n}: file has {len(fl)} lines, table {rows} rows"))
            if sw and n in cfg["strsw"] and unhx(f[2]) != sraw:
                bad.append(("sel-file-ne-string", f"sel {n}: file and string differ"))
        # table shape
        if tab[0] != "none":
            txt = " ".join(tab)
            head, *rws = txt.split(" | ")
            nc = int(head.split()[1].split("=")[1])
            for r in rws:
                if r and len(r.split(";")) != nc:
                    bad.append(("sel-table-shape", f"sel {n}: row with wrong cell count"))
    return bad


def explained_by_switch_rule(cfg):
    """True when the code's rule (all numbers follow the current number's switch) and the per-number rule differ
    for some defined user number — the precondition of known finding `get_sel_out_string_on-ignores-n`"""
    cur_sw = cfg["strsw"].get(cfg["cur"], False)
    return any(cfg["strsw"].get(n, False) != cur_sw for n in cfg["users"])


def make_cfg(rng, users, allow_mixed=True):
    cfg = {"out": (rng.random() < 0.5, rng.random() < 0.5), "log": (rng.random() < 0.5, rng.random() < 0.5),
           "err": (rng.random() < 0.85, rng.random() < 0.5), "dump": (rng.random() < 0.5, rng.random() < 0.5),
           "strsw": {}, "filesw": {}, "cur": 1, "users": list(users)}
    nums = list(users) + [rng.choice([1, 7, 99])]
    for n in nums:
        if rng.random() < 0.75:
            cfg["strsw"][n] = rng.random() < 0.7
        if rng.random() < 0.6:
            cfg["filesw"][n] = rng.random() < 0.6
    if not allow_mixed and cfg["strsw"]:
        v = rng.random() < 0.7
        for n in nums:
            cfg["strsw"][n] = v
    cfg["strsw"].setdefault(1, False)
    cfg["filesw"].setdefault(1, False)
    cfg["cur"] = rng.choice(nums)
    return cfg


def cfg_script(cfg):
    s = [f"set outstr {int(cfg['out'][0])}", f"set outfile {int(cfg['out'][1])}",
         f"set logstr {int(cfg['log'][0])}", f"set logfile {int(cfg['log'][1])}",
         f"set errstr {int(cfg['err'][0])}", f"set errfile {int(cfg['err'][1])}",
         f"set dumpstr {int(cfg['dump'][0])}", f"set dumpfile {int(cfg['dump'][1])}"]
    for n, v in cfg["strsw"].items():
        s += [f"cur {n}", f"set selstr {int(v)}"]
    for n, v in cfg["filesw"].items():
        s += [f"cur {n}", f"set selfile {int(v)}"]
    s.append(f"cur {cfg['cur']}")
    return s


def analyse_call(ctx, cfg, events, views, ret, skip=None):
    pv = model_views(ctx, cfg, events)
    if pv.get("bad", ["0"])[0] != "0":
        raise RuntimeError("pmodel route could not parse %s event lines" % pv["bad"][0])
    diffs = compare_call(cfg, views, pv)
    bad = direct_oracle(cfg, views)
    # user numbers whose SELECTED_OUTPUT was (re)opened after text had been punched for them in this call
    seen_text, redefined = set(), set()
    for e in events:
        p = e.split(" ")
        if p[1] in ("pmsg", "pd", "ps", "pi"):
            seen_text.add(int(p[3]))
        elif p[1] == "popen" and int(p[3]) in seen_text:
            redefined.add(int(p[3]))
    nrows = sum(int(dict(x.split("=") for x in v)["rows"]) for v in views.get("sel", {}).values())
    nerr_events = sum(1 for e in events if e.startswith("EV err "))
    if ret == 0 and skip is not None:
        bad += columns_oracle(events, views, skip=redefined | set(skip))
    # C08 relation: return value non-zero iff an ERROR event was recorded in this call
    if (ret != 0) != (nerr_events > 0):
        bad.append(("retval-vs-errors", f"return value {ret} with {nerr_events} ERROR events"))
    return {"diffs": diffs, "oracle": bad, "ret": ret, "events": len(events), "rows": nrows,
            "errcount": int(pv["errcount"][0]), "redefined": sorted(redefined), "views": views}


def run_calls(ctx, exe, calls, db=DB, prelude=()):
    """calls: list of (cfg, input_text). One instance, one database load, then for each call: switches, run, views.
    Returns list of per-call analysis dicts (or a single {"crash":...})."""
    script = shape_opts() + ["new", f"load {hx(db)}"] + list(prelude)
    for cfg, inp in calls:
        script += cfg_script(cfg) + [f"run {hx(inp)}", "views"]
    rc, out, err = run_script(ctx, exe, script)
    if rc != 0:
        return [{"crash": rc, "stderr": err[-800:], "script": script}]
    recs = parse_output(out)
    runrec = [r for r in recs if r["op"] == "run"]
    vrec = [r for r in recs if r["op"] == "views"]
    if len(runrec) != len(calls) or len(vrec) != len(calls):
        return [{"crash": "no-result", "stdout": out[-5:], "script": script}]
    res = []
    for (cfg, inp), rr, vr in zip(calls, runrec, vrec):
        # numbers whose SELECTED_OUTPUT / USER_PUNCH definition changes in a later simulation are not judged by the columns oracle
        late = {b[1] for k, sim in enumerate(parse_input(inp)) if k >= 1 for b in sim if b[0] in ("SELECTED_OUTPUT", "USER_PUNCH")}
        skip = None if "INVERSE_MODELING" in inp else late
        r = analyse_call(ctx, cfg, rr["events"], vr["views"], int(rr["args"][0]), skip=skip)
        r["script"] = script
        res.append(r)
    return res


def one_case(ctx, exe, inp, users, cfg, db=DB):
    return run_calls(ctx, exe, [(cfg, inp)], db=db)[0]


def run_selout_traces(ctx, per_property="C05"):
    exe = build_trace_harness(ctx)
    n = ctx.n(40, 1000)
    evals = 0
    distinct = set()
    hist = {"inputs_with_rows": 0, "errors": 0, "mixed_switch_cases": 0, "blocks": {}}
    ninv = ctx.n(2, 30)
    hist["inverse_inputs"] = ninv
    for i in range(n + ninv):
        if i < ninv:
            # INVERSE_MODELING punches through its own routine (punch_model)
            from gens import threads as gth
            inp, users = gth.inverse(ctx.rng)[1], [1]
            cfg = make_cfg(ctx.rng, users, allow_mixed=False)
            cfg["strsw"][1] = True
            cfg["filesw"][1] = True
        else:
            inp, users = gi.selout_input(ctx.rng)
            cfg = make_cfg(ctx.rng, users)
        if i >= ninv and ctx.rng.random() < 0.35:
            # two consecutive calls on one instance: the views of the second call must describe the second call only
            # (tables, strings and line vectors of the previous call must not show through when a switch was turned off)
            inp2, users2 = inp, users      # same input again (definitions of call 1 persist; a different input is C04/C09 territory)
            cfg2 = make_cfg(ctx.rng, sorted(set(users) | set(users2)))
            # switches persist between calls: the effective configuration of call 2 is call 1's maps overridden by its own
            cfg2["strsw"] = {**cfg["strsw"], **cfg2["strsw"]}
            cfg2["filesw"] = {**cfg["filesw"], **cfg2["filesw"]}
            for n in list(cfg["strsw"]):
                if ctx.rng.random() < 0.5:
                    cfg2["strsw"][n] = not cfg["strsw"][n]
            both = run_calls(ctx, exe, [(cfg, inp), (cfg2, inp2)])
            hist["two_call_sequences"] = hist.get("two_call_sequences", 0) + 1
            if "crash" not in both[0] and len(both) == 2:
                handle_result(ctx, inp2, cfg2, both[1], explained_by_switch_rule(cfg2))
                evals += 1
                if ctx.violations:
                    break
            res = both[0]
        else:
            res = one_case(ctx, exe, inp, users, cfg)
        evals += 1
        if "crash" in res:
            ctx.violation("harness run crashed / gave no result", {"input": inp, "cfg": cfg_json(cfg), "result": res})
            break
        hist["blocks"][len(users)] = hist["blocks"].get(len(users), 0) + 1
        if res["rows"]:
            hist["inputs_with_rows"] += 1
            distinct.add(hash((inp, str(cfg))))
        if res["ret"]:
            hist["errors"] += 1
        mixed = explained_by_switch_rule(cfg)
        if mixed:
            hist["mixed_switch_cases"] += 1
        if i < 2:
            ctx.sample({"input": inp[:400], "cfg": cfg_json(cfg), "events": res["events"], "rows": res["rows"]})
        handle_result(ctx, inp, cfg, res, mixed)
        if ctx.violations:
            break
    ctx.cov["trace_histogram"] = hist
    return {"evaluations": evals, "distinct": len(distinct)}


CURRENT_FILES = {}     # files (INCLUDE$ targets) the current input needs in the run directory; copied into replay data


def handle_result(ctx, inp, cfg, res, mixed):
    rep = {"input": inp, "cfg": cfg_json(cfg)}
    if CURRENT_FILES:
        rep["files"] = dict(CURRENT_FILES)
    if res["diffs"]:
        # Q: correspondence broken. Evaluate the direct oracle.
        if res["oracle"] and not (mixed and all(k.startswith("sel-") for k, _ in res["oracle"])):
            ctx.violation("views disagree with the routing model and the property's own relations fail: "
                          + "; ".join(t for _, t in res["oracle"][:3]), dict(rep, diffs=res["diffs"][:5], oracle=res["oracle"][:5]))
        else:
            ctx.violation("views disagree with the routing model (Model/Route): " + str(res["diffs"][0][0]),
                          dict(rep, diffs=res["diffs"][:5], correspondence="ph_trace views vs pmodel route"),
                          found_input=True)
        return
    no_nl = users_without_newline(inp)
    for key, text in res["oracle"]:
        m = __import__("re").match(r"sel (\d+):", text)
        n_user = int(m.group(1)) if m else None
        if key in ("sel-string-rows", "sel-file-rows") and n_user in no_nl:
            # `-new_line false` / NO_NEWLINE$ ask for several records on one text line: the number of text lines is then
            # not the number of table rows by request; string = file and lines = split(string) are still judged
            continue
        if key in ("sel-string-rows", "sel-file-rows") and "INVERSE_MODELING" in inp and "-inverse_modeling true" in inp:
            # punch_model never signals end-of-row: file/string rows > table rows (known finding, see known_findings.txt)
            ctx.finding("inverse-rows-not-in-table", text, dict(rep, oracle=res["oracle"][:5]))
        elif (key in ("sel-string-rows", "sel-file-rows", "sel-file-ne-string") and n_user in res.get("redefined", [])
              and n_user in late_blocks(inp)):
            # narrow rule: the punch file was re-opened after text had been punched for n (events) AND the input text
            # re-reads a SELECTED_OUTPUT n block in a later simulation of this call
            ctx.finding("selected-output-redefined-within-call", text, dict(rep, oracle=res["oracle"][:5]))
        elif key.startswith("sel-") and mixed:
            ctx.finding("get_sel_out_string_on-ignores-n", text, dict(rep, oracle=res["oracle"][:5]))
        else:
            ctx.violation("model and code agree but the property's relation fails: " + text,
                          dict(rep, oracle=res["oracle"][:5]))
            return


def late_blocks(inp):
    """user numbers of SELECTED_OUTPUT blocks that the input text reads in a simulation after the first"""
    return {b[1] for k, sim in enumerate(parse_input(inp)) if k >= 1 for b in sim if b[0] == "SELECTED_OUTPUT"}


def users_without_newline(inp):
    """user numbers whose SELECTED_OUTPUT block says `-new_line false` or whose USER_PUNCH program punches NO_NEWLINE$"""
    import re
    out = set()
    cur = None
    for line in inp.splitlines():
        t = line.strip()
        m = re.match(r"(SELECTED_OUTPUT|USER_PUNCH)\s*(-?\d+)?", t, re.I)
        if m:
            cur = int(m.group(2)) if m.group(2) else 1
            continue
        if re.match(r"[A-Z_]{3,}\b", t) and not t.startswith("-") and not re.match(r"\d", t):
            if not re.match(r"(-|\d)", t) and t.split()[0].isupper() and t.split()[0] not in ("PUNCH",):
                cur = None
        if cur is not None and (re.search(r"-new_line\s+f", t, re.I) or "NO_NEWLINE$" in t.upper()):
            out.add(cur)
    return out


def cfg_json(cfg):
    return {k: ({str(a): b for a, b in v.items()} if isinstance(v, dict) else v) for k, v in cfg.items()}


def cfg_from_json(j):
    c = dict(j)
    c["strsw"] = {int(a): b for a, b in j["strsw"].items()}
    c["filesw"] = {int(a): b for a, b in j["filesw"].items()}
    for k in ("out", "log", "err", "dump"):
        c[k] = tuple(j[k])
    return c


def replay(ctx, data):
    exe = build_trace_harness(ctx)
    cfg = cfg_from_json(data["cfg"])
    prelude = [f"write {hx(k)} {hx(v)}" for k, v in data.get("files", {}).items()]
    res = run_calls(ctx, exe, [(cfg, data["input"])], prelude=prelude)[0]
    print("replay:", {k: v for k, v in res.items() if k != "script"})
    if "crash" in res:
        ctx.violation("crash on replay", data)
        return
    handle_result(ctx, data["input"], cfg, res, explained_by_switch_rule(cfg))


# =================================================================================================================
# Round 2: multi-call HISTORIES with different inputs. The Lean history model (Model/Route `Inst.call`, `HSinks`,
# `simPrologue`, `fmtOf`, bindings of Model/SelOut) is driven with (a) the recorded events and (b) an INDEPENDENT
# reading of the input texts (which blocks are defined, when they are re-read, PRINT -selected_output, -high_precision,
# USER_PUNCH shape); the engine's own state is compared with that reading as a separate relation.
import re as _re

KEYWORDS = {"SOLUTION", "SELECTED_OUTPUT", "USER_PUNCH", "PRINT", "END", "USE", "REACTION", "EQUILIBRIUM_PHASES", "MIX",
            "DUMP", "KNOBS", "TITLE", "SAVE", "INVERSE_MODELING", "KINETICS", "RATES", "EXCHANGE", "SURFACE", "GAS_PHASE",
            "REACTION_TEMPERATURE", "INCLUDE$", "PHASES", "SOLUTION_SPECIES", "SOLUTION_MASTER_SPECIES", "CALCULATE_VALUES",
            "DELETE", "COPY", "RUN_CELLS", "USER_PRINT", "SOLID_SOLUTIONS", "TRANSPORT", "ADVECTION"}
NEW_MODEL_KEYS = {"PHASES", "SOLUTION_SPECIES", "SOLUTION_MASTER_SPECIES", "CALCULATE_VALUES", "RATES"}
NO_TOUCH_OPTS = ("user_punch", "active", "selected_out", "selected_output")


def parse_input(text):
    """independent reading of an input text: list of simulations, each a list of blocks (keyword, number, body lines)"""
    sims, cur, blk = [], [], None
    for raw in text.splitlines():
        line = raw.split("#", 1)[0].strip()
        if not line:
            continue
        w = line.split()
        kw = w[0].upper()
        if kw in KEYWORDS:
            if kw == "END":
                sims.append(cur)
                cur, blk = [], None
                continue
            n = 1
            if len(w) > 1 and _re.fullmatch(r"-?\d+", w[1]):
                n = int(w[1])
            blk = (kw, n, [])
            cur.append(blk)
        elif blk is not None:
            blk[2].append(line)
    if cur:
        sims.append(cur)
    return sims


class TextState:
    """what the input texts of a history say about selected output (persists across calls; LoadDatabase resets)"""

    def __init__(self):
        self.defs = []           # defined user numbers, ascending
        self.hp = {}             # n -> -high_precision
        self.user_punch_on = {}  # n -> -user_punch
        self.up = {}             # n -> dict(nvals, headings, special)
        self.pr_punch = True
        self.pr_dump = True

    def read_call(self, text):
        """returns per-simulation facts of this call and per-number facts needed to judge formats"""
        sims = parse_input(text)
        out = []
        hp_seen, up_seen = {}, {}
        late_redef = set()
        late_def = set()         # numbers whose SELECTED_OUTPUT / USER_PUNCH definition changes in a later simulation of the call
        for k, sim in enumerate(sims):
            blocks, tidy_kw = [], False
            for kw, n, body in sim:
                if kw == "SELECTED_OUTPUT":
                    tidy_kw = True
                    opts = {}
                    for ln in body:
                        w = ln.split()
                        o = w[0].lstrip("-").lower()
                        opts[o] = w[1].lower() if len(w) > 1 else "true"
                    touch = any(o not in NO_TOUCH_OPTS for o in opts)
                    existed = n in self.defs
                    stored = touch or not existed
                    if k >= 1 and (stored or "user_punch" in opts):
                        late_def.add(n)
                    if stored:
                        if existed and k >= 1:
                            late_redef.add(n)
                        if n == 1 and existed:
                            hp = self.hp.get(1, False)
                            upo = self.user_punch_on.get(1, True)
                        else:
                            hp, upo = False, True
                        if "high_precision" in opts:
                            hp = opts["high_precision"].startswith("t")
                        if "user_punch" in opts:
                            upo = opts["user_punch"].startswith("t")
                        self.hp[n], self.user_punch_on[n] = hp, upo
                        if not existed:
                            self.defs = sorted(self.defs + [n])
                        hp_seen.setdefault(n, set()).add(hp)
                    elif "user_punch" in opts:
                        self.user_punch_on[n] = opts["user_punch"].startswith("t")
                    blocks.append((n, touch))
                elif kw == "USER_PUNCH":
                    tidy_kw = True
                    heads, nvals, special = [], 0, False
                    for ln in body:
                        w = ln.split()
                        if w[0].lower().startswith("-head"):
                            heads = w[1:]
                        elif _re.match(r"\d+\s+PUNCH\b", ln, _re.I):
                            args = ln.split(None, 2)[2] if len(ln.split(None, 2)) > 2 else ""
                            nvals += len([a for a in args.split(",") if a.strip() and a.strip().upper() not in ("NO_NEWLINE$", "EOL_NOTAB$")])
                            if "NO_NEWLINE$" in args.upper() or "EOL_NOTAB$" in args.upper():
                                special = True
                        elif _re.search(r"\bPUNCH\b", ln, _re.I):
                            special = True      # conditional / compound PUNCH: number of values per row not read from the text
                    self.up[n] = dict(nvals=nvals, headings=heads, special=special)
                    if k >= 1:
                        late_def.add(n)
                    up_seen.setdefault(n, 0)
                    up_seen[n] += 1
                elif kw == "PRINT":
                    for ln in body:
                        w = ln.split()
                        o = w[0].lstrip("-").lower()
                        if o.startswith("selected_out") or o == "selected_output":
                            self.pr_punch = (w[1].lower().startswith("t") if len(w) > 1 else True)
                        elif o == "dump":
                            self.pr_dump = (w[1].lower().startswith("t") if len(w) > 1 else True)
                elif kw in NEW_MODEL_KEYS:
                    tidy_kw = True
            first = (k == 0)
            tidy = tidy_kw or (first and bool(self.defs))
            dump = None
            for kw, n, body in sim:
                if kw == "DUMP":
                    dump = "-"              # block without -append: the flag of an earlier block stays in force
                    for ln in body:
                        w = ln.split()
                        if w[0].lstrip("-").lower().startswith("app"):
                            dump = "1" if (w[1].lower().startswith("t") if len(w) > 1 else True) else "0"
            out.append(dict(first=first, pr_punch=self.pr_punch, pr_dump=self.pr_dump, tidy=tidy, blocks=blocks, dump=dump))
        ambiguous = {n for n, v in hp_seen.items() if len(v) > 1} | {n for n, c in up_seen.items() if c > 1} | late_def
        return dict(sims=out, late_redef=late_redef, ambiguous=ambiguous, inverse=any(b[0] == "INVERSE_MODELING" for s in sims for b in s))


def endrow_checks_user_punch():
    """shape of IPhreeqc::EndRow: are the unpunched USER_PUNCH headings padded only when the block has -user_punch true?"""
    src = (vlib.REPO / "src" / "IPhreeqc.cpp").read_text()
    a = src.find("int IPhreeqc::EndRow(void)")
    b = src.find("\nvoid IPhreeqc::check_database", a)
    if a < 0 or b < a:
        raise RuntimeError("IPhreeqc::EndRow not recognised")
    return "Get_user_punch()" in _re.sub(r"//[^\n]*", "", src[a:b])


def build_trace_harness(ctx):
    """the harness binary is cached by name and time stamps, so nothing that depends on the source shape may be compiled in:
    shape-dependent behaviour of the harness is selected at run time (see `shape_opts`)"""
    return ctx.build_harness("ph_trace")


def shape_opts():
    """script lines sent at the start of every ph_trace script: run-time options that follow the shape of the source"""
    return [f"opt endrow_user_punch {int(endrow_checks_user_punch())}"]


def loop_is_hoisted():
    """shape of the file-open loop of IPhreeqc::do_run read from the source: is tidy_punch() called inside the loop body
    (code as written) or once behind it (repaired)? Fails closed."""
    src = (vlib.REPO / "src" / "IPhreeqc.cpp").read_text()
    m = src.find("if (this->SelectedOutputFileOnMap[(*it).first] && !(*it).second.Get_punch_ostream())")
    if m < 0:
        raise RuntimeError("do_run: file-open loop not recognised")
    i = src.index("{", m)
    depth, j = 0, i
    while True:
        if src[j] == "{":
            depth += 1
        elif src[j] == "}":
            depth -= 1
            if depth == 0:
                break
        j += 1
    inside = "tidy_punch()" in _re.sub(r"//[^\n]*", "", src[i:j])
    tail = _re.sub(r"//[^\n]*", "", src[j:j + 400])
    after = "tidy_punch()" in tail
    if inside == after:
        return None          # shape not recognised: the caller judges with the proved (hoisted) variant and reports it
    return after


def loop_guarded_by_print():
    """is the file-open loop of do_run skipped while PRINT -selected_output false is in effect (code as written)?"""
    src = (vlib.REPO / "src" / "IPhreeqc.cpp").read_text()
    a = src.find("if (this->PhreeqcPtr->SelectedOutput_map.size() > 0)")
    b = src.find("if (this->SelectedOutputFileOnMap[(*it).first] && !(*it).second.Get_punch_ostream())")
    if a < 0 or b < a:
        raise RuntimeError("do_run: file-open loop not recognised")
    return "pr.punch == FALSE" in _re.sub(r"//[^\n]*", "", src[a:b])


def heading_before_open(sk, n):
    """the heading line of n was written before punch_open(n) in this call (the file cannot hold it)"""
    o, h = "o%d" % n, "h%d" % n
    return o in sk and h in sk and sk.index(h) < sk.index(o)


HEAD_ALIAS = {"temp": "temp(C)", "Alk": "Alk(eq/kgw)", "charge": "charge(eq)"}


def columns_oracle(events, views, skip=()):
    """C05: ColumnCount = number of headings of the heading line (one heading per column), and the k-th value punched in a
    row is the k-th cell of that row in the table (columns in the same order: every text cell is its table cell).
    Judged per user number with exactly one heading line in the call; not for numbers in `skip` (definitions changing
    within the call)."""
    bad = []
    heads, rows, cur = {}, {}, {}
    for e in events:
        p = e.split(" ")
        if p[1] == "pmsg" and (int(p[2]) & 16):
            heads.setdefault(int(p[3]), []).append(unhx(p[4]))
        elif p[1] in ("pd", "ps", "pi"):
            cur.setdefault(int(p[3]), []).append(unhx(p[4]).decode("utf-8", "replace"))
        elif p[1] == "endrow":
            n = int(p[3])
            rows.setdefault(n, []).append(cur.pop(n, []))
    for n, tab in views.get("tab", {}).items():
        if n in skip or tab[0] == "none" or n not in heads:
            continue
        parts = " ".join(tab).split(" | ")
        if len(parts) < 2 or not parts[1]:
            continue
        T = [unhx(c[1:]).decode("utf-8", "replace") if c[1:] != "-" else "" for c in parts[1].split(";") if c.startswith("S")]
        text = b"".join(heads[n])
        hl = [x for x in text.split(b"\n")[:-1]] if text.endswith(b"\n") else None
        if hl is None or len(hl) != 1:
            continue
        L = []
        for tok in hl[0].decode("utf-8", "replace").split("\t"):
            tok = tok.strip()
            if tok and tok not in L:
                L.append(tok)
        Tn = []
        for tname in T:
            if not tname.startswith("no_heading_") and tname not in Tn:
                Tn.append(tname)
        def same(h, tname):
            return tname == h or tname == h + "(mol/kgw)" or HEAD_ALIAS.get(h) == tname
        if not T:
            continue
        if len(L) != len(Tn) or not all(same(h, tn) for h, tn in zip(L, Tn)):
            k = next((i for i, (h, tn) in enumerate(zip(L, Tn)) if not same(h, tn)), min(len(L), len(Tn)))
            bad.append(("sel-heading-columns", f"sel {n}: heading line has {len(L)} headings, table ColumnCount {len(T)}"
                        f" (first difference at column {k}: heading {L[k] if k < len(L) else None!r}, table {Tn[k] if k < len(Tn) else None!r})"))
            continue
        for r_i, names in enumerate(rows.get(n, [])):
            if len(set(names)) != len(names):
                continue
            idx = [T.index(x) if x in T else -1 for x in names]
            if idx != list(range(len(names))):
                k = next(i for i, v in enumerate(idx) if v != i)
                bad.append(("sel-column-order", f"sel {n}: data row {r_i + 1}: value {k} ({names[k]!r}) is cell {idx[k]} of the table row, "
                                                f"cell {k} of the text line"))
                break
    return bad


def skeleton_of_events(events):
    """recorded punch_open calls and heading lines of a call: o<n> / h<n>"""
    sk = []
    for e in events:
        p = e.split(" ")
        if p[1] == "popen":
            sk.append("o" + p[3])
        elif p[1] == "pmsg" and (int(p[2]) & 16) and p[4] == "0a":
            sk.append("h" + p[3])
    return sk


def hist_cfg_lines(cfg, selusers):
    return [f"cfg out {int(cfg['out'][0])} {int(cfg['out'][1])}", f"cfg log {int(cfg['log'][0])} {int(cfg['log'][1])}",
            f"cfg err {int(cfg['err'][0])} {int(cfg['err'][1])}",
            "cfg strsw " + " ".join(f"{k}={int(v)}" for k, v in cfg["strsw"].items()),
            "cfg filesw " + " ".join(f"{k}={int(v)}" for k, v in cfg["filesw"].items()),
            f"cfg cur {cfg['cur']}", "cfg peruser 0", "cfg selusers " + " ".join(str(n) for n in selusers)]


def parse_model_block(lines):
    pv = {}
    for ln in lines:
        parts = ln.split(" ")
        tag = parts[1]
        if tag in ("selstr", "sellines", "selfile", "tab"):
            pv.setdefault(tag, {})[int(parts[2])] = parts[3:]
        else:
            pv[tag] = parts[2:]
    return pv


def next_cfg(rng, prev, nums):
    """switch state of the next call: the maps persist, some entries flip, the current number moves"""
    if prev is None:
        cfg = make_cfg(rng, nums, allow_mixed=rng.random() < 0.3)
        for n in nums:                       # most blocks get explicit switches so that files and strings are exercised
            if rng.random() < 0.8:
                cfg["strsw"][n] = cfg["strsw"].get(cfg["cur"], rng.random() < 0.7) if rng.random() < 0.8 else rng.random() < 0.5
            if rng.random() < 0.8:
                cfg["filesw"][n] = rng.random() < 0.7
        return cfg
    cfg = {k: (dict(v) if isinstance(v, dict) else v) for k, v in prev.items()}
    cfg["users"] = list(nums)
    for k in ("out", "log", "err", "dump"):
        if rng.random() < 0.3:
            cfg[k] = (rng.random() < 0.5, rng.random() < 0.5)
    if rng.random() < 0.35:
        v = rng.random() < 0.6                # uniform change of the string switch (keeps the known switch rule out of the way)
        for n in list(cfg["strsw"]):
            cfg["strsw"][n] = v
    elif rng.random() < 0.15 and cfg["strsw"]:
        n = rng.choice(list(cfg["strsw"]))
        cfg["strsw"][n] = not cfg["strsw"][n]
    for n in list(cfg["filesw"]):
        if rng.random() < 0.25:
            cfg["filesw"][n] = not cfg["filesw"][n]
    for n in nums:
        if n not in cfg["filesw"] and rng.random() < 0.5:
            cfg["filesw"][n] = rng.random() < 0.7
        if n not in cfg["strsw"] and rng.random() < 0.5:
            cfg["strsw"][n] = cfg["strsw"].get(cfg["cur"], False)
    if rng.random() < 0.4:
        cfg["cur"] = rng.choice(list(nums) + [1])
    return cfg


def render_num(var):
    import struct
    if var[0] == "L":
        return ("%d" % int(var[1:])).encode()
    d = struct.unpack(">d", bytes.fromhex(var[1:]))[0]
    return ("%23.15e" % d).encode()


def compare_cells(hlines, mlines, cap):
    """bindings: harness `cells` output vs the Lean model of the four accessors. Returns first difference or None."""
    K = [l for l in hlines if l.startswith("K ")]
    C = [l for l in hlines if l.startswith("C ")]
    R = [l for l in hlines if l.startswith("R cells")]
    mk = [l for l in mlines if l.startswith("P K ")]
    mc = [l for l in mlines if l.startswith("P C ")]
    if len(K) != 1 or len(mk) != 1 or len(C) != len(mc) or not R:
        return "cells: malformed output (%d/%d cell lines)" % (len(C), len(mc))
    if R[0] != "R cells unchanged":
        return "reading cells changed the table"
    k, m = K[0].split(), mk[0].split()
    rows, cols = [int(x) for x in k[3:6]], [int(x) for x in k[7:10]]
    api, rf, nc = int(m[3]), int(m[4]), int(m[5])
    if rows != [api, api, rf]:
        return f"row counts C/C++/F {rows} vs model {[api, api, rf]}"
    if cols != [nc, nc, nc]:
        return f"column counts C/C++/F {cols} vs model {nc}"
    for hl, ml in zip(C, mc):
        parts = hl.split(" | ")
        c = parts[0].split()
        cpp, v2, f = parts[1].split()[1:], parts[2].split()[1:], parts[3].split()[1:]
        mm = ml.split()
        r, col, code, var, vt, dh, s2, sf, agree = mm[2], mm[3], mm[4], mm[5], mm[6], mm[7], mm[8], mm[9], mm[10]
        where = f"cell ({r},{col}): "
        if c[1:3] != [r, col]:
            return where + "order"
        if c[3:5] != [code, var]:
            return where + f"C accessor {c[3:5]} vs model {[code, var]}"
        if cpp != [code, var]:
            return where + f"C++ accessor {cpp} vs model {[code, var]}"
        if agree != "1":
            return where + "model: Fortran accessor disagrees"
        if v2[0] != code or f[0] != code:
            return where + f"result codes C {code} Value2 {v2[0]} ValueF {f[0]}"
        if v2[1] != vt or f[1] != vt:
            return where + f"reported type Value2 {v2[1]} ValueF {f[1]} vs model {vt}"
        expd = dh if dh != "-" else "0000000000000000"
        if v2[2] != expd or f[2] != expd:
            return where + f"dvalue Value2 {v2[2]} ValueF {f[2]} vs model {expd}"
        if v2[4] != "0" or f[4] != "0":
            return where + "accessor wrote behind the caller's buffer"
        got2 = unhx(v2[3])
        fbuf, flen = f[3].split(":")
        gotf = unhx(fbuf)
        if s2 == "untouched":
            if got2 != b"#" * cap or gotf != b"#" * cap or int(flen) != cap:
                return where + "svalue written for an empty / error cell"
        else:
            if s2 == "num":
                txt = render_num(var)
                exp2, expf, explen = txt[:cap], txt[:cap] + b" " * max(0, cap - len(txt)), len(txt)
            else:
                exp2 = unhx(s2)
                eb, el = sf.split(":")
                expf, explen = unhx(eb), int(el)
            if got2 != exp2:
                return where + f"Value2 svalue {got2[:40]!r} vs {exp2[:40]!r}"
            if gotf != expf or int(flen) != explen:
                return where + f"ValueF svalue {gotf[:40]!r}:{flen} vs {expf[:40]!r}:{explen}"
    return None


def fmt_queries(events, ts_before, info, ts_after):
    """(query lines, meta) for the format-choice relation: every value event of the call with the block's precision flag
    and the column class read from the input text. ts_* are (hp, user_punch_on, up) snapshots."""
    hp_after, upo_after, up_after = ts_after
    q, meta = [], []
    rows = {}
    for e in events:
        p = e.split(" ")
        if p[1] in ("pd", "ps", "pi"):
            rows.setdefault(int(p[3]), []).append(p)
        elif p[1] == "endrow":
            n = int(p[3])
            row = rows.pop(n, [])
            if n in info["ambiguous"] or n in info["late_redef"] or n not in hp_after:
                continue
            upd = up_after.get(n)
            nuser = upd["nvals"] if (upd and upo_after.get(n, True) and not upd["special"]) else (0 if not upd or not upo_after.get(n, True) else None)
            if nuser is None or nuser > len(row):
                continue
            for k, p in enumerate(row):
                user = k >= len(row) - nuser
                strlen = len(unhx(p[6])) if p[1] == "ps" else 0
                q.append(f"fq {int(hp_after[n])} {int(user)} {p[1]} {p[4]} {strlen} 1 {p[5]}")
                meta.append((n, unhx(p[4]).decode("utf-8", "replace"), unhx(p[5]).decode(), user))
    return q, meta


SPECIAL = ("@LOAD_OK", "@LOAD_MISSING", "@LOADSTR_BAD")
BAD_DB_STRING = "SOLUTION_MASTER_SPECIES\n H H+ -1 1 1.008\nSOLUTION_SPECIES\n H+ = H+\n log_k 0\n Xx+ = Xx+\n log_k 0\nEND\n"
def lines_refreshed():
    """source shape followed by the model: are the output/log line vectors re-split when a call stops before do_run (no
    database: check_database) and after LoadDatabase / LoadDatabaseString (load_db, load_db_str)? Since fix d0a3a66f: yes.
    A mixed shape is judged with the proved variant (re-split everywhere)."""
    src = _re.sub(r"//[^\n]*", "", (vlib.REPO / "src" / "IPhreeqc.cpp").read_text())
    def body(sig):
        a = src.find(sig)
        if a < 0:
            raise RuntimeError("IPhreeqc.cpp: %s not recognised" % sig)
        b = src.find("\n}\n", a)
        return src[a:b]
    marks = ["OutputLines" in body("void IPhreeqc::check_database(") and ("refresh_lines(" in body("void IPhreeqc::check_database(") or "getline" in body("void IPhreeqc::check_database(")),
             "refresh_lines(" in body("int IPhreeqc::load_db(") or "OutputLines" in body("int IPhreeqc::load_db("),
             "refresh_lines(" in body("int IPhreeqc::load_db_str(") or "OutputLines" in body("int IPhreeqc::load_db_str(")]
    return any(marks)


def step_kind(inp, db_loaded):
    if inp in SPECIAL:
        return {"@LOAD_OK": "loadok", "@LOAD_MISSING": "loadfail", "@LOADSTR_BAD": "loadfail"}[inp]
    return "run" if db_loaded else "nodb"


def files_off(cfg):
    c = dict(cfg)
    for k in ("out", "log", "err"):
        c[k] = (cfg[k][0], False)
    return c


def run_history(ctx, exe, inputs, cfgs, cells_cap=None, names=None, db=DB, noload=False):
    """one instance, the steps of a history: Run* calls with different inputs and switch changes in between, and
    (special inputs @LOAD_OK / @LOAD_MISSING / @LOADSTR_BAD) database loads that succeed or fail; `noload`: the instance
    starts without a database. Returns dict(calls=[per-step analysis], ...) or {"crash":...}"""
    script = shape_opts() + ["new"] + ([] if noload else [f"load {hx(db)}"])
    for k, v in (names or {}).items():
        if k[0] == "sel":
            script += [f"cur {k[1]}", f"fname sel {hx(v)}"]
        else:
            script.append(f"fname {k[0]} {hx(v)}")
    ts = TextState()
    infos, snaps, kinds_ = [], [], []
    db_loaded = not noload
    EMPTY = dict(sims=[], late_redef=set(), ambiguous=set(), inverse=False)
    for cfg, inp in zip(cfgs, inputs):
        kind = step_kind(inp, db_loaded)
        kinds_.append(kind)
        if kind in ("loadok", "loadfail"):
            op = {"@LOAD_OK": f"load {hx(db)}", "@LOAD_MISSING": f"load {hx('/nonexistent/verif_no_such.dat')}",
                  "@LOADSTR_BAD": f"loadstr {hx(BAD_DB_STRING)}"}[inp]
            script += cfg_script(cfg) + [op, "views"]
            ts = TextState()                    # UnLoadDatabase: every definition and PRINT state is gone
            db_loaded = (kind == "loadok")
            infos.append(dict(EMPTY))
        else:
            script += cfg_script(cfg) + [f"run {hx(inp)}", "views"]
            infos.append(ts.read_call(inp) if kind == "run" else dict(EMPTY))
        before = (dict(ts.hp), dict(ts.user_punch_on), {k: dict(v) for k, v in ts.up.items()})
        snaps.append((before, before, list(ts.defs)))
    # (snapshots: the format relation needs the state before and after a call; recomputed below for real runs)
    ts2 = TextState()
    dbl = not noload
    for k, (inp, kind) in enumerate(zip(inputs, kinds_)):
        if kind in ("loadok", "loadfail"):
            ts2 = TextState()
            continue
        if kind == "run":
            b = (dict(ts2.hp), dict(ts2.user_punch_on), {x: dict(v) for x, v in ts2.up.items()})
            ts2.read_call(inp)
            snaps[k] = (b, (dict(ts2.hp), dict(ts2.user_punch_on), {x: dict(v) for x, v in ts2.up.items()}), list(ts2.defs))
    ncell_ops = 0
    if kinds_ and kinds_[-1] != "run":
        cells_cap = None                      # the tables exist only after a call that entered do_run
    if cells_cap is not None:
        last_defs = snaps[-1][2]
        for n in last_defs + [77, 0]:
            script += [f"cells {n} -1 9 -2 14 {cells_cap}"]
            ncell_ops += 1
    rc, out, err = run_script(ctx, exe, script)
    if rc != 0:
        return {"crash": rc, "stderr": err[-800:], "script": script}
    recs = parse_output(out)
    runrec = [r for r in recs if r["op"] in ("run", "load")]
    if not noload:
        runrec = runrec[1:]                    # the initial database load
    vrec = [r for r in recs if r["op"] == "views"]
    if len(runrec) != len(inputs) or len(vrec) != len(inputs):
        return {"crash": "no-result", "stdout": out[-5:], "script": script}
    # ---- Lean history model: one invocation for the whole history
    ml = [f"cfg refreshed {int(lines_refreshed())}"]
    TERM = {"run": "endcall", "nodb": "endcallnodb", "loadfail": "endloadfail"}
    for cfg, rr, vr, kind in zip(cfgs, runrec, vrec, kinds_):
        selusers = sorted(vr["views"].get("tab", {}).keys()) if kind == "run" else []
        if kind == "loadok":
            ml += ["loadok"]                                  # prints an empty report (keeps the blocks aligned; not compared)
        else:
            ml += hist_cfg_lines(cfg, selusers) + rr["events"] + [TERM[kind]]
    cell_specs = []
    if cells_cap is not None:
        last_tabs = vrec[-1]["views"].get("tab", {})
        for n in snaps[-1][2] + [77, 0]:
            # does the object hold a table for n? (after a call stopped by an error the tables of blocks read later are missing;
            # the defined numbers themselves are tied to the input texts by the `defs` relation of error-free histories)
            d = int(n in last_tabs and last_tabs[n][0] != "none")
            ml.append(f"cells {n} {d} -1 9 -2 14 {cells_cap}")
            cell_specs.append(n)
    mout = ctx.pmodel("route", "\n".join(ml) + "\n")
    blocks, curb = [], []
    cell_out = []
    for ln in mout:
        if ln.startswith("P K ") or ln.startswith("P C ") or ln.startswith("P cells"):
            cell_out.append(ln)
            continue
        curb.append(ln)
        if ln.startswith("P bad "):
            blocks.append(curb)
            curb = []
    if len(blocks) != len(inputs):
        raise RuntimeError("pmodel route: %d call reports for %d calls" % (len(blocks), len(inputs)))
    # ---- schedule model
    hoisted = loop_is_hoisted()
    shape_unknown = hoisted is None
    if shape_unknown:
        hoisted = True
    guarded = loop_guarded_by_print()
    sl = ["sk reset"]
    for cfg, info, kind in zip(cfgs, infos, kinds_):
        if kind in ("loadok", "loadfail"):
            sl.append("sk reset")
        sl.append(f"sk cfg {int(hoisted)} " + " ".join(f"{k}={int(v)}" for k, v in cfg["filesw"].items()))
        for s in info["sims"]:
            sl.append(f"sk sim {int(s['first'])} {int(s['pr_punch'] or not guarded)} {int(s['tidy'])} " + " ".join(f"{n}:{int(t)}" for n, t in s["blocks"]))
        sl.append("sk endcall")
    skout = [l.split()[2:] for l in ctx.pmodel("route", "\n".join(sl) + "\n") if l.startswith("P sk")]
    # ---- dump model: one token per simulation stands for the text dump_ostream writes in that simulation
    TOK = "ABCDEFGHIJKLMNOPQRSTUVWXYZabcdefghijklmnopqrstuvwxyz0123456789"
    dl, tk = ["dm reset"], 0
    for cfg, info, kind in zip(cfgs, infos, kinds_):
        if kind in ("loadok", "loadfail"):
            dl.append("dm unload")
        dl.append(f"dm cfg {int(cfg['dump'][1])} {int(cfg['dump'][0])}")
        for s in info["sims"]:
            dl.append(f"dm sim {int(s['dump'] is not None)} {s['dump'] or '0'} {int(s['pr_dump'])} {TOK[tk % len(TOK)]}")
            tk += 1
        dl.append("dm endcall")
    dmout = []
    for l in ctx.pmodel("route", "\n".join(dl) + "\n"):
        if l.startswith("P dm"):
            w = l.split(" ")
            dmout.append(dict(state=w[2:5], file=w[5][2:], str=w[6][2:]))
    res = []
    prev_views = None
    dump_ok = True
    chain_ok = True          # every call since the last successful load completed without error
    for k, (cfg, inp, rr, vr, blk, info) in enumerate(zip(cfgs, inputs, runrec, vrec, blocks, infos)):
        kind = kinds_[k]
        pv = parse_model_block(blk)
        if pv.get("bad", ["0"])[0] != "0":
            raise RuntimeError("pmodel route could not parse %s event lines" % pv["bad"][0])
        views, events, ret = vr["views"], rr["events"], int(rr["args"][0])
        if kind in ("loadok", "loadfail"):
            cfg = files_off(cfg)             # LoadDatabase forces the three file switches off while it runs
        if kind == "loadok":
            # views are those of the internal test run (not modelled); files must be untouched, the model state is reset
            bad = []
            if prev_views is not None:
                for name in ("out", "log", "err", "dump"):
                    if views[name + "file"][2] != prev_views[name + "file"][2]:
                        bad.append((name + "-disabled-file-written", f"{name}: file changed during LoadDatabase"))
            res.append({"diffs": [], "oracle": bad, "ret": ret, "events": len(events), "views": views, "info": info, "rows": 0,
                        "redefined": [], "call": k, "rel": [], "sk_impl": [], "kept_off": 0, "dup_heading": [], "kind": kind})
            prev_views = views
            dump_ok, chain_ok = (ret == 0), (ret == 0)
            continue
        diffs = compare_call(cfg, views, pv)
        # files are compared whatever the switch says: the model carries the content earlier calls left on disk
        for name in ("out", "log", "err"):
            f = views[name + "file"][2]
            f = "-" if f == "!" else f
            if f != pv[name + "file"][0]:
                diffs.append((name + "file-history", f[:200], pv[name + "file"][0][:200]))
        for n, fv in views.get("selfile", {}).items():
            f = "-" if fv[2] == "!" else fv[2]
            m = pv.get("selfile", {}).get(n, ["-"])[0]
            if f != m:
                diffs.append((f"selfile-history {n}", f[:200], m[:200]))
        bad = direct_oracle(cfg, views)
        kept_off = 0
        # a disabled file sink receives nothing: content on disk unchanged by this call
        if prev_views is not None:
            for name in ("out", "log", "err"):
                if not cfg[name][1] and views[name + "file"][2] != prev_views[name + "file"][2]:
                    bad.append((name + "-disabled-file-written", f"{name}: file switch off, yet the file changed during the call"))
            for n, fv in views.get("selfile", {}).items():
                pf = prev_views.get("selfile", {}).get(n)
                if pf is not None and not cfg["filesw"].get(n, False) and pf[1] == fv[1] and pf[2] == fv[2] and fv[2] not in ("!", "-"):
                    kept_off += 1
                if pf is not None and not cfg["filesw"].get(n, False) and pf[1] == fv[1] and pf[2] != fv[2]:
                    bad.append(("sel-disabled-file-written", f"sel {n}: file switch off, yet the file changed during the call"))
        nerr = sum(1 for e in events if e.startswith("EV err "))
        if (ret != 0) != (nerr > 0):
            bad.append(("retval-vs-errors", f"return value {ret} with {nerr} ERROR events"))
        r = {"diffs": diffs, "oracle": bad, "ret": ret, "events": len(events), "views": views, "info": info,
             "rows": sum(int(dict(x.split("=") for x in v)["rows"]) for v in views.get("sel", {}).values()),
             "redefined": sorted(info["late_redef"]), "call": k, "rel": [],
             "sk_impl": skeleton_of_events(events), "kept_off": kept_off, "kind": kind}
        # relation: defined numbers read from the texts = numbers the object reports (error-free calls)
        judged = (kind == "run" and ret == 0 and not info["inverse"])
        chain_ok = chain_ok and ret == 0 and kind == "run"
        if judged and chain_ok:
            impl_defs = sorted(views.get("sel", {}).keys())
            if impl_defs != snaps[k][2]:
                r["rel"].append(("defs", f"defined user numbers {impl_defs}, input texts say {snaps[k][2]}"))
            for n, meta in views.get("sel", {}).items():
                hp = dict(x.split("=") for x in meta).get("hp")
                if hp is not None and n in snaps[k][1][0] and n not in info["ambiguous"] and int(hp) != int(snaps[k][1][0][n]):
                    r["rel"].append(("hp", f"sel {n}: engine high_precision {hp}, input texts say {int(snaps[k][1][0][n])}"))
            r["oracle"] += columns_oracle(events, views, skip=set(info["late_redef"]) | set(info["ambiguous"]))
            r["columns_judged"] = True
            isk = skeleton_of_events(events)
            r["sk_impl"], r["sk_model"] = isk, skout[k]
            if isk != skout[k]:
                r["rel"].append(("schedule", f"punch_open / heading-line schedule {' '.join(isk)} vs model {' '.join(skout[k])}"))
            # numbers with more than one heading line in this call according to the schedule model (code as written)
            r["dup_heading"] = sorted({int(x[1:]) for x in skout[k] if x[0] == "h" and skout[k].count(x) > 1})
            # format choice
            q, meta = fmt_queries(events, snaps[k][0], info, snaps[k][1])
            r["fmt_judged"] = len(q)
            if q:
                fo = ctx.pmodel("route", "\n".join(q) + "\n")
                for ans, mt in zip(fo, meta):
                    if ans.startswith("P fq bad"):
                        exp = unhx(ans.split()[3]).decode()
                        r["rel"].append(("format", f"sel {mt[0]} column {mt[1]!r} ({'USER_PUNCH' if mt[3] else 'built-in'}): "
                                                   f"printed with {mt[2]!r}, format selection model gives {exp!r}"))
                        break
        else:
            r["dup_heading"] = []
        # ---- dump relations (while every call so far completed without error)
        dump_ok = dump_ok and ret == 0 and tk <= len(TOK)
        ds = dict(x.split("=") for x in views.get("dumpstate", []))
        if dump_ok:
            dm = dmout[k]
            r["dump_judged"] = True
            if info["sims"] and ds.get("prdump") is not None and int(ds["prdump"] != "0") != int(info["sims"][-1]["pr_dump"]):
                r["rel"].append(("dump-state", f"engine pr.dump {ds['prdump']}, input texts say {int(info['sims'][-1]['pr_dump'])}"))
            if [ds.get("on"), ds.get("any"), ds.get("append")] != dm["state"]:
                r["rel"].append(("dump-state", f"dump_info on/any/append {[ds.get('on'), ds.get('any'), ds.get('append')]} vs model {dm['state']}"))
            fbytes = b"" if views["dumpfile"][2] == "!" else unhx(views["dumpfile"][2])
            if fbytes.count(b"USE mix none") != len(dm["file"]):
                r["rel"].append(("dump-file", f"dump file holds {fbytes.count(b'USE mix none')} dumps, model {len(dm['file'])} ({dm['file']!r})"))
            if k > 0 and dmout[k - 1]["file"] == dm["file"] and prev_views is not None and views["dumpfile"][2] != prev_views["dumpfile"][2]:
                r["rel"].append(("dump-file", "dump file changed in a call in which the model writes nothing to it"))
            if cfg["dump"][0]:
                sbytes = unhx(views["dumpstr"][1])
                if sbytes.count(b"USE mix none") != len(dm["str"]):
                    r["rel"].append(("dump-string", f"dump string holds {sbytes.count(b'USE mix none')} dumps, model {len(dm['str'])} ({dm['str']!r})"))
                dlines = [unhx(x) for x in views["dumplines"][1:1 + int(views["dumplines"][0])]]
                if dlines != lines_of(sbytes):
                    bad.append(("dump-lines", "dump line accessors differ from the lines of the dump string"))
                if cfg["dump"][1]:
                    # both sinks on: what did each receive in this call (model tokens), and are the contents identical?
                    pf = dmout[k - 1]["file"] if k else ""
                    ps = dmout[k - 1]["str"] if k else ""
                    r["dump_both_on"] = True
                    if dm["file"] == dm["str"] and fbytes != sbytes:
                        r["rel"].append(("dump-both", "both dump sinks hold the same dumps in the model, yet file and string differ"))
                    # what each sink RECEIVED in this call must be the same when both are on
                    if (dm["file"] != pf) != (dm["str"] != ps):
                        bad.append(("dump-file-ne-string", "dump: both sinks on, only one of them received a dump in this call"))
        res.append(r)
        prev_views = views
    out_cells = None
    if cells_cap is not None:
        # split harness / model cell output per user number
        hl = [l for l in out if l.startswith("K ") or l.startswith("C ") or l.startswith("R cells")]
        hgroups, g = [], []
        for l in hl:
            g.append(l)
            if l.startswith("R cells"):
                hgroups.append(g)
                g = []
        mgroups, g = [], []
        for l in cell_out:
            if l.startswith("P K ") and g:
                mgroups.append(g)
                g = []
            g.append(l)
        if g:
            mgroups.append(g)
        out_cells = []
        for n, hg, mg in zip(cell_specs, hgroups, mgroups):
            d = compare_cells(hg, mg, cells_cap)
            out_cells.append((n, d, len(hg) - 2))
        if len(hgroups) != len(cell_specs) or len(mgroups) != len(cell_specs):
            out_cells.append((None, "cells: group count mismatch", 0))
    return {"calls": res, "cells": out_cells, "script": script, "hoisted": hoisted, "shape_unknown": shape_unknown}


def handle_history_result(ctx, inputs, cfgs, k, r, hoisted, noload=False):
    """violation protocol for call k of a history"""
    rep = {"history": inputs[:k + 1], "cfgs": [cfg_json(c) for c in cfgs[:k + 1]], "call": k, "kind": "history", "noload": noload}
    cfg, inp = cfgs[k], inputs[k]
    mixed = explained_by_switch_rule(cfg)
    if r["diffs"]:
        if r["oracle"] and not (mixed and all(key.startswith("sel-") for key, _ in r["oracle"])):
            ctx.violation("history: views disagree with the history model and the property's own relations fail: "
                          + "; ".join(t for _, t in r["oracle"][:3]), dict(rep, diffs=r["diffs"][:5], oracle=r["oracle"][:5]))
        else:
            ctx.violation("history: views disagree with the history model (Model/Route Inst.call): " + str(r["diffs"][0][0]),
                          dict(rep, diffs=r["diffs"][:5], correspondence="ph_trace views vs pmodel route endcall"))
        return
    for key, text in r["rel"]:
        if key == "format":
            ctx.violation("print format differs from the format-selection model (Model/Route fmtOf): " + text, dict(rep, relation=text))
        else:
            ctx.violation(f"history relation `{key}` broken: " + text,
                          dict(rep, relation=text, correspondence="independent reading of the input texts vs engine / Model/Route simPrologue"))
        return
    no_nl = users_without_newline("\n".join(inputs[:k + 1]))
    for key, text in r["oracle"]:
        m = _re.match(r"sel (\d+):", text)
        n_user = int(m.group(1)) if m else None
        if key in ("sel-string-rows", "sel-file-rows") and n_user in no_nl:
            continue
        if key in ("sel-string-rows", "sel-file-rows", "sel-file-ne-string") and n_user in r["redefined"]:
            # narrow rule: a SELECTED_OUTPUT n block that the INPUT TEXT of this call re-reads in a later simulation
            ctx.finding("selected-output-redefined-within-call", text, dict(rep, oracle=r["oracle"][:5]))
        elif key.startswith("sel-") and mixed:
            ctx.finding("get_sel_out_string_on-ignores-n", text, dict(rep, oracle=r["oracle"][:5]))
        else:
            ctx.violation("history: model and code agree but the property's relation fails: " + text, dict(rep, oracle=r["oracle"][:5]))
            return


def run_histories(ctx, exe, n, with_cells=True):
    """generate and judge n histories; returns counters"""
    hist = {"histories": 0, "calls": 0, "kinds": {}, "calls_with_rows": 0, "calls_with_errors": 0, "calls_reopen_without_block": 0,
            "late_redefinitions": 0, "format_cells_judged": 0, "schedule_judged": 0, "binding_cells": 0, "dup_heading_calls": 0,
            "files_kept_while_off": 0}
    distinct = set()
    import json as _json
    corpus = sorted((vlib.ROOT / "corpus" / ctx.prop).glob("*.hist.json")) if (vlib.ROOT / "corpus" / ctx.prop).exists() else []
    hist["corpus_histories"] = len(corpus)
    for i in range(-len(corpus), n):
        if i < 0:
            cd = _json.loads(corpus[i + len(corpus)].read_text())
            c_inputs, c_cfgs = cd["history"], [cfg_from_json(c) for c in cd["cfgs"]]
            res = run_history(ctx, exe, c_inputs, c_cfgs, cells_cap=cd.get("cap"), noload=cd.get("noload", False))
            if "crash" in res:
                ctx.violation("corpus history crashed", dict(cd, kind="history"))
                break
            for k, r in enumerate(res["calls"]):
                hist["calls"] += 1
                handle_history_result(ctx, c_inputs, c_cfgs, k, r, res["hoisted"], cd.get("noload", False))
            if ctx.violations:
                break
            continue
        inputs, kinds = gi.history(ctx.rng)
        forced = None
        if i == 0:
            # forced: a block re-read in a later simulation of the second call, all its sinks on (known finding
            # selected-output-redefined-within-call must be reproduced by every run)
            inputs = [gi.solution(ctx.rng, 1) + "SELECTED_OUTPUT 2\n -reset false\n -pH true\nEND\n",
                      gi.solution(ctx.rng, 2) + "END\nSELECTED_OUTPUT 2\n -reset false\n -pe true\nUSE solution 1\nREACTION 1\n NaCl 1\n 0.1\nEND\n"]
            kinds = ["define", "late-block"]
            forced = "on"
        elif i == 1:
            # forced: two blocks, string switch on for one of them only (known finding get_sel_out_string_on-ignores-n)
            inputs = [gi.solution(ctx.rng, 1) + "SELECTED_OUTPUT 1\n -reset false\n -pH true\nSELECTED_OUTPUT 2\n -reset false\n -pe true\nEND\n",
                      gi.solution(ctx.rng, 2) + "END\n"]
            kinds = ["define", "plain"]
            forced = "mixed"
        elif i == 2:
            # forced: USER_PUNCH with more headings than punched values coming into effect in a later simulation, when
            # the table of its number already holds data rows of this call (heading columns must still be padded)
            u = ctx.rng.choice([1, 2, 5])
            inputs = [gi.solution(ctx.rng, 1) + f"SELECTED_OUTPUT {u}\n -reset false\n -pH true\nEND\n",
                      gi.solution(ctx.rng, 2) + "END\n" + (f"SELECTED_OUTPUT {u}\n -reset false\n -pe true\n" if ctx.rng.random() < 0.5 else "")
                      + f"USER_PUNCH {u}\n -headings late_a late_b late_c\n 10 IF (STEP_NO > 0) THEN PUNCH 1\n"
                      + "USE solution 1\nREACTION 1\n NaCl 1\n 0.1 moles in 2 steps\nEND\n"]
            kinds = ["define", "late-block"]
        elif i == 3:
            # forced: an instance that never had a database, a successful load, a failed load, every out/err/log sink on
            inputs = [gi.solution(ctx.rng, 1) + "END\n", "@LOAD_OK", gi.solution(ctx.rng, 1) + "END\n", "@LOAD_MISSING",
                      gi.solution(ctx.rng, 2) + "END\n", "@LOADSTR_BAD", gi.solution(ctx.rng, 3) + "END\n"]
            kinds = ["nodb", "load", "plain", "load", "nodb", "load", "nodb"]
            forced = "allon"
        elif i == 4:
            # forced: DUMP -append before a reload of the database, a plain DUMP after it, both dump sinks on (the append flag
            # of the earlier session must not survive LoadDatabase: file = string)
            inputs = [gi.solution(ctx.rng, 1) + "DUMP\n -solution 1\n -append true\nEND\n",
                      gi.solution(ctx.rng, 2) + "DUMP\n -solution 2\n -append true\nEND\n",
                      ctx.rng.choice(["@LOAD_OK", "@LOAD_MISSING"]), "@LOAD_OK",
                      gi.solution(ctx.rng, 1) + "DUMP\n -solution 1\nEND\n", gi.solution(ctx.rng, 2) + "END\n"]
            kinds = ["dump", "dump", "load", "load", "dump", "plain"]
            forced = "dumpon"
        if i % 7 == 3 and i != 3:
            # forced: definitions of several blocks in call 1, no block in call 2 (the re-open path of do_run)
            inputs[1:2] = [gi.solution(ctx.rng, 50) + "END\n"]
            kinds[1:2] = ["plain"]
        noload = (forced == "allon")
        if forced is None and ctx.rng.random() < 0.22:
            # database events: the instance starts without a database and/or loads fail in the middle of the history
            seg2, k2 = gi.history(ctx.rng, ncalls=ctx.rng.randint(1, 3))
            if ctx.rng.random() < 0.5:
                noload = True
                inputs, kinds = inputs[:ctx.rng.randint(1, 2)], ["nodb"] * 2
                inputs += ["@LOAD_OK"]
            else:
                inputs += [ctx.rng.choice(["@LOAD_MISSING", "@LOADSTR_BAD"])] + [gi.solution(ctx.rng, 60) + "END\n"] * ctx.rng.randint(0, 2)
                if ctx.rng.random() < 0.7:
                    inputs += ["@LOAD_OK"]
                if ctx.rng.random() < 0.5:
                    # a DUMP -append in the session before the (re)load, a plain DUMP in the session after it
                    inputs.insert(len(inputs) - (2 if inputs[-1] == "@LOAD_OK" else 1) - sum(1 for x in inputs if x.startswith("SOLUTION 60")),
                                  gi.solution(ctx.rng, 70) + "DUMP\n -solution 70\n -append true\nEND\n")
                    seg2 = [gi.solution(ctx.rng, 71) + "DUMP\n -solution 71\nEND\n"] + seg2
            if inputs[-1] == "@LOAD_OK":
                inputs += seg2
            kinds = [("load" if x in SPECIAL else "seg") for x in inputs]
        nums = sorted({b[1] for t in inputs for s in parse_input(t) for b in s if b[0] == "SELECTED_OUTPUT"})
        cfgs, prev = [], None
        for _ in inputs:
            prev = next_cfg(ctx.rng, prev, nums)
            if forced == "on":
                prev["strsw"] = {1: True, 2: True}
                prev["filesw"] = {1: True, 2: True}
                prev["cur"] = 2
            elif forced == "mixed":
                prev["strsw"] = {1: True, 2: False}
                prev["cur"] = 1
            elif forced == "allon":
                prev["out"] = prev["log"] = prev["err"] = (True, True)
            elif forced == "dumpon":
                prev["dump"] = (True, True)
            cfgs.append(prev)
        names = {}
        if ctx.rng.random() < 0.3:
            names[("out",)] = "my output.txt"
            for u in nums[:2]:
                names[("sel", u)] = f"sel_{u}.custom"
        cap = ctx.rng.choice([1, 5, 12, 13, 24, 48, 100, 160]) if with_cells and ctx.rng.random() < 0.6 else None
        res = run_history(ctx, exe, inputs, cfgs, cells_cap=cap, names=names, noload=noload)
        hist["histories"] += 1
        if "crash" in res:
            ctx.violation("harness run crashed / gave no result", {"history": inputs, "cfgs": [cfg_json(c) for c in cfgs], "result": res, "kind": "history", "noload": noload})
            break
        hist["shape_unknown"] = hist.get("shape_unknown", False) or res.get("shape_unknown", False)
        for k, r in enumerate(res["calls"]):
            hist["calls"] += 1
            kk = kinds[k] if k < len(kinds) else "seg"
            hist["kinds"][kk] = hist["kinds"].get(kk, 0) + 1
            hist["steps"] = hist.get("steps", {})
            hist["steps"][r.get("kind", "run")] = hist["steps"].get(r.get("kind", "run"), 0) + 1
            hist["calls_with_rows"] += 1 if r["rows"] else 0
            hist["calls_with_errors"] += 1 if r["ret"] else 0
            hist["late_redefinitions"] += 1 if r["redefined"] else 0
            hist["format_cells_judged"] += r.get("fmt_judged", 0)
            hist["schedule_judged"] += 1 if "sk_model" in r else 0
            hist["dup_heading_calls"] += 1 if r.get("dup_heading") else 0
            hist["columns_judged"] = hist.get("columns_judged", 0) + (1 if r.get("columns_judged") else 0)
            hist["files_kept_while_off"] += r.get("kept_off", 0)
            hist["dump_calls_judged"] = hist.get("dump_calls_judged", 0) + (1 if r.get("dump_judged") else 0)
            hist["dump_both_on_calls"] = hist.get("dump_both_on_calls", 0) + (1 if r.get("dump_both_on") else 0)
            if "sk_impl" in r and any(x[0] == "o" for x in r["sk_impl"]) and not any(b for s in r["info"]["sims"] for b in s["blocks"]):
                hist["calls_reopen_without_block"] += 1
            distinct.add(hash((inputs[k], str(cfgs[k]), k)))
            handle_history_result(ctx, inputs, cfgs, k, r, res["hoisted"], noload)
            if ctx.violations:
                break
        if ctx.violations:
            break
        for n_user, d, cnt in (res["cells"] or []):
            hist["binding_cells"] += cnt
            if d:
                ctx.violation("bindings: C / C++ / Value2 / Fortran accessors vs Model/SelOut: " + d,
                              {"history": inputs, "cfgs": [cfg_json(c) for c in cfgs], "user": n_user, "cap": cap, "kind": "history", "noload": noload})
                break
        if ctx.violations:
            break
        if i < 1:
            ctx.sample({"history_kinds": kinds, "call_2_input": inputs[1][:300] if len(inputs) > 1 else "", "schedule_call_2": res["calls"][1].get("sk_impl") if len(res["calls"]) > 1 else None})
    ctx.cov["history_histogram"] = hist
    if hist.get("shape_unknown") and not ctx.violations:
        ctx.violation("the file-open loop of IPhreeqc::do_run no longer has a shape the schedule model recognises (tidy_punch inside "
                      "and behind the loop, or nowhere) and no failing history was found", {"translator": "tracelib.loop_is_hoisted"},
                      found_input=False)
    return {"evaluations": hist["calls"], "distinct": len(distinct)}


def run_nodb_matrix(ctx, exe, ncomb):
    """every combination of the six output/log/error string and file switches (all 64, or a sample) on an instance that has
    no database: never loaded, after a failed LoadDatabase of a missing file, after a failed LoadDatabaseString, and once more
    after a successful call (files of the earlier call on disk)"""
    import itertools
    combos = list(itertools.product([False, True], repeat=6))
    if ncomb < len(combos):
        combos = ctx.rng.sample(combos, ncomb)
    n = 0
    inp = gi.solution(ctx.rng, 1) + "END\n"
    for c in combos:
        cfg = {"out": (c[0], c[1]), "log": (c[2], c[3]), "err": (c[4], c[5]), "dump": (False, False), "strsw": {1: False},
               "filesw": {1: False}, "cur": 1, "users": []}
        allon = dict(cfg, out=(True, True), log=(True, True), err=(True, True))
        variant = ctx.rng.choice([0, 1, 2])
        if variant == 0:
            inputs, cfgs, noload = [inp, "@LOAD_OK", inp, "@LOAD_MISSING", inp], [cfg, cfg, allon, cfg, cfg], True
        elif variant == 1:
            inputs, cfgs, noload = [inp, "@LOADSTR_BAD", inp, inp], [allon, cfg, cfg, allon], False
        else:
            inputs, cfgs, noload = ["@LOAD_MISSING", inp, "@LOADSTR_BAD", inp], [cfg, cfg, allon, cfg], True
        res = run_history(ctx, exe, inputs, cfgs, noload=noload)
        if "crash" in res:
            ctx.violation("harness run crashed / gave no result", {"history": inputs, "cfgs": [cfg_json(x) for x in cfgs], "result": res, "kind": "history", "noload": noload})
            break
        for k, r in enumerate(res["calls"]):
            n += 1
            handle_history_result(ctx, inputs, cfgs, k, r, res["hoisted"], noload)
        if ctx.violations:
            break
    ctx.cov["nodb_matrix"] = {"switch_combinations": len(combos), "steps": n}
    return n


def replay_history(ctx, data):
    exe = build_trace_harness(ctx)
    inputs = data["history"]
    cfgs = [cfg_from_json(c) for c in data["cfgs"]]
    res = run_history(ctx, exe, inputs, cfgs, cells_cap=data.get("cap"), noload=data.get("noload", False))
    if "crash" in res:
        ctx.violation("crash on replay", data)
        return
    for k, r in enumerate(res["calls"]):
        print("replay call", k, {x: r[x] for x in ("diffs", "oracle", "rel", "ret", "rows")})
        handle_history_result(ctx, inputs, cfgs, k, r, res["hoisted"], data.get("noload", False))
    for n_user, d, cnt in (res["cells"] or []):
        if d:
            ctx.violation("bindings: " + d, data)
